"""Case constructors shared by the property modules: the same case as (a) a call into the real
library and (b) a JSON line for the model driver."""
import cbor2

import webauthn
from webauthn.helpers import (parse_authenticator_data, parse_client_data_json, decode_credential_public_key,
                              decoded_public_key_to_cryptography, parse_backup_flags, aaguid_to_string,
                              parse_cbor, encode_cbor)
from webauthn.helpers.structs import (AuthenticationCredential, AuthenticatorAssertionResponse,
                                      RegistrationCredential, AuthenticatorAttestationResponse, AttestationFormat)

from .corr import canon, code_outcome
from .driver import to_jval
from .oracle import key_view
from .sim import core


# ------------------------------------------------------------------ authentication

def _attachment(d):
    from webauthn.helpers.structs import AuthenticatorAttachment
    v = d.get("attachment")
    return None if v is None else AuthenticatorAttachment(v)


def auth_record(a):
    return AuthenticationCredential(
        id=a["id"], raw_id=a["raw_id"], type=a.get("type", "public-key"), authenticator_attachment=_attachment(a),
        response=AuthenticatorAssertionResponse(client_data_json=a["client_data_json"],
                                                authenticator_data=a["authenticator_data"],
                                                signature=a["signature"], user_handle=a.get("user_handle")))


def run_auth(a, e, form="record", cred_obj=None):
    """e: challenge, rp_id, origin (str|list), public_key, stored_count, require_uv.
    `cred_obj`: pass this very object as the credential (to present one object to several calls, as an RP would)"""
    if cred_obj is not None:
        cred = cred_obj
    elif form == "record":
        cred = auth_record(a)
    elif form == "dict":
        cred = core.to_auth_json(a)
    else:
        import json
        cred = json.dumps(core.to_auth_json(a))

    def call():
        return webauthn.verify_authentication_response(
            credential=cred, expected_challenge=e["challenge"], expected_rp_id=e["rp_id"],
            expected_origin=e["origin"], credential_public_key=e["public_key"],
            credential_current_sign_count=e["stored_count"], require_user_verification=e["require_uv"])
    return code_outcome(call, record=lambda r: {
        "credential_id": r.credential_id.hex(), "new_sign_count": str(r.new_sign_count),
        "credential_device_type": r.credential_device_type.value, "credential_backed_up": r.credential_backed_up,
        "user_verified": r.user_verified})


def auth_case(a, e):
    return {"op": "verify_auth",
            "cred": {"id": a["id"], "raw_id": a["raw_id"].hex(), "type": a.get("type", "public-key"),
                     "cdj": a["client_data_json"].hex(), "auth_data": a["authenticator_data"].hex(),
                     "sig": a["signature"].hex(),
                     "user_handle": a["user_handle"].hex() if a.get("user_handle") is not None else None},
            "expect": {"challenge": e["challenge"].hex(), "rp_id": e["rp_id"], "origin": e["origin"],
                       "public_key": e["public_key"].hex(), "stored_count": str(e["stored_count"]),
                       "require_uv": bool(e["require_uv"])}}


# ------------------------------------------------------------------ parsers

def code_parse_auth_data(b):
    def rec(ad):
        return {"rp_id_hash": ad.rp_id_hash.hex(),
                "flags": {"up": ad.flags.up, "uv": ad.flags.uv, "be": ad.flags.be, "bs": ad.flags.bs,
                          "at": ad.flags.at, "ed": ad.flags.ed},
                "sign_count": str(ad.sign_count),
                "attested": None if ad.attested_credential_data is None else {
                    "aaguid": ad.attested_credential_data.aaguid.hex(),
                    "credential_id": ad.attested_credential_data.credential_id.hex(),
                    "public_key": ad.attested_credential_data.credential_public_key.hex()},
                "extensions": None if ad.extensions is None else ad.extensions.hex()}
    return code_outcome(lambda: parse_authenticator_data(b), rec)


def code_cbor_roundtrip(b):
    return code_outcome(lambda: encode_cbor(parse_cbor(b)), lambda r: r.hex())


def code_parse_client_data(b):
    def rec(cd):
        tb = cd.token_binding
        return {"type": to_jval(cd.type), "challenge": cd.challenge.hex(), "origin": to_jval(cd.origin),
                "cross_origin": cd.cross_origin,
                "token_binding": None if tb is None else {"status": to_jval(tb.status), "id": tb.id}}
    return code_outcome(lambda: parse_client_data_json(b), rec)


def code_decode_cose(b):
    def rec(k):
        name = type(k).__name__
        if name == "DecodedOKPPublicKey":
            return {"kind": "okp", "kty": cbor2.dumps(_plain(k.kty)).hex(), "alg": cbor2.dumps(_plain(k.alg)).hex(),
                    "crv": cbor2.dumps(_plain(k.crv)).hex(), "x": cbor2.dumps(k.x).hex()}
        if name == "DecodedEC2PublicKey":
            return {"kind": "ec2", "kty": cbor2.dumps(_plain(k.kty)).hex(), "alg": cbor2.dumps(_plain(k.alg)).hex(),
                    "crv": cbor2.dumps(_plain(k.crv)).hex(), "x": cbor2.dumps(k.x).hex(), "y": cbor2.dumps(k.y).hex()}
        return {"kind": "rsa", "kty": cbor2.dumps(_plain(k.kty)).hex(), "alg": cbor2.dumps(_plain(k.alg)).hex(),
                "n": cbor2.dumps(k.n).hex(), "e": cbor2.dumps(k.e).hex()}
    return code_outcome(lambda: decode_credential_public_key(b), rec)


def _plain(v):
    import enum
    return v.value if isinstance(v, enum.Enum) else v


def code_cose_to_pubkey(b):
    return code_outcome(lambda: decoded_public_key_to_cryptography(decode_credential_public_key(b)), key_view)


# ------------------------------------------------------------------ registration

def reg_record(c):
    return RegistrationCredential(
        id=c["id"], raw_id=c["raw_id"], type=c.get("type", "public-key"), authenticator_attachment=_attachment(c),
        response=AuthenticatorAttestationResponse(client_data_json=c["client_data_json"],
                                                  attestation_object=c["attestation_object"],
                                                  transports=c.get("transports")))


ALL_ALGS = [-7, -8, -36, -37, -38, -39, -257, -258, -259, -65535]


def run_reg(c, e, form="record", cred_obj=None):
    """e: challenge, rp_id, origin, require_up, require_uv, algs (list|None), roots {fmt: [pem]}"""
    import json
    if cred_obj is not None:
        cred = cred_obj
    elif form == "record":
        cred = reg_record(c)
    elif form == "dict":
        cred = core.to_reg_json(c)
    else:
        cred = json.dumps(core.to_reg_json(c))
    kw = {}
    if e.get("algs") is not None:
        from webauthn.helpers.cose import COSEAlgorithmIdentifier as _A
        kw["supported_pub_key_algs"] = [(_A(a) if a in _A._value2member_map_ else a) for a in e["algs"]]
    roots = e.get("roots") or {}
    # the shape in which the RP holds each format's anchors: any iterable of PEM bytes is "a list of roots"
    shape = e.get("roots_shape", "list")
    wrap = {"list": list, "tuple": tuple, "generator": (lambda v: (p for p in list(v))), "iter": (lambda v: iter(list(v))),
            "map": (lambda v: map(bytes, list(v)))}[shape]

    def call():
        return webauthn.verify_registration_response(
            credential=cred, expected_challenge=e["challenge"], expected_rp_id=e["rp_id"],
            expected_origin=e["origin"], require_user_presence=e.get("require_up", True),
            require_user_verification=e.get("require_uv", False),
            pem_root_certs_bytes_by_fmt={AttestationFormat(k): wrap(v) for k, v in roots.items()} if roots else None, **kw)
    return code_outcome(call, record=lambda r: {
        "credential_id": r.credential_id.hex(), "credential_public_key": r.credential_public_key.hex(),
        "sign_count": str(r.sign_count), "aaguid": r.aaguid, "fmt": r.fmt.value if hasattr(r.fmt, "value") else r.fmt,
        "credential_type": r.credential_type.value if hasattr(r.credential_type, "value") else r.credential_type,
        "user_verified": r.user_verified, "attestation_object": r.attestation_object.hex(),
        "credential_device_type": r.credential_device_type.value, "credential_backed_up": r.credential_backed_up})


def default_algs():
    from webauthn.registration.generate_registration_options import default_supported_pub_key_algs
    return [int(a) for a in default_supported_pub_key_algs]


def reg_case(c, e):
    algs = e.get("algs")
    if algs is None:
        algs = default_algs()
    roots = e.get("roots") or {}
    return {"op": "verify_reg",
            "cred": {"id": c["id"], "raw_id": c["raw_id"].hex(), "type": c.get("type", "public-key"),
                     "cdj": c["client_data_json"].hex(), "att_obj": c["attestation_object"].hex()},
            "expect": {"challenge": e["challenge"].hex(), "rp_id": e["rp_id"], "origin": e["origin"],
                       "require_up": e.get("require_up", True), "require_uv": e.get("require_uv", False),
                       "algs": [str(a) for a in algs],
                       "roots": [[k, [bytes(p).hex() for p in v]] for k, v in roots.items()]}}


def code_parse_cert_info(b):
    from webauthn.helpers.tpm import parse_cert_info

    def rec(c):
        return {"magic": c.magic.hex(), "type": c.type.value, "qualified_signer": c.qualified_signer.hex(),
                "extra_data": c.extra_data.hex(), "clock": c.clock_info.clock.hex(),
                "reset_count": str(c.clock_info.reset_count), "restart_count": str(c.clock_info.restart_count),
                "safe": c.clock_info.safe, "firmware_version": c.firmware_version.hex(),
                "name_alg": c.attested.name_alg.value, "name_alg_bytes": c.attested.name_alg_bytes.hex(),
                "name": c.attested.name.hex(), "qualified_name": c.attested.qualified_name.hex()}
    return code_outcome(lambda: parse_cert_info(b), rec)


def code_parse_pub_area(b):
    from webauthn.helpers.tpm import parse_pub_area
    import webauthn.helpers.tpm.structs as ts

    def rec(p):
        oa = p.object_attributes
        names = [n for n in ts.TPMPubAreaObjectAttributes.__annotations__]
        if isinstance(p.parameters, ts.TPMPubAreaParametersRSA):
            params = {"kind": "rsa", "symmetric": p.parameters.symmetric.value, "scheme": p.parameters.scheme.value,
                      "key_bits": p.parameters.key_bits.hex(), "exponent": p.parameters.exponent.hex()}
        else:
            params = {"kind": "ecc", "symmetric": p.parameters.symmetric.value, "scheme": p.parameters.scheme.value,
                      "curve_id": p.parameters.curve_id.value, "kdf": p.parameters.kdf.value}
        return {"type": p.type.value, "name_alg": p.name_alg.value,
                "object_attributes": [getattr(oa, n) for n in names], "auth_policy": p.auth_policy.hex(),
                "parameters": params, "unique": p.unique.value.hex()}
    return code_outcome(lambda: parse_pub_area(b), rec)
