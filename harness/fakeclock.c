/* LD_PRELOAD shim: offsets time(), clock_gettime(CLOCK_REALTIME*), gettimeofday() by a number of
   nanoseconds that the harness sets at run time through fakeclock_set_offset_ns (ctypes). */
#define _GNU_SOURCE
#include <dlfcn.h>
#include <time.h>
#include <sys/time.h>
#include <stdint.h>

static volatile int64_t offset_ns = 0;
void fakeclock_set_offset_ns(int64_t ns) { offset_ns = ns; }
int64_t fakeclock_get_offset_ns(void) { return offset_ns; }

static int (*real_clock_gettime)(clockid_t, struct timespec *) = 0;
static int (*real_gettimeofday)(struct timeval *, void *) = 0;

static void apply(struct timespec *ts) {
  int64_t t = (int64_t)ts->tv_sec * 1000000000LL + ts->tv_nsec + offset_ns;
  ts->tv_sec = t / 1000000000LL;
  ts->tv_nsec = t % 1000000000LL;
  if (ts->tv_nsec < 0) { ts->tv_nsec += 1000000000LL; ts->tv_sec -= 1; }
}

int clock_gettime(clockid_t clk, struct timespec *ts) {
  if (!real_clock_gettime) real_clock_gettime = dlsym(RTLD_NEXT, "clock_gettime");
  int r = real_clock_gettime(clk, ts);
  if (r == 0 && (clk == CLOCK_REALTIME || clk == CLOCK_REALTIME_COARSE)) apply(ts);
  return r;
}

int gettimeofday(struct timeval *tv, void *tz) {
  if (!real_gettimeofday) real_gettimeofday = dlsym(RTLD_NEXT, "gettimeofday");
  int r = real_gettimeofday(tv, tz);
  if (r == 0 && tv) {
    struct timespec ts = { tv->tv_sec, tv->tv_usec * 1000L };
    apply(&ts);
    tv->tv_sec = ts.tv_sec; tv->tv_usec = ts.tv_nsec / 1000L;
  }
  return r;
}

time_t time(time_t *out) {
  struct timespec ts;
  clock_gettime(CLOCK_REALTIME, &ts);
  if (out) *out = ts.tv_sec;
  return ts.tv_sec;
}
