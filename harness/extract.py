"""Translator: /repo  ->  lean/Generated/Tables.lean   (run on every check, DESIGN.md §3.1)

T1  graphs of finite-domain functions and literal tables, obtained by importing `webauthn` from
    /repo and calling / reading the real objects (signature dispatch via spy keys, enum members,
    exception classes with their MROs, TPM maps, default algorithm lists, built-in roots, ...).
T2  a small expression translator (Python AST -> Lean term) for pure integer / boolean guards.

A section that cannot be extracted is *downgraded*: the generated definition falls back to the
hand-written one in lean/Generated/Fallback.lean, the downgrade is recorded in the evidence, and the
guard is then tied to the code by the correspondence check alone.
"""
import ast, hashlib, importlib, inspect, json, os, re, sys, textwrap

from . import common

OUT = os.path.join(common.LEAN, "Generated", "Tables.lean")


# ------------------------------------------------------------------------------------------------
# Lean literal helpers
# ------------------------------------------------------------------------------------------------

def lstr(s):
    out = ['"']
    for ch in s:
        o = ord(ch)
        if ch == '"':
            out.append('\\"')
        elif ch == "\\":
            out.append("\\\\")
        elif ch == "\n":
            out.append("\\n")
        elif o < 32 or o == 127:
            out.append("\\x%02x" % o)
        else:
            out.append(ch)
    out.append('"')
    return "".join(out)


def lint(i):
    return f"({i})" if i < 0 else str(i)


def lbool(b):
    return "true" if b else "false"


def llist(items, per_line=1, indent="  "):
    if not items:
        return "[]"
    if per_line == 0:
        return "[" + ", ".join(items) + "]"
    rows = []
    for i in range(0, len(items), per_line):
        rows.append(indent + ", ".join(items[i:i + per_line]))
    return "[\n" + ",\n".join(rows) + "]"


def lbytes(b):
    return "[" + ", ".join(str(x) for x in b) + "]"


# ------------------------------------------------------------------------------------------------
# T2: expression translator
# ------------------------------------------------------------------------------------------------

class Untranslatable(Exception):
    pass


class T2:
    """Translate a Python expression to a Lean term.  `leaves` maps an unparsed sub-expression
    (or a predicate on it) to (lean_name, type) with type in {'int','nat','bool'}.  `env` holds
    local single-assignment definitions to inline."""

    def __init__(self, leaves, env=None):
        self.leaves = leaves
        self.env = env or {}

    def leaf(self, node):
        if not isinstance(node, (ast.Name, ast.Attribute, ast.Call, ast.Subscript)):
            return None
        src = ast.unparse(node)
        for key, val in self.leaves:
            if (callable(key) and key(src)) or key == src:
                return val
        return None

    def tr(self, node):
        lf = self.leaf(node)
        if lf is not None:
            return lf
        if isinstance(node, ast.Name) and node.id in self.env:
            return self.tr(self.env[node.id])
        if isinstance(node, ast.Constant):
            if node.value is True or node.value is False:
                return (lbool(node.value), "bool")
            if isinstance(node.value, int):
                return (lint(node.value), "lit")
            raise Untranslatable(f"constant {node.value!r}")
        if isinstance(node, ast.BoolOp):
            op = " && " if isinstance(node.op, ast.And) else " || "
            return ("(" + op.join(self.as_bool(v) for v in node.values) + ")", "bool")
        if isinstance(node, ast.UnaryOp):
            if isinstance(node.op, ast.Not):
                return ("(!" + self.as_bool(node.operand) + ")", "bool")
            if isinstance(node.op, ast.USub):
                e, t = self.tr(node.operand)
                if t == "lit":
                    return (f"(-{e})", "lit")
                return (f"(-{self.coerce((e, t), 'int')})", "int")
            raise Untranslatable("unary " + type(node.op).__name__)
        if isinstance(node, ast.BinOp):
            a, b = self.tr(node.left), self.tr(node.right)
            ty = self.join(a[1], b[1])
            ops = {ast.Add: "+", ast.Sub: "-", ast.Mult: "*"}
            bitops = {ast.BitAnd: "&&&", ast.BitOr: "|||", ast.LShift: "<<<", ast.RShift: ">>>"}
            if type(node.op) in ops:
                if isinstance(node.op, ast.Sub) and ty == "nat":
                    ty = "int"  # natural subtraction would truncate; lift
                return (f"({self.coerce(a, ty)} {ops[type(node.op)]} {self.coerce(b, ty)})", ty)
            if type(node.op) in bitops:
                if ty == "int":
                    raise Untranslatable("bit operation on a possibly negative integer")
                return (f"({self.coerce(a, 'nat')} {bitops[type(node.op)]} {self.coerce(b, 'nat')})", "nat")
            raise Untranslatable("binop " + type(node.op).__name__)
        if isinstance(node, ast.Compare):
            parts = []
            left = self.tr(node.left)
            for op, right in zip(node.ops, node.comparators):
                r = self.tr(right)
                cmpops = {ast.Gt: ">", ast.Lt: "<", ast.GtE: "≥", ast.LtE: "≤", ast.Eq: "=", ast.NotEq: "≠"}
                if isinstance(op, (ast.Is, ast.IsNot)) and r[1] == "bool" and left[1] == "bool":
                    sym = "=" if isinstance(op, ast.Is) else "≠"
                elif type(op) in cmpops:
                    sym = cmpops[type(op)]
                else:
                    raise Untranslatable("compare " + type(op).__name__)
                ty = self.join(left[1], r[1])
                parts.append(f"decide ({self.coerce(left, ty)} {sym} {self.coerce(r, ty)})")
                left = r
            return ("(" + " && ".join(parts) + ")", "bool")
        raise Untranslatable(ast.unparse(node))

    @staticmethod
    def join(a, b):
        if "bool" in (a, b):
            if a == b:
                return "bool"
            raise Untranslatable("mixed bool/int")
        if "int" in (a, b):
            return "int"
        if "nat" in (a, b):
            return "nat"
        return "nat"  # two literals

    @staticmethod
    def coerce(et, ty):
        e, t = et
        if t == ty or ty == "bool":
            return e
        if t == "lit":
            return f"({e} : Int)" if ty == "int" else f"({e} : Nat)"
        if t == "nat" and ty == "int":
            return f"(({e} : Nat) : Int)"
        raise Untranslatable(f"cannot use {t} as {ty}")

    def as_bool(self, node):
        e, t = self.tr(node)
        if t == "bool":
            return e
        if t in ("int", "nat"):
            return f"decide ({e} ≠ 0)"  # Python truthiness of an int
        if t == "lit":
            return lbool(int(e.strip("()")) != 0)
        raise Untranslatable("truthiness of " + t)


def find_function(tree, name):
    for n in ast.walk(tree):
        if isinstance(n, (ast.FunctionDef, ast.AsyncFunctionDef)) and n.name == name:
            return n
    raise Untranslatable(f"function {name} not found")


def raising_ifs(fn):
    """(condition, exception-class-name) for every `raise Exc(...)` guarded by `if`s in fn, in order.
    The condition is the conjunction of the tests of ALL enclosing `if`s (negated for `else`
    branches), so that moving a check under another condition changes the translated guard."""
    out = []

    def conj(parts):
        return parts[0] if len(parts) == 1 else ast.BoolOp(op=ast.And(), values=list(parts))

    def visit(stmts, path):
        for st in stmts:
            if isinstance(st, ast.If):
                visit(st.body, path + [st.test])
                visit(st.orelse, path + [ast.UnaryOp(op=ast.Not(), operand=st.test)])
            elif isinstance(st, ast.Raise) and st.exc is not None and path:
                exc = st.exc.func if isinstance(st.exc, ast.Call) else st.exc
                out.append((conj(path), ast.unparse(exc)))
            elif isinstance(st, (ast.For, ast.While, ast.With)):
                visit(st.body, path)
            elif isinstance(st, ast.Try):
                visit(st.body, path)
    visit(fn.body, [])
    return out


def simple_assigns(fn):
    env = {}
    counts = {}
    for n in ast.walk(fn):
        if isinstance(n, ast.Assign) and len(n.targets) == 1 and isinstance(n.targets[0], ast.Name):
            counts[n.targets[0].id] = counts.get(n.targets[0].id, 0) + 1
            env[n.targets[0].id] = n.value
        elif isinstance(n, ast.AugAssign) and isinstance(n.target, ast.Name):
            counts[n.target.id] = counts.get(n.target.id, 0) + 2
    return {k: v for k, v in env.items() if counts.get(k) == 1}


def mentions(node, pred):
    return any(pred(ast.unparse(n)) for n in ast.walk(node) if isinstance(n, (ast.Name, ast.Attribute, ast.Call)))


# ------------------------------------------------------------------------------------------------
# sections
# ------------------------------------------------------------------------------------------------

class Sections:
    def __init__(self):
        self.parts = []
        self.downgrades = []

    def add(self, name, fn, fallback):
        try:
            self.parts.append(f"-- [{name}] extracted\n" + fn())
        except Exception as e:  # downgrade
            self.downgrades.append(f"regenerated tie unavailable for {name}: {type(e).__name__}: {e}")
            self.parts.append(f"-- [{name}] DOWNGRADED: {type(e).__name__}: {str(e)[:200]}\n" + fallback)


def src_tree(relpath):
    with open(os.path.join(common.REPO, relpath)) as f:
        return ast.parse(f.read())


def import_repo():
    if common.REPO not in sys.path:
        sys.path.insert(0, common.REPO)
    import webauthn  # noqa
    if not os.path.abspath(webauthn.__file__).startswith(os.path.abspath(common.REPO)):
        raise RuntimeError(f"webauthn imported from {webauthn.__file__}, expected {common.REPO}")
    return webauthn


def sec_exceptions():
    import webauthn.helpers.exceptions as ex
    rows = []
    for name, obj in sorted(vars(ex).items()):
        if inspect.isclass(obj) and issubclass(obj, BaseException) and obj.__module__ == ex.__name__:
            mro = [c.__name__ for c in obj.__mro__]
            rows.append(f"({lstr(name)}, {llist([lstr(m) for m in mro], 0)})")
    return "def exceptionClasses : List (String × List String) := " + llist(rows) + "\n"


def sec_enums():
    import enum
    mods = ["webauthn.helpers.structs", "webauthn.helpers.cose", "webauthn.helpers.tpm.structs",
            "webauthn.helpers.asn1.android_key"]
    str_rows, int_rows = [], []
    for m in mods:
        mod = importlib.import_module(m)
        for name, obj in sorted(vars(mod).items()):
            if inspect.isclass(obj) and issubclass(obj, enum.Enum) and obj.__module__ == m:
                members = list(obj.__members__.items())  # includes aliases
                if all(isinstance(v.value, str) for _, v in members):
                    str_rows.append(f"({lstr(name)}, {llist([f'({lstr(k)}, {lstr(v.value)})' for k, v in members], 0)})")
                elif all(isinstance(v.value, int) for _, v in members):
                    int_rows.append(f"({lstr(name)}, {llist([f'({lstr(k)}, {lint(v.value)})' for k, v in members], 0)})")
    return ("def strEnums : List (String × List (String × String)) := " + llist(str_rows) + "\n\n"
            "def intEnums : List (String × List (String × Int)) := " + llist(int_rows) + "\n")


def spy_key(base):
    log = []

    def verify(self, *args, **kw):
        log.append(args)

    ns = {m: (lambda self, *a, **k: None) for m in getattr(base, "__abstractmethods__", ())}
    ns["verify"] = verify
    cls = type("Spy" + base.__name__, (base,), ns)
    return cls(), log


def describe_verify_args(args):
    from cryptography.hazmat.primitives.asymmetric import ec, padding
    if len(args) == 2:
        return ".raw"
    if len(args) == 3 and isinstance(args[2], ec.ECDSA):
        return f".ecdsa {lstr(args[2].algorithm.name)}"
    if len(args) == 4 and isinstance(args[2], padding.PKCS1v15):
        return f".pkcs1v15 {lstr(args[3].name)}"
    if len(args) == 4 and isinstance(args[2], padding.PSS):
        p = args[2]
        sl = p._salt_length
        salt = ("max" if sl is padding.PSS.MAX_LENGTH else "auto" if sl is padding.PSS.AUTO
                else "digest" if sl is padding.PSS.DIGEST_LENGTH else str(int(sl)))
        return f".pss {lstr(p._mgf._algorithm.name)} {lstr(args[3].name)} {lstr(salt)}"
    return f".other {lstr(repr(args)[:80])}"


NON_MEMBER_ALGS = [0, 1, -1, 7, -6, -9, -35, -40, -256, -260, -65534, -65536, 257, 2 ** 40]


def sec_sig_dispatch():
    from cryptography.hazmat.primitives.asymmetric import ec, rsa, ed25519
    from webauthn.helpers.verify_signature import verify_signature
    from webauthn.helpers.cose import COSEAlgorithmIdentifier
    import webauthn.helpers.exceptions as ex
    members = sorted({int(m) for m in COSEAlgorithmIdentifier})
    kinds = [("ec", ec.EllipticCurvePublicKey), ("rsa", rsa.RSAPublicKey), ("ed25519", ed25519.Ed25519PublicKey),
             ("other", None)]
    rows, defaults = [], []
    for kname, base in kinds:
        def probe(alg):
            if base is None:
                key, log = object(), []
            else:
                key, log = spy_key(base)
            try:
                verify_signature(public_key=key, signature_alg=alg, signature=b"s", data=b"d")
            except ex.WebAuthnException as e:
                return f".libExc {lstr(type(e).__name__)}"
            except Exception as e:
                return f".otherExc {lstr(type(e).__name__)}"
            if len(log) != 1 or log[0][0] != b"s" or log[0][1] != b"d":
                return f".other {lstr('verify called ' + str(len(log)) + ' times or with other bytes')}"
            return describe_verify_args(log[0])
        for a in members:
            rows.append(f"(({lstr(kname)}, {lint(a)}), {probe(a)})")
            # the enum member object itself must behave like its int value
            if probe(COSEAlgorithmIdentifier(a)) != probe(a):
                raise Untranslatable(f"dispatch differs between enum member and int for {a}")
        ds = {probe(a) for a in NON_MEMBER_ALGS} | {probe(None)}
        if len(ds) != 1:
            raise Untranslatable(f"non-member algorithms dispatch non-uniformly for {kname}: {ds}")
        defaults.append(f"({lstr(kname)}, {ds.pop()})")
    return ("def sigDispatchTable : List ((String × Int) × Disp) := " + llist(rows) + "\n\n"
            "def sigDispatchDefault : List (String × Disp) := " + llist(defaults) + "\n\n"
            "def coseAlgMembers : List Int := " + llist([lint(a) for a in members], 0) + "\n")


def sec_pss_valueerror():
    """What verify_signature makes of a ValueError raised by the RSA-PSS primitive (cryptography raises one when the modulus is
    too small for the digest): probed with a key object whose verify raises it."""
    from cryptography.hazmat.primitives.asymmetric import rsa
    from cryptography.exceptions import InvalidSignature
    from webauthn.helpers.verify_signature import verify_signature
    base = rsa.RSAPublicKey

    def verify(self, *a, **k):
        raise ValueError("Digest too large for key size. Use a larger key or different digest.")

    ns = {m: (lambda self, *a, **k: None) for m in getattr(base, "__abstractmethods__", ())}
    ns["verify"] = verify
    key = type("RaisingRSAPublicKey", (base,), ns)()
    outcomes = set()
    for alg in (-37, -38, -39):
        try:
            verify_signature(public_key=key, signature_alg=alg, signature=b"s", data=b"d")
            outcomes.add("returned")
        except InvalidSignature:
            outcomes.add("invalid")
        except ValueError:
            outcomes.add("valueerror")
        except Exception as e:
            outcomes.add(type(e).__name__)
    if outcomes == {"invalid"}:
        flag = True
    elif outcomes == {"valueerror"}:
        flag = False
    else:
        raise Untranslatable(f"a ValueError of the RSA-PSS primitive becomes {sorted(outcomes)}: neither InvalidSignature nor the ValueError itself")
    return ("/-- true = `verify_signature` turns a ValueError raised by the RSA-PSS primitive (modulus too small for the digest) into\n"
            "InvalidSignature, which every caller maps to its own library exception; false = the ValueError escapes -/\n"
            f"def pssValueErrorIsInvalid : Bool := {lbool(flag)}\n")


def sec_curves_hashes():
    import hashlib as hl
    from webauthn.helpers.algorithms import get_ec2_curve
    from webauthn.helpers.hash_by_alg import hash_by_alg
    from webauthn.helpers.cose import COSECRV, COSEAlgorithmIdentifier
    import webauthn.helpers.exceptions as ex
    rows = []
    probes = sorted({int(m) for m in COSECRV} | {0, 4, 5, 7, -1, 8})
    for c in probes:
        try:
            r = f".curve {lstr(get_ec2_curve(c).name)}"
        except ex.WebAuthnException as e:
            r = f".libExc {lstr(type(e).__name__)}"
        except Exception as e:
            r = f".otherExc {lstr(type(e).__name__)}"
        rows.append(f"({lint(c)}, {r})")
    nonmember = {r.split(", ", 1)[1] for r in rows if int(r.split(",")[0].strip("(").strip("()")) not in {int(m) for m in COSECRV}}
    if len(nonmember) != 1:
        raise Untranslatable("non-member curves handled non-uniformly")
    member_rows = [r for r in rows if int(r.split(",")[0].strip("(").strip("()")) in {int(m) for m in COSECRV}]
    digests = {hl.sha1(b"probe").digest(): "sha1", hl.sha256(b"probe").digest(): "sha256",
               hl.sha384(b"probe").digest(): "sha384", hl.sha512(b"probe").digest(): "sha512"}
    hrows = []
    members = sorted({int(m) for m in COSEAlgorithmIdentifier})
    for a in members:
        hrows.append(f"({lint(a)}, {lstr(digests[hash_by_alg(b'probe', a)])})")
    dflt = {digests[hash_by_alg(b"probe", a)] for a in NON_MEMBER_ALGS} | {digests[hash_by_alg(b"probe")], digests[hash_by_alg(b"probe", None)]}
    if len(dflt) != 1:
        raise Untranslatable("hash_by_alg default not uniform")
    return ("def ec2CurveTable : List (Int × CurveRes) := " + llist(member_rows) + "\n\n"
            "def ec2CurveDefault : CurveRes := " + nonmember.pop().rstrip(")") + "\n\n"
            "def hashByAlgTable : List (Int × String) := " + llist(hrows) + "\n\n"
            "def hashByAlgDefault : String := " + lstr(dflt.pop()) + "\n")


def sec_flags():
    from webauthn.helpers.parse_authenticator_data import parse_authenticator_data
    from webauthn.helpers.parse_backup_flags import parse_backup_flags
    from webauthn.helpers.structs import AuthenticatorDataFlags
    import webauthn.helpers.exceptions as ex
    import cbor2
    rows = []
    key = cbor2.dumps({1: 2, 3: -7, -1: 1, -2: b"\x01" * 32, -3: b"\x02" * 32})
    for b in range(256):
        data = b"\x11" * 32 + bytes([b]) + b"\x00\x00\x00\x05"
        if b & 0x40:
            data += b"\x00" * 16 + b"\x00\x04" + b"cred" + key
        if b & 0x80:
            data += cbor2.dumps({"x": 1})
        ad = parse_authenticator_data(data)
        f = ad.flags
        if (ad.attested_credential_data is not None) != bool(b & 0x40) or (ad.extensions is not None) != bool(b & 0x80):
            raise Untranslatable(f"layout of flag byte {b} not as announced")
        rows.append("(" + ", ".join(lbool(x) for x in (f.up, f.uv, f.be, f.bs, f.at, f.ed)) + ")")
    brows = []
    for be in (False, True):
        for bs in (False, True):
            fl = AuthenticatorDataFlags(up=True, uv=False, be=be, bs=bs, at=False, ed=False)
            try:
                r = parse_backup_flags(fl)
                v = f"some ({lstr(r.credential_device_type.value)}, {lbool(r.credential_backed_up)})"
            except ex.InvalidBackupFlags:
                v = "none"
            brows.append(f"(({lbool(be)}, {lbool(bs)}), {v})")
    return ("/-- row `b` = (up, uv, be, bs, at, ed) as parsed from an authenticator data with flags byte `b` -/\n"
            "def flagsTable : List (Bool × Bool × Bool × Bool × Bool × Bool) := " + llist(rows, 4) + "\n\n"
            "/-- (be, bs) ↦ none (InvalidBackupFlags) | some (device type, backed up) -/\n"
            "def backupTable : List ((Bool × Bool) × Option (String × Bool)) := " + llist(brows) + "\n")


def sec_authdata_guards():
    tree = src_tree("webauthn/helpers/parse_authenticator_data.py")
    fn = find_function(tree, "parse_authenticator_data")
    out = []
    # the minimum-length guard: first raising `if` whose test mentions len(...)
    tests = [t for t, exc in raising_ifs(fn) if exc.endswith("InvalidAuthenticatorDataStructure") and "len(" in ast.unparse(t)]
    if not tests:
        raise Untranslatable("length guards not found")
    short = [t for t in tests if isinstance(t, ast.Compare) and isinstance(t.comparators[0], ast.Constant)
             or (isinstance(t, ast.Compare) and isinstance(t.left, ast.Constant))]
    if len(short) != 1:
        raise Untranslatable("minimum-length guard not unique")
    tr = T2([(lambda s: s.startswith("len("), ("len", "int"))])
    out.append("/-- `parse_authenticator_data`: the too-short guard, as a function of `len(val)` -/\n"
               f"def authDataTooShort (len : Int) : Bool := {tr.tr(short[0])[0]}\n")
    # flag mask expressions: keyword arguments of the AuthenticatorDataFlags(...) call
    call = None
    for n in ast.walk(fn):
        if isinstance(n, ast.Call) and ast.unparse(n.func).endswith("AuthenticatorDataFlags"):
            call = n
    if call is None:
        raise Untranslatable("AuthenticatorDataFlags(...) call not found")
    env = simple_assigns(fn)
    kws = {k.arg: k.value for k in call.keywords}
    if set(kws) != {"up", "uv", "be", "bs", "at", "ed"}:
        raise Untranslatable("flag keywords changed: " + ",".join(sorted(kws)))
    # the flags byte: the name that occurs in every mask expression
    names = None
    for v in kws.values():
        s = {n.id for n in ast.walk(v) if isinstance(n, ast.Name)}
        names = s if names is None else names & s
    if not names or len(names) != 1:
        raise Untranslatable("flags byte variable not identified")
    fb = names.pop()
    tr = T2([(fb, ("flags_byte", "nat"))])
    for k in ("up", "uv", "be", "bs", "at", "ed"):
        out.append(f"def flag_{k} (flags_byte : Nat) : Bool := {tr.tr(kws[k])[0]}\n")
    return "\n".join(out)


def up_uv_guards(fn, ifs):
    """the raise whose *innermost* test mentions flags.up (resp. flags.uv), with its full path condition"""
    def innermost(t):
        return t.values[-1] if isinstance(t, ast.BoolOp) and isinstance(t.op, ast.And) else t
    up = [t for t, exc in ifs if mentions(innermost(t), lambda s: s.endswith("flags.up"))]
    uv = [t for t, exc in ifs if mentions(innermost(t), lambda s: s.endswith("flags.uv"))]
    if len(up) != 1 or len(uv) != 1:
        raise Untranslatable(f"UP/UV guards not unique in {fn.name} ({len(up)}, {len(uv)})")
    return up, uv


def sec_auth_guards():
    tree = src_tree("webauthn/authentication/verify_authentication_response.py")
    fn = find_function(tree, "verify_authentication_response")
    ifs = raising_ifs(fn)
    param = "credential_current_sign_count"
    cands = [t for t, exc in ifs if mentions(t, lambda s: s == param)]
    if len(cands) != 1:
        raise Untranslatable(f"sign-count guard not unique ({len(cands)})")
    tr = T2([(param, ("current", "int")),
             (lambda s: s.endswith("sign_count") and s != param, ("sign_count", "int"))])
    out = ["/-- `verify_authentication_response`: the counter guard (true = reject) -/\n"
           f"def signCountRejects (sign_count current : Int) : Bool := {tr.tr(cands[0])[0]}\n"]
    # UP and UV guards
    leaves = [(lambda s: s.endswith("flags.up"), ("up", "bool")), (lambda s: s.endswith("flags.uv"), ("uv", "bool")),
              ("require_user_verification", ("require_uv", "bool")), ("require_user_presence", ("require_up", "bool"))]
    tr = T2(leaves)
    up, uv = up_uv_guards(fn, ifs)
    out.append(f"def authUpRejects (require_uv up uv : Bool) : Bool := {tr.tr(up[0])[0]}\n")
    out.append(f"def authUvRejects (require_uv up uv : Bool) : Bool := {tr.tr(uv[0])[0]}\n")
    tree = src_tree("webauthn/registration/verify_registration_response.py")
    fn = find_function(tree, "verify_registration_response")
    ifs = raising_ifs(fn)
    up, uv = up_uv_guards(fn, ifs)
    out.append(f"def regUpRejects (require_up require_uv up uv : Bool) : Bool := {tr.tr(up[0])[0]}\n")
    out.append(f"def regUvRejects (require_up require_uv up uv : Bool) : Bool := {tr.tr(uv[0])[0]}\n")
    return "\n".join(out)


def sec_safetynet_guards():
    tree = src_tree("webauthn/helpers/verify_safetynet_timestamp.py")
    fn = find_function(tree, "verify_safetynet_timestamp")
    env = simple_assigns(fn)
    arg = fn.args.args[0].arg
    tr = T2([(arg, ("timestamp_ms", "int")), ("int(time.time())", ("now_seconds", "int"))], env)
    ifs = raising_ifs(fn)
    # a type guard (`not isinstance(timestamp_ms, int)`) is not arithmetic: it becomes a flag the model's type case reads
    is_type_guard = lambda t: ast.unparse(t).replace(" ", "") == f"notisinstance({arg},int)"
    type_guards = [t for t, _ in ifs if is_type_guard(t)]
    ifs = [(t, p) for t, p in ifs if not is_type_guard(t)]
    if len(ifs) != 2:
        raise Untranslatable(f"expected two arithmetic guards, found {len(ifs)}")
    tests = " || ".join(tr.tr(t)[0] for t, _ in ifs)
    return ("/-- `verify_safetynet_timestamp`: true = raises ValueError; `now_seconds` is `int(time.time())` -/\n"
            f"def safetynetTimestampRejects (timestamp_ms now_seconds : Int) : Bool := {tests}\n\n"
            "/-- whether the function first refuses a timestamp that is not an `int` (NaN, other floats, strings) -/\n"
            f"def safetynetTimestampRequiresInt : Bool := {lbool(bool(type_guards))}\n")


def sec_tpm_eku():
    """which form the AIK certificate's extended-key-usage rule has: membership of tcg-kp-AIKCertificate among the
    purposes ("MUST contain"), or a test of the first purpose only"""
    tree = src_tree("webauthn/registration/formats/tpm.py")
    fn = find_function(tree, "verify_tpm")
    env = simple_assigns(fn)
    OID = "2.23.133.8.3"
    hits = [t for t, _ in raising_ifs(fn) if OID in ast.unparse(t)]
    if len(hits) != 1:
        raise Untranslatable(f"expected one guard naming {OID}, found {len(hits)}")
    t = hits[0]
    while isinstance(t, ast.BoolOp) and len(t.values) == 1:
        t = t.values[0]
    if not (isinstance(t, ast.Compare) and len(t.ops) == 1):
        raise Untranslatable("EKU guard is not a single comparison: " + ast.unparse(t))
    left, op, right = t.left, t.ops[0], t.comparators[0]

    def resolve(n):
        seen = 0
        while isinstance(n, ast.Name) and n.id in env and seen < 5:
            n, seen = env[n.id], seen + 1
        return ast.unparse(n).replace(" ", "")
    if isinstance(op, ast.NotIn) and isinstance(left, ast.Constant) and left.value == OID:
        src = resolve(right)
        if re.fullmatch(r"[\[\{(]?(\w+)\.dotted_stringfor\1inext_extended_key_usage[\]\})]?", src):
            contains = True
        else:
            raise Untranslatable("EKU membership is over something else than the extension's purposes: " + src)
    elif isinstance(op, ast.NotEq) and isinstance(right, ast.Constant) and right.value == OID:
        src = resolve(left)
        if src == "ext_extended_key_usage[0].dotted_string":
            contains = False
        else:
            raise Untranslatable("EKU comparison is with something else than the first purpose: " + src)
    else:
        raise Untranslatable("EKU guard has an unknown form: " + ast.unparse(t))
    return ("/-- the AIK certificate's EKU rule: true = tcg-kp-AIKCertificate must be among the purposes; false = only the first\n"
            "purpose is read -/\n"
            f"def tpmEkuRuleIsContains : Bool := {lbool(contains)}\n")


def sec_defaults():
    import webauthn.registration.generate_registration_options as g
    import webauthn.registration.verify_registration_response as vr
    import webauthn.authentication.verify_authentication_response as va
    algs = [int(a) for a in g.default_supported_pub_key_algs]
    params = [(p.type, int(p.alg)) for p in g.default_supported_pub_key_params]
    sig = inspect.signature(vr.verify_registration_response)
    vdef = [int(a) for a in sig.parameters["supported_pub_key_algs"].default]
    up_default = sig.parameters["require_user_presence"].default
    uv_default = sig.parameters["require_user_verification"].default
    return ("def defaultSupportedPubKeyAlgs : List Int := " + llist([lint(a) for a in algs], 0) + "\n\n"
            "def defaultPubKeyCredParams : List (String × Int) := " + llist([f"({lstr(t)}, {lint(a)})" for t, a in params], 0) + "\n\n"
            "def verifyRegDefaultAlgs : List Int := " + llist([lint(a) for a in vdef], 0) + "\n\n"
            f"def verifyRegDefaultRequireUP : Bool := {lbool(up_default)}\n"
            f"def verifyRegDefaultRequireUV : Bool := {lbool(uv_default)}\n\n"
            "def tokenBindingStatusesAuth : List String := " + llist([lstr(s.value) for s in va.expected_token_binding_statuses], 0) + "\n\n"
            "def tokenBindingStatusesReg : List String := " + llist([lstr(s.value) for s in vr.expected_token_binding_statuses], 0) + "\n")


def sec_tpm():
    import webauthn.helpers.tpm.structs as ts

    def bmap(m):
        return llist([f"({lbytes(k)}, {lstr(v.value)})" for k, v in m.items()], 2)
    out = ["def tpmStMap : List (List UInt8 × String) := " + bmap(ts.TPM_ST_MAP) + "\n",
           "def tpmAlgMap : List (List UInt8 × String) := " + bmap(ts.TPM_ALG_MAP) + "\n",
           "def tpmEccCurveMap : List (List UInt8 × String) := " + bmap(ts.TPM_ECC_CURVE_MAP) + "\n",
           "def tpmEccCurveCoseCrvMap : List (String × Int) := " + llist([f"({lstr(k.value)}, {lint(int(v))})" for k, v in ts.TPM_ECC_CURVE_COSE_CRV_MAP.items()], 0) + "\n",
           "def tpmAlgCoseAlgMap : List (String × Int) := " + llist([f"({lstr(k.value)}, {lint(int(v))})" for k, v in ts.TPM_ALG_COSE_ALG_MAP.items()], 0) + "\n",
           "def tpmManufacturers : List String := " + llist([lstr(k) for k in ts.TPM_MANUFACTURERS.keys()], 4) + "\n",
           f"def tpmStAttestCertify : String := {lstr(ts.TPM_ST.ATTEST_CERTIFY.value)}\n",
           f"def tpmAlgRsa : String := {lstr(ts.TPM_ALG.RSA.value)}\n",
           f"def tpmAlgEcc : String := {lstr(ts.TPM_ALG.ECC.value)}\n"]
    # object attribute bits by T2 from the class body
    tree = src_tree("webauthn/helpers/tpm/structs.py")
    cls = next(n for n in ast.walk(tree) if isinstance(n, ast.ClassDef) and n.name == "TPMPubAreaObjectAttributes")
    init = find_function(cls, "__init__")
    env = simple_assigns(init)
    word = [k for k, v in env.items() if "from_bytes" in ast.unparse(v)]
    if len(word) != 1:
        raise Untranslatable("attribute word not identified")
    tr = T2([(word[0], ("attrs", "nat"))])
    fields = []
    for n in init.body:
        if isinstance(n, ast.Assign) and isinstance(n.targets[0], ast.Attribute) and ast.unparse(n.targets[0].value) == "self":
            fields.append((n.targets[0].attr, tr.tr(n.value)[0]))
    out.append("def tpmObjectAttributeNames : List String := " + llist([lstr(f) for f, _ in fields], 0) + "\n")
    out.append("/-- TPMA_OBJECT: the attribute flags in declaration order, as a function of the 32-bit word -/\n"
               "def tpmObjectAttributes (attrs : Nat) : List Bool := " + llist([e for _, e in fields]) + "\n")
    return "\n".join(out)


def sec_builtin_roots():
    import webauthn.helpers.known_root_certs as kr
    fmts = {"apple": "webauthn/registration/formats/apple.py", "android-key": "webauthn/registration/formats/android_key.py",
            "android-safetynet": "webauthn/registration/formats/android_safetynet.py", "packed": "webauthn/registration/formats/packed.py",
            "fido-u2f": "webauthn/registration/formats/fido_u2f.py", "tpm": "webauthn/registration/formats/tpm.py"}
    rows, pems = [], []
    for fmt, path in fmts.items():
        tree = src_tree(path)
        names = []
        for n in ast.walk(tree):
            if (isinstance(n, ast.Call) and isinstance(n.func, ast.Attribute) and n.func.attr in ("append", "extend")
                    and ast.unparse(n.func.value) == "pem_root_certs_bytes"):
                for a in n.args:
                    for m in ast.walk(a):
                        if isinstance(m, ast.Name) and hasattr(kr, m.id):
                            names.append(m.id)
        rows.append(f"({lstr(fmt)}, {llist([lstr(x) for x in names], 0)})")
    for name, val in sorted(vars(kr).items()):
        if isinstance(val, (bytes, bytearray)) and b"BEGIN CERTIFICATE" in val:
            pems.append(f"({lstr(name)}, {lstr(hashlib.sha256(val).hexdigest())})")
    return ("/-- per format: the names from known_root_certs appended to the RP's root list -/\n"
            "def builtinRootNames : List (String × List String) := " + llist(rows) + "\n\n"
            "def knownRootSha256 : List (String × String) := " + llist(pems) + "\n")


def sec_module_state():
    """module-level mutable objects reachable in webauthn.* (C18/C19)"""
    import pkgutil, webauthn, enum, types
    rows = []
    for m in pkgutil.walk_packages(webauthn.__path__, "webauthn."):
        mod = importlib.import_module(m.name)
        for name, obj in sorted(vars(mod).items()):
            if name.startswith("__"):
                continue
            if isinstance(obj, (list, dict, set, bytearray)):
                home = m.name
                rows.append((home, name, type(obj).__name__, len(obj)))
    # keep the defining module only (objects re-exported by `from x import y` have the same identity)
    seen, uniq = {}, []
    for home, name, ty, ln in rows:
        obj = getattr(importlib.import_module(home), name)
        if id(obj) in seen:
            continue
        seen[id(obj)] = True
        uniq.append(f"({lstr(home)}, {lstr(name)}, {lstr(ty)}, {ln})")
    return "def moduleMutableCells : List (String × String × String × Nat) := " + llist(uniq) + "\n"


FALLBACK_NOTE = "Webauthn.Generated.Fallback"


def build_text():
    import_repo()
    S = Sections()
    S.add("exceptions", sec_exceptions, "def exceptionClasses : List (String × List String) := Fallback.exceptionClasses\n")
    S.add("enums", sec_enums, "def strEnums : List (String × List (String × String)) := Fallback.strEnums\n"
                              "def intEnums : List (String × List (String × Int)) := Fallback.intEnums\n")
    S.add("sig-dispatch", sec_sig_dispatch,
          "def sigDispatchTable : List ((String × Int) × Disp) := Fallback.sigDispatchTable\n"
          "def sigDispatchDefault : List (String × Disp) := Fallback.sigDispatchDefault\n"
          "def coseAlgMembers : List Int := Fallback.coseAlgMembers\n")
    S.add("curves-hashes", sec_curves_hashes,
          "def ec2CurveTable : List (Int × CurveRes) := Fallback.ec2CurveTable\n"
          "def ec2CurveDefault : CurveRes := Fallback.ec2CurveDefault\n"
          "def hashByAlgTable : List (Int × String) := Fallback.hashByAlgTable\n"
          "def hashByAlgDefault : String := Fallback.hashByAlgDefault\n")
    S.add("flags", sec_flags,
          "def flagsTable : List (Bool × Bool × Bool × Bool × Bool × Bool) := Fallback.flagsTable\n"
          "def backupTable : List ((Bool × Bool) × Option (String × Bool)) := Fallback.backupTable\n")
    S.add("authdata-guards", sec_authdata_guards,
          "def authDataTooShort (len : Int) : Bool := Fallback.authDataTooShort len\n" +
          "".join(f"def flag_{k} (flags_byte : Nat) : Bool := Fallback.flag_{k} flags_byte\n" for k in ("up", "uv", "be", "bs", "at", "ed")))
    S.add("policy-guards", sec_auth_guards,
          "def signCountRejects (sign_count current : Int) : Bool := Fallback.signCountRejects sign_count current\n"
          "def authUpRejects (require_uv up uv : Bool) : Bool := Fallback.authUpRejects require_uv up uv\n"
          "def authUvRejects (require_uv up uv : Bool) : Bool := Fallback.authUvRejects require_uv up uv\n"
          "def regUpRejects (require_up require_uv up uv : Bool) : Bool := Fallback.regUpRejects require_up require_uv up uv\n"
          "def regUvRejects (require_up require_uv up uv : Bool) : Bool := Fallback.regUvRejects require_up require_uv up uv\n")
    S.add("safetynet-guards", sec_safetynet_guards,
          "def safetynetTimestampRejects (timestamp_ms now_seconds : Int) : Bool := Fallback.safetynetTimestampRejects timestamp_ms now_seconds\n"
          "def safetynetTimestampRequiresInt : Bool := Fallback.safetynetTimestampRequiresInt\n")
    S.add("tpm-eku", sec_tpm_eku, "def tpmEkuRuleIsContains : Bool := Fallback.tpmEkuRuleIsContains\n")
    S.add("pss-valueerror", sec_pss_valueerror, "def pssValueErrorIsInvalid : Bool := Fallback.pssValueErrorIsInvalid\n")
    S.add("defaults", sec_defaults,
          "def defaultSupportedPubKeyAlgs : List Int := Fallback.defaultSupportedPubKeyAlgs\n"
          "def defaultPubKeyCredParams : List (String × Int) := Fallback.defaultPubKeyCredParams\n"
          "def verifyRegDefaultAlgs : List Int := Fallback.verifyRegDefaultAlgs\n"
          "def verifyRegDefaultRequireUP : Bool := Fallback.verifyRegDefaultRequireUP\n"
          "def verifyRegDefaultRequireUV : Bool := Fallback.verifyRegDefaultRequireUV\n"
          "def tokenBindingStatusesAuth : List String := Fallback.tokenBindingStatusesAuth\n"
          "def tokenBindingStatusesReg : List String := Fallback.tokenBindingStatusesReg\n")
    S.add("tpm", sec_tpm,
          "def tpmStMap : List (List UInt8 × String) := Fallback.tpmStMap\n"
          "def tpmAlgMap : List (List UInt8 × String) := Fallback.tpmAlgMap\n"
          "def tpmEccCurveMap : List (List UInt8 × String) := Fallback.tpmEccCurveMap\n"
          "def tpmEccCurveCoseCrvMap : List (String × Int) := Fallback.tpmEccCurveCoseCrvMap\n"
          "def tpmAlgCoseAlgMap : List (String × Int) := Fallback.tpmAlgCoseAlgMap\n"
          "def tpmManufacturers : List String := Fallback.tpmManufacturers\n"
          "def tpmStAttestCertify : String := Fallback.tpmStAttestCertify\n"
          "def tpmAlgRsa : String := Fallback.tpmAlgRsa\ndef tpmAlgEcc : String := Fallback.tpmAlgEcc\n"
          "def tpmObjectAttributeNames : List String := Fallback.tpmObjectAttributeNames\n"
          "def tpmObjectAttributes (attrs : Nat) : List Bool := Fallback.tpmObjectAttributes attrs\n")
    S.add("builtin-roots", sec_builtin_roots,
          "def builtinRootNames : List (String × List String) := Fallback.builtinRootNames\n"
          "def knownRootSha256 : List (String × String) := Fallback.knownRootSha256\n")
    S.add("module-state", sec_module_state,
          "def moduleMutableCells : List (String × String × String × Nat) := Fallback.moduleMutableCells\n")
    header = ("/-\n  GENERATED by harness/extract.py from /repo on every check run. Do not edit.\n"
              "  Sections marked DOWNGRADED fall back to Generated/Fallback.lean (see DESIGN.md §3.1).\n-/\n"
              "import Generated.Types\nimport Generated.Fallback\n"
              "set_option maxRecDepth 4000\nset_option linter.unusedVariables false\n"
              "namespace Webauthn.Generated\n\n")
    text = header + "\n".join(S.parts) + "\nend Webauthn.Generated\n"
    return text, S.downgrades


def regenerate():
    text, downgrades = build_text()
    with common.build_lock():
        old = open(OUT).read() if os.path.exists(OUT) else None
        changed = old != text
        if changed:
            tmp = OUT + ".tmp"
            with open(tmp, "w") as f:
                f.write(text)
            os.replace(tmp, OUT)
    return {"ok": True, "downgrades": downgrades, "changed": changed, "why": ""}


def make_fallback():
    """Snapshot the current extraction as lean/Generated/Fallback.lean (run by hand on the pinned
    tree; the result is reviewed and committed, never rewritten by a check)."""
    text, downgrades = build_text()
    if downgrades:
        raise SystemExit("refusing to snapshot a downgraded extraction: " + "; ".join(downgrades))
    body = text.split("namespace Webauthn.Generated\n", 1)[1].rsplit("end Webauthn.Generated", 1)[0]
    out = ("/-\n  Hand-reviewed snapshot of the tables of the pinned /repo commit; used only when a section\n"
           "  of harness/extract.py cannot be regenerated (DESIGN.md §3.1, downgrade).\n-/\n"
           "import Generated.Types\nset_option maxRecDepth 4000\nset_option linter.unusedVariables false\nnamespace Webauthn.Generated.Fallback\n"
           + body + "end Webauthn.Generated.Fallback\n")
    with open(os.path.join(common.LEAN, "Generated", "Fallback.lean"), "w") as f:
        f.write(out)


if __name__ == "__main__":
    if len(sys.argv) > 1 and sys.argv[1] == "--make-fallback":
        make_fallback()
    else:
        print(json.dumps(regenerate(), indent=1))
