"""Answers the model's oracle queries with the real external libraries, called directly and never
through `webauthn` (so: the oracle is the external library, the model is the library's glue)."""
import hashlib, json, time, binascii
from json.decoder import JSONDecodeError

from cryptography.exceptions import InvalidSignature
from cryptography.hazmat.primitives import hashes, serialization
from cryptography.hazmat.primitives.asymmetric import ec, rsa, ed25519, padding

from .driver import to_jval, OutOfModel

HASHES = {"sha1": hashes.SHA1, "sha256": hashes.SHA256, "sha384": hashes.SHA384, "sha512": hashes.SHA512}
CURVES = {"secp256r1": ec.SECP256R1, "secp384r1": ec.SECP384R1, "secp521r1": ec.SECP521R1}


def hx(b):
    return bytes(b).hex()


def load_key(k):
    kind = k["kind"]
    if kind == "ec":
        return ec.EllipticCurvePublicNumbers(int(k["x"]), int(k["y"]), CURVES[k["crv"]]()).public_key()
    if kind == "rsa":
        return rsa.RSAPublicNumbers(int(k["e"]), int(k["n"])).public_key()
    if kind == "ed25519":
        return ed25519.Ed25519PublicKey.from_public_bytes(bytes.fromhex(k["x"]))
    raise ValueError(f"unloadable key kind {kind}")


def key_view(pk):
    """PubKey JSON for a cryptography public key object."""
    if isinstance(pk, ec.EllipticCurvePublicKey):
        n = pk.public_numbers()
        return {"kind": "ec", "crv": pk.curve.name, "x": str(n.x), "y": str(n.y)}
    if isinstance(pk, rsa.RSAPublicKey):
        n = pk.public_numbers()
        return {"kind": "rsa", "n": str(n.n), "e": str(n.e)}
    if isinstance(pk, ed25519.Ed25519PublicKey):
        return {"kind": "ed25519", "x": hx(pk.public_bytes(serialization.Encoding.Raw, serialization.PublicFormat.Raw))}
    return {"kind": "other", "cls": type(pk).__name__}


class Oracle:
    """One instance per worker; per-case state (entropy stream, forced answers) is reset by the
    caller through `begin_case`."""

    def __init__(self):
        self.token_stream = None      # callable (k, n) -> bytes, for C15
        self.overrides = {}           # query-kind -> callable(q) -> answer | None
        self.stats = {}

    def begin_case(self, token_stream=None, overrides=None):
        self.token_stream = token_stream
        self.overrides = overrides or {}

    def answer(self, q):
        kind = q["q"]
        self.stats[kind] = self.stats.get(kind, 0) + 1
        ov = self.overrides.get(kind)
        if ov is not None:
            r = ov(q)
            if r is not None:
                return r
        return getattr(self, "q_" + kind)(q)

    # --- hashlib
    def q_hash(self, q):
        return {"b": hashlib.new(q["alg"], bytes.fromhex(q["b"])).hexdigest()}

    # --- json
    def _json(self, arg):
        try:
            v = json.loads(arg)
        except JSONDecodeError:
            return {"err": "JSONDecodeError"}
        except RecursionError:
            return {"err": "other:RecursionError"}
        except Exception as e:  # UnicodeDecodeError, ...
            return {"err": "other:" + type(e).__name__}
        try:
            return {"ok": to_jval(v)}
        except OutOfModel as e:
            return {"err": "oom:" + str(e)}
        except RecursionError:
            return {"err": "other:RecursionError"}

    def q_json_loads_bytes(self, q):
        return self._json(bytes.fromhex(q["b"]))

    def q_json_loads_str(self, q):
        return self._json(q["s"])

    # --- cryptography: keys and signatures
    def q_key_load(self, q):
        try:
            load_key(q["key"])
            return {"ok": True}
        except Exception as e:
            return {"ok": False, "cls": type(e).__name__}

    def q_spki(self, q):
        pk = load_key(q["key"])
        return {"b": hx(pk.public_bytes(serialization.Encoding.DER, serialization.PublicFormat.SubjectPublicKeyInfo))}

    def q_sig_verify(self, q):
        try:
            pk = load_key(q["key"])
            s = q["scheme"]
            sig, data = bytes.fromhex(q["sig"]), bytes.fromhex(q["data"])
            if s["kind"] == "ecdsa":
                pk.verify(sig, data, ec.ECDSA(HASHES[s["hash"]]()))
            elif s["kind"] == "pkcs1v15":
                pk.verify(sig, data, padding.PKCS1v15(), HASHES[s["hash"]]())
            elif s["kind"] == "pss":
                h = HASHES[s["hash"]]()
                salt = {"max": padding.PSS.MAX_LENGTH, "auto": padding.PSS.AUTO, "digest": padding.PSS.DIGEST_LENGTH}.get(s["salt"])
                if salt is None:
                    salt = int(s["salt"])
                pk.verify(sig, data, padding.PSS(mgf=padding.MGF1(HASHES[s["mgf"]]()), salt_length=salt), h)
            elif s["kind"] == "ed25519":
                pk.verify(sig, data)
            else:
                return {"r": "raised:BadScheme"}
            return {"r": "valid"}
        except InvalidSignature:
            return {"r": "invalid"}
        except Exception as e:
            return {"r": "raised:" + type(e).__name__}

    # --- clock / entropy
    def q_now_seconds(self, q):
        return {"t": str(int(time.time()))}

    def q_token_bytes(self, q):
        return {"b": hx(self.token_stream(int(q["k"]), int(q["n"])))}
