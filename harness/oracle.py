"""Answers the model's oracle queries with the real external libraries, called directly and never
through `webauthn` (so: the oracle is the external library, the model is the library's glue)."""
import hashlib, json, time, binascii
from json.decoder import JSONDecodeError

from cryptography.exceptions import InvalidSignature
from cryptography.hazmat.primitives import hashes, serialization
from cryptography.hazmat.primitives.asymmetric import ec, rsa, ed25519, padding

from .driver import to_jval, OutOfModel

HASHES = {"sha1": hashes.SHA1, "sha256": hashes.SHA256, "sha384": hashes.SHA384, "sha512": hashes.SHA512}
CURVES = {"secp256r1": ec.SECP256R1, "secp384r1": ec.SECP384R1, "secp521r1": ec.SECP521R1}


def hx(b):
    return bytes(b).hex()


def load_key(k):
    kind = k["kind"]
    if kind == "ec":
        return ec.EllipticCurvePublicNumbers(int(k["x"]), int(k["y"]), CURVES[k["crv"]]()).public_key()
    if kind == "rsa":
        return rsa.RSAPublicNumbers(int(k["e"]), int(k["n"])).public_key()
    if kind == "ed25519":
        return ed25519.Ed25519PublicKey.from_public_bytes(bytes.fromhex(k["x"]))
    raise ValueError(f"unloadable key kind {kind}")


def key_view(pk):
    """PubKey JSON for a cryptography public key object."""
    if isinstance(pk, ec.EllipticCurvePublicKey):
        n = pk.public_numbers()
        return {"kind": "ec", "crv": pk.curve.name, "x": str(n.x), "y": str(n.y)}
    if isinstance(pk, rsa.RSAPublicKey):
        n = pk.public_numbers()
        return {"kind": "rsa", "n": str(n.n), "e": str(n.e)}
    if isinstance(pk, ed25519.Ed25519PublicKey):
        return {"kind": "ed25519", "x": hx(pk.public_bytes(serialization.Encoding.Raw, serialization.PublicFormat.Raw))}
    return {"kind": "other", "cls": type(pk).__name__}


class Oracle:
    """One instance per worker; per-case state (entropy stream, forced answers) is reset by the
    caller through `begin_case`."""

    def __init__(self):
        self.token_stream = None      # callable (k, n) -> bytes, for C15
        self.overrides = {}           # query-kind -> callable(q) -> answer | None
        self.stats = {}

    def begin_case(self, token_stream=None, overrides=None):
        self.token_stream = token_stream
        self.overrides = overrides or {}

    def answer(self, q):
        kind = q["q"]
        self.stats[kind] = self.stats.get(kind, 0) + 1
        ov = self.overrides.get(kind)
        if ov is not None:
            r = ov(q)
            if r is not None:
                return r
        return getattr(self, "q_" + kind)(q)

    # --- hashlib
    def q_hash(self, q):
        return {"b": hashlib.new(q["alg"], bytes.fromhex(q["b"])).hexdigest()}

    # --- json
    def _json(self, arg):
        try:
            v = json.loads(arg)
        except JSONDecodeError:
            return {"err": "JSONDecodeError"}
        except RecursionError:
            return {"err": "other:RecursionError"}
        except Exception as e:  # UnicodeDecodeError, ...
            return {"err": "other:" + type(e).__name__}
        try:
            return {"ok": to_jval(v)}
        except OutOfModel as e:
            return {"err": "oom:" + str(e)}
        except RecursionError:
            return {"err": "other:RecursionError"}

    def q_json_loads_bytes(self, q):
        return self._json(bytes.fromhex(q["b"]))

    def q_json_loads_str(self, q):
        return self._json(q["s"])

    # --- cryptography: keys and signatures
    def q_key_load(self, q):
        try:
            load_key(q["key"])
            return {"ok": True}
        except Exception as e:
            return {"ok": False, "cls": type(e).__name__}

    def q_spki(self, q):
        pk = load_key(q["key"])
        return {"b": hx(pk.public_bytes(serialization.Encoding.DER, serialization.PublicFormat.SubjectPublicKeyInfo))}

    def q_sig_verify(self, q):
        try:
            pk = load_key(q["key"])
            s = q["scheme"]
            sig, data = bytes.fromhex(q["sig"]), bytes.fromhex(q["data"])
            if s["kind"] == "ecdsa":
                pk.verify(sig, data, ec.ECDSA(HASHES[s["hash"]]()))
            elif s["kind"] == "pkcs1v15":
                pk.verify(sig, data, padding.PKCS1v15(), HASHES[s["hash"]]())
            elif s["kind"] == "pss":
                h = HASHES[s["hash"]]()
                salt = {"max": padding.PSS.MAX_LENGTH, "auto": padding.PSS.AUTO, "digest": padding.PSS.DIGEST_LENGTH}.get(s["salt"])
                if salt is None:
                    salt = int(s["salt"])
                pk.verify(sig, data, padding.PSS(mgf=padding.MGF1(HASHES[s["mgf"]]()), salt_length=salt), h)
            elif s["kind"] == "ed25519":
                pk.verify(sig, data)
            else:
                return {"r": "raised:BadScheme"}
            return {"r": "valid"}
        except InvalidSignature:
            return {"r": "invalid"}
        except Exception as e:
            return {"r": "raised:" + type(e).__name__}

    # --- clock / entropy
    def q_now_seconds(self, q):
        return {"t": str(int(time.time()))}

    def q_token_bytes(self, q):
        return {"b": hx(self.token_stream(int(q["k"]), int(q["n"])))}


# ------------------------------------------------------------------------------------------------
# certificates, chains, Android key description, built-in roots
# ------------------------------------------------------------------------------------------------
from cryptography import x509 as _x509
from cryptography.x509.oid import ExtensionOID as _ExtOID, NameOID as _NameOID
from OpenSSL.crypto import X509 as _X509, X509Store as _X509Store, X509StoreContext as _X509StoreContext, \
    X509StoreContextError as _X509StoreContextError

APPLE_NONCE_OID = "1.2.840.113635.100.8.2"
ANDROID_KEYDESC_OID = "1.3.6.1.4.1.11129.2.1.17"


def _san_view(cert):
    try:
        ext = cert.extensions.get_extension_for_oid(_ExtOID.SUBJECT_ALTERNATIVE_NAME)
    except _x509.ExtensionNotFound:
        return None
    # the first directoryName among the general names, wherever it stands (independent of the library's own lookup)
    for g in list(ext.value):
        if isinstance(g, _x509.DirectoryName):
            return {"kind": "dirName", "attrs": [[a.oid.dotted_string, str(a.value)] for a in g.value]}
    return {"kind": "empty"}


def cert_view(der):
    try:
        cert = _x509.load_der_x509_certificate(der)
    except Exception:
        return None
    try:
        pk = cert.public_key()
        key = key_view(pk)
        spki = hx(pk.public_bytes(serialization.Encoding.DER, serialization.PublicFormat.SubjectPublicKeyInfo))
    except Exception as e:
        return None
    try:
        v = {"key": key, "spki": spki, "version_v3": cert.version == _x509.Version.v3,
             "subject_len": str(len(cert.subject)),
             "subject_cns": [a.value if isinstance(a.value, str) else repr(a.value)
                             for a in cert.subject.get_attributes_for_oid(_NameOID.COMMON_NAME)],
             "pem": hx(cert.public_bytes(serialization.Encoding.PEM)),
             "san": None, "eku": None, "bc_ca": None, "apple_nonce": None, "key_desc": None}
    except ValueError as e:
        # cryptography parses certificate fields lazily: a certificate can load and still raise when the verifier reads
        # one particular field. Which field is read first depends on the format; the model's CertView is eager, so such
        # certificates (corrupted ones, met by the bit-flip streams) are outside the model.
        raise OutOfModel("x509-lazy-field:" + str(e)[:60])
    try:
        exts = cert.extensions
        v["exts_ok"] = True
    except Exception:
        v["exts_ok"] = False
        return v
    v["san"] = _san_view(cert)
    try:
        v["eku"] = [o.dotted_string for o in exts.get_extension_for_oid(_ExtOID.EXTENDED_KEY_USAGE).value]
    except _x509.ExtensionNotFound:
        pass
    try:
        v["bc_ca"] = bool(exts.get_extension_for_oid(_ExtOID.BASIC_CONSTRAINTS).value.ca)
    except _x509.ExtensionNotFound:
        pass
    for fld, oid in (("apple_nonce", APPLE_NONCE_OID), ("key_desc", ANDROID_KEYDESC_OID)):
        try:
            e = exts.get_extension_for_oid(_x509.ObjectIdentifier(oid))
            v[fld] = hx(e.value.value)
        except _x509.ExtensionNotFound:
            pass
    return v


def builtin_pem(name):
    import webauthn.helpers.known_root_certs as kr
    return bytes(getattr(kr, name))


def root_pem(r):
    return bytes.fromhex(r["pem"]) if "pem" in r else builtin_pem(r["builtin"])


def chain_verify(leaf_der, inter_ders, root_pems):
    try:
        leaf = _X509().from_cryptography(_x509.load_der_x509_certificate(leaf_der))
    except Exception:
        return "prep:leaf"
    try:
        inter = [_X509().from_cryptography(_x509.load_der_x509_certificate(d)) for d in inter_ders]
    except Exception:
        return "prep:intermediate"
    store = _X509Store()
    try:
        for pem in root_pems:
            store.add_cert(_X509().from_cryptography(_x509.load_pem_x509_certificate(pem)))
    except Exception:
        return "prep:root"
    try:
        _X509StoreContext(store=store, certificate=leaf, chain=inter).verify_certificate()
    except _X509StoreContextError:
        return "invalid"
    return "ok"


def key_desc_view(der):
    from .sim import android_asn1 as A
    from asn1crypto.core import Void
    try:
        kd = A.KeyDescription.load(der)
        sw, tee = kd["softwareEnforced"], kd["teeEnforced"]
        chal = bytes(kd["attestationChallenge"])

        def allapps(al):
            v = al["allApplications"]
            return (not isinstance(v, Void)), (v.native is None)
        sp, sn = allapps(sw)
        tp, tn = allapps(tee)
        origin = tee["origin"].native
        purpose = tee["purpose"].native
        return {"attestation_challenge": hx(chal), "sw_allapps_present": sp, "sw_allapps_native_is_none": sn,
                "tee_allapps_present": tp, "tee_allapps_native_is_none": tn,
                "tee_origin": None if origin is None else str(int(origin)),
                "tee_purpose": None if purpose is None else [str(int(x)) for x in purpose]}
    except Exception:
        return None


def _q_x509_load(self, q):
    return {"view": cert_view(bytes.fromhex(q["der"]))}


def _q_chain_verify(self, q):
    return {"r": chain_verify(bytes.fromhex(q["leaf"]), [bytes.fromhex(x) for x in q["inter"]],
                              [root_pem(r) for r in q["roots"]])}


def _q_key_description(self, q):
    return {"view": key_desc_view(bytes.fromhex(q["der"]))}


def _q_builtin_pem(self, q):
    return {"b": hx(builtin_pem(q["name"]))}


Oracle.q_x509_load = _q_x509_load
Oracle.q_chain_verify = _q_chain_verify
Oracle.q_key_description = _q_key_description
def _q_pem_canon(self, q):
    """the certificate in a PEM text, re-serialised canonically; null when nothing loads"""
    from cryptography import x509 as _x
    from cryptography.hazmat.primitives import serialization as _s
    try:
        return {"b": hx(_x.load_pem_x509_certificate(bytes.fromhex(q["pem"])).public_bytes(_s.Encoding.PEM))}
    except (ValueError, TypeError):
        return {"b": None}


Oracle.q_builtin_pem = _q_builtin_pem
Oracle.q_pem_canon = _q_pem_canon
