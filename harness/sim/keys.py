"""Committed test keys (harness/fixtures/keys/*.pem).  `python -m harness.sim.keys --generate`
creates them once; checks only load them (RSA generation is slow and must not depend on entropy)."""
import os, sys, functools
from cryptography.hazmat.primitives import serialization
from cryptography.hazmat.primitives.asymmetric import ec, rsa, ed25519

DIR = os.path.join(os.path.dirname(os.path.dirname(os.path.abspath(__file__))), "fixtures", "keys")
COUNTS_NOTE = "derived keys (DERIVED) are computed from fixtures, not stored"
COUNTS = {"p256": 6, "p384": 3, "p521": 3, "ed25519": 4, "rsa": 6, "p256lz": 2, "p521lz": 1, "secp256k1": 1, "rsa3": 1,
          "rsa2047": 1, "rsa1024": 1, "rsa3072": 1, "brainpoolp256r1": 1,
          "rsa4096": 1, "rsa4104": 1, "rsa8192": 1}
CURVES = {"p256": ec.SECP256R1, "p384": ec.SECP384R1, "p521": ec.SECP521R1, "secp256k1": ec.SECP256K1,
          "brainpoolp256r1": ec.BrainpoolP256R1}


def _gen(kind):
    if kind == "rsa":
        return rsa.generate_private_key(public_exponent=65537, key_size=2048)
    if kind in ("rsa2047", "rsa1024", "rsa3072", "rsa4096", "rsa4104", "rsa8192"):   # other modulus sizes, incl. one that is not a multiple of 8 bits
        return rsa.generate_private_key(public_exponent=65537, key_size=int(kind[3:]))
    if kind == "rsa3":
        return rsa.generate_private_key(public_exponent=3, key_size=2048)
    if kind == "ed25519":
        return ed25519.Ed25519PrivateKey.generate()
    if kind.endswith("lz"):  # a coordinate with a leading zero byte
        crv = CURVES[kind[:-2]]
        size = (crv().key_size + 7) // 8
        while True:
            k = ec.generate_private_key(crv())
            n = k.public_key().public_numbers()
            if n.x.to_bytes(size, "big")[0] == 0 or n.y.to_bytes(size, "big")[0] == 0:
                return k
    return ec.generate_private_key(CURVES[kind]())


def generate():
    os.makedirs(DIR, exist_ok=True)
    for kind, n in COUNTS.items():
        for i in range(n):
            p = os.path.join(DIR, f"{kind}-{i}.pem")
            if os.path.exists(p):
                continue
            k = _gen(kind)
            with open(p, "wb") as f:
                f.write(k.private_bytes(serialization.Encoding.PEM, serialization.PrivateFormat.PKCS8,
                                        serialization.NoEncryption()))


def _derived_rsa(base, min_e):
    """an RSA key with the primes of `base` (hence the same modulus) and the smallest odd public exponent >= min_e that
    is admissible for them"""
    import math
    nums = base.private_numbers()
    p, q = nums.p, nums.q
    lam = (p - 1) * (q - 1) // math.gcd(p - 1, q - 1)
    e = min_e | 1
    while math.gcd(e, lam) != 1 or e == nums.public_numbers.e:
        e += 2
    d = pow(e, -1, lam)
    return rsa.RSAPrivateNumbers(p, q, d, d % (p - 1), d % (q - 1), pow(q, -1, p), rsa.RSAPublicNumbers(e, nums.public_numbers.n)).private_key()


DERIVED = {"rsa-same-n-small-e": ("rsa", 0, 3),          # same modulus as rsa-0, another (small) exponent
           "rsa-33bit-e": ("rsa", 4, 2 ** 32 + 1),       # public exponent that needs 5 bytes
           "rsa-64bit-e": ("rsa", 5, 2 ** 64 + 1)}


@functools.lru_cache(maxsize=None)
def get(kind, idx=0):
    if kind in DERIVED:
        b, i, e = DERIVED[kind]
        return _derived_rsa(get(b, i), e)
    with open(os.path.join(DIR, f"{kind}-{idx % COUNTS[kind]}.pem"), "rb") as f:
        return serialization.load_pem_private_key(f.read(), password=None)


if __name__ == "__main__":
    if "--generate" in sys.argv:
        generate()
        print(sorted(os.listdir(DIR)))
