"""Registration-ceremony simulator: authenticator + client + attestation CAs for every attestation
statement format py_webauthn verifies, with named single-deviation faults.

`build_registration(RegRequest(...))` returns the record-form fields of a RegistrationCredential.
A fault is applied BEFORE anything is signed, so every signature, nonce, hash and certificate that
covers the deviating data is produced over that data and stays valid; the only thing wrong with the
response is what the fault's name says.  Independent of `webauthn` (nothing is imported from it)."""
import base64
import dataclasses
import datetime
import hashlib
import json
from dataclasses import dataclass, field
from typing import Optional
from urllib.parse import urlsplit

import cbor2
from cryptography import x509
from cryptography.hazmat.primitives import serialization
from cryptography.hazmat.primitives.asymmetric import ec, rsa
from cryptography.x509.oid import ExtendedKeyUsageOID

from . import android_asn1, ca, core, keys, tpm
from .core import AT, BE, BS, ED, UP, UV, b64url, sha256

# ------------------------------------------------------------------------------------ catalogue

_NONE_MEMBERS = ["sig", "x5c", "alg", "ver", "response", "certInfo", "pubArea"]
_PACKED_COMMON = ["P.sig-missing", "P.alg-missing", "P.sig-other-authdata", "P.sig-other-cdj", "P.sig-other-key",
                  "P.scheme-mismatch"]

CATALOGUE = {
    "ceremony": [
        "R.type-get", "R.type-other", "R.chal-other", "R.chal-prefix", "R.chal-extended", "R.origin-other-host",
        "R.origin-case", "R.origin-trailing-slash", "R.origin-scheme", "R.origin-explicit-default-port", "R.rpid-other", "R.rpid-uppercase",
        "R.rpid-hash-of-origin",
        "R.rpid-hash-of-lowercase", "R.rpid-hash-of-idna-form", "R.cdj-undecodable-byte-in-origin", "R.cdj-undecodable-byte-in-type",
        "R.up-clear", "R.uv-clear", "R.at-clear", "R.at-clear-data-present", "R.credid-empty",
        "R.id-other-credential", "R.id-padded", "R.id-std-alphabet", "R.cred-type", "R.fmt-unknown",
        "R.fmt-nontext", "R.bs-without-be", "R.tb-not-supported"],
    "none": [f"R.none-with-{m}" for m in _NONE_MEMBERS] + ["R.none-with-unknown-member"],
    "packed": _PACKED_COMMON + ["P.x5c-leaf-not-signer"],
    "packed-self": _PACKED_COMMON + ["P.self-alg-disagrees"],
    "fido-u2f": [
        "U.sig-missing", "U.x5c-missing", "U.x5c-two", "U.aaguid-nonzero", "U.aaguid-nonzero-as-in-cert-extension", "U.leaf-rsa", "U.leaf-p384", "U.leaf-secp256k1",
        "U.leaf-brainpoolp256r1",
        "U.credkey-okp", "U.credkey-rsa", "U.sig-no-reserved-byte", "U.sig-other-rpidhash", "U.sig-other-cdj",
        "U.sig-other-credid", "U.sig-other-pubkey", "U.sig-other-key", "U.sig-other-credid-rawid-follows"],
    "tpm": [
        "T.certinfo-missing", "T.pubarea-missing", "T.alg-missing", "T.x5c-missing", "T.sig-missing", "T.ver-1.2",
        # `ver` of another CBOR type whose rendering reads "2.0" (or is the version number): the rule is the text "2.0"
        "T.ver-float-2.0", "T.ver-decimal-2.0", "T.ver-int-2", "T.ver-bytes-2.0", "T.ver-list-of-text",
        "T.unique-ne-modulus", "T.exponent-ne", "T.type-rsa-key-ec", "T.type-ecc-key-rsa", "T.unique-ne-xy",
        "T.curve-ne", "T.magic", "T.type-quote", "T.extradata-other-authdata", "T.extradata-other-cdj",
        "T.extradata-other-hash", "T.name-digest-wrong", "T.name-digest-other-alg", "T.name-prefix-ne-namealg",
        "T.sig-other-key", "T.sig-other-certinfo", "T.cert-v1", "T.subject-nonempty", "T.san-missing",
        "T.san-no-manufacturer", "T.san-no-model", "T.san-no-version", "T.vendor-unknown", "T.eku-missing",
        "T.eku-without-aik", "T.bc-missing", "T.bc-ca-true", "T.exponent-zero-key-e-ne-default",
        "T.cose-exponent-above-uint32", "T.san-uri-only", "T.certinfo-size-prefixed", "T.namealg-unmapped-sm3", "T.namealg-unmapped-null", "T.curve-unmapped-p224", "T.curve-unmapped-none", "T.curve-unmapped-bn638", "T.curve-unmapped-p192"],
    "apple": ["AP.x5c-missing", "AP.nonce-ext-missing", "AP.nonce-other-authdata", "AP.nonce-other-cdj",
              "AP.certkey-ne-credkey"],
    "android-key": [
        "K.sig-missing", "K.alg-missing", "K.x5c-missing", "K.chain-broken", "K.root-unknown", "K.sig-other-data",
        "K.sig-other-key", "K.certkey-ne-credkey", "K.keydesc-missing", "K.challenge-ne-cdjhash",
        "K.allapps-software", "K.allapps-tee", "K.origin-imported", "K.origin-absent", "K.purpose-sign-verify",
        "K.purpose-verify", "K.purpose-absent",
        # the right values, but only software-enforced: the hardware-backed list lacks them
        "K.origin-software-only", "K.purpose-software-only", "K.origin-and-purpose-software-only"],
    "android-safetynet": [
        "S.ver-missing", "S.response-missing", "S.jws-two-parts", "S.jws-four-parts", "S.nonce-other-data",
        "S.basicintegrity-false", "S.basicintegrity-missing", "S.basicintegrity-string-false", "S.basicintegrity-null-string", "S.ts-past", "S.ts-future", "S.ts-in-seconds", "S.ts-in-microseconds", "S.ts-zero", "S.ts-nan", "S.ts-minus-infinity", "S.cn-other", "S.cn-missing",
        "S.alg-es256", "S.sig-other-key", "S.payload-altered"],
    "chain": list(ca.CHAIN_FAULTS),
}

# faults that make the response malformed (client data that is not UTF-8 text): rejection is still demanded, but they are
# not "well-formed responses rejected for a semantic reason"
MALFORMED = {"R.cdj-undecodable-byte-in-origin", "R.cdj-undecodable-byte-in-type",
             "T.certinfo-size-prefixed"}        # certInfo is then not a TPMS_ATTEST at all (its type field is garbage)

FORMATS = ["none", "packed", "packed-self", "fido-u2f", "tpm", "apple", "android-key", "android-safetynet"]
FMT_STRING = {f: ("packed" if f == "packed-self" else f) for f in FORMATS}   # the text in attObj["fmt"]
CHAIN_FORMATS = {"packed", "fido-u2f", "tpm", "apple", "android-key", "android-safetynet"}


def applicable(fmt: str) -> list:
    """Ceremony-level and format-level fault names for `fmt` (chain faults: CATALOGUE["chain"])."""
    return CATALOGUE["ceremony"] + CATALOGUE[fmt]


class NotApplicable(ValueError):
    """The fault is in the catalogue for this format but has no meaning for the keys requested
    (e.g. an RSA-only fault with an EC credential)."""


# ------------------------------------------------------------------------------------ request / result

def _default_challenge() -> bytes:
    return sha256(b"harness.sim default challenge")


@dataclass
class RegRequest:
    fmt: str
    cred: core.SimCredential
    rp_id: str = "example.com"
    challenge: bytes = field(default_factory=_default_challenge)
    origin: str = "https://example.com"
    flags: int = UP | UV | AT                 # AT / ED are OR-ed in automatically unless a fault says otherwise
    counter: int = 0
    ext: Optional[bytes] = None               # CBOR-encoded extension map
    att_key: object = None                    # attestation private key (default: a fixture that suits the format)
    att_alg: Optional[int] = None             # COSE alg of the attestation signature
    n_intermediates: int = 0
    chain_order: str = "normal"
    chain_extras: list = field(default_factory=list)
    chain_faults: set = field(default_factory=set)
    faults: set = field(default_factory=set)  # ceremony- and format-level names ("C." names are also accepted here)
    base_time: Optional[datetime.datetime] = None
    reuse_chain: object = None                # a ca.Chain built earlier: present byte-identical certificates again
    chain_validity: Optional[dict] = None     # validity windows (offsets from base_time) per chain member, see ca.build_chain
    snet_payload_pad: int = 0                 # SafetyNet: that many extra characters in the payload JSON (an additional member), to vary its length mod 3
    snet_ts_shift_ms: int = 0                 # SafetyNet: timestampMs = base_time + this many milliseconds
    tpm_name_alg: int = tpm.TPM_ALG_SHA256
    tpm_vendor: str = "id:414D4400"
    attobj_order: Optional[str] = None                  # the attestation object's members in another order
    attobj_extra: Optional[dict] = None                 # members a future client might add to the attestation object
    envelope_id: Optional[bytes] = None                 # rawId (and id) of the PublicKeyCredential envelope when they are to
                                                        # differ from the attested credential id (nothing compares the two)
    stale_same_name_anchor: Optional[str] = None       # "first" / "last": the RP's anchor list also holds the CA's previous root (same name, other key); certificates carry key identifiers
    tpm_eku_extra: Optional[str] = None                # "first" / "last": a conformant variation, another purpose next to tcg-kp-AIKCertificate
    tpm_san_extra_dnsname_first: bool = False          # a conformant variation: an additional dNSName before the directoryName
    cd_kwargs: dict = field(default_factory=dict)


@dataclass
class RegResult:
    credential: dict
    roots: dict
    chain: Optional[ca.Chain]
    meta: dict


@dataclass
class _Build:
    """Working state of one build_registration call."""
    req: RegRequest
    faults: set
    chain_faults: set
    cred: core.SimCredential                  # the credential actually registered (a few faults swap its key / id)
    base_time: datetime.datetime
    cdj: bytes = b""
    ad: bytes = b""
    chain: Optional[ca.Chain] = None
    roots: dict = field(default_factory=dict)
    meta: dict = field(default_factory=dict)

    def has(self, fault: str) -> bool:
        return fault in self.faults


# ------------------------------------------------------------------------------------ small helpers

_FIXTURE_KIND = {"secp256r1": "p256", "secp384r1": "p384", "secp521r1": "p521"}
_OTHER_HASH_ALG = {core.RS256: core.RS384, core.RS384: core.RS256, core.RS512: core.RS256, core.RS1: core.RS256,
                   core.PS256: core.PS384, core.PS384: core.PS256, core.PS512: core.PS256,
                   core.ES256: core.ES512, core.ES512: core.ES256}
_OTHER_SCHEME_ALG = {core.RS256: core.PS256, core.RS384: core.PS384, core.RS512: core.PS512, core.RS1: core.PS256,
                     core.PS256: core.RS256, core.PS384: core.RS384, core.PS512: core.RS512,
                     core.ES256: core.ES512, core.ES512: core.ES256}
# the hash webauthn's hash_by_alg picks for a COSE alg (anything unlisted: sha256)
_HASH_BY_ALG = {core.ES256: "sha256", core.PS256: "sha256", core.RS256: "sha256", core.PS384: "sha384",
                core.RS384: "sha384", core.ES512: "sha512", core.PS512: "sha512", core.RS512: "sha512",
                core.RS1: "sha1"}


def _is_ec(key) -> bool:
    return isinstance(key, (ec.EllipticCurvePrivateKey, ec.EllipticCurvePublicKey))


def _is_rsa(key) -> bool:
    return isinstance(key, (rsa.RSAPrivateKey, rsa.RSAPublicKey))


def _fixture_kind(priv) -> str:
    if _is_ec(priv):
        return _FIXTURE_KIND[priv.curve.name]
    return "rsa" if _is_rsa(priv) else "ed25519"


def _spki(key) -> bytes:
    pub = key.public_key() if hasattr(key, "public_key") else key
    return pub.public_bytes(serialization.Encoding.DER, serialization.PublicFormat.SubjectPublicKeyInfo)


def _other_key(priv, *avoid):
    """A fixture private key of the same type (and curve) as `priv`, different from it and from `avoid`."""
    kind = _fixture_kind(priv)
    taken = {_spki(k) for k in (priv,) + avoid if k is not None}
    for idx in reversed(range(keys.COUNTS[kind])):
        candidate = keys.get(kind, idx)
        if _spki(candidate) not in taken:
            return candidate
    raise NotApplicable(f"no spare {kind} fixture key")


def _mapped_alg(table: dict, alg: int, what: str) -> int:
    if alg not in table:
        raise NotApplicable(f"COSE alg {alg} has no {what}")
    return table[alg]


def _without(stmt: dict, b: _Build, drops: dict) -> dict:
    """`stmt` minus the members whose "…-missing" fault is set (`drops`: fault name -> member)."""
    gone = {member for fault, member in drops.items() if b.has(fault)}
    return {k: v for k, v in stmt.items() if k not in gone}


def _other_cdj(b: _Build) -> bytes:
    """A well-formed clientDataJSON that is not the one presented."""
    return core.client_data("webauthn.create", sha256(b"another ceremony" + b.req.challenge), b.req.origin)


def _att_to_be_signed(b: _Build, other_ad_fault: Optional[str], other_cdj_fault: Optional[str]) -> bytes:
    """authenticatorData || SHA-256(clientDataJSON), of the presented values unless the named fault
    says the attestation covers some other authenticator data / client data."""
    ad = _auth_data(b, b.req.counter + 1) if other_ad_fault and b.has(other_ad_fault) else b.ad
    cdj = _other_cdj(b) if other_cdj_fault and b.has(other_cdj_fault) else b.cdj
    return ad + sha256(cdj)


# ------------------------------------------------------------------------------------ ceremony level

def _origin(b: _Build) -> str:
    origin = b.req.origin
    parts = urlsplit(origin)
    port = f":{parts.port}" if parts.port else ""
    if b.has("R.origin-other-host"):
        return f"{parts.scheme}://attacker.example{port}"
    if b.has("R.origin-case"):
        return f"{parts.scheme}://{parts.hostname.upper()}{port}"
    if b.has("R.origin-trailing-slash"):
        return origin + "/"
    if b.has("R.origin-scheme"):
        return f"{'http' if parts.scheme == 'https' else 'https'}://{parts.hostname}{port}"
    if b.has("R.origin-explicit-default-port"):
        if parts.port or parts.scheme not in ("https", "http"):
            raise NotApplicable("needs a web origin without a port")
        return origin + (":443" if parts.scheme == "https" else ":80")
    return origin


def _challenge(b: _Build) -> bytes:
    challenge = b.req.challenge
    if b.has("R.chal-other"):
        return sha256(b"not the issued challenge" + challenge)
    if b.has("R.chal-prefix"):
        return challenge[:-1]
    if b.has("R.chal-extended"):
        return challenge + b"\x00"
    return challenge


def _client_data_json(b: _Build) -> bytes:
    typ = "webauthn.get" if b.has("R.type-get") else "webauthn.other" if b.has("R.type-other") else "webauthn.create"
    kwargs = dict(b.req.cd_kwargs)
    if b.has("R.tb-not-supported"):
        kwargs["token_binding"] = {"status": "not-supported"}
    cdj = core.client_data(typ, _challenge(b), _origin(b), **kwargs)
    if b.has("R.cdj-undecodable-byte-in-origin"):
        cdj = cdj.replace(b"https://", b"https://\xff", 1) if b"https://" in cdj else cdj + b"\xff"
    if b.has("R.cdj-undecodable-byte-in-type"):
        cdj = cdj.replace(b"webauthn.", b"webauthn.\xfe", 1) if b"webauthn." in cdj else cdj + b"\xfe"
    return cdj


def _std_alphabet_cred_id(cred_id: bytes) -> bytes:
    """`cred_id` if its base64url text already has '-' or '_', else the same with a 3-byte prefix that encodes to "-_-_"."""
    if set(b64url(cred_id)) & set("-_"):
        return cred_id
    return b"\xfb\xff\xbf" + cred_id[3:]


def _swap_key(cred: core.SimCredential, kind: str) -> core.SimCredential:
    priv = keys.get(kind, 3)
    return dataclasses.replace(cred, priv=priv, alg=core.algs_for(priv)[0], pad_to=None)


def _effective_credential(req: RegRequest, faults: set) -> core.SimCredential:
    """req.cred, except where a fault is about the credential's key type or its id bytes."""
    cred = req.cred
    if "U.credkey-okp" in faults:
        cred = _swap_key(cred, "ed25519")
    if "U.credkey-rsa" in faults or ("T.type-ecc-key-rsa" in faults and not _is_rsa(cred.priv)):
        cred = _swap_key(cred, "rsa")
    if "T.type-rsa-key-ec" in faults and not _is_ec(cred.priv):
        cred = _swap_key(cred, "p256")
    if "R.credid-empty" in faults:
        cred = dataclasses.replace(cred, cred_id=b"")
    if "R.id-std-alphabet" in faults:
        cred = dataclasses.replace(cred, cred_id=_std_alphabet_cred_id(cred.cred_id))
    return cred


def _rp_id_hash(b: _Build) -> bytes:
    rp_id = b.req.rp_id
    if b.has("R.rpid-other"):
        rp_id = "other-rp.example"
    if b.has("R.rpid-uppercase"):
        rp_id = rp_id.upper()
    if b.has("R.rpid-hash-of-origin"):
        rp_id = _origin(b)             # a U2F AppID: the origin, not the RP ID
    # the hash of a *different string* that some would call "the same domain": only meaningful when it differs
    if b.has("R.rpid-hash-of-lowercase"):
        if rp_id.lower() == rp_id:
            raise NotApplicable("needs an expected RP ID with upper-case letters")
        rp_id = rp_id.lower()
    if b.has("R.rpid-hash-of-idna-form"):
        try:
            alabel = rp_id.encode("idna").decode("ascii")
        except UnicodeError:
            raise NotApplicable("RP ID has no IDNA form")
        if alabel == rp_id:
            raise NotApplicable("needs a non-ASCII expected RP ID")
        rp_id = alabel
    return sha256(rp_id.encode("utf-8"))


def _flags(b: _Build) -> int:
    flags = b.req.flags | AT | (ED if b.req.ext is not None else 0)
    for fault, bit in (("R.up-clear", UP), ("R.uv-clear", UV), ("R.at-clear", AT), ("R.at-clear-data-present", AT)):
        if b.has(fault):
            flags &= ~bit
    if b.has("R.bs-without-be"):
        flags = (flags | BS) & ~BE
    return flags


def _aaguid(b: _Build) -> bytes:
    if b.req.fmt != "fido-u2f":
        return b.cred.aaguid
    if b.has("U.aaguid-nonzero") or b.has("U.aaguid-nonzero-as-in-cert-extension"):
        return b.cred.aaguid if any(b.cred.aaguid) else bytes(range(1, 17))
    return bytes(16)                                    # CTAP1/U2F authenticators have no AAGUID


def _auth_data(b: _Build, counter: int) -> bytes:
    cose = None if b.has("R.at-clear") else b.cred.cose()
    if b.has("T.cose-exponent-above-uint32") and cose is not None:
        # the credential's COSE key states an RSA exponent that does not fit TPMS_RSA_PARMS' UINT32: it cannot equal
        # whatever pubArea says
        if not _is_rsa(b.cred.priv):
            raise NotApplicable("RSA exponent fault with a non-RSA credential key")
        cose = b.cred.cose(extra={-2: (2 ** 32 + 1).to_bytes(5, "big")})
    return core.auth_data(_rp_id_hash(b), _flags(b), counter, aaguid=_aaguid(b), cred_id=b.cred.cred_id, cose=cose,
                          ext=b.req.ext)


def _credential_id_text(b: _Build) -> str:
    raw = b.cred.cred_id
    if b.has("R.id-other-credential"):
        return b64url(sha256(b"some other credential" + raw))
    if b.has("R.id-padded"):
        return b64url(raw) + ("=" * (-len(b64url(raw)) % 4) or "=")
    if b.has("R.id-std-alphabet"):
        return base64.b64encode(raw).rstrip(b"=").decode("ascii")
    return b64url(raw)


def _attestation_object(b: _Build, att_stmt: dict) -> bytes:
    fmt = FMT_STRING[b.req.fmt]
    if b.has("R.fmt-unknown"):
        fmt = "foo"
    if b.has("R.fmt-nontext"):
        fmt = fmt.encode("ascii")                       # CBOR byte string instead of text string
    b.meta.update(fmt=fmt, att_stmt=att_stmt)
    obj = {"fmt": fmt, "attStmt": att_stmt, "authData": b.ad}
    if b.req.attobj_order:
        obj = core.reorder(obj, b.req.attobj_order)
    if b.req.attobj_extra:
        obj.update(b.req.attobj_extra)
    return cbor2.dumps(obj)


def _credential(b: _Build, attestation_object: bytes) -> dict:
    if b.has("U.sig-other-credid-rawid-follows"):
        # the signature covers another key handle, and the PublicKeyCredential's own id / rawId name that
        # other handle too; only the authenticator data still carries the real credential id
        other = sha256(b"some other key handle" + b.cred.cred_id)
        return {"id": b64url(other), "raw_id": other, "type": "public-key", "client_data_json": b.cdj,
                "attestation_object": attestation_object, "transports": None}
    if b.req.envelope_id is not None:
        return {"id": b64url(b.req.envelope_id), "raw_id": b.req.envelope_id, "type": "public-key", "client_data_json": b.cdj,
                "attestation_object": attestation_object, "transports": None}
    return {"id": _credential_id_text(b), "raw_id": b.cred.cred_id,
            "type": "other" if b.has("R.cred-type") else "public-key",
            "client_data_json": b.cdj, "attestation_object": attestation_object, "transports": None}


# ------------------------------------------------------------------------------------ certificate chains

def _chain(b: _Build, leaf_priv, **kwargs) -> ca.Chain:
    """Attestation chain whose leaf certifies `leaf_priv`'s public key; records chain and trust roots."""
    chain = b.req.reuse_chain or ca.build_chain(leaf_priv.public_key(), leaf_privkey=leaf_priv, n_intermediates=b.req.n_intermediates,
                                                base_time=b.base_time, faults=b.chain_faults, validity=b.req.chain_validity,
                                                key_ids=bool(b.req.stale_same_name_anchor), **kwargs)
    b.chain = chain
    b.roots = {FMT_STRING[b.req.fmt]: [chain.root_pem()]}
    if b.req.stale_same_name_anchor and not b.req.reuse_chain:
        from cryptography.hazmat.primitives import serialization as _ser
        stale = ca.stale_root_same_name(b.base_time).public_bytes(_ser.Encoding.PEM)
        cur = b.roots[FMT_STRING[b.req.fmt]]
        b.roots[FMT_STRING[b.req.fmt]] = [stale] + cur if b.req.stale_same_name_anchor == "first" else cur + [stale]
    return chain


def _x5c(b: _Build, include_root: bool = False) -> list:
    return b.chain.x5c(order=b.req.chain_order, extras=b.req.chain_extras, include_root=include_root)


# ------------------------------------------------------------------------------------ none

def _none_member_value(b: _Build, member: str):
    """Something plausible for an attestation-statement member that "none" must not carry."""
    att_key = keys.get("p256", 1)
    if member == "sig":
        return core.sign(att_key, core.ES256, b.ad + sha256(b.cdj))
    if member == "x5c":
        return [ca.make_cert("Sim Stray Attestation", None, att_key, att_key.public_key(), ca=False)
                .public_bytes(serialization.Encoding.DER)]
    if member == "certInfo":
        return tpm.encode_cert_info(extra_data=sha256(b.ad + sha256(b.cdj)), attested_name=tpm.tpm_name(b"\x00"))
    if member == "pubArea":
        numbers = att_key.public_key().public_numbers()
        return tpm.encode_pub_area("ecc", x=numbers.x.to_bytes(32, "big"), y=numbers.y.to_bytes(32, "big"))
    return {"alg": core.ES256, "ver": "2.0", "response": b"e30.e30.AA"}[member]


def _none(b: _Build) -> dict:
    stmt = {m: _none_member_value(b, m) for m in _NONE_MEMBERS if b.has(f"R.none-with-{m}")}
    if b.has("R.none-with-unknown-member"):
        stmt["foo"] = 1
    return stmt


# ------------------------------------------------------------------------------------ packed

AAGUID_EXT_OID = x509.ObjectIdentifier("1.3.6.1.4.1.45724.1.1.4")   # id-fido-gen-ce-aaguid


def _packed_signature(b: _Build, key, alg: int) -> bytes:
    """Signature for attStmt alg `alg` by the attestation key `key`, modulo the P.* signature faults."""
    signer = _other_key(key, b.cred.priv) if b.has("P.sig-other-key") else key
    sign_alg = _mapped_alg(_OTHER_SCHEME_ALG, alg, "other signature scheme") if b.has("P.scheme-mismatch") else alg
    data = _att_to_be_signed(b, "P.sig-other-authdata", "P.sig-other-cdj")
    b.meta.update(att_key=key, att_alg=alg, signer=signer, sign_alg=sign_alg, signed_data=data)
    return core.sign(signer, sign_alg, data)


def _packed(b: _Build) -> dict:
    key = b.req.att_key or keys.get("p256", 1)
    alg = b.req.att_alg if b.req.att_alg is not None else core.algs_for(key)[0]
    certified = _other_key(key, b.cred.priv) if b.has("P.x5c-leaf-not-signer") else key
    subject = ca.name("Sim Packed Attestation", c="US", o="Sim Authenticators", ou="Authenticator Attestation")
    aaguid_ext = (x509.UnrecognizedExtension(AAGUID_EXT_OID, b"\x04\x10" + b.cred.aaguid), False)
    _chain(b, certified, leaf_subject=subject, leaf_extensions=[aaguid_ext])
    stmt = {"alg": alg, "sig": _packed_signature(b, key, alg), "x5c": _x5c(b)}
    return _without(stmt, b, {"P.sig-missing": "sig", "P.alg-missing": "alg"})


def _packed_self(b: _Build) -> dict:
    alg = b.cred.alg
    if b.has("P.self-alg-disagrees"):
        alg = _mapped_alg(_OTHER_HASH_ALG, alg, "sibling algorithm for the same key type")
    stmt = {"alg": alg, "sig": _packed_signature(b, b.cred.priv, alg)}
    return _without(stmt, b, {"P.sig-missing": "sig", "P.alg-missing": "alg"})


# ------------------------------------------------------------------------------------ fido-u2f

def _u2f_public_key(pub) -> bytes:
    """Raw ANSI X9.62 uncompressed point for EC keys; for the wrong-key-type faults, the key's raw bytes."""
    if _is_ec(pub):
        size = (pub.curve.key_size + 7) // 8
        numbers = pub.public_numbers()
        return b"\x04" + numbers.x.to_bytes(size, "big") + numbers.y.to_bytes(size, "big")
    if _is_rsa(pub):
        numbers = pub.public_numbers()
        return numbers.n.to_bytes((numbers.n.bit_length() + 7) // 8, "big") + numbers.e.to_bytes(3, "big")
    return pub.public_bytes(serialization.Encoding.Raw, serialization.PublicFormat.Raw)


def _other_key_handle(b: _Build) -> bytes:
    return sha256(b"some other key handle" + b.cred.cred_id)


def _u2f_verification_data(b: _Build) -> bytes:
    reserved = b"" if b.has("U.sig-no-reserved-byte") else b"\x00"
    rp_id_hash = sha256(b"some other application") if b.has("U.sig-other-rpidhash") else _rp_id_hash(b)
    cdj = _other_cdj(b) if b.has("U.sig-other-cdj") else b.cdj
    cred_id = _other_key_handle(b) if b.has("U.sig-other-credid") or b.has("U.sig-other-credid-rawid-follows") else b.cred.cred_id
    pub = _other_key(b.cred.priv).public_key() if b.has("U.sig-other-pubkey") else b.cred.pub
    return reserved + rp_id_hash + sha256(cdj) + cred_id + _u2f_public_key(pub)


def _u2f_attestation_key(b: _Build):
    if b.has("U.leaf-rsa"):
        return keys.get("rsa", 1)
    if b.has("U.leaf-p384"):
        return keys.get("p384", 0)
    if b.has("U.leaf-secp256k1"):                       # 256-bit curves that are not P-256
        return keys.get("secp256k1", 0)
    if b.has("U.leaf-brainpoolp256r1"):
        return keys.get("brainpoolp256r1", 0)
    return b.req.att_key or keys.get("p256", 1)


def _u2f(b: _Build) -> dict:
    key = _u2f_attestation_key(b)
    signer = _other_key(key, b.cred.priv) if b.has("U.sig-other-key") else key
    data = _u2f_verification_data(b)
    exts = []
    if b.has("U.aaguid-nonzero-as-in-cert-extension"):
        # the attestation certificate names the authenticator model (id-fido-gen-ce-aaguid) and the authenticator data carries
        # that same, non-zero AAGUID: for fido-u2f the AAGUID must still be zero (the U2F signature does not cover it)
        exts = [(x509.UnrecognizedExtension(x509.ObjectIdentifier("1.3.6.1.4.1.45724.1.1.4"), b"\x04\x10" + _aaguid(b)), False)]
    _chain(b, key, leaf_subject=ca.name("Sim U2F Attestation", c="US", o="Sim Authenticators"), leaf_extensions=exts)
    x5c = _x5c(b) + ([b.chain.root.public_bytes(serialization.Encoding.DER)] if b.has("U.x5c-two") else [])
    sign_alg = core.RS256 if _is_rsa(signer) else core.ES256    # U2F signatures are ECDSA/SHA-256
    b.meta.update(att_key=key, signer=signer, signed_data=data, verification_data=data)
    stmt = {"sig": core.sign(signer, sign_alg, data), "x5c": x5c}
    return _without(stmt, b, {"U.sig-missing": "sig", "U.x5c-missing": "x5c"})


# ------------------------------------------------------------------------------------ tpm

TCG_AT_TPM_MANUFACTURER = x509.ObjectIdentifier("2.23.133.2.1")
TCG_AT_TPM_MODEL = x509.ObjectIdentifier("2.23.133.2.2")
TCG_AT_TPM_VERSION = x509.ObjectIdentifier("2.23.133.2.3")
TCG_KP_AIK_CERTIFICATE = x509.ObjectIdentifier("2.23.133.8.3")
_OTHER_NAME_ALG = {tpm.TPM_ALG_SHA1: tpm.TPM_ALG_SHA256, tpm.TPM_ALG_SHA256: tpm.TPM_ALG_SHA384,
                   tpm.TPM_ALG_SHA384: tpm.TPM_ALG_SHA256, tpm.TPM_ALG_SHA512: tpm.TPM_ALG_SHA256}


def _tpm_described_key(b: _Build):
    """The public key pubArea describes: the credential's, unless the fault is that the types differ."""
    if b.has("T.type-rsa-key-ec"):
        return b.req.cred.pub if _is_rsa(b.req.cred.priv) else keys.get("rsa", 3).public_key()
    if b.has("T.type-ecc-key-rsa"):
        return b.req.cred.pub if _is_ec(b.req.cred.priv) else keys.get("p256", 3).public_key()
    return b.cred.pub


def _tpm_rsa_pub_area(b: _Build, pub) -> bytes:
    if b.has("T.unique-ne-xy") or b.has("T.curve-ne") or any(b.has(f) for f in _UNMAPPED_CURVES):
        raise NotApplicable("ECC pubArea fault with an RSA key")
    shown = _other_key(b.cred.priv).public_key() if b.has("T.unique-ne-modulus") else pub
    n, e = shown.public_numbers().n, pub.public_numbers().e
    exponent = 0 if e == 65537 else e                  # TPMs write 0 for the default exponent 2^16+1
    if b.has("T.exponent-ne"):
        exponent = 3 if e != 3 else 5
    if b.has("T.exponent-zero-key-e-ne-default"):
        if e == 65537:
            raise NotApplicable("needs a credential key whose exponent is not 2^16+1")
        exponent = 0                                   # "0" means 65537, which is not this key's exponent
    size = b.cred.pad_to or (n.bit_length() + 7) // 8
    return tpm.encode_pub_area("rsa", name_alg=_tpm_name_alg(b), key_bits=pub.key_size, exponent=exponent,
                               modulus=n.to_bytes(size, "big"))


# TPM_ECC_CURVE identifiers the TPM parser knows but that have no COSE curve: the pubArea then
# cannot agree with any credential key
_UNMAPPED_CURVES = {"T.curve-unmapped-none": 0x0000, "T.curve-unmapped-p192": 0x0001, "T.curve-unmapped-p224": 0x0002,
                    "T.curve-unmapped-bn638": 0x0011}


def _tpm_ecc_pub_area(b: _Build, pub) -> bytes:
    if b.has("T.unique-ne-modulus") or b.has("T.exponent-ne") or b.has("T.exponent-zero-key-e-ne-default"):
        raise NotApplicable("RSA pubArea fault with an EC key")
    shown = _other_key(b.cred.priv).public_key() if b.has("T.unique-ne-xy") else pub
    curve_id = tpm.CURVE_ID[pub.curve.name]
    if b.has("T.curve-ne"):
        curve_id = tpm.TPM_ECC_NIST_P384 if curve_id == tpm.TPM_ECC_NIST_P256 else tpm.TPM_ECC_NIST_P256
    for f, cid in _UNMAPPED_CURVES.items():
        if b.has(f):
            curve_id = cid
    size = b.cred.pad_to or (pub.curve.key_size + 7) // 8
    numbers = shown.public_numbers()
    return tpm.encode_pub_area("ecc", name_alg=_tpm_name_alg(b), curve_id=curve_id,
                               x=numbers.x.to_bytes(size, "big"), y=numbers.y.to_bytes(size, "big"))


def _tpm_pub_area(b: _Build) -> bytes:
    pub = _tpm_described_key(b)
    if _is_rsa(pub):
        return _tpm_rsa_pub_area(b, pub)
    if _is_ec(pub):
        return _tpm_ecc_pub_area(b, pub)
    raise NotApplicable("TPM attestation certifies RSA or ECC keys only")


# TPM_ALG identifiers the TPM parser knows but that name no hash the library can compute
_UNMAPPED_NAME_ALGS = {"T.namealg-unmapped-sm3": 0x0012, "T.namealg-unmapped-null": 0x0010}


def _tpm_name_alg(b: _Build) -> int:
    for f, a in _UNMAPPED_NAME_ALGS.items():
        if b.has(f):
            return a
    return b.req.tpm_name_alg


def _tpm_attested_name(b: _Build, pub_area: bytes) -> bytes:
    name_alg = b.req.tpm_name_alg
    if _tpm_name_alg(b) != name_alg:
        return _tpm_name_alg(b).to_bytes(2, "big") + tpm.name_digest(pub_area, name_alg)
    prefix = name_alg.to_bytes(2, "big")
    if b.has("T.name-digest-wrong"):
        return prefix + tpm.name_digest(b"some other object" + pub_area, name_alg)
    if b.has("T.name-digest-other-alg"):
        return prefix + tpm.name_digest(pub_area, _OTHER_NAME_ALG[name_alg])
    if b.has("T.name-prefix-ne-namealg"):
        other = tpm.TPM_ALG_SHA1 if name_alg != tpm.TPM_ALG_SHA1 else tpm.TPM_ALG_SHA256
        return other.to_bytes(2, "big") + tpm.name_digest(pub_area, name_alg)
    return tpm.tpm_name(pub_area, name_alg)


def _tpm_cert_info(b: _Build, pub_area: bytes, alg: int, clock: int) -> bytes:
    hash_name = _HASH_BY_ALG.get(alg, "sha256")
    if b.has("T.extradata-other-hash"):
        hash_name = "sha384" if hash_name == "sha256" else "sha256"
    to_be_signed = _att_to_be_signed(b, "T.extradata-other-authdata", "T.extradata-other-cdj")
    return tpm.encode_cert_info(
        magic=0xFF544348 if b.has("T.magic") else tpm.TPM_GENERATED_VALUE,
        type=tpm.TPM_ST_ATTEST_QUOTE if b.has("T.type-quote") else tpm.TPM_ST_ATTEST_CERTIFY,
        qualified_signer=tpm.tpm_name(b"sim AIK qualified name"), extra_data=hashlib.new(hash_name, to_be_signed).digest(),
        clock=clock.to_bytes(8, "big"), reset_count=7, restart_count=3, firmware_version=bytes.fromhex("0001000200030004"),
        attested_name=_tpm_attested_name(b, pub_area), attested_qualified_name=tpm.tpm_name(b"sim key qualified name"))


def _tpm_san(b: _Build) -> x509.SubjectAlternativeName:
    attrs = [("T.san-no-manufacturer", TCG_AT_TPM_MANUFACTURER, "id:FFFFFFFF" if b.has("T.vendor-unknown") else b.req.tpm_vendor),
             ("T.san-no-model", TCG_AT_TPM_MODEL, "SimTPM"),
             ("T.san-no-version", TCG_AT_TPM_VERSION, "id:00010000")]
    directory = x509.Name([x509.NameAttribute(oid, value) for fault, oid, value in attrs if not b.has(fault)])
    if b.req.tpm_san_extra_dnsname_first:               # the TPM attributes are there, but not in the first general name
        return x509.SubjectAlternativeName([x509.DNSName("tpm.example.com"), x509.DirectoryName(directory)])
    if b.has("T.san-uri-only"):                         # a SAN that carries no directoryName at all
        return x509.SubjectAlternativeName([x509.UniformResourceIdentifier("urn:tpm:simulated")])
    return x509.SubjectAlternativeName([x509.DirectoryName(directory)])


def _tpm_aik_profile(b: _Build) -> dict:
    """build_chain keyword arguments for an AIK certificate per WebAuthn §8.3.1, modulo the T.* certificate faults."""
    eku = [TCG_KP_AIK_CERTIFICATE]
    if b.has("T.eku-without-aik"):
        eku = [ExtendedKeyUsageOID.SERVER_AUTH, ExtendedKeyUsageOID.CLIENT_AUTH]
    elif b.req.tpm_eku_extra == "first":          # conformant: the extension "MUST contain" the AIK purpose
        eku.insert(0, ExtendedKeyUsageOID.CLIENT_AUTH)
    elif b.req.tpm_eku_extra == "last":
        eku.append(ExtendedKeyUsageOID.CLIENT_AUTH)
    extensions = []
    if not b.has("T.san-missing"):
        extensions.append((_tpm_san(b), True))
    if not b.has("T.eku-missing"):
        extensions.append((x509.ExtendedKeyUsage(eku), False))
    if b.has("T.bc-ca-true"):
        extensions.append((x509.BasicConstraints(ca=True, path_length=None), True))
    return {"leaf_subject": ca.name("Sim AIK") if b.has("T.subject-nonempty") else ca.name(),
            "leaf_extensions": extensions, "leaf_version": 1 if b.has("T.cert-v1") else 3,
            "leaf_ca": None if b.has("T.bc-missing") or b.has("T.bc-ca-true") else False}


def _tpm(b: _Build) -> dict:
    aik = b.req.att_key or keys.get("rsa", 1)
    alg = b.req.att_alg if b.req.att_alg is not None else core.algs_for(aik)[0]
    pub_area = _tpm_pub_area(b)
    cert_info = _tpm_cert_info(b, pub_area, alg, clock=1000 + b.req.counter)
    signed = _tpm_cert_info(b, pub_area, alg, clock=2000 + b.req.counter) if b.has("T.sig-other-certinfo") else cert_info
    signer = _other_key(aik, b.cred.priv) if b.has("T.sig-other-key") else aik
    _chain(b, aik, **_tpm_aik_profile(b))
    b.meta.update(att_key=aik, att_alg=alg, signer=signer, signed_data=signed, cert_info=cert_info, pub_area=pub_area)
    if b.has("T.certinfo-size-prefixed"):
        # what is presented - and genuinely signed - as certInfo is a TPM2B_ATTEST (2-byte size, then the structure): the signed
        # octets then do not begin with TPM_GENERATED_VALUE
        cert_info = signed = len(cert_info).to_bytes(2, "big") + cert_info
    import decimal as _dec
    ver = "2.0"
    for f, v in (("T.ver-1.2", "1.2"), ("T.ver-float-2.0", 2.0), ("T.ver-decimal-2.0", _dec.Decimal("2.0")), ("T.ver-int-2", 2),
                 ("T.ver-bytes-2.0", b"2.0"), ("T.ver-list-of-text", ["2.0"])):
        if b.has(f):
            ver = v
    stmt = {"ver": ver, "alg": alg, "x5c": _x5c(b),
            "sig": core.sign(signer, alg, signed), "certInfo": cert_info, "pubArea": pub_area}
    return _without(stmt, b, {"T.certinfo-missing": "certInfo", "T.pubarea-missing": "pubArea", "T.alg-missing": "alg",
                              "T.x5c-missing": "x5c", "T.sig-missing": "sig"})


# ------------------------------------------------------------------------------------ apple

APPLE_NONCE_OID = x509.ObjectIdentifier("1.2.840.113635.100.8.2")
_APPLE_NONCE_DER_PREFIX = bytes.fromhex("3024a1220420")    # SEQUENCE { [1] { OCTET STRING (32) ...


def _apple(b: _Build) -> dict:
    certified = _other_key(b.cred.priv) if b.has("AP.certkey-ne-credkey") else b.cred.priv
    nonce_to_hash = _att_to_be_signed(b, "AP.nonce-other-authdata", "AP.nonce-other-cdj")
    nonce = sha256(nonce_to_hash)
    extensions = []
    if not b.has("AP.nonce-ext-missing"):
        extensions.append((x509.UnrecognizedExtension(APPLE_NONCE_OID, _APPLE_NONCE_DER_PREFIX + nonce), False))
    subject = ca.name(sha256(_spki(certified)).hex(), o="Sim Apple", ou="AAA Certification")
    _chain(b, certified, leaf_subject=subject, leaf_extensions=extensions)
    b.meta.update(nonce=nonce, nonce_to_hash=nonce_to_hash, certified_key=certified)
    return {} if b.has("AP.x5c-missing") else {"x5c": _x5c(b)}


# ------------------------------------------------------------------------------------ android-key

KEY_DESCRIPTION_OID = x509.ObjectIdentifier(android_asn1.KEY_DESCRIPTION_OID)
_KU_DIGITAL_SIGNATURE = x509.KeyUsage(digital_signature=True, content_commitment=False, key_encipherment=False,
                                      data_encipherment=False, key_agreement=False, key_cert_sign=False,
                                      crl_sign=False, encipher_only=False, decipher_only=False)
_KM_EC_CURVE = {"secp256r1": 1, "secp384r1": 2, "secp521r1": 3}


def _keymaster_key_params(pub) -> dict:
    if _is_rsa(pub):
        return {"algorithm": android_asn1.KM_ALGORITHM_RSA, "keySize": pub.key_size,
                "rsaPublicExponent": pub.public_numbers().e}
    if _is_ec(pub):
        return {"algorithm": android_asn1.KM_ALGORITHM_EC, "keySize": pub.curve.key_size,
                "ecCurve": _KM_EC_CURVE[pub.curve.name]}
    return {"algorithm": android_asn1.KM_ALGORITHM_EC, "keySize": 256, "ecCurve": 4}     # CURVE_25519


def _key_description(b: _Build, pub) -> bytes:
    challenge = sha256(_other_cdj(b) if b.has("K.challenge-ne-cdjhash") else b.cdj)
    purpose = {android_asn1.KM_PURPOSE_SIGN}
    if b.has("K.purpose-sign-verify"):
        purpose = {android_asn1.KM_PURPOSE_SIGN, android_asn1.KM_PURPOSE_VERIFY}
    if b.has("K.purpose-verify"):
        purpose = {android_asn1.KM_PURPOSE_VERIFY}
    origin = android_asn1.KM_ORIGIN_IMPORTED if b.has("K.origin-imported") else android_asn1.KM_ORIGIN_GENERATED
    software = {"creationDateTime": int(b.base_time.timestamp() * 1000),
                "attestationApplicationId": b"com.example.sim", "allApplications": b.has("K.allapps-software") or None}
    origin_sw = b.has("K.origin-software-only") or b.has("K.origin-and-purpose-software-only")
    purpose_sw = b.has("K.purpose-software-only") or b.has("K.origin-and-purpose-software-only")
    if origin_sw:
        software["origin"] = origin
    if purpose_sw:
        software["purpose"] = purpose
    tee = {"purpose": None if b.has("K.purpose-absent") or purpose_sw else purpose, **_keymaster_key_params(pub),
           "digest": {android_asn1.KM_DIGEST_SHA_2_256}, "noAuthRequired": True,
           "allApplications": b.has("K.allapps-tee") or None, "origin": None if b.has("K.origin-absent") or origin_sw else origin,
           "osVersion": 130000, "osPatchLevel": 202401}
    return android_asn1.encode_key_description(challenge, software_enforced=software, tee_enforced=tee)


def _android_key(b: _Build) -> dict:
    certified = _other_key(b.cred.priv) if b.has("K.certkey-ne-credkey") else b.cred.priv
    signer = _other_key(certified, b.cred.priv) if b.has("K.sig-other-key") else certified
    alg = b.req.att_alg if b.req.att_alg is not None else b.cred.alg
    data = _att_to_be_signed(b, "K.sig-other-data", None)
    extensions = [(_KU_DIGITAL_SIGNATURE, True)]
    if not b.has("K.keydesc-missing"):
        key_description = _key_description(b, certified.public_key())
        extensions.append((x509.UnrecognizedExtension(KEY_DESCRIPTION_OID, key_description), False))
        b.meta.update(key_description=key_description)
    stranger = keys.get("p384", 0) if b.has("K.chain-broken") else None
    _chain(b, certified, leaf_subject=ca.name("Android Keystore Key"), leaf_extensions=extensions, leaf_ca=None,
           leaf_issuer_key_override=stranger)
    if b.has("K.root-unknown"):
        b.roots = {}
    b.meta.update(att_alg=alg, signer=signer, signed_data=data, certified_key=certified)
    stmt = {"alg": alg, "sig": core.sign(signer, alg, data), "x5c": _x5c(b, include_root=True)}
    return _without(stmt, b, {"K.sig-missing": "sig", "K.alg-missing": "alg", "K.x5c-missing": "x5c"})


# ------------------------------------------------------------------------------------ android-safetynet

def _snet_timestamp(b: _Build, shift: int) -> int:
    """timestampMs is milliseconds since the epoch; the unit-confusion faults put the right instant in the wrong unit (which,
    read as milliseconds, is decades away from the verifier's clock)"""
    t = b.base_time.timestamp() + shift + b.req.snet_ts_shift_ms / 1000.0
    if b.has("S.ts-in-seconds"):
        return int(t)
    if b.has("S.ts-in-microseconds"):
        return int(t * 1_000_000)
    if b.has("S.ts-zero"):
        return 0
    if b.has("S.ts-nan"):
        return float("nan")         # json.dumps writes NaN, json.loads reads it back: not an instant at all
    if b.has("S.ts-minus-infinity"):
        return float("-inf")
    return int(t * 1000)


def _compact_json(obj) -> bytes:
    return json.dumps(obj, separators=(",", ":")).encode("utf-8")


def _safetynet_payload(b: _Build) -> dict:
    shift = -60 if b.has("S.ts-past") else 60 if b.has("S.ts-future") else 0
    payload = {"nonce": base64.b64encode(sha256(_att_to_be_signed(b, "S.nonce-other-data", None))).decode("ascii"),
               "timestampMs": _snet_timestamp(b, shift),
               "apkPackageName": "com.google.android.gms",
               "apkDigestSha256": base64.b64encode(sha256(b"sim apk")).decode("ascii"),
               "ctsProfileMatch": True,
               "apkCertificateDigestSha256": [base64.b64encode(sha256(b"sim apk certificate")).decode("ascii")],
               "basicIntegrity": not b.has("S.basicintegrity-false")}
    if b.has("S.basicintegrity-string-false"):
        payload["basicIntegrity"] = "false"          # not the JSON value true
    if b.has("S.basicintegrity-null-string"):
        payload["basicIntegrity"] = "null"
    if b.has("S.basicintegrity-missing"):
        del payload["basicIntegrity"]
    if b.req.snet_payload_pad:
        payload["advice"] = "x" * (b.req.snet_payload_pad - 1)
    return payload


def _safetynet_jws(b: _Build, key, x5c: list) -> bytes:
    header = {"alg": "ES256" if b.has("S.alg-es256") else "RS256",
              "x5c": [base64.b64encode(der).decode("ascii") for der in x5c]}
    payload = _safetynet_payload(b)
    header64, payload64 = b64url(_compact_json(header)), b64url(_compact_json(payload))
    signer = _other_key(key, b.cred.priv) if b.has("S.sig-other-key") else key
    signature = core.sign(signer, core.RS256, f"{header64}.{payload64}".encode("ascii"))
    if b.has("S.payload-altered"):                      # the one change made after signing, by definition
        payload = {**payload, "apkPackageName": "com.example.repackaged"}
        payload64 = b64url(_compact_json(payload))
    parts = [header64, payload64, b64url(signature)]
    if b.has("S.jws-two-parts"):
        parts = parts[:2]
    if b.has("S.jws-four-parts"):
        parts.append(b64url(b"trailer"))
    b.meta.update(att_key=key, signer=signer, jws_header=header, jws_payload=payload, jws_signature=signature,
                  jws_parts=parts, nonce=payload["nonce"])
    return ".".join(parts).encode("ascii")


def _safetynet(b: _Build) -> dict:
    key = b.req.att_key or keys.get("rsa", 2)
    if not _is_rsa(key):
        raise ValueError("SafetyNet responses are signed RS256: att_key must be RSA")
    host = "attest.example.com" if b.has("S.cn-other") else "attest.android.com"
    if b.has("S.cn-missing"):
        host = None                                     # a subject with C and O only: it is certainly not attest.android.com
    _chain(b, key, leaf_subject=ca.name(host, c="US", o="Sim Google"))
    stmt = {"ver": "14799021", "response": _safetynet_jws(b, key, _x5c(b))}
    return _without(stmt, b, {"S.ver-missing": "ver", "S.response-missing": "response"})


# ------------------------------------------------------------------------------------ entry point

_STATEMENT_BUILDERS = {"none": _none, "packed": _packed, "packed-self": _packed_self, "fido-u2f": _u2f, "tpm": _tpm,
                       "apple": _apple, "android-key": _android_key, "android-safetynet": _safetynet}


def _split_faults(req: RegRequest):
    """(ceremony/format faults, chain faults) after checking each is known and applies to req.fmt."""
    if req.fmt not in _STATEMENT_BUILDERS:
        raise ValueError(f"unknown format {req.fmt!r}")
    given = set(req.faults) | set(req.chain_faults)
    chain_faults = {f for f in given if f.startswith("C.")}
    faults = given - chain_faults
    stray = faults - set(applicable(req.fmt))
    if stray:
        raise ValueError(f"faults not applicable to {req.fmt}: {sorted(stray)}")
    if chain_faults and req.fmt not in CHAIN_FORMATS:
        raise ValueError(f"{req.fmt} has no certificate chain to apply {sorted(chain_faults)} to")
    return faults, chain_faults


def build_registration(req: RegRequest) -> RegResult:
    faults, chain_faults = _split_faults(req)
    b = _Build(req=req, faults=faults, chain_faults=chain_faults, cred=_effective_credential(req, faults),
               base_time=req.base_time or ca.now())
    b.cdj = _client_data_json(b)
    b.ad = _auth_data(b, req.counter)
    att_stmt = _STATEMENT_BUILDERS[req.fmt](b)
    attestation_object = _attestation_object(b, att_stmt)
    b.meta.update(auth_data=b.ad, client_data_json=b.cdj, client_data_hash=sha256(b.cdj), credential=b.cred,
                  rp_id_hash=_rp_id_hash(b), flags=_flags(b), faults=sorted(faults | chain_faults))
    return RegResult(credential=_credential(b, attestation_object), roots=b.roots, chain=b.chain, meta=b.meta)
