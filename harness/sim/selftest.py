"""Self-test of the registration simulator against webauthn.verify_registration_response.

    cd /verif && /venv/bin/python -m harness.sim.selftest [-v]

For every format x several credential / attestation key choices: the unfaulted response must be
ACCEPTED; then every applicable fault is applied singly and the verdict recorded.  A rejection must
be for the reason the fault names (EXPECTED_REASON) - anything else means the builder broke
something it should not have, and the run fails.  Faults the library ACCEPTS are listed at the end;
they are library behaviour, not hidden and not worked around."""
import sys
from collections import OrderedDict

sys.path.insert(0, "/repo")

from cryptography import x509                                                        # noqa: E402
from cryptography.hazmat.primitives import serialization                             # noqa: E402
from OpenSSL.crypto import X509, X509Store, X509StoreContext, X509StoreContextError  # noqa: E402

import webauthn                                                                      # noqa: E402
from webauthn.helpers import validate_certificate_chain                              # noqa: E402
from webauthn.helpers.exceptions import InvalidCertificateChain                      # noqa: E402
from webauthn.helpers.structs import (AttestationFormat, AuthenticatorAttestationResponse,   # noqa: E402
                                      RegistrationCredential)
from webauthn.helpers.tpm import parse_cert_info, parse_pub_area                     # noqa: E402

from . import attest, ca, core, keys, tpm                                            # noqa: E402
from .attest import NotApplicable, RegRequest, build_registration                    # noqa: E402

SIG = "Could not verify attestation statement signature"
EXPECTED_REASON = {
    # ceremony
    "R.type-get": "Unexpected client data type", "R.type-other": "Unexpected client data type",
    "R.chal-other": "challenge was not expected", "R.chal-prefix": "challenge was not expected",
    "R.chal-extended": "challenge was not expected",
    "R.origin-other-host": "Unexpected client data origin", "R.origin-case": "Unexpected client data origin",
    "R.origin-trailing-slash": "Unexpected client data origin", "R.origin-scheme": "Unexpected client data origin",
    "R.rpid-other": "Unexpected RP ID hash", "R.rpid-uppercase": "Unexpected RP ID hash",
    "R.up-clear": "User presence was required", "R.uv-clear": "User verification is required",
    "R.at-clear": "did not provide attested credential data", "R.at-clear-data-present": "Leftover bytes",
    "R.credid-empty": "did not provide a credential ID",
    "R.id-other-credential": "id and raw_id were not equivalent", "R.id-padded": "id and raw_id were not equivalent",
    "R.id-std-alphabet": "id and raw_id were not equivalent", "R.cred-type": "Unexpected credential type",
    "R.fmt-unknown": "Unsupported attestation type", "R.fmt-nontext": "Unsupported attestation type",
    "R.bs-without-be": "InvalidBackupFlags", "R.tb-not-supported": "Unexpected token_binding status",
    **{f: "None attestation had unexpected attestation statement" for f in attest.CATALOGUE["none"]},
    # packed
    "P.sig-missing": "missing signature (Packed)", "P.alg-missing": "missing algorithm (Packed)",
    "P.sig-other-authdata": SIG + " (Packed", "P.sig-other-cdj": SIG + " (Packed", "P.sig-other-key": SIG + " (Packed",
    "P.scheme-mismatch": SIG + " (Packed", "P.x5c-leaf-not-signer": SIG + " (Packed)",
    "P.self-alg-disagrees": "did not equal attestation statement alg",
    # fido-u2f
    "U.sig-missing": "missing signature (FIDO-U2F)", "U.x5c-missing": "missing certificate (FIDO-U2F)",
    "U.x5c-two": "too many certificates", "U.aaguid-nonzero": "AAGUID", "U.leaf-rsa": "not an EC2 certificate",
    "U.leaf-p384": "did not use P-256", "U.credkey-okp": "Credential public key was not EC2",
    "U.credkey-rsa": "Credential public key was not EC2",
    **{f: SIG + " (FIDO-U2F)" for f in ("U.sig-no-reserved-byte", "U.sig-other-rpidhash", "U.sig-other-cdj",
                                        "U.sig-other-credid", "U.sig-other-pubkey", "U.sig-other-key")},
    # tpm
    "T.certinfo-missing": "missing certInfo", "T.pubarea-missing": "missing pubArea", "T.alg-missing": "missing alg",
    "T.x5c-missing": "missing x5c", "T.sig-missing": "missing sig", "T.ver-1.2": 'ver "1.2" was not "2.0"',
    "T.unique-ne-modulus": "was not same as public key modulus", "T.exponent-ne": "PubArea exponent",
    "T.type-rsa-key-ec": "Public key was not RSA key", "T.type-ecc-key-rsa": "Public key was not ECC key",
    "T.unique-ne-xy": "was not same as public key [x,y]", "T.curve-ne": "PubArea curve ID",
    "T.magic": "CertInfo magic", "T.type-quote": "Cert Info type",
    "T.extradata-other-authdata": "extra data did not match", "T.extradata-other-cdj": "extra data did not match",
    "T.extradata-other-hash": "extra data did not match", "T.name-digest-wrong": "attested name did not match",
    "T.name-digest-other-alg": "attested name did not match", "T.name-prefix-ne-namealg": "attested name did not match",
    "T.sig-other-key": SIG + " (TPM)", "T.sig-other-certinfo": SIG + " (TPM)", "T.cert-v1": "Certificate Version",
    "T.subject-nonempty": "Certificate Subject", "T.san-missing": "missing extension <ObjectIdentifier(oid=2.5.29.17",
    "T.san-no-manufacturer": "Subject Alt Name was invalid", "T.san-no-model": "Subject Alt Name was invalid",
    "T.san-no-version": "Subject Alt Name was invalid", "T.vendor-unknown": "Unrecognized TPM Manufacturer",
    "T.eku-missing": "missing extension <ObjectIdentifier(oid=2.5.29.37", "T.eku-without-aik": "Extended Key Usage OID",
    "T.bc-missing": "missing extension <ObjectIdentifier(oid=2.5.29.19", "T.bc-ca-true": "Basic Constraints CA was not False",
    # apple
    "AP.x5c-missing": "missing x5c (Apple)", "AP.nonce-ext-missing": "missing extension 1.2.840.113635.100.8.2",
    "AP.nonce-other-authdata": "nonce was not expected value", "AP.nonce-other-cdj": "nonce was not expected value",
    "AP.certkey-ne-credkey": "did not match credential public key (Apple)",
    # android-key
    "K.sig-missing": "missing signature (Android Key)", "K.alg-missing": "missing algorithm (Android Key)",
    "K.x5c-missing": "missing x5c (Android Key)", "K.chain-broken": "chain could not be validated (Android Key)",
    "K.root-unknown": "not a known root certificate", "K.sig-other-data": SIG + " (Android Key)",
    "K.sig-other-key": SIG + " (Android Key)", "K.certkey-ne-credkey": "did not match credential public key (Android Key)",
    "K.keydesc-missing": "missing extension 1.3.6.1.4.1.11129.2.1.17",
    "K.challenge-ne-cdjhash": "attestationChallenge field was not the same",
    "K.allapps-software": "allApplications field was present in softwareEnforced",
    "K.allapps-tee": "allApplications field was present in teeEnforced",
    "K.origin-imported": "teeEnforced.origin", "K.origin-absent": "teeEnforced.origin",
    "K.purpose-sign-verify": "teeEnforced.purpose", "K.purpose-verify": "teeEnforced.purpose",
    "K.purpose-absent": "teeEnforced.purpose", "K.origin-software-only": "teeEnforced.origin",
    "K.purpose-software-only": "teeEnforced.purpose", "K.origin-and-purpose-software-only": "teeEnforced.origin",
    # android-safetynet
    "S.ver-missing": "missing version (SafetyNet)", "S.response-missing": "missing response (SafetyNet)",
    "S.jws-two-parts": "did not have three parts", "S.jws-four-parts": "did not have three parts",
    "S.nonce-other-data": "nonce was not expected value", "S.basicintegrity-false": "Could not verify device integrity",
    "S.basicintegrity-missing": "Could not verify device integrity", "S.ts-past": "Payload has expired",
    "S.ts-future": "was later than", "S.cn-other": 'common name was not "attest.android.com"',
    "S.alg-es256": "JWS header alg was not RS256", "S.sig-other-key": SIG, "S.payload-altered": SIG,
    # chain (the library reports one message for all of them; OPENSSL_REASON below tells them apart)
    **{f: "Certificate chain could not be validated" for f in ca.CHAIN_FAULTS},
}
OPENSSL_REASON = {
    "C.untrusted-issuer": "unable to get local issuer certificate", "C.impostor-root-same-name": "certificate signature failure",
    "C.leaf-expired": "certificate has expired", "C.leaf-not-yet": "certificate is not yet valid",
    "C.int-expired": "certificate has expired", "C.int-not-yet": "certificate is not yet valid",
    "C.root-expired": "certificate has expired", "C.sig-corrupt-leaf": "certificate signature failure",
    "C.sig-corrupt-int": "certificate signature failure", "C.int-missing": "unable to get local issuer certificate",
    "C.int-not-ca": "invalid CA certificate", "C.self-signed-leaf": "self-signed certificate",
}


def cred(kind="p256", alg=None, idx=0, **kw) -> core.SimCredential:
    return core.make_credential(kind, idx, alg, aaguid=bytes(range(0x10, 0x20)), **kw)


def combos() -> "OrderedDict[str, list]":
    """fmt -> [(label, RegRequest keyword arguments)]"""
    k = keys.get
    every_cred = [(f"cred={kind}/{alg}", {"cred": cred(kind, alg)}) for kind, alg in core.CRED_KINDS]
    return OrderedDict([
        ("none", every_cred + [("cred=p256lz ext", {"cred": cred("p256lz"), "ext": bytes.fromhex("a16b6372656450726f7465637402")})]),
        ("packed", [
            ("att=p256/ES256", {"cred": cred()}),
            ("att=p256/ES256 2 intermediates", {"cred": cred("rsa", core.RS256), "n_intermediates": 2}),
            ("att=p384/ES256 1 intermediate reversed", {"cred": cred(), "att_key": k("p384", 0), "n_intermediates": 1, "chain_order": "reversed"}),
            ("att=p521/ES512", {"cred": cred("ed25519"), "att_key": k("p521", 1), "att_alg": core.ES512}),
            ("att=rsa/RS256", {"cred": cred(), "att_key": k("rsa", 1), "att_alg": core.RS256}),
            ("att=rsa/PS256", {"cred": cred(), "att_key": k("rsa", 1), "att_alg": core.PS256, "n_intermediates": 1}),
            ("att=rsa/RS1", {"cred": cred(), "att_key": k("rsa", 1), "att_alg": core.RS1}),
            ("att=ed25519/EdDSA", {"cred": cred(), "att_key": k("ed25519", 1), "att_alg": core.EDDSA}),
        ]),
        ("packed-self", every_cred),
        ("fido-u2f", [("cred=p256", {"cred": cred()}), ("cred=p256lz", {"cred": cred("p256lz", idx=1)}),
                      ("cred=p256 ES512-labelled", {"cred": cred("p256", core.ES512, idx=2)})]),
        ("tpm", [
            ("cred=rsa/RS256 aik=rsa/RS256", {"cred": cred("rsa", core.RS256)}),
            ("cred=rsa/RS256 aik=rsa/RS1 nameAlg=sha1", {"cred": cred("rsa", core.RS256), "att_alg": core.RS1, "tpm_name_alg": tpm.TPM_ALG_SHA1}),
            ("cred=rsa/PS256 aik=rsa/RS384 1 intermediate", {"cred": cred("rsa", core.PS256), "att_alg": core.RS384, "n_intermediates": 1}),
            ("cred=rsa/RS256 aik=rsa/PS512 nameAlg=sha384", {"cred": cred("rsa", core.RS256), "att_alg": core.PS512, "tpm_name_alg": tpm.TPM_ALG_SHA384}),
            ("cred=p256/ES256 aik=rsa/RS256", {"cred": cred()}),
            ("cred=p384/ES256 aik=rsa/RS512 nameAlg=sha512", {"cred": cred("p384"), "att_alg": core.RS512, "tpm_name_alg": tpm.TPM_ALG_SHA512}),
            ("cred=p521/ES512 aik=p256/ES256", {"cred": cred("p521", core.ES512), "att_key": k("p256", 1), "att_alg": core.ES256}),
            ("cred=p256lz/ES256 aik=rsa/PS256", {"cred": cred("p256lz"), "att_alg": core.PS256}),
        ]),
        ("apple", [("cred=p256", {"cred": cred(), "n_intermediates": 1}), ("cred=p384", {"cred": cred("p384")}),
                   ("cred=rsa/RS256", {"cred": cred("rsa", core.RS256)}), ("cred=ed25519", {"cred": cred("ed25519")})]),
        ("android-key", [("cred=p256/ES256 2 intermediates", {"cred": cred(), "n_intermediates": 2}),
                         ("cred=p256/ES256 no intermediate", {"cred": cred()}),
                         ("cred=rsa/RS256 1 intermediate", {"cred": cred("rsa", core.RS256), "n_intermediates": 1}),
                         ("cred=p521/ES512", {"cred": cred("p521", core.ES512), "n_intermediates": 1})]),
        ("android-safetynet", [("cred=p256 1 intermediate", {"cred": cred(), "n_intermediates": 1}),
                               ("cred=rsa/RS256", {"cred": cred("rsa", core.RS256)}),
                               ("cred=ed25519 2 intermediates", {"cred": cred("ed25519"), "n_intermediates": 2})]),
    ])


def chain_combos() -> list:
    """(fmt, label, RegRequest keyword arguments) under which every chain fault is run, roots supplied."""
    rsa_att = {"att_key": keys.get("rsa", 1), "att_alg": core.RS256}
    return [("packed", "chain, 1 intermediate", {"cred": cred(), "n_intermediates": 1}),
            ("packed", "chain, 2 intermediates, rsa leaf", {"cred": cred(), "n_intermediates": 2, **rsa_att}),
            ("packed", "chain, no intermediate, ed25519 leaf", {"cred": cred(), "att_key": keys.get("ed25519", 1), "att_alg": core.EDDSA}),
            ("fido-u2f", "chain, no intermediate", {"cred": cred()}),
            ("tpm", "chain, 1 intermediate", {"cred": cred("rsa", core.RS256), "n_intermediates": 1}),
            ("apple", "chain, 1 intermediate", {"cred": cred(), "n_intermediates": 1}),
            ("android-key", "chain, 1 intermediate", {"cred": cred(), "n_intermediates": 1}),
            ("android-safetynet", "chain, 2 intermediates", {"cred": cred(), "n_intermediates": 2})]


def to_record(c: dict) -> RegistrationCredential:
    response = AuthenticatorAttestationResponse(client_data_json=c["client_data_json"],
                                                attestation_object=c["attestation_object"], transports=c["transports"])
    return RegistrationCredential(id=c["id"], raw_id=c["raw_id"], response=response, type=c["type"])


def verify(req: RegRequest, result: attest.RegResult):
    """(accepted, "" or "ExceptionClass: message")"""
    roots = {AttestationFormat(fmt): list(pems) for fmt, pems in result.roots.items()}   # the library appends to these
    try:
        webauthn.verify_registration_response(
            credential=to_record(result.credential), expected_challenge=req.challenge, expected_rp_id=req.rp_id,
            expected_origin=req.origin, require_user_verification=True, supported_pub_key_algs=core.ALL_ALGS,
            pem_root_certs_bytes_by_fmt=roots)
    except Exception as exc:                       # every class is of interest here, not only WebAuthnException
        return False, f"{type(exc).__name__}: {exc}"
    return True, ""


def openssl_reason(chain: ca.Chain, x5c: list) -> str:
    """What OpenSSL itself says about x5c against the trusted root ("" if it validates)."""
    certs = [X509.from_cryptography(x509.load_der_x509_certificate(der)) for der in x5c]
    store = X509Store()
    store.add_cert(X509.from_cryptography(chain.root))
    try:
        X509StoreContext(store, certs[0], certs[1:]).verify_certificate()
    except X509StoreContextError as exc:
        return str(exc.args[0])
    return ""


class Report:
    def __init__(self, verbose: bool):
        self.verbose = verbose
        self.rows = []            # (fmt, label, fault, accepted, reason)
        self.problems = []
        self.skipped = {}

    def run(self, fmt: str, label: str, kwargs: dict, fault=None):
        req = RegRequest(fmt=fmt, **kwargs, faults={fault} if fault else set())
        try:
            result = build_registration(req)
        except NotApplicable as exc:
            self.skipped.setdefault((fmt, fault), []).append(f"{label}: {exc}")
            return None
        except ValueError as exc:        # the key cannot make such a signature (e.g. PS512 with a 1024-bit modulus)
            self.skipped.setdefault((fmt, fault), []).append(f"{label}: {exc}")
            return None
        accepted, reason = verify(req, result)
        self.rows.append((fmt, label, fault or "-", accepted, reason))
        if self.verbose:
            print(f"  {fmt:18} {label:46} {fault or '(unfaulted)':28} {'ACCEPTED' if accepted else 'rejected'}  {reason[:110]}")
        if fault is None and not accepted:
            self.problems.append(f"unfaulted {fmt} [{label}] was REJECTED: {reason}")
        if fault and not accepted and fault in EXPECTED_REASON and EXPECTED_REASON[fault] not in reason:
            self.problems.append(f"{fault} on {fmt} [{label}] rejected for an unrelated reason: {reason}")
        if fault in OPENSSL_REASON:
            found = openssl_reason(result.chain, result.chain.x5c())
            if found != OPENSSL_REASON[fault]:
                self.problems.append(f"{fault} on {fmt} [{label}]: OpenSSL said {found!r}, wanted {OPENSSL_REASON[fault]!r}")
        return accepted

    def accepted_faults(self) -> list:
        seen = OrderedDict()
        for fmt, _, fault, accepted, _ in self.rows:
            if fault != "-" and accepted:
                seen[(fault, fmt)] = None
        return [f"{fault} [{fmt}]" for fault, fmt in seen]

    def summary(self):
        """One line per (format, fault): how many key choices, verdicts, and a representative reason."""
        groups = OrderedDict()
        for fmt, _, fault, accepted, reason in self.rows:
            groups.setdefault((fmt, fault), []).append((accepted, reason))
        print(f"\n{'format':18} {'fault':28} {'runs':>4} {'verdict':9} reason (first)")
        print("-" * 150)
        for (fmt, fault), outcomes in groups.items():
            verdicts = {a for a, _ in outcomes}
            verdict = "ACCEPTED" if verdicts == {True} else "rejected" if verdicts == {False} else "MIXED"
            reason = next((r for a, r in outcomes if not a), "")
            print(f"{fmt:18} {fault:28} {len(outcomes):>4} {verdict:9} {reason[:95]}")


def check_tpm_encoders(problems: list):
    """tpm.py against the library's own parsers: every field must come back as written."""
    pub = tpm.encode_pub_area("rsa", name_alg=tpm.TPM_ALG_SHA384, attributes=0x00050072, auth_policy=b"\x01" * 32,
                              exponent=65537, modulus=b"\xaa" * 256)
    parsed = parse_pub_area(pub)
    ok = (parsed.unique.value == b"\xaa" * 256 and parsed.parameters.exponent == (65537).to_bytes(4, "big")
          and parsed.auth_policy == b"\x01" * 32 and parsed.name_alg.value == "TPM_ALG_SHA384"
          and parsed.object_attributes.fixed_tpm and parsed.object_attributes.sign_or_encrypt)
    ecc = parse_pub_area(tpm.encode_pub_area("ecc", curve_id=tpm.TPM_ECC_NIST_P521, x=b"\x01" * 66, y=b"\x02" * 66))
    ok = ok and ecc.unique.value == b"\x01" * 66 + b"\x02" * 66 and ecc.parameters.curve_id.value == "NIST_P521"
    name = tpm.tpm_name(pub, tpm.TPM_ALG_SHA384)
    info = parse_cert_info(tpm.encode_cert_info(qualified_signer=b"qs", extra_data=b"extra", clock=b"\x00" * 7 + b"\x09",
                                                reset_count=5, restart_count=6, firmware_version=b"\x07" * 8,
                                                attested_name=name, attested_qualified_name=b"qn"))
    ok = ok and (info.magic == b"\xffTCG" and info.extra_data == b"extra" and info.qualified_signer == b"qs"
                 and info.attested.name == name and info.attested.qualified_name == b"qn" and info.clock_info.reset_count == 5
                 and info.clock_info.restart_count == 6 and info.clock_info.safe and info.firmware_version == b"\x07" * 8
                 and len(name) == 2 + 48)
    if not ok:
        problems.append("tpm.py encoders do not round-trip through the library's parsers")


def check_chains(problems: list):
    """ca.build_chain on its own: unfaulted chains validate (any depth, EC or RSA CA keys, either
    order); every chain fault makes validate_certificate_chain raise InvalidCertificateChain."""
    leaf = keys.get("p256", 1)

    def validates(chain, order="normal"):
        try:
            return validate_certificate_chain(x5c=chain.x5c(order=order), pem_root_certs_bytes=[chain.root_pem()])
        except InvalidCertificateChain:
            return False

    for depth in (0, 1, 2):
        for root_key in (None, keys.get("rsa", 5)):
            chain = ca.build_chain(leaf.public_key(), n_intermediates=depth, root_key=root_key)
            if not (validates(chain) and validates(chain, "reversed")):
                problems.append(f"unfaulted chain with {depth} intermediates does not validate")
            if chain.x5c(include_root=True)[-1] != chain.root.public_bytes(serialization.Encoding.DER):
                problems.append("x5c(include_root=True) does not end with the root")
        for fault in ca.CHAIN_FAULTS:
            if validates(ca.build_chain(leaf.public_key(), leaf_privkey=leaf, n_intermediates=depth, faults={fault})):
                problems.append(f"{fault} with {depth} intermediates still validates")


def check_tcg_vendors() -> list:
    """Unfaulted TPM registrations differing only in the (registered) vendor id; returns the ids rejected."""
    rejected = []
    for vendor in tpm.TCG_VENDOR_IDS:
        req = RegRequest(fmt="tpm", cred=cred("rsa", core.RS256), tpm_vendor=vendor)
        accepted, reason = verify(req, build_registration(req))
        if not accepted:
            rejected.append(f"{vendor} ({tpm.TCG_VENDOR_NAME[vendor]}): {reason}")
    return rejected


def check_coverage(report: Report):
    """Every catalogued fault must have been exercised for its format at least once."""
    ran = {(fmt, fault) for fmt, _, fault, _, _ in report.rows}
    for fmt in attest.FORMATS:
        for fault in attest.applicable(fmt):
            if (fmt, fault) not in ran:
                report.problems.append(f"{fault} never ran for {fmt}: {report.skipped.get((fmt, fault))}")


def main(argv) -> int:
    report = Report(verbose="-v" in argv)
    check_tpm_encoders(report.problems)
    check_chains(report.problems)
    for fmt, choices in combos().items():
        for label, kwargs in choices:
            if report.run(fmt, label, kwargs) is not True:
                continue                                    # a broken baseline makes its fault verdicts meaningless
            for fault in attest.applicable(fmt):
                report.run(fmt, label, kwargs, fault)
    for fmt, label, kwargs in chain_combos():
        for fault in attest.CATALOGUE["chain"]:
            if fmt == "fido-u2f" and fault in ca.NEED_INTERMEDIATE:
                continue                                    # U2F carries exactly one certificate
            report.run(fmt, label, kwargs, fault)
    check_coverage(report)
    vendors_rejected = check_tcg_vendors()

    report.summary()
    n_faulted = sum(1 for r in report.rows if r[2] != "-")
    print(f"\n{len(report.rows) - n_faulted} unfaulted builds, {n_faulted} faulted builds, "
          f"{sum(len(v) for v in report.skipped.values())} fault/key combinations not applicable")
    print("\nFAULTS ACCEPTED BY THE LIBRARY: " + (", ".join(report.accepted_faults()) or "none"))
    print("\nTCG VENDOR IDS (registry spelling) REJECTED BY THE LIBRARY: " + ("; ".join(vendors_rejected) or "none"))
    print("\nSIMULATOR PROBLEMS: " + ("none" if not report.problems else ""))
    for problem in report.problems:
        print("  - " + problem)
    return 1 if report.problems else 0


if __name__ == "__main__":
    sys.exit(main(sys.argv[1:]))
