"""Android Keystore attestation extension (OID 1.3.6.1.4.1.11129.2.1.17) ASN.1 schema and an encoder.

The class definitions are the simulator's own copy of the schema in
webauthn/helpers/asn1/android_key.py (itself the published KeyDescription schema), so that the
encoder does not depend on the library under test."""
from asn1crypto.core import Boolean, Enumerated, Integer, Null, OctetString, Sequence, SetOf

KEY_DESCRIPTION_OID = "1.3.6.1.4.1.11129.2.1.17"

KM_ORIGIN_GENERATED, KM_ORIGIN_DERIVED, KM_ORIGIN_IMPORTED, KM_ORIGIN_UNKNOWN = 0, 1, 2, 3
KM_PURPOSE_ENCRYPT, KM_PURPOSE_DECRYPT, KM_PURPOSE_SIGN, KM_PURPOSE_VERIFY = 0, 1, 2, 3
KM_ALGORITHM_RSA, KM_ALGORITHM_EC = 1, 3
KM_DIGEST_SHA_2_256 = 4


class Integers(SetOf):
    _child_spec = Integer


class SecurityLevel(Enumerated):
    _map = {
        0: "Software",
        1: "TrustedEnvironment",
        2: "StrongBox",
    }


class VerifiedBootState(Enumerated):
    _map = {
        0: "Verified",
        1: "SelfSigned",
        2: "Unverified",
        3: "Failed",
    }


class RootOfTrust(Sequence):
    _fields = [
        ("verifiedBootKey", OctetString),
        ("deviceLocked", Boolean),
        ("verifiedBootState", VerifiedBootState),
        ("verifiedBootHash", OctetString),
    ]


class AuthorizationList(Sequence):
    _fields = [
        ("purpose", Integers, {"explicit": 1, "optional": True}),
        ("algorithm", Integer, {"explicit": 2, "optional": True}),
        ("keySize", Integer, {"explicit": 3, "optional": True}),
        ("digest", Integers, {"explicit": 5, "optional": True}),
        ("padding", Integers, {"explicit": 6, "optional": True}),
        ("ecCurve", Integer, {"explicit": 10, "optional": True}),
        ("rsaPublicExponent", Integer, {"explicit": 200, "optional": True}),
        ("rollbackResistance", Null, {"explicit": 303, "optional": True}),
        ("activeDateTime", Integer, {"explicit": 400, "optional": True}),
        ("originationExpireDateTime", Integer, {"explicit": 401, "optional": True}),
        ("usageExpireDateTime", Integer, {"explicit": 402, "optional": True}),
        ("noAuthRequired", Null, {"explicit": 503, "optional": True}),
        ("userAuthType", Integer, {"explicit": 504, "optional": True}),
        ("authTimeout", Integer, {"explicit": 505, "optional": True}),
        ("allowWhileOnBody", Null, {"explicit": 506, "optional": True}),
        ("trustedUserPresenceRequired", Null, {"explicit": 507, "optional": True}),
        ("trustedConfirmationRequired", Null, {"explicit": 508, "optional": True}),
        ("unlockedDeviceRequired", Null, {"explicit": 509, "optional": True}),
        ("allApplications", Null, {"explicit": 600, "optional": True}),
        ("applicationId", OctetString, {"explicit": 601, "optional": True}),
        ("creationDateTime", Integer, {"explicit": 701, "optional": True}),
        ("origin", Integer, {"explicit": 702, "optional": True}),
        ("rollbackResistant", Null, {"explicit": 703, "optional": True}),
        ("rootOfTrust", RootOfTrust, {"explicit": 704, "optional": True}),
        ("osVersion", Integer, {"explicit": 705, "optional": True}),
        ("osPatchLevel", Integer, {"explicit": 706, "optional": True}),
        ("attestationApplicationId", OctetString, {"explicit": 709, "optional": True}),
        ("attestationIdBrand", OctetString, {"explicit": 710, "optional": True}),
        ("attestationIdDevice", OctetString, {"explicit": 711, "optional": True}),
        ("attestationIdProduct", OctetString, {"explicit": 712, "optional": True}),
        ("attestationIdSerial", OctetString, {"explicit": 713, "optional": True}),
        ("attestationIdImei", OctetString, {"explicit": 714, "optional": True}),
        ("attestationIdMeid", OctetString, {"explicit": 715, "optional": True}),
        ("attestationIdManufacturer", OctetString, {"explicit": 716, "optional": True}),
        ("attestationIdModel", OctetString, {"explicit": 717, "optional": True}),
        ("vendorPatchLevel", Integer, {"explicit": 718, "optional": True}),
        ("bootPatchLevel", Integer, {"explicit": 719, "optional": True}),
    ]


class KeyDescription(Sequence):
    _fields = [
        ("attestationVersion", Integer),
        ("attestationSecurityLevel", SecurityLevel),
        ("keymasterVersion", Integer),
        ("keymasterSecurityLevel", SecurityLevel),
        ("attestationChallenge", OctetString),
        ("uniqueId", OctetString),
        ("softwareEnforced", AuthorizationList),
        ("teeEnforced", AuthorizationList),
    ]


_NULL_FIELDS = {n for n, spec, _ in AuthorizationList._fields if spec is Null}
_SET_FIELDS = {n for n, spec, _ in AuthorizationList._fields if spec is Integers}


def authorization_list(entries: dict) -> AuthorizationList:
    """`entries` maps field name -> Python value: a set/list for SET OF INTEGER fields, True for the
    NULL-valued presence tags (e.g. {"allApplications": True}), int or bytes otherwise.  A field
    that is absent from `entries` (or None) is absent from the encoding."""
    values = {}
    for field_name, value in entries.items():
        if value is None:
            continue
        if field_name in _NULL_FIELDS:
            values[field_name] = Null()
        elif field_name in _SET_FIELDS:
            values[field_name] = Integers(sorted(value))
        else:
            values[field_name] = value
    return AuthorizationList(values)


def encode_key_description(challenge: bytes, *, software_enforced: dict, tee_enforced: dict, attestation_version: int = 3,
                           keymaster_version: int = 4, security_level: str = "TrustedEnvironment",
                           unique_id: bytes = b"") -> bytes:
    """DER of KeyDescription, i.e. the extnValue content of the attestation extension."""
    return KeyDescription({
        "attestationVersion": attestation_version,
        "attestationSecurityLevel": security_level,
        "keymasterVersion": keymaster_version,
        "keymasterSecurityLevel": security_level,
        "attestationChallenge": challenge,
        "uniqueId": unique_id,
        "softwareEnforced": authorization_list(software_enforced),
        "teeEnforced": authorization_list(tee_enforced),
    }).dump()
