"""Authenticator + client simulator core: COSE keys, authenticator data, client data, signing.

Independent of `webauthn`: only `cryptography`, `cbor2`, `hashlib`, `json`, `base64`."""
import base64, hashlib, json
from dataclasses import dataclass, field
from typing import Optional

import cbor2
from cryptography.hazmat.primitives import hashes, serialization
from cryptography.hazmat.primitives.asymmetric import ec, ed25519, padding, rsa

from . import keys

# COSE algorithm ids
ES256, EDDSA, ES512 = -7, -8, -36
PS256, PS384, PS512 = -37, -38, -39
RS256, RS384, RS512, RS1 = -257, -258, -259, -65535
ALL_ALGS = [ES256, EDDSA, ES512, PS256, PS384, PS512, RS256, RS384, RS512, RS1]
HASH_OF = {ES256: hashes.SHA256, ES512: hashes.SHA512, PS256: hashes.SHA256, PS384: hashes.SHA384, PS512: hashes.SHA512,
           RS256: hashes.SHA256, RS384: hashes.SHA384, RS512: hashes.SHA512, RS1: hashes.SHA1}
CRV_OF = {"secp256r1": 1, "secp384r1": 2, "secp521r1": 3}

UP, UV, BE, BS, AT, ED = 0x01, 0x04, 0x08, 0x10, 0x40, 0x80


def b64url(b: bytes) -> str:
    return base64.urlsafe_b64encode(b).rstrip(b"=").decode("ascii")


def sha256(b: bytes) -> bytes:
    return hashlib.sha256(b).digest()


def key_kind(priv):
    if isinstance(priv, ec.EllipticCurvePrivateKey):
        return "ec"
    if isinstance(priv, rsa.RSAPrivateKey):
        return "rsa"
    return "okp"


def algs_for(priv):
    """COSE algorithms a conformant authenticator can use with this key."""
    k = key_kind(priv)
    if k == "ec":
        return [ES256, ES512]
    if k == "rsa":
        return [RS256, RS384, RS512, PS256, PS384, PS512, RS1]
    return [EDDSA]


def cose_key_map(pub, alg, *, pad_to=None, extra=None):
    """COSE_Key as a Python dict (insertion order = canonical CTAP2 order kty, alg, crv/n, x/e, y)."""
    if isinstance(pub, ec.EllipticCurvePublicKey):
        n = pub.public_numbers()
        size = pad_to or (pub.curve.key_size + 7) // 8
        m = {1: 2, 3: alg, -1: CRV_OF[pub.curve.name], -2: n.x.to_bytes(size, "big"), -3: n.y.to_bytes(size, "big")}
    elif isinstance(pub, rsa.RSAPublicKey):
        n = pub.public_numbers()
        size = pad_to or (n.n.bit_length() + 7) // 8
        m = {1: 3, 3: alg, -1: n.n.to_bytes(size, "big"), -2: n.e.to_bytes((n.e.bit_length() + 7) // 8, "big")}
    else:
        raw = pub.public_bytes(serialization.Encoding.Raw, serialization.PublicFormat.Raw)
        m = {1: 1, 3: alg, -1: 6, -2: raw}
    if extra:
        m.update(extra)
    return m


def reorder(m: dict, how) -> dict:
    """the same map with its members written in another order (CBOR maps are unordered; authenticators differ)"""
    ks = list(m)
    if how == "reversed":
        ks.reverse()
    elif how == "rotated":
        ks = ks[2:] + ks[:2]
    return {k: m[k] for k in ks}


def cose_key(pub, alg, **kw) -> bytes:
    return cbor2.dumps(cose_key_map(pub, alg, **kw))


def sign(priv, alg, data: bytes) -> bytes:
    """Sign as a conformant authenticator would under COSE algorithm `alg`."""
    if isinstance(priv, ec.EllipticCurvePrivateKey):
        return priv.sign(data, ec.ECDSA(HASH_OF[alg]()))
    if isinstance(priv, rsa.RSAPrivateKey):
        h = HASH_OF[alg]()
        if alg in (PS256, PS384, PS512):
            return priv.sign(data, padding.PSS(mgf=padding.MGF1(h), salt_length=h.digest_size), h)
        return priv.sign(data, padding.PKCS1v15(), h)
    return priv.sign(data)


def auth_data(rp_id_hash: bytes, flags: int, counter: int, *, aaguid: Optional[bytes] = None,
              cred_id: Optional[bytes] = None, cose: Optional[bytes] = None, ext: Optional[bytes] = None) -> bytes:
    """Authenticator data laid out as the WebAuthn spec says; attested data is emitted iff `cose` is
    given, extensions iff `ext` is given (the caller keeps flags consistent, or not, deliberately)."""
    out = rp_id_hash + bytes([flags & 0xFF]) + (counter & 0xFFFFFFFF).to_bytes(4, "big")
    if cose is not None:
        out += (aaguid if aaguid is not None else b"\x00" * 16)
        cid = cred_id if cred_id is not None else b""
        out += len(cid).to_bytes(2, "big") + cid + cose
    if ext is not None:
        out += ext
    return out


def client_data(typ, challenge: bytes, origin, *, extra=None, token_binding="absent", cross_origin=None,
                order=("type", "challenge", "origin"), challenge_text=None, style="compact") -> bytes:
    d = {}
    vals = {"type": typ, "challenge": challenge_text if challenge_text is not None else b64url(challenge), "origin": origin}
    for k in order:
        d[k] = vals[k]
    if cross_origin is not None:
        d["crossOrigin"] = cross_origin
    if token_binding != "absent":
        d["tokenBinding"] = token_binding
    if extra:
        d.update(extra)
    if style == "pretty":            # the same JSON value written with whitespace and line breaks
        return json.dumps(d, indent=2).encode("utf-8")
    if style == "escaped":           # the same JSON value with every string character written as a \uXXXX escape
        def esc(v):
            return '"' + "".join("\\u%04x" % ord(ch) if ord(ch) < 0x10000 else ch for ch in v) + '"'
        body = ",".join(esc(k) + ":" + (esc(v) if isinstance(v, str) else json.dumps(v, separators=(",", ":"))) for k, v in d.items())
        return ("{" + body + "}").encode("utf-8")
    return json.dumps(d, separators=(",", ":")).encode("utf-8")


@dataclass
class SimCredential:
    """One credential held by the simulated authenticator."""
    priv: object
    alg: int
    cred_id: bytes
    aaguid: bytes = b"\x00" * 16
    pad_to: Optional[int] = None
    cose_order: Optional[str] = None          # "reversed" / "rotated": the COSE_Key's members written in another order
    cose_extra: Optional[dict] = None         # additional members an authenticator may add to its COSE_Key

    @property
    def pub(self):
        return self.priv.public_key()

    def cose(self, alg=None, **kw) -> bytes:
        if self.cose_extra:
            kw["extra"] = dict(self.cose_extra, **(kw.get("extra") or {}))
        m = cose_key_map(self.pub, self.alg if alg is None else alg, pad_to=self.pad_to, **kw)
        return cbor2.dumps(reorder(m, self.cose_order) if self.cose_order else m)


def assertion(cred: SimCredential, *, rp_id: str, challenge: bytes, origin: str, flags: int = UP, counter: int = 1,
              ext: Optional[bytes] = None, typ="webauthn.get", cd_kwargs=None, sign_alg=None, sign_key=None,
              sign_data=None, user_handle=None, ad_override=None, cdj_override=None):
    """A (by default conformant) assertion as the record-form fields of AuthenticationCredential.
    Deviations are injected through the keyword arguments; whatever is signed stays genuinely signed."""
    cdj = cdj_override if cdj_override is not None else client_data(typ, challenge, origin, **(cd_kwargs or {}))
    fl = flags | (ED if ext is not None else 0)
    ad = ad_override if ad_override is not None else auth_data(sha256(rp_id.encode()), fl, counter, ext=ext)
    to_sign = sign_data if sign_data is not None else ad + sha256(cdj)
    sig = sign(sign_key or cred.priv, sign_alg if sign_alg is not None else cred.alg, to_sign)
    return {"id": b64url(cred.cred_id), "raw_id": cred.cred_id, "type": "public-key", "client_data_json": cdj,
            "authenticator_data": ad, "signature": sig, "user_handle": user_handle}


def to_auth_json(c: dict) -> dict:
    """The JSON (dict) form a browser would send."""
    r = {"clientDataJSON": b64url(c["client_data_json"]), "authenticatorData": b64url(c["authenticator_data"]),
         "signature": b64url(c["signature"])}
    if c.get("user_handle") is not None:
        r["userHandle"] = b64url(c["user_handle"])
    out = {"id": c["id"], "rawId": b64url(c["raw_id"]), "response": r, "type": c["type"], "clientExtensionResults": {}}
    if c.get("attachment") is not None:
        out["authenticatorAttachment"] = c["attachment"]
    return out


def to_reg_json(c: dict) -> dict:
    r = {"clientDataJSON": b64url(c["client_data_json"]), "attestationObject": b64url(c["attestation_object"])}
    if c.get("transports") is not None:
        r["transports"] = c["transports"]
    out = {"id": c["id"], "rawId": b64url(c["raw_id"]), "response": r, "type": c["type"], "clientExtensionResults": {}}
    if c.get("attachment") is not None:
        out["authenticatorAttachment"] = c["attachment"]
    return out


def make_credential(kind="p256", idx=0, alg=None, cred_id=None, aaguid=None, rng=None) -> SimCredential:
    priv = keys.get(kind, idx)
    if alg is None:
        alg = algs_for(priv)[0]
    if cred_id is None:
        cred_id = (rng.bytes_(32) if rng else hashlib.sha256(f"{kind}-{idx}".encode()).digest())
    return SimCredential(priv=priv, alg=alg, cred_id=cred_id, aaguid=aaguid or b"\x00" * 16)


CRED_KINDS = [("p256", ES256), ("p384", ES256), ("p521", ES512), ("p256", ES512), ("ed25519", EDDSA),
              ("rsa", RS256), ("rsa", RS384), ("rsa", RS512), ("rsa", PS256), ("rsa", PS384), ("rsa", PS512), ("rsa", RS1),
              # moduli of other sizes, one not a whole number of bytes
              ("rsa2047", RS256), ("rsa2047", PS256), ("rsa1024", RS512), ("rsa3072", PS384),
              # a 4096-bit modulus; public exponents other than 65537, one of them wider than 32 bits
              ("rsa4096", RS256), ("rsa-33bit-e", RS256), ("rsa-64bit-e", PS256), ("rsa-same-n-small-e", RS384)]
