"""TPM 2.0 structure encoders (pure bytes): TPMT_PUBLIC, TPMS_ATTEST (certify), TPM Name.

Layouts follow the fixed-size reading done by webauthn.helpers.tpm.parse_pub_area / parse_cert_info:
both `symmetric` and `scheme` must be TPM_ALG_NULL for the parameter block to have that size."""
import hashlib

TPM_ALG_RSA, TPM_ALG_ECC, TPM_ALG_NULL = 0x0001, 0x0023, 0x0010
TPM_ALG_SHA1, TPM_ALG_SHA256, TPM_ALG_SHA384, TPM_ALG_SHA512 = 0x0004, 0x000B, 0x000C, 0x000D
TPM_GENERATED_VALUE = 0xFF544347
TPM_ST_ATTEST_CERTIFY, TPM_ST_ATTEST_QUOTE = 0x8017, 0x8018
TPM_ECC_NIST_P256, TPM_ECC_NIST_P384, TPM_ECC_NIST_P521 = 0x0003, 0x0004, 0x0005

NAME_HASH = {TPM_ALG_SHA1: "sha1", TPM_ALG_SHA256: "sha256", TPM_ALG_SHA384: "sha384", TPM_ALG_SHA512: "sha512"}
CURVE_ID = {"secp256r1": TPM_ECC_NIST_P256, "secp384r1": TPM_ECC_NIST_P384, "secp521r1": TPM_ECC_NIST_P521}

# TCG TPM Vendor ID Registry spelling (upper-case hex) of the vendors the library's table lists.
_TCG_VENDORS = [
    ("AMD", "414D4400"), ("ANT", "414E5400"), ("ATML", "41544D4C"), ("BRCM", "4252434D"), ("CSCO", "4353434F"),
    ("FLYS", "464C5953"), ("ROCC", "524F4343"), ("GOOG", "474F4F47"), ("HPI", "48504900"), ("HPE", "48504500"),
    ("HISI", "48495349"), ("IBM", "49424D00"), ("IFX", "49465800"), ("INTC", "494E5443"), ("LEN", "4C454E00"),
    ("MSFT", "4D534654"), ("NSM", "4E534D20"), ("NTZ", "4E545A00"), ("NSG", "4E534700"), ("NTC", "4E544300"),
    ("QCOM", "51434F4D"), ("SMSN", "534D534E"), ("SECE", "53454345"), ("SNS", "534E5300"), ("SMSC", "534D5343"),
    ("STM", "53544D20"), ("TXN", "54584E00"), ("WEC", "57454300"), ("SEAL", "5345414C"),
]
TCG_VENDOR_IDS = ["id:" + hex_id for _, hex_id in _TCG_VENDORS]
TCG_VENDOR_NAME = {"id:" + hex_id: ascii_id for ascii_id, hex_id in _TCG_VENDORS}


def _u16(v: int) -> bytes:
    return v.to_bytes(2, "big")


def _u32(v: int) -> bytes:
    return v.to_bytes(4, "big")


def _sized(b: bytes) -> bytes:
    """TPM2B_*: 16-bit big-endian length, then the bytes."""
    return _u16(len(b)) + b


def encode_pub_area(kind: str = "rsa", *, name_alg: int = TPM_ALG_SHA256, attributes: int = 0x00050072,
                    auth_policy: bytes = b"", symmetric: int = TPM_ALG_NULL, scheme: int = TPM_ALG_NULL,
                    key_bits: int = 2048, exponent: int = 0, modulus: bytes = b"",
                    curve_id: int = TPM_ECC_NIST_P256, kdf: int = TPM_ALG_NULL, x: bytes = b"", y: bytes = b"") -> bytes:
    """TPMT_PUBLIC: type(2) nameAlg(2) objectAttributes(4) authPolicy(2+n) parameters unique.
    RSA parameters: symmetric(2) scheme(2) keyBits(2) exponent(4); unique: modulus(2+n).
    ECC parameters: symmetric(2) scheme(2) curveID(2) kdf(2);      unique: x(2+n) y(2+n)."""
    if kind == "rsa":
        typ = TPM_ALG_RSA
        body = _u16(symmetric) + _u16(scheme) + _u16(key_bits) + _u32(exponent) + _sized(modulus)
    elif kind == "ecc":
        typ = TPM_ALG_ECC
        body = _u16(symmetric) + _u16(scheme) + _u16(curve_id) + _u16(kdf) + _sized(x) + _sized(y)
    else:
        raise ValueError(f"unknown pubArea kind {kind!r}")
    return _u16(typ) + _u16(name_alg) + _u32(attributes & 0xFFFFFFFF) + _sized(auth_policy) + body


def encode_cert_info(*, magic: int = TPM_GENERATED_VALUE, type: int = TPM_ST_ATTEST_CERTIFY,
                     qualified_signer: bytes = b"", extra_data: bytes, clock: bytes = bytes(8), reset_count: int = 0,
                     restart_count: int = 0, safe: int = 1, firmware_version: bytes = bytes(8), attested_name: bytes,
                     attested_qualified_name: bytes = b"") -> bytes:
    """TPMS_ATTEST with TPMS_CERTIFY_INFO: magic(4) type(2) qualifiedSigner(2+n) extraData(2+n)
    clockInfo(8+4+4+1) firmwareVersion(8) attested.name(2+n) attested.qualifiedName(2+n)."""
    if len(clock) != 8 or len(firmware_version) != 8:
        raise ValueError("clock and firmware_version are 8 bytes each")
    clock_info = clock + _u32(reset_count) + _u32(restart_count) + bytes([safe & 0xFF])
    return (_u32(magic) + _u16(type) + _sized(qualified_signer) + _sized(extra_data) + clock_info + firmware_version
            + _sized(attested_name) + _sized(attested_qualified_name))


def name_digest(data: bytes, name_alg: int = TPM_ALG_SHA256) -> bytes:
    return hashlib.new(NAME_HASH[name_alg], data).digest()


def tpm_name(pub_area: bytes, name_alg: int = TPM_ALG_SHA256) -> bytes:
    """TPM Name of an object: nameAlg(2) || H_nameAlg(TPMT_PUBLIC)."""
    return _u16(name_alg) + name_digest(pub_area, name_alg)
