"""Certificate-authority simulator: single certificates, and leaf..root chains with named faults.

Every certificate is genuinely signed by the key stated for it; a chain fault changes exactly the
one thing its name says (see CHAIN_FAULTS) and everything else stays as in a conformant chain.
Independent of `webauthn`: only `cryptography`, `asn1crypto` and the fixture keys."""
import datetime
from dataclasses import dataclass, field
from typing import List, Optional

from asn1crypto import x509 as asn1_x509
from cryptography import x509
from cryptography.hazmat.primitives import hashes, serialization
from cryptography.hazmat.primitives.asymmetric import ec, padding, rsa
from cryptography.x509.oid import NameOID

from . import keys

DAY = datetime.timedelta(days=1)

CHAIN_FAULTS = [
    "C.untrusted-issuer", "C.impostor-root-same-name", "C.leaf-expired", "C.leaf-not-yet", "C.int-expired",
    "C.int-not-yet", "C.root-expired", "C.sig-corrupt-leaf", "C.sig-corrupt-int", "C.int-missing", "C.int-not-ca",
    "C.self-signed-leaf", "C.evil-root-in-x5c", "C.signer-ca-before-reversed-genuine-chain",
    "C.impostor-root-copied-ski", "C.impostor-root-copied-everything-but-key",
    # chains that break a constraint rather than a signature or a date: more CA certificates below the root than its path
    # length allows, an intermediate whose key usage does not include certificate signing, a leaf outside the name space
    # its issuer is constrained to
    "C.pathlen-exceeded", "C.int-no-keycertsign", "C.name-constraint-permits-other-names-only",
    # a certificate that also carries a critical extension nobody knows: path validation refuses such a certificate by
    # itself, and whatever else is wrong with the chain stays wrong
    "C.leaf-unknown-critical-ext", "C.untrusted-issuer-and-unknown-critical-ext", "C.leaf-expired-and-unknown-critical-ext",
    "C.sig-corrupt-leaf-and-unknown-critical-ext", "C.self-signed-leaf-and-unknown-critical-ext",
]
UNKNOWN_CRITICAL_EXT = (x509.UnrecognizedExtension(x509.ObjectIdentifier("2.23.133.99.1"), b"\x05\x00"), True)
# faults that only mean something when the chain has an intermediate (one is added if none was asked for)
NEED_INTERMEDIATE = {"C.int-expired", "C.int-not-yet", "C.sig-corrupt-int", "C.int-missing", "C.int-not-ca",
                     "C.pathlen-exceeded", "C.int-no-keycertsign", "C.name-constraint-permits-other-names-only"}

# validity windows as (not_before, not_after) offsets from base_time
DEFAULT_VALIDITY = {"root": (-3650 * DAY, 3650 * DAY), "int": (-1825 * DAY, 1825 * DAY), "leaf": (-30 * DAY, 365 * DAY)}
EXPIRED = (-400 * DAY, -1 * DAY)
NOT_YET = (1 * DAY, 400 * DAY)

KEY_USAGE_CA = x509.KeyUsage(digital_signature=False, content_commitment=False, key_encipherment=False,
                             data_encipherment=False, key_agreement=False, key_cert_sign=True, crl_sign=True,
                             encipher_only=False, decipher_only=False)

ROOT_NAME = "Sim Attestation Root CA"
OTHER_ROOT_NAME = "Sim Unrelated Root CA"


def now() -> datetime.datetime:
    return datetime.datetime.now(datetime.timezone.utc)


def name(cn: Optional[str] = None, *, c=None, o=None, ou=None) -> x509.Name:
    """X.501 name from the usual attributes, in C, O, OU, CN order; no arguments gives the empty name."""
    pairs = [(NameOID.COUNTRY_NAME, c), (NameOID.ORGANIZATION_NAME, o), (NameOID.ORGANIZATIONAL_UNIT_NAME, ou),
             (NameOID.COMMON_NAME, cn)]
    return x509.Name([x509.NameAttribute(oid, v) for oid, v in pairs if v is not None])


def constraint_extensions(ca: Optional[bool], path_len: Optional[int] = None) -> list:
    """BasicConstraints (critical) for ca True/False, plus keyUsage keyCertSign for a CA; nothing for None."""
    if ca is None:
        return []
    exts = [(x509.BasicConstraints(ca=ca, path_length=path_len if ca else None), True)]
    if ca:
        exts.append((KEY_USAGE_CA, True))
    return exts


def _is_okp(key) -> bool:
    return not isinstance(key, (ec.EllipticCurvePrivateKey, rsa.RSAPrivateKey))


def _sign_raw(key, data: bytes, sig_hash) -> bytes:
    """Signature matching the signatureAlgorithm cryptography's builder writes for this key type."""
    if isinstance(key, ec.EllipticCurvePrivateKey):
        return key.sign(data, ec.ECDSA(sig_hash()))
    if isinstance(key, rsa.RSAPrivateKey):
        return key.sign(data, padding.PKCS1v15(), sig_hash())
    return key.sign(data)


def _with_version(cert: x509.Certificate, version: int, issuer_key, sig_hash) -> x509.Certificate:
    """Rewrite the TBSCertificate's version field and sign the new TBS with the same issuer key."""
    parsed = asn1_x509.Certificate.load(cert.public_bytes(serialization.Encoding.DER))
    parsed["tbs_certificate"]["version"] = f"v{version}"
    parsed["signature_value"] = _sign_raw(issuer_key, parsed["tbs_certificate"].dump(force=True), sig_hash)
    return x509.load_der_x509_certificate(parsed.dump(force=True))


def _with_corrupt_signature(cert: x509.Certificate) -> x509.Certificate:
    """Flip the lowest bit of the last signatureValue byte; TBS and algorithm fields are untouched."""
    parsed = asn1_x509.Certificate.load(cert.public_bytes(serialization.Encoding.DER))
    sig = bytearray(parsed["signature_value"].native)
    sig[-1] ^= 0x01
    parsed["signature_value"] = bytes(sig)
    out = x509.load_der_x509_certificate(parsed.dump())
    assert out.tbs_certificate_bytes == cert.tbs_certificate_bytes and out.signature != cert.signature
    return out


def make_cert(subject_cn: Optional[str] = None, issuer_cert: Optional[x509.Certificate] = None, issuer_key=None,
              subject_pubkey=None, *, subject: Optional[x509.Name] = None, ca: Optional[bool] = None,
              path_len: Optional[int] = None, not_before: Optional[datetime.datetime] = None,
              not_after: Optional[datetime.datetime] = None, extensions=(), version: int = 3,
              serial: Optional[int] = None, sig_hash=hashes.SHA256, corrupt_signature: bool = False) -> x509.Certificate:
    """One certificate for `subject_pubkey`, signed by `issuer_key`; `issuer_cert=None` means the
    issuer name equals the subject name (self-signed when issuer_key is the subject's own key).
    `extensions` is a list of (extension value, critical).  Versions 1 and 2 cannot carry
    extensions, so none are written for them."""
    subject = subject if subject is not None else name(subject_cn)
    issuer = issuer_cert.subject if issuer_cert is not None else subject
    builder = (x509.CertificateBuilder().subject_name(subject).issuer_name(issuer).public_key(subject_pubkey)
               .serial_number(serial if serial is not None else x509.random_serial_number())
               .not_valid_before(not_before if not_before is not None else now() + DEFAULT_VALIDITY["leaf"][0])
               .not_valid_after(not_after if not_after is not None else now() + DEFAULT_VALIDITY["leaf"][1]))
    if version == 3:
        for ext, critical in constraint_extensions(ca, path_len) + list(extensions):
            builder = builder.add_extension(ext, critical)
    cert = builder.sign(issuer_key, None if _is_okp(issuer_key) else sig_hash())
    if version != 3:
        cert = _with_version(cert, version, issuer_key, sig_hash)
    return _with_corrupt_signature(cert) if corrupt_signature else cert


def _der(cert) -> bytes:
    return cert if isinstance(cert, (bytes, bytearray)) else cert.public_bytes(serialization.Encoding.DER)


@dataclass
class Chain:
    """`root` is the certificate the relying party is told to trust.  Under C.untrusted-issuer and
    C.impostor-root-same-name it is not the CA that issued the chain; that one is `issuing_root`."""
    leaf: x509.Certificate
    intermediates: List[x509.Certificate]          # leaf-side first
    root: x509.Certificate
    issuing_root: Optional[x509.Certificate] = None
    withheld: List[x509.Certificate] = field(default_factory=list)   # intermediates that exist but stay out of x5c
    smuggle_issuing_root: bool = False
    tail_is_issuing_root: bool = False      # when x5c is asked to end with "the root", it ends with the CA that really issued it

    def x5c(self, order: str = "normal", extras=(), include_root: bool = False) -> List[bytes]:
        """DER certificates, leaf first.  "reversed" lists the intermediates root-side first;
        `extras` (certificates or DER bytes) are appended after them; the root comes last if asked for."""
        presented = [c for c in self.intermediates if c not in self.withheld]
        if order == "reversed":
            presented.reverse()
        elif order != "normal":
            raise ValueError(f"unknown chain order {order!r}")
        tail = [self.issuing_root if self.tail_is_issuing_root else self.root] if include_root else []
        # C.evil-root-in-x5c: the attacker ships the self-signed CA that really issued the chain
        smuggled = [self.issuing_root] if self.smuggle_issuing_root and self.issuing_root is not None else []
        return [_der(c) for c in [self.leaf] + presented + smuggled + list(extras) + tail]

    def root_pem(self) -> bytes:
        return self.root.public_bytes(serialization.Encoding.PEM)


def _window(member: str, validity: Optional[dict], faults: set):
    """(not_before, not_after) offsets or datetimes for "root", "int<i>" or "leaf"."""
    kind = "int" if member.startswith("int") else member
    table = {"leaf": ("C.leaf-expired", "C.leaf-not-yet"), "int0": ("C.int-expired", "C.int-not-yet"),
             "root": ("C.root-expired", None)}
    expired, not_yet = table.get(member, (None, None))
    if expired in faults:
        return EXPIRED
    if not_yet in faults:
        return NOT_YET
    validity = validity or {}
    return validity.get(member, validity.get(kind, DEFAULT_VALIDITY[kind]))


def _dates(window, base: datetime.datetime) -> dict:
    nb, na = (t if isinstance(t, datetime.datetime) else base + t for t in window)
    return {"not_before": nb, "not_after": na}


def _ski(key):
    return (x509.SubjectKeyIdentifier.from_public_key(key.public_key()), False)


def _aki(issuer_key):
    return (x509.AuthorityKeyIdentifier.from_issuer_public_key(issuer_key.public_key()), False)


def _root(cn: str, key, window, base, key_ids: bool = False, path_len=None) -> x509.Certificate:
    return make_cert(cn, None, key, key.public_key(), ca=True, path_len=path_len, extensions=[_ski(key)] if key_ids else (),
                     **_dates(window, base))


def _intermediate(idx: int, issuer_cert, issuer_key, key, window, base, faults: set, key_ids: bool = False) -> x509.Certificate:
    """Intermediate CA number `idx` (0 is the one that issues the leaf, and the only one faults touch)."""
    hit = faults if idx == 0 else set()
    ids = [_ski(key), _aki(issuer_key)] if key_ids else []
    if "C.int-not-ca" in hit:
        constraints = {"ca": False, "extensions": [(KEY_USAGE_CA, True)] + ids}
    elif "C.int-no-keycertsign" in hit:
        ku = x509.KeyUsage(digital_signature=True, content_commitment=False, key_encipherment=False, data_encipherment=False,
                           key_agreement=False, key_cert_sign=False, crl_sign=False, encipher_only=False, decipher_only=False)
        constraints = {"ca": None, "extensions": [(x509.BasicConstraints(ca=True, path_length=idx), True), (ku, True)] + ids}
    elif "C.name-constraint-permits-other-names-only" in hit:
        nc = x509.NameConstraints(permitted_subtrees=[x509.DirectoryName(x509.Name([x509.NameAttribute(NameOID.ORGANIZATION_NAME, "Sim Permitted Org Only")]))],
                                  excluded_subtrees=None)
        constraints = {"ca": True, "path_len": idx, "extensions": [(nc, True)] + ids}
    else:
        constraints = {"ca": True, "path_len": idx, "extensions": ids}
    return make_cert(f"Sim Attestation Intermediate CA {idx}", issuer_cert, issuer_key, key.public_key(),
                     corrupt_signature="C.sig-corrupt-int" in hit, **constraints, **_dates(window, base))


def _trusted_root(real_root, faults: set, other_key, base) -> x509.Certificate:
    """The root handed to the relying party: the real one unless a fault says it is some other CA."""
    if "C.untrusted-issuer" in faults or "C.evil-root-in-x5c" in faults:
        return _root(OTHER_ROOT_NAME, other_key, DEFAULT_VALIDITY["root"], base)
    if "C.impostor-root-same-name" in faults:
        return _root(ROOT_NAME, other_key, DEFAULT_VALIDITY["root"], base)
    return real_root


def stale_root_same_name(base_time=None, key=None) -> x509.Certificate:
    """the CA's *previous* root certificate: same subject name, another key (with its own key identifier) - what an RP's
    anchor list holds next to the current one after a key roll-over"""
    key = key or keys.get("p256", 5)
    return _root(ROOT_NAME, key, DEFAULT_VALIDITY["root"], base_time or now(), key_ids=True)


def build_chain(leaf_pubkey, *, leaf_subject: Optional[x509.Name] = None, leaf_extensions=(),
                leaf_ca: Optional[bool] = False, leaf_version: int = 3, leaf_privkey=None, n_intermediates: int = 0,
                root_key=None, inter_keys=None, other_root_key=None, leaf_issuer_key_override=None,
                base_time: Optional[datetime.datetime] = None, validity: Optional[dict] = None,
                faults=frozenset(), key_ids: bool = False) -> Chain:
    """root -> n intermediates -> leaf.  `validity` maps "root" / "int" / "int<i>" / "leaf" to a
    (not_before, not_after) pair of datetimes or of offsets from `base_time`.
    `leaf_issuer_key_override` signs the leaf with that key while its issuer name still names the CA.
    `leaf_privkey` is needed only for C.self-signed-leaf."""
    faults = set(faults)
    unknown = faults - set(CHAIN_FAULTS)
    if unknown:
        raise ValueError(f"unknown chain faults: {sorted(unknown)}")
    SUFFIX = "-and-unknown-critical-ext"
    if "C.leaf-unknown-critical-ext" in faults or any(f.endswith(SUFFIX) for f in faults):
        leaf_extensions = list(leaf_extensions) + [UNKNOWN_CRITICAL_EXT]
        faults = {f[: -len(SUFFIX)] if f.endswith(SUFFIX) else f for f in faults} - {"C.leaf-unknown-critical-ext"}
    base = base_time or now()
    n = max(n_intermediates, 1) if faults & NEED_INTERMEDIATE else n_intermediates
    root_key = root_key or keys.get("p384", 1)
    inter_keys = inter_keys or [keys.get("p256", 4), keys.get("p384", 2)]
    other_root_key = other_root_key or keys.get("p256", 5)

    # key_ids: the CA certificates carry a SubjectKeyIdentifier and everything issued an AuthorityKeyIdentifier (RFC 5280
    # 4.2.1.1 / 4.2.1.2) - what lets a verifier tell two CA certificates with one name apart
    real_root = _root(ROOT_NAME, root_key, _window("root", validity, faults), base, key_ids,
                      path_len=0 if "C.pathlen-exceeded" in faults else None)
    issuer_cert, issuer_key = real_root, root_key
    genuine_root = None
    if "C.impostor-root-copied-ski" in faults:
        # the chain is issued by the attacker's own CA (own key), which copies the trusted root's name and carries a
        # SubjectKeyIdentifier extension set to the *trusted* root's key identifier; the RP trusts the genuine root only
        genuine_root = real_root
        ski = x509.SubjectKeyIdentifier.from_public_key(root_key.public_key())
        real_root = make_cert(ROOT_NAME, None, other_root_key, other_root_key.public_key(), ca=True,
                              extensions=[(ski, False)], **_dates(_window("root", validity, faults), base))
        issuer_cert, issuer_key = real_root, other_root_key
    if "C.impostor-root-copied-everything-but-key" in faults:
        # the attacker's CA certificate repeats every identifying field of the trusted root - subject, issuer, serial number,
        # validity, key identifier - and differs only in its key (and therefore its signature); the RP trusts the genuine root
        genuine_root = real_root
        ski = x509.SubjectKeyIdentifier.from_public_key(root_key.public_key())
        real_root = make_cert(None, None, other_root_key, other_root_key.public_key(), subject=genuine_root.subject, ca=True,
                              serial=genuine_root.serial_number, extensions=[(ski, False)],
                              not_before=genuine_root.not_valid_before_utc.replace(tzinfo=None),
                              not_after=genuine_root.not_valid_after_utc.replace(tzinfo=None))
        issuer_cert, issuer_key = real_root, other_root_key
    intermediates: List[x509.Certificate] = []
    for idx in reversed(range(n)):                      # root-side first, so each has its issuer ready
        key = inter_keys[idx % len(inter_keys)]
        cert = _intermediate(idx, issuer_cert, issuer_key, key, _window(f"int{idx}", validity, faults), base, faults, key_ids)
        intermediates.insert(0, cert)
        issuer_cert, issuer_key = cert, key

    if "C.self-signed-leaf" in faults:
        if leaf_privkey is None:
            raise ValueError("C.self-signed-leaf needs leaf_privkey")
        issuer_cert, issuer_key = None, leaf_privkey
    elif leaf_issuer_key_override is not None:
        issuer_key = leaf_issuer_key_override
    subject = leaf_subject if leaf_subject is not None else name("Sim Leaf")   # the empty name is a valid choice
    if key_ids and issuer_key is not None and "C.self-signed-leaf" not in faults:
        leaf_extensions = list(leaf_extensions) + [_aki(issuer_key)]
    if "C.signer-ca-before-reversed-genuine-chain" in faults:
        # The statement is signed by the attacker's own self-signed, CA-flagged certificate, which comes first in x5c;
        # after it the attacker lists somebody else's genuine chain (public material) issuer-side first, genuine
        # end-entity certificate last.  Nothing links the first certificate to the anchors.
        if leaf_privkey is None:
            raise ValueError("C.signer-ca-before-reversed-genuine-chain needs leaf_privkey")
        genuine_key = keys.get("p256", 3)
        genuine_leaf = make_cert(None, issuer_cert, issuer_key, genuine_key.public_key(), subject=subject, ca=leaf_ca,
                                 extensions=leaf_extensions, version=leaf_version, **_dates(_window("leaf", validity, faults), base))
        own_exts = [(e, c) for e, c in leaf_extensions if not isinstance(e, (x509.BasicConstraints, x509.KeyUsage))]
        signer = make_cert(None, None, leaf_privkey, leaf_pubkey, subject=subject, ca=True, extensions=own_exts,
                           version=leaf_version, **_dates(_window("leaf", validity, faults), base))
        return Chain(leaf=signer, intermediates=list(reversed(intermediates)) + [genuine_leaf], root=real_root,
                     issuing_root=real_root)
    leaf = make_cert(None, issuer_cert, issuer_key, leaf_pubkey, subject=subject, ca=leaf_ca, extensions=leaf_extensions, version=leaf_version,
                     corrupt_signature="C.sig-corrupt-leaf" in faults, **_dates(_window("leaf", validity, faults), base))

    if genuine_root is not None:
        return Chain(leaf=leaf, intermediates=intermediates, root=genuine_root, issuing_root=real_root, tail_is_issuing_root=True)
    return Chain(leaf=leaf, intermediates=intermediates, root=_trusted_root(real_root, faults, other_root_key, base),
                 issuing_root=real_root, withheld=intermediates[:1] if "C.int-missing" in faults else [],
                 smuggle_issuing_root="C.evil-root-in-x5c" in faults)
