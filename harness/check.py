"""Entry point:  ./check Cxx --tier quick|thorough      ./check replay <file>

Verdict protocol (DESIGN.md §4):
  1. regenerate lean/Generated/Tables.lean from /repo
  2. lake build the property's theorems, the bridging theorems and the driver
  3. audit axioms / banned tokens
  4. correspondence: real code vs model driver (directional per property)
  5. the property's own predicate on the real code's outcomes
exit 0 clean | exit 1 + VIOLATION line | exit 2 infrastructure trouble (never a verdict)
"""
import argparse, importlib, json, os, sys, time, traceback

sys.path.insert(0, os.path.dirname(os.path.dirname(os.path.abspath(__file__))))
from harness import common  # noqa: E402


class Ctx:
    def __init__(self, prop_id, tier, seed):
        self.prop_id = prop_id
        self.tier = tier
        self.seed = seed
        self.rng = common.Rng(seed * 1000003 + sum(map(ord, prop_id)))
        self.driver_ok = False
        self.notes = []
        self.known = [k for k in common.load_known_findings() if k.get("property") == prop_id]

    def quick(self):
        return self.tier == "quick"


class Result:
    """What a property module reports back."""

    def __init__(self):
        self.evaluations = 0
        self.nontrivial = set()      # hashable keys of distinct non-trivial cases
        self.rule = ""
        self.samples = []
        self.distribution = {}
        self.violations = []         # real code observed violating the property predicate
        self.disagreements = []      # tie broken in the direction the property needs
        self.nonblocking = []        # disagreements in a direction this property does not need
        self.out_of_model = 0
        self.exhaustive = False
        self.extra = {}

    def count(self, key, n=1):
        self.distribution[key] = self.distribution.get(key, 0) + n


def finding_matches(entry, viol):
    m = entry.get("match", {})
    return all(viol.get("match", {}).get(k) == v for k, v in m.items())


def main():
    ap = argparse.ArgumentParser()
    ap.add_argument("prop")
    ap.add_argument("rest", nargs="*")
    ap.add_argument("--tier", default=os.environ.get("VERIF_TIER", "quick"))
    args = ap.parse_args()
    if args.prop == "replay":
        from harness import replay
        sys.exit(replay.main(args.rest))
    prop_id = args.prop
    tier = args.tier if args.tier in ("quick", "thorough") else "quick"
    seed = common.seed_from_env(0)
    t0 = time.time()
    try:
        mod = importlib.import_module(f"harness.props.{prop_id}")
    except ModuleNotFoundError:
        print(f"no check registered for {prop_id}", file=sys.stderr)
        sys.exit(2)
    ctx = Ctx(prop_id, tier, seed)

    # 1. regenerate the tables from /repo
    from harness import extract
    try:
        ext = extract.regenerate()
    except Exception as e:  # the translator itself failed: downgrade, do not alarm
        ext = {"ok": False, "why": f"{type(e).__name__}: {e}", "downgrades": [], "changed": False}
        ctx.notes.append("extract failed: " + ext["why"])

    # 2. build
    targets = list(getattr(mod, "LEAN_TARGETS", [f"Props.{prop_id}"]))
    try:
        ok_props, out_props, failed = common.lake_build(targets)
        ok_drv, out_drv, failed_drv = common.lake_build(["driver"])
    except Exception as e:
        print(f"infrastructure error during lake build: {e}", file=sys.stderr)
        sys.exit(2)
    ctx.driver_ok = ok_drv and os.path.exists(common.DRIVER)
    build_errors = common.lean_errors(out_props)

    # 3. audit
    theorems = list(mod.THEOREMS)
    aud, aud_out = common.audit(prop_id, theorems, getattr(mod, "AUDIT_IMPORTS", ()))
    if not ok_props:
        # a theorem in a module that failed to build is not discharged even if a stale .olean answers
        for t in theorems:
            if aud[t]["ok"] and any(f and f.replace("/", ".").removesuffix(".lean") in t for f, _, _ in build_errors):
                aud[t] = {"ok": False, "axioms": aud[t]["axioms"], "why": "module failed to build"}
        if not build_errors:
            for t in theorems:
                aud[t]["ok"] = False
                aud[t]["why"] = "build failed"
    banned = common.banned_tokens()
    undischarged = {t: a["why"] for t, a in aud.items() if not a["ok"]}
    thorough_recheck = None
    if tier == "thorough" and ok_props:
        thorough_recheck = common.leanchecker(getattr(mod, "LEANCHECK_MODULES", targets))
        if thorough_recheck and not thorough_recheck["ok"]:
            undischarged["leanchecker"] = thorough_recheck["why"]

    # 4 + 5. correspondence and the property predicate on the real code
    res = Result()
    try:
        mod.run(ctx, res)
    except Exception:
        traceback.print_exc()
        print("infrastructure error in the correspondence runner", file=sys.stderr)
        sys.exit(2)

    # verdict
    known_hits, new_viol = [], []
    for v in res.violations:
        hit = next((k for k in ctx.known if k.get("status") == "known" and finding_matches(k, v)), None)
        (known_hits if hit else new_viol).append((hit, v))
    exit_code = 0
    lines = []
    seen_known = set()
    for hit, v in known_hits:
        if hit["id"] not in seen_known:
            seen_known.add(hit["id"])
            lines.append(f"KNOWN-FINDING: property={prop_id} {hit['what']}")
    proof_broken = bool(undischarged) or bool(banned) or not ok_props
    tie_broken = bool(res.disagreements) or not ctx.driver_ok
    if new_viol:
        _, v = new_viol[0]
        path = common.write_replay(prop_id, seed, "violation", {
            "property": prop_id, "verdict": f"violates {prop_id}: {v.get('why')}", "seed": seed, "tier": tier,
            "case": v, "all_new_violations": [{k: x[k] for k in x if k != "case"} for _, x in new_viol][:200],
            "proof_obligations_broken": undischarged, "tie_disagreements": res.disagreements[:5]})
        lines.append(f"VIOLATION property={prop_id} replay={path}")
        exit_code = 1
    elif proof_broken or tie_broken:
        what = []
        if proof_broken:
            what.append("proof-broken " + ", ".join(sorted(undischarged)) if undischarged else "proof-broken (build/banned tokens)")
        if tie_broken:
            what.append("tie-broken " + (res.disagreements[0].get("why", "") if res.disagreements else "driver does not build"))
        path = common.write_replay(prop_id, seed, "unproved", {
            "property": prop_id, "verdict": "; ".join(what), "seed": seed, "tier": tier,
            "undischarged_theorems": undischarged, "banned_tokens": banned,
            "build_errors": build_errors[:20], "build_output_tail": (out_props + out_drv)[-4000:],
            "first_disagreements": res.disagreements[:5],
            "search": "the property predicate was evaluated on the real code for every generated case "
                      f"({res.evaluations} evaluations) and no failing input was found"})
        lines.append(f"VIOLATION property={prop_id} replay={path} no-failing-input-found")
        exit_code = 1

    wall = time.time() - t0
    coverage = {
        "obligations": len(theorems),
        "discharged": sum(1 for a in aud.values() if a["ok"]),
        "checker_cmd": f"cd lean && lake build {' '.join(targets)} && lake env lean Audit/{prop_id}.lean"
                       + (" && lake env leanchecker ..." if tier == "thorough" else ""),
        "trusted_base": common.TRUSTED_BASE + list(getattr(mod, "TRUSTED_EXTRA", [])),
        "theorems": {t: {"axioms": a["axioms"], "ok": a["ok"], "why": a["why"]} for t, a in aud.items()},
        "evaluations": res.evaluations,
        "distinct_nontrivial": len(res.nontrivial),
        "rule": res.rule,
        "samples": res.samples[:8],
        "exhaustive": res.exhaustive,
        "distribution": res.distribution,
        "out_of_model": res.out_of_model,
        "tie_disagreements": len(res.disagreements),
        "nonblocking_disagreements": res.nonblocking[:10],
        "nonblocking_disagreement_count": len(res.nonblocking),
        "generated_tables": {"sha256": common.sha256_file(os.path.join(common.LEAN, "Generated", "Tables.lean")),
                             "extract_ok": ext.get("ok"), "downgrades": ext.get("downgrades"), "why": ext.get("why")},
        "source_hashes": {p: common.sha256_file(os.path.join(common.LEAN, p)) for p in
                          [f"Props/{prop_id}.lean"] + list(getattr(mod, "SPEC_FILES", []))},
        "leanchecker": thorough_recheck,
        "known_findings_reported": sorted(seen_known),
        "notes": ctx.notes,
    }
    coverage.update(res.extra)
    if coverage["discharged"] == 0:
        # the schema wants discharged >= 1 when the proof keys are present; report the zero under another name
        coverage["obligations_total"] = coverage.pop("obligations")
        coverage["discharged_total"] = coverage.pop("discharged")
    common.write_evidence(prop_id, tier, seed, coverage, wall, len(new_viol) + (1 if exit_code and not new_viol else 0),
                          list(getattr(mod, "ASSUMPTIONS", [])))
    for ln in lines:
        print(ln)
    sys.stdout.flush()
    common.validate_evidence(prop_id, fatal=(exit_code == 0))
    print(f"{prop_id} [{tier}] obligations {coverage.get('discharged', 0)}/{coverage.get('obligations', len(theorems))} "
          f"evaluations {res.evaluations} distinct {len(res.nontrivial)} tie-disagreements {len(res.disagreements)} "
          f"violations {len(new_viol)} known {len(seen_known)} wall {wall:.1f}s -> exit {exit_code}")
    sys.exit(exit_code)


if __name__ == "__main__":
    main()
