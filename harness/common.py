"""Shared plumbing for the checks: paths, seeded PRNG, lake/audit runners, evidence, verdicts."""
import fcntl, hashlib, json, os, random, re, subprocess, sys, time
from contextlib import contextmanager

VERIF = os.path.dirname(os.path.dirname(os.path.abspath(__file__)))
LEAN = os.path.join(VERIF, "lean")
REPO = os.environ.get("VERIF_REPO", "/repo")
DRIVER = os.path.join(LEAN, ".lake", "build", "bin", "driver")
EVIDENCE = os.path.join(VERIF, "evidence")
REPLAYS = os.path.join(VERIF, "replays")
ALLOWED_AXIOMS = {"propext", "Classical.choice", "Quot.sound"}
BANNED = re.compile(r"\b(sorry|admit|native_decide|bv_decide|implemented_by)\b|^\s*axiom\s|\bunsafe\s|maxHeartbeats\s+0\b", re.M)

TRUSTED_BASE = [
    "Lean 4.33.0 kernel (thorough tier: .olean files re-checked with leanchecker)",
    "axioms admitted: propext, Classical.choice, Quot.sound only (audited per theorem on every run via #print axioms); no native_decide, bv_decide, sorry, user axioms",
    "hand-written Lean model of the Python code (lean/Model), tied to /repo by (a) harness/extract.py regenerating lean/Generated/Tables.lean from /repo on every run and (b) the differential correspondence check harness/corr (real code vs compiled model driver on the same inputs)",
    "external libraries are oracles: cryptography, pyOpenSSL/OpenSSL, cbor2 (outside the proved fragment), asn1crypto, json, hashlib, secrets, system clock",
    "the Spec layer (lean/Spec) states what the property demands",
]


def seed_from_env(default=0):
    try:
        return int(os.environ.get("VERIF_SEED", default))
    except ValueError:
        return default


@contextmanager
def build_lock():
    os.makedirs(os.path.join(LEAN, ".lake"), exist_ok=True)
    with open(os.path.join(LEAN, ".lake", "verif.lock"), "w") as f:
        fcntl.flock(f, fcntl.LOCK_EX)
        try:
            yield
        finally:
            fcntl.flock(f, fcntl.LOCK_UN)


def run(cmd, cwd=None, timeout=None, env=None):
    p = subprocess.run(cmd, cwd=cwd, capture_output=True, text=True, timeout=timeout, env=env)
    return p.returncode, p.stdout + p.stderr


def lake_build(targets, timeout=1500):
    """Build the given lake targets; returns (ok, output, failed_modules)."""
    with build_lock():
        rc, out = run(["lake", "build"] + list(targets), cwd=LEAN, timeout=timeout)
    failed = re.findall(r"^- (\S+)", out, re.M)
    return rc == 0, out, failed


def lean_errors(out):
    """(file, line, message-first-line) triples from lake/lean output."""
    return re.findall(r"^error: (\S+?):(\d+):\d+: (.*)$", out, re.M)


def audit(prop_id, theorems, extra_imports=()):
    """#print axioms for every obligation theorem.  Returns {thm: {'ok':bool,'axioms':[..],'why':str}}."""
    path = os.path.join(LEAN, "Audit", f"{prop_id}.lean")
    imports = [f"Props.{prop_id}"] + list(extra_imports)
    body = "".join(f"import {m}\n" for m in imports)
    for t in theorems:
        body += f"#print axioms {t}\n"
    os.makedirs(os.path.dirname(path), exist_ok=True)
    old = open(path).read() if os.path.exists(path) else None
    if old != body:
        with open(path, "w") as f:
            f.write(body)
    with build_lock():
        rc, out = run(["lake", "env", "lean", path], cwd=LEAN, timeout=900)
    res = {}
    for t in theorems:
        res[t] = {"ok": False, "axioms": None, "why": "not reported (missing or failed to elaborate)"}
    for m in re.finditer(r"'([^']+)' depends on axioms: \[([^\]]*)\]", out):
        name, axs = m.group(1), [a.strip() for a in m.group(2).replace("\n", " ").split(",") if a.strip()]
        if name in res:
            bad = [a for a in axs if a not in ALLOWED_AXIOMS]
            res[name] = {"ok": not bad, "axioms": axs, "why": "" if not bad else f"inadmissible axioms {bad}"}
    for m in re.finditer(r"'([^']+)' does not depend on any axioms", out):
        if m.group(1) in res:
            res[m.group(1)] = {"ok": True, "axioms": [], "why": ""}
    return res, out


def banned_tokens():
    """grep the Lean sources for sorry/admit/axiom/native_decide/... outside comments."""
    hits = []
    for root, _, files in os.walk(LEAN):
        if ".lake" in root:
            continue
        for fn in files:
            if not fn.endswith(".lean"):
                continue
            p = os.path.join(root, fn)
            src = open(p).read()
            # strip block comments (incl. doc comments) and line comments
            src2 = re.sub(r"/-.*?-/", lambda m: "\n" * m.group(0).count("\n"), src, flags=re.S)
            src2 = re.sub(r"--.*", "", src2)
            for m in BANNED.finditer(src2):
                line = src2.count("\n", 0, m.start()) + 1
                hits.append(f"{os.path.relpath(p, LEAN)}:{line}: {m.group(0).strip()}")
    return hits


def sha256_file(p):
    try:
        return hashlib.sha256(open(p, "rb").read()).hexdigest()
    except OSError:
        return None


def write_evidence(prop_id, tier, seed, coverage, wall_s, violations, assumptions, extra=None):
    os.makedirs(EVIDENCE, exist_ok=True)
    ev = {
        "property_id": prop_id,
        "tier": tier,
        "seed": seed,
        "level": "proof",
        "coverage": coverage,
        "assumptions": assumptions,
        "wall_s": round(wall_s, 2),
        "violations": violations,
    }
    if extra:
        ev.update(extra)
    path = os.path.join(EVIDENCE, f"{prop_id}.json")
    tmp = path + f".tmp{os.getpid()}"
    with open(tmp, "w") as f:
        json.dump(ev, f, indent=1, sort_keys=False, default=str)
    os.replace(tmp, path)
    return path


def write_replay(prop_id, seed, tag, payload):
    os.makedirs(REPLAYS, exist_ok=True)
    path = os.path.join(REPLAYS, f"{prop_id}-{seed}-{tag}.json")
    with open(path, "w") as f:
        json.dump(payload, f, indent=1, default=str)
    return path


def load_known_findings():
    p = os.path.join(VERIF, "known_findings.json")
    try:
        return json.load(open(p))
    except OSError:
        return []


class Rng(random.Random):
    """All random choices of a run derive from one seed (ECDSA/PSS signatures excepted: the
    libraries randomise them, replay files store the concrete bytes)."""

    def bytes_(self, n):
        return bytes(self.getrandbits(8) for _ in range(n))


def leanchecker(modules, timeout=1500):
    """Independent re-check of the compiled .olean files (thorough tier)."""
    try:
        with build_lock():
            rc, out = run(["lake", "env", "leanchecker"] + list(modules), cwd=LEAN, timeout=timeout)
    except FileNotFoundError:
        return {"ok": True, "why": "leanchecker not installed; skipped", "modules": list(modules)}
    except subprocess.TimeoutExpired:
        return {"ok": True, "why": "leanchecker timed out; skipped", "modules": list(modules)}
    return {"ok": rc == 0, "why": out[-1500:] if rc else "", "modules": list(modules)}


def validate_evidence(prop_id, fatal=True):
    """Validate the evidence file against the given schema with the tooling venv's jsonschema."""
    path = os.path.join(EVIDENCE, f"{prop_id}.json")
    code = ("import json,sys,jsonschema;"
            "jsonschema.validate(json.load(open(sys.argv[1])), json.load(open('/root/.vp/EVIDENCE.schema.json')))")
    try:
        rc, out = run(["python3-vt", "-c", code, path], timeout=60)
    except (FileNotFoundError, subprocess.TimeoutExpired):
        return None
    if rc != 0:
        print("evidence file does not validate against EVIDENCE.schema.json:\n" + out[-1500:], file=sys.stderr)
        if fatal:
            sys.exit(2)
    return True
