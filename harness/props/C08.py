"""C08 — What registration returns is exactly what authenticates; nothing else does."""
from .. import cases, corr, faults
from ..check import Result
from ..driver import Driver
from ..oracle import Oracle
from ..sim import attest, core
from . import _reg

ID = "C08"
P = "Webauthn.Props.C08."
THEOREMS = [P + n for n in ("returned_key_decodes", "chain", "cross", "returned_key_is_sent_key", "returned_key_fixed_point")] + \
           ["Webauthn.reencode_stable", "Webauthn.Cbor.dec_wf", "Webauthn.Cbor.dec_enc"] + \
           ["Webauthn.Props.Examples.chain_example", "Webauthn.Props.Examples.reg_accepts"]
AUDIT_IMPORTS = ["Props.Examples"]
LEAN_TARGETS = ["Props.Examples", "Props.C08"]
SPEC_FILES = ["Spec/Core.lean"]
ASSUMPTIONS = ["cross-credential rejection holds under the idealisation UniqueKey (a signature valid under one key is not valid under another)"]


RP_IDS = ["example.com", "Login.Example.org", "b\u00fccher.example", "localhost", "EXAMPLE.COM", "xn--bcher-kva.example"]


def register(fmt, choice, idx, **kw):
    b = _reg.build(fmt, choice, (), cred_id=kw.pop("cred_id", bytes([idx]) * 20), **kw)
    if b is None:
        return None
    req, r = b
    e = _reg.expectation(req, r.roots)
    code = cases.run_reg(r.credential, e)
    return req, r, e, code


def work(tasks, idx):
    res = Result()
    drv = Driver(Oracle()) if work.driver_ok else None
    tie = corr.Tie(res, drv, "both_accept")
    for t in tasks:
        if t[0] == "chain":
            fmt, choice, n = t[1:4]
            # every other chain: the envelope's rawId differs from the attested credential id (nothing compares them at
            # registration); what is returned and stored must be the id the authenticator will present later
            kw = {"envelope_id": bytes(range(40, 56))} if (n + len(fmt)) % 2 and fmt != "fido-u2f" else {}
            # the RP ID is whatever string the RP uses, the same in both ceremonies (mixed case, non-ASCII, an IP-like
            # or single-label name): "the same RP" means that string
            rp_id = RP_IDS[(n + len(choice[0]) + len(fmt)) % len(RP_IDS)]
            kw["rp_id"] = rp_id
            kw["origin"] = "https://" + rp_id
            if len(t) > 4:
                # the credential id is whatever the authenticator chose, 1 to 1023 bytes: what registers with an id of some
                # length must authenticate with it (its text form in the envelope is a third longer than the bytes)
                import hashlib
                kw["cred_id"] = hashlib.shake_256(b"C08-id-%d" % t[4]).digest(t[4])
                kw.pop("envelope_id", None)
                res.count("chain:id-length")
            out = register(fmt, choice, 1, **kw)
            if out is None:
                continue
            req, r, e, code = out
            res.evaluations += 1
            tie.check(cases.reg_case(r.credential, e), code, label=["register", fmt])
            if code["k"] != "accept":
                res.nonblocking.append({"why": f"conformant {fmt} registration rejected", "code": code})
                continue
            stored_key = bytes.fromhex(code["record"]["credential_public_key"])
            stored_id = bytes.fromhex(code["record"]["credential_id"])
            cred = req.cred
            stored = int(code["record"]["sign_count"])
            for k in range(n):
                a, ea, _ = faults.build_assertion(cred, counter=stored + 1 + k, stored=stored, rp_id=rp_id, origin="https://" + rp_id)
                ea["public_key"] = stored_key
                ea["stored_count"] = stored
                ca_ = cases.run_auth(a, ea)
                res.evaluations += 1
                tie.check(cases.auth_case(a, ea), ca_, label=["authenticate-after", fmt, k])
                res.nontrivial.add((fmt, choice, k))
                if ca_["k"] != "accept" or a["raw_id"] != stored_id:
                    res.violations.append({"why": f"assertion by the credential registered with {fmt} rejected against the returned key: {ca_}",
                                           "case": cases.auth_case(a, ea), "match": {"op": "register-authenticate", "fmt": fmt}})
                    break
                stored = int(ca_["record"]["new_sign_count"])
            # one more assertion, chosen so that its signature begins with a zero octet (about one RSA / Ed25519 signature in
            # 256 does): a signature is the octet string the authenticator sent, leading zeros included
            kind = core.key_kind(cred.priv)
            if kind in ("rsa", "okp") and (kind == "okp" or cred.priv.key_size <= 4096) and fmt in ("none", "packed-self", "packed"):
                for j in range(1500):
                    a, ea, _ = faults.build_assertion(cred, counter=stored + 1 + j, stored=stored, rp_id=rp_id, origin="https://" + rp_id)
                    if a["signature"][0] == 0:
                        ea["public_key"], ea["stored_count"] = stored_key, stored
                        cz = cases.run_auth(a, ea)
                        res.evaluations += 1
                        res.count("chain:leading-zero-signature")
                        tie.check(cases.auth_case(a, ea), cz, label=["authenticate-after", fmt, "leading-zero-signature"])
                        if cz["k"] != "accept":
                            res.violations.append({"why": f"assertion whose signature begins with a zero octet rejected against the returned key: {cz}",
                                                   "case": cases.auth_case(a, ea), "match": {"op": "register-authenticate", "fmt": fmt}})
                        break
            res.count("chain:" + fmt)
            if len(res.samples) < 3:
                res.samples.append({"fmt": fmt, "credential": choice, "authentications": n})
        elif t[0] == "related":
            # two credentials whose keys are related (same RSA modulus, different public exponent): each authenticates against
            # its own returned key, in both orders, and neither against the other's
            _, fmt, (ka, kb) = t
            outs = {}
            for nm, ch in (("a", ka), ("b", kb)):
                out = register(fmt, ch, 7 if nm == "a" else 8)
                if out is None or out[3]["k"] != "accept":
                    res.nonblocking.append({"why": f"conformant {fmt} registration of {ch} rejected", "code": out and out[3]})
                    outs = None
                    break
                outs[nm] = out
            if not outs:
                continue
            for first, second in (("a", "b"), ("b", "a")):
                for signer, stored in ((first, first), (first, second), (second, second), (second, first), (first, first)):
                    req_s, code_st = outs[signer][0], outs[stored][3]
                    a, ea, _ = faults.build_assertion(req_s.cred, counter=9, stored=0)
                    ea["public_key"] = bytes.fromhex(code_st["record"]["credential_public_key"])
                    code = cases.run_auth(a, ea)
                    res.evaluations += 1
                    tie.check(cases.auth_case(a, ea), code, label=["related", signer, stored])
                    res.nontrivial.add(("related", ka, kb, first, signer, stored))
                    if (code["k"] == "accept") != (signer == stored):
                        res.violations.append({"why": f"related keys {ka} / {kb}: assertion signed by credential {signer} "
                                                      f"{'accepted' if code['k'] == 'accept' else 'rejected'} against the stored key of {stored}: "
                                                      f"{code.get('msg') or code.get('nonlib') or ''}",
                                               "case": cases.auth_case(a, ea), "match": {"op": "related-keys", "signer": signer, "stored": stored}})
        else:
            _, pairs = t
            regs = {}
            for (fmt, choice, i) in {x for p in pairs for x in p}:
                out = register(fmt, choice, i)
                if out and out[3]["k"] == "accept":
                    regs[(fmt, choice, i)] = out
            for p, q in pairs:
                if p not in regs or q not in regs or p == q:
                    continue
                reqp, _, _, codep = regs[p]
                reqq, _, _, codeq = regs[q]
                if reqp.cred.pub.public_numbers() == reqq.cred.pub.public_numbers() if hasattr(reqp.cred.pub, "public_numbers") and hasattr(reqq.cred.pub, "public_numbers") else False:
                    continue
                # assertion signed by q's key, verified against p's stored key
                a, ea, _ = faults.build_assertion(reqq.cred, counter=5, stored=0)
                ea["public_key"] = bytes.fromhex(codep["record"]["credential_public_key"])
                code = cases.run_auth(a, ea)
                res.evaluations += 1
                tie.check(cases.auth_case(a, ea), code, label=["cross", p[0], q[0]])
                res.nontrivial.add(("cross", p, q))
                res.count("cross:" + corr.kind(code))
                if code["k"] == "accept":
                    res.violations.append({"why": f"assertion by credential {q} accepted against the stored key of {p}",
                                           "case": cases.auth_case(a, ea), "match": {"op": "cross-credential"}})
    if drv:
        drv.close()
    return res


def run(ctx, res):
    rng = ctx.rng
    tasks = []
    creds = []
    for fmt in _reg.FORMATS:
        for ch in _reg.cred_choices(fmt):
            creds.append((fmt, ch))
            tasks.append(("chain", fmt, ch, 3 if ctx.quick() else 8))
    # credential-id lengths: every boundary a length limit could sit at, in bytes or in characters of the text form
    ID_LENGTHS = [1, 2, 15, 16, 17, 31, 33, 48, 63, 64, 65, 96, 127, 128, 129, 191, 192, 193, 255, 256, 257, 341, 342, 383, 384,
                  385, 511, 512, 513, 682, 683, 700, 766, 767, 768, 769, 900, 1000, 1021, 1022, 1023]
    id_creds = [("none", ("p256", 0, core.ES256)), ("packed-self", ("ed25519", 0, core.EDDSA)), ("packed", ("rsa", 0, core.RS256)),
                ("none", ("p521", 0, core.ES512))]
    for i, L in enumerate(ID_LENGTHS if ctx.quick() else range(1, 1024)):
        f, ch = id_creds[i % len(id_creds)]
        if ch in _reg.cred_choices(f):
            tasks.append(("chain", f, ch, 1, L))
    n = 10 if ctx.quick() else 40
    pool = [(f, ch, i) for i, (f, ch) in enumerate(rng.sample(creds, min(n, len(creds))))]
    pairs = [(p, q) for p in pool for q in pool if p != q and (p[1][0], p[1][1]) != (q[1][0], q[1][1])]
    for i in range(0, len(pairs), 40):
        tasks.append(("cross", pairs[i:i + 40]))
    for fmt in ("none", "packed-self"):
        tasks.append(("related", fmt, (("rsa", 0, core.RS256), ("rsa-same-n-small-e", 0, core.RS256))))
        tasks.append(("related", fmt, (("rsa", 4, core.PS256), ("rsa-33bit-e", 0, core.PS256))))
        tasks.append(("related", fmt, (("rsa", 5, core.RS384), ("rsa-64bit-e", 0, core.RS384))))
    work.driver_ok = ctx.driver_ok
    corr.merge(res, corr.parallel(work, tasks))
    res.rule = ("register (every format x credential algorithm) then authenticate k times with advancing counters using exactly the "
                "returned credential id and public-key bytes; and all ordered pairs of distinct credentials registered in the run "
                "(assertion by q verified against p's stored key); distinct = (format, key, step) / ordered pair")
