"""Child process of the C17 check: runs under the fake clock and pickles a partial Result to stdout."""
import ctypes, datetime, os, pickle, sys, time

from .. import cases, corr, common
from ..check import Result
from ..driver import Driver
from ..oracle import Oracle
from ..sim import attest, core
from . import _reg

ROUTE = os.environ.get("VERIF_C17_ROUTE", "ld_preload")
if ROUTE == "ld_preload":
    _lib = ctypes.CDLL(None)
    _lib.fakeclock_set_offset_ns.argtypes = [ctypes.c_int64]

    def set_clock(target_epoch):
        _lib.fakeclock_set_offset_ns(0)
        real = time.time()
        _lib.fakeclock_set_offset_ns(int((target_epoch - real) * 1e9))
else:  # fallback: the route the repository's own tests use
    import webauthn.helpers.validate_certificate_chain as vcc
    import webauthn.helpers.verify_safetynet_timestamp as vst
    from OpenSSL.crypto import X509Store
    _target = [time.time()]
    _real_time = time.time

    def _store():
        s = X509Store()
        s.set_time(datetime.datetime.fromtimestamp(_target[0], datetime.timezone.utc).replace(tzinfo=None))
        return s
    vcc._generate_new_cert_store = _store
    time.time = lambda: _target[0]

    def set_clock(target_epoch):
        _target[0] = target_epoch


_last_time = [None]
_inner_time = time.time


def _recording_time():
    v = _inner_time()
    _last_time[0] = v
    return v


time.time = _recording_time     # record what the code read; the value itself is untouched


def main():
    if os.environ.get("TZ"):
        time.tzset()
    TZ = os.environ.get("TZ", "")
    PART = os.environ.get("VERIF_C17_PART", "full")
    tier = os.environ.get("VERIF_C17_TIER", "quick")
    seed = int(os.environ.get("VERIF_C17_SEED", "0"))
    quick = tier == "quick"
    rng = common.Rng(seed + 17)
    res = Result()
    orc = Oracle()
    drv = Driver(orc) if os.environ.get("VERIF_C17_DRIVER") == "1" and ROUTE == "ld_preload" else None
    tie = corr.Tie(res, drv, "eq")
    set_clock(time.time())
    base = datetime.datetime.now(datetime.timezone.utc).replace(microsecond=0)
    T0 = base.timestamp()

    # ---- certificate chains: packed + x5c, one intermediate
    b = _reg.build("packed", ("p256", 0, core.ES256), (), n_intermediates=1, base_time=base)
    req, r = b
    e = _reg.expectation(req, r.roots)
    c = r.credential
    members = {"leaf": r.chain.leaf, "intermediate": r.chain.intermediates[0], "root": r.chain.root}
    windows = {k: (v.not_valid_before_utc.timestamp(), v.not_valid_after_utc.timestamp()) for k, v in members.items()}

    def chain_expected(t):
        """True / False / None (the boundary second itself is not judged)"""
        verdict = True
        for nb, na in windows.values():
            ti = int(t)
            if ti < nb or ti > na:
                return False
            if ti == na:
                verdict = None
        return verdict

    offsets = set()
    dense = 3 if quick else 12
    for nb, na in windows.values():
        for d in list(range(-dense, dense + 1)) + [-600, -300, -121, -119, -90, -45, -10, 10, 45, 90, 119, 121, 300, 600]:
            offsets.add(nb + d)
            offsets.add(na + d)
    for d in (-10 ** 9, -86400 * 365, -86400, -3600, 0, 3600, 86400, 86400 * 365, 10 ** 9):
        offsets.add(T0 + d)
    for t in sorted(offsets):
        if t < 0:
            continue
        set_clock(t + 0.5)
        code = cases.run_reg(c, e)
        res.evaluations += 1
        tie.check(cases.reg_case(c, e), code, label=["chain-at", t - T0])
        exp = chain_expected(t + 0.5)
        res.nontrivial.add(("chain", TZ, t - T0))
        res.count("chain:" + corr.kind(code))
        if exp is not None and (code["k"] == "accept") != exp:
            kind = "accepted outside" if code["k"] == "accept" else "rejected inside"
            entry = {"why": f"certificate chain {kind} the validity periods at clock offset {t - T0:+.0f}s (process TZ={TZ})", "offset": t - T0,
                     "windows": {k: [a - T0, b_ - T0] for k, (a, b_) in windows.items()}, "code": code,
                     "match": {"op": "verify_reg", "clock": "chain"}}
            (res.violations if code["k"] == "accept" else res.nonblocking).append(entry)
    # ---- the same sweep for every other format that carries a certificate chain (each has its own verifier and may treat
    # its certificates in its own way): clock just before / after every member's notBefore and notAfter, from a second to
    # ten minutes away
    for fmtx, chx, nint in (("tpm", ("rsa", 0, core.RS256), 1), ("apple", ("p256", 0, core.ES256), 1),
                            ("android-key", ("p256", 0, core.ES256), 1), ("fido-u2f", ("p256", 1, core.ES256), 0)):
        bx = _reg.build(fmtx, chx, (), n_intermediates=nint, base_time=base)
        if bx is None:
            continue
        reqx, rx = bx
        ex, cx = _reg.expectation(reqx, rx.roots), rx.credential
        membx = [rx.chain.leaf] + list(rx.chain.intermediates) + [rx.chain.root]
        winx = [(v.not_valid_before_utc.timestamp(), v.not_valid_after_utc.timestamp()) for v in membx]
        offx = set()
        for nb, na in winx:
            for d in (-601, -301, -299, -120, -30, -2, -1, 1, 2, 30, 120, 299, 301, 601):
                offx.add(nb + d)
                offx.add(na + d)
        offx.add(T0)
        for t in sorted(offx):
            if t < 0:
                continue
            set_clock(t + 0.5)
            code = cases.run_reg(cx, ex)
            res.evaluations += 1
            tie.check(cases.reg_case(cx, ex), code, label=["chain-at", fmtx, t - T0])
            ti = int(t + 0.5)
            inside = all(nb <= ti <= na for nb, na in winx)
            edge = any(ti == na for nb, na in winx)
            res.nontrivial.add(("chain", fmtx, TZ, t - T0))
            res.count(f"chain-{fmtx}:" + corr.kind(code))
            if not edge and (code["k"] == "accept") != inside:
                kind = "accepted outside" if code["k"] == "accept" else "rejected inside"
                entry = {"why": f"{fmtx}: certificate chain {kind} the validity periods at clock offset {t - T0:+.0f}s (process TZ={TZ})",
                         "offset": t - T0, "fmt": fmtx, "windows": [[a - T0, b_ - T0] for a, b_ in winx], "code": code,
                         "match": {"op": "verify_reg", "clock": "chain", "fmt": fmtx}}
                (res.violations if code["k"] == "accept" else res.nonblocking).append(entry)
    # the same response, clock moving between calls (never cached)
    leaf_na = windows["leaf"][1]
    seq = [T0, leaf_na + 5, T0, windows["leaf"][0] - 5, T0 + 60, leaf_na + 1000, T0]
    trail = []
    for t in seq * (1 if quick else 5):
        set_clock(t + 0.5)
        code = cases.run_reg(c, e)
        res.evaluations += 1
        exp = chain_expected(t + 0.5)
        trail.append((t - T0, corr.kind(code)))
        if exp is not None and (code["k"] == "accept") != exp:
            res.violations.append({"why": f"outcome at clock offset {t - T0:+.0f}s inside a call sequence does not follow the clock "
                                          f"of that call: {trail}", "match": {"op": "verify_reg", "clock": "sequence"}})
    res.samples.append({"chain_windows_relative_s": {k: [a - T0, b_ - T0] for k, (a, b_) in windows.items()}, "sequence": trail[:7]})

    # ---- the attestation certificate itself pinned as the RP's anchor (as metadata services list them), its issuer not
    # supplied: whatever the path validation makes of that, outside the certificate's own validity period it is not valid
    from cryptography.hazmat.primitives import serialization as _ser
    bp = _reg.build("packed", ("p256", 0, core.ES256), (), n_intermediates=0, base_time=base)
    reqp, rp_ = bp
    leaf = rp_.chain.leaf
    ep = _reg.expectation(reqp, {"packed": [leaf.public_bytes(_ser.Encoding.PEM)]})
    lnb, lna = leaf.not_valid_before_utc.timestamp(), leaf.not_valid_after_utc.timestamp()
    for t in (lnb - 86400, lnb - 5, lnb + 5, T0, lna - 5, lna + 5, lna + 86400, lna + 10 ** 8):
        set_clock(t + 0.5)
        code = cases.run_reg(rp_.credential, ep)
        res.evaluations += 1
        tie.check(cases.reg_case(rp_.credential, ep), code, label=["pinned-leaf-at", t - T0])
        res.nontrivial.add(("pinned-leaf", TZ, t - T0))
        res.count("pinned-leaf:" + corr.kind(code))
        if (t + 0.5 < lnb or t + 0.5 > lna + 1) and code["k"] == "accept":
            res.violations.append({"why": f"attestation whose certificate is pinned as the anchor accepted at clock offset {t - T0:+.0f}s, outside "
                                          f"that certificate's validity period (process TZ={TZ})", "offset": t - T0,
                                   "match": {"op": "verify_reg", "clock": "pinned-leaf"}})
    # a *new* response (new challenge, credential, timestamp, signature) carrying the very same certificates, verified after
    # the clock has moved past the leaf's validity: "currently valid" is asked at every verification, whatever was seen before
    for fmtx, chx in (("android-safetynet", ("p256", 2, core.ES256)), ("packed", ("p256", 0, core.ES256)), ("tpm", ("rsa", 0, core.RS256))):
        set_clock(T0 + 0.5)
        b1 = _reg.build(fmtx, chx, (), base_time=base, n_intermediates=1 if fmtx != "android-safetynet" else 0)
        if b1 is None:
            continue
        req1, r1 = b1
        first = cases.run_reg(r1.credential, _reg.expectation(req1, r1.roots))
        lna1 = r1.chain.leaf.not_valid_after_utc.timestamp()
        later = datetime.datetime.fromtimestamp(lna1 + 3600, datetime.timezone.utc).replace(microsecond=0)
        set_clock(later.timestamp() + 0.5)
        b2 = _reg.build(fmtx, chx, (), base_time=later, reuse_chain=r1.chain, cred_id=b"second-credential-over-the-same-chain",
                        n_intermediates=1 if fmtx != "android-safetynet" else 0)
        if b2 is None:
            continue
        req2, r2 = b2
        second = cases.run_reg(r2.credential, _reg.expectation(req2, r1.roots))
        res.evaluations += 2
        res.nontrivial.add(("same-chain-later", fmtx, TZ))
        res.count(f"same-chain-later:{fmtx}:" + corr.kind(first) + "->" + corr.kind(second))
        if second["k"] == "accept":
            res.violations.append({"why": f"{fmtx}: a new response over certificates seen (and accepted) before was accepted one hour after the "
                                          f"leaf certificate's notAfter", "match": {"op": "verify_reg", "clock": "same-chain-later", "fmt": fmtx}})
    if PART == "chain":
        set_clock(time.time())
        if drv:
            drv.close()
        sys.stdout.buffer.write(pickle.dumps(res))
        return

    # ---- SafetyNet timestamp
    set_clock(T0 + 0.5)
    bs = _reg.build("android-safetynet", ("p256", 2, core.ES256), (), base_time=base)
    reqs, rs = bs
    es = _reg.expectation(reqs, rs.roots)
    cs = rs.credential
    ts_ms = int(base.timestamp() * 1000)   # the payload's timestampMs
    steps = set()
    fine = 3 if quick else 25
    for edge in (-11000, -10000, -9000, 9000, 10000, 11000):
        for d in range(-fine, fine + 1):
            steps.add(edge + d)
    for d in (-10 ** 7, -60000, -20000, -5000, 0, 5000, 20000, 60000, 10 ** 7):
        steps.add(d)
    for d in sorted(steps):
        # verifier clock t_ms such that ts - t_ms = d
        t_ms = ts_ms - d
        set_clock(t_ms / 1000.0)
        _last_time[0] = None
        code = cases.run_reg(cs, es)
        res.evaluations += 1
        if d % 7 == 0 or abs(abs(d) - 10000) <= 1:
            seen = _last_time[0]
            # the model is asked with the very clock value the code read (no race across a second boundary)
            orc.begin_case(overrides={"now_seconds": (lambda q, seen=seen: {"t": str(int(seen))} if seen is not None else None)})
            tie.check(cases.reg_case(cs, es), code, label=["safetynet-ts-minus-clock-ms", d])
            orc.begin_case()
        res.nontrivial.add(("snet", d))
        res.count("safetynet:" + corr.kind(code))
        must_accept = -9995 <= d <= 8995          # 5 ms guard band: the clock keeps running during the call
        must_reject = d <= -11005 or d > 10005
        if must_reject and code["k"] == "accept":
            res.violations.append({"why": f"SafetyNet attestation accepted with timestamp {d} ms away from the verifier's clock",
                                   "delta_ms": d, "match": {"op": "verify_reg", "clock": "safetynet"}})
        if must_accept and code["k"] != "accept":
            res.violations.append({"why": f"SafetyNet attestation rejected with timestamp only {d} ms away from the verifier's clock: {code.get('msg')}",
                                   "delta_ms": d, "match": {"op": "verify_reg", "clock": "safetynet-complete"}})
    # the right instant in the wrong unit (seconds, microseconds) or no instant at all: decades outside the window
    for f in ("S.ts-in-seconds", "S.ts-in-microseconds", "S.ts-zero", "S.ts-nan", "S.ts-minus-infinity"):
        for dt in (0.0, 3.0, -3.0):
            set_clock(T0 + dt + 0.5)
            bu = _reg.build("android-safetynet", ("p256", 2, core.ES256), (f,), base_time=base)
            if bu is None:
                continue
            requ, ru = bu
            eu = _reg.expectation(requ, ru.roots)
            _last_time[0] = None
            code = cases.run_reg(ru.credential, eu)
            res.evaluations += 1
            seen = _last_time[0]
            orc.begin_case(overrides={"now_seconds": (lambda q, seen=seen: {"t": str(int(seen))} if seen is not None else None)})
            tie.check(cases.reg_case(ru.credential, eu), code, label=["safetynet-unit", f, dt])
            orc.begin_case()
            res.nontrivial.add(("snet-unit", f, dt))
            res.count("safetynet-unit:" + corr.kind(code))
            if code["k"] == "accept":
                res.violations.append({"why": f"SafetyNet attestation accepted although its timestampMs ({f}) is decades away from the "
                                              f"verifier's clock, or no instant at all", "fault": f, "match": {"op": "verify_reg", "clock": "safetynet-unit"}})
    # the payload's timestamp and the certificate's validity edge both close to now: the timestamp is judged against the clock
    # (within the 10 s band it is fine), and so is the certificate - at the verifier's now, not at the sender's timestamp
    DAY = datetime.timedelta(days=1)
    SEC = datetime.timedelta(seconds=1)
    for label, leaf_window, ts_shift, clock_dt in (("leaf-expired-3s-ago,ts-7s-ago", (-30 * DAY, -3 * SEC), -7000, 0.0),
                                                   ("leaf-expired-2s-ago,ts-9s-ago", (-30 * DAY, -2 * SEC), -9000, 0.0),
                                                   ("leaf-valid-from-in-5s,ts+8s", (5 * SEC, 365 * DAY), 8000, 0.0),
                                                   ("leaf-valid-from-in-3s,ts+6s", (3 * SEC, 365 * DAY), 6000, 0.0)):
        set_clock(T0 + clock_dt + 0.5)
        bj = _reg.build("android-safetynet", ("p256", 2, core.ES256), (), base_time=base, chain_validity={"leaf": leaf_window},
                        snet_ts_shift_ms=ts_shift)
        if bj is None:
            continue
        reqj, rj = bj
        ej = _reg.expectation(reqj, rj.roots)
        code = cases.run_reg(rj.credential, ej)
        res.evaluations += 1
        res.nontrivial.add(("snet-joint", label))
        res.count("safetynet-joint:" + corr.kind(code))
        if code["k"] == "accept":
            res.violations.append({"why": f"SafetyNet attestation accepted although its certificate is not valid at the verifier's clock "
                                          f"({label}): judged at some other time", "case_label": label,
                                   "match": {"op": "verify_reg", "clock": "safetynet-joint"}})
    # same SafetyNet response verified again after the clock has left the window
    trail = []
    for t_ms in [ts_ms, ts_ms + 5000, ts_ms + 12000, ts_ms, ts_ms - 12000, ts_ms + 1000]:
        set_clock(t_ms / 1000.0 + 0.0005)
        code = cases.run_reg(cs, es)
        res.evaluations += 1
        trail.append((t_ms - ts_ms, corr.kind(code)))
        exp = abs(t_ms - ts_ms) <= 9000
        if abs(t_ms - ts_ms) >= 11000 and code["k"] == "accept":
            res.violations.append({"why": f"SafetyNet response still accepted after the clock left the window: {trail}",
                                   "match": {"op": "verify_reg", "clock": "safetynet-sequence"}})
    res.samples.append({"safetynet_sequence_ms": trail})
    set_clock(time.time())
    if drv:
        drv.close()
    sys.stdout.buffer.write(pickle.dumps(res))


if __name__ == "__main__":
    main()
