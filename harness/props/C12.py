"""C12 — TPM attestation structures are decoded field-for-field."""
from .. import cases, corr, common
from ..check import Result
from ..driver import Driver
from ..oracle import Oracle
from ..sim import tpm as T

ID = "C12"
P = "Webauthn.Props.C12."
THEOREMS = [P + n for n in ("tables", "attribute_names", "attributes", "not_certify", "lenPrefixed_spec", "beNat_len2",
                            "certinfo_exact", "pubarea_rsa_exact", "pubarea_ecc_exact")]
LEAN_TARGETS = ["Props.C12"]
SPEC_FILES = ["Spec/Core.lean"]
ASSUMPTIONS = ["identifier tables and attribute-bit expressions are regenerated from /repo and proved equal to the transcription of "
               "TPM 2.0 Part 2 in Props/C12.lean"]
ST = {0x00c4: "TPM_ST_RSP_COMMAND", 0x8000: "TPM_ST_NULL", 0x8001: "TPM_ST_NO_SESSIONS", 0x8002: "TPM_ST_SESSIONS",
      0x8014: "TPM_ST_ATTEST_NV", 0x8015: "TPM_ST_ATTEST_COMMAND_AUDIT", 0x8016: "TPM_ST_ATTEST_SESSION_AUDIT",
      0x8017: "TPM_ST_ATTEST_CERTIFY", 0x8018: "TPM_ST_ATTEST_QUOTE", 0x8019: "TPM_ST_ATTEST_TIME", 0x801a: "TPM_ST_ATTEST_CREATION",
      0x8021: "TPM_ST_CREATION", 0x8022: "TPM_ST_VERIFIED", 0x8023: "TPM_ST_AUTH_SECRET", 0x8024: "TPM_ST_HASHCHECK",
      0x8025: "TPM_ST_AUTH_SIGNED", 0x8029: "TPM_ST_FU_MANIFEST"}
ALG = {0x0000: "ERROR", 0x0001: "RSA", 0x0004: "SHA1", 0x0005: "HMAC", 0x0006: "AES", 0x0007: "MGF1", 0x0008: "KEYEDHASH",
       0x000a: "XOR", 0x000b: "SHA256", 0x000c: "SHA384", 0x000d: "SHA512", 0x0010: "NULL", 0x0012: "SM3_256", 0x0013: "SM4",
       0x0014: "RSASSA", 0x0015: "RSAES", 0x0016: "RSAPSS", 0x0017: "OAEP", 0x0018: "ECDSA", 0x0019: "ECDH", 0x001a: "ECDAA",
       0x001b: "SM2", 0x001c: "ECSCHNORR", 0x001d: "ECMQV", 0x0020: "KDF1_SP800_56A", 0x0021: "KDF2", 0x0022: "KDF1_SP800_108",
       0x0023: "ECC", 0x0025: "SYMCIPHER", 0x0026: "CAMELLIA", 0x0040: "CTR", 0x0041: "OFB", 0x0042: "CBC", 0x0043: "CFB", 0x0044: "ECB"}
CURVE = {0: "NONE", 1: "NIST_P192", 2: "NIST_P224", 3: "NIST_P256", 4: "NIST_P384", 5: "NIST_P521", 0x10: "BN_P256", 0x11: "BN_P638",
         0x20: "SM2_P256"}
ATTR_BITS = [1, 2, 4, 5, 6, 7, 10, 11, 16, 17, 18]
SIZES = [0, 1, 2, 20, 32, 34, 48, 64, 66, 255, 256, 300, 600]


def work(tasks, idx):
    res = Result()
    drv = Driver(Oracle()) if work.driver_ok else None
    tie = corr.Tie(res, drv, "eq")
    for seed, n in tasks:
        rng = common.Rng(seed)
        for _ in range(n):
            kind = rng.choice(["certinfo", "certinfo", "rsa", "ecc", "mutant"])
            if kind == "certinfo":
                st = rng.choice(list(ST)) if rng.random() < 0.25 else 0x8017
                name_alg = rng.choice(list(ALG))
                digest = rng.bytes_(rng.choice([0, 20, 32, 48, 64]))
                name = name_alg.to_bytes(2, "big") + digest
                f = dict(magic=rng.choice([0xFF544347, rng.getrandbits(32)]), type=st, qualified_signer=rng.bytes_(rng.choice(SIZES)),
                         extra_data=rng.bytes_(rng.choice(SIZES)), clock=rng.bytes_(8), reset_count=rng.getrandbits(32),
                         restart_count=rng.getrandbits(32), safe=rng.choice([0, 1, 2, 255]), firmware_version=rng.bytes_(8),
                         attested_name=name, attested_qualified_name=rng.bytes_(rng.choice(SIZES)))
                b = T.encode_cert_info(**f)
                if rng.random() < 0.15 and len(b) - 2 < 65536:
                    # a magic whose leading half happens to equal the remaining length (what a TPM2B wrapper would carry)
                    f["magic"] = ((len(b) - 2) << 16) | rng.getrandbits(16)
                    b = T.encode_cert_info(**f)
                # the layout of the parseCertInfo_encode theorem is the simulator's (independent) layout
                tie.check({"op": "encode_cert_info", "magic": f["magic"].to_bytes(4, "big").hex(), "type": st.to_bytes(2, "big").hex(),
                           "qs": f["qualified_signer"].hex(), "extra": f["extra_data"].hex(), "clock": f["clock"].hex(),
                           "reset": f["reset_count"], "restart": f["restart_count"], "safe": f["safe"],
                           "fw": f["firmware_version"].hex(), "name": name.hex(), "qname": f["attested_qualified_name"].hex()},
                          {"k": "accept", "record": b.hex()}, label=["layout", "certinfo"])
                code = cases.code_parse_cert_info(b)
                res.evaluations += 1
                tie.check({"op": "parse_cert_info", "b": b.hex()}, code, label=["certinfo", hex(st)])
                res.nontrivial.add(b)
                res.count("certinfo:" + corr.kind(code))
                if st != 0x8017:
                    if code["k"] == "accept":
                        res.violations.append({"why": f"certInfo of type {ST[st]} accepted", "b": b.hex(), "match": {"op": "parse_cert_info", "rule": "not-certify"}})
                else:
                    exp = {"magic": f["magic"].to_bytes(4, "big").hex(), "type": "TPM_ST_ATTEST_CERTIFY", "qualified_signer": f["qualified_signer"].hex(),
                           "extra_data": f["extra_data"].hex(), "clock": f["clock"].hex(), "reset_count": str(f["reset_count"]),
                           "restart_count": str(f["restart_count"]), "safe": bool(f["safe"]), "firmware_version": f["firmware_version"].hex(),
                           "name_alg": "TPM_ALG_" + ALG[name_alg], "name_alg_bytes": name[:2].hex(), "name": name.hex(),
                           "qualified_name": f["attested_qualified_name"].hex()}
                    if code["k"] != "accept" or code["record"] != exp:
                        res.violations.append({"why": f"certInfo not decoded field for field: {code}", "b": b.hex(), "expected": exp,
                                               "match": {"op": "parse_cert_info", "rule": "fields"}})
                if len(res.samples) < 2:
                    res.samples.append({"structure": "TPMS_ATTEST", "hex": b.hex()[:120], "outcome": corr.kind(code)})
            elif kind in ("rsa", "ecc"):
                name_alg = rng.choice(list(ALG))
                attrs = rng.choice([0, 0xFFFFFFFF, rng.getrandbits(32), 1 << rng.randrange(32)])
                pol = rng.bytes_(rng.choice(SIZES))
                sym, sch = rng.choice(list(ALG)), rng.choice(list(ALG))
                if kind == "rsa":
                    mod = rng.bytes_(rng.choice([0, 1, 128, 256, 384, 512]))
                    kb, ex = rng.getrandbits(16), rng.choice([0, 65537, rng.getrandbits(32)])
                    if rng.random() < 0.5:
                        # modulus sizes around keyBits/8, with and without a leading zero / high bit
                        kb = rng.choice([0, 8, 16, 512, 1024, 2048, 3072, 4096])
                        n = max(0, kb // 8 + rng.choice([-1, 0, 1]))
                        mod = (bytes([rng.choice([0x00, 0x00, 0x80, 0xff, rng.getrandbits(8)])]) + rng.bytes_(n - 1)) if n else b""
                    b = T.encode_pub_area("rsa", name_alg=name_alg, attributes=attrs, auth_policy=pol, symmetric=sym, scheme=sch,
                                          key_bits=kb, exponent=ex, modulus=mod)
                    params = {"kind": "rsa", "symmetric": "TPM_ALG_" + ALG[sym], "scheme": "TPM_ALG_" + ALG[sch],
                              "key_bits": kb.to_bytes(2, "big").hex(), "exponent": ex.to_bytes(4, "big").hex()}
                    uniq = mod
                    ty = "TPM_ALG_RSA"
                    lay = {"op": "encode_pub_area", "kind": "rsa", "type": "0001", "key_bits": kb.to_bytes(2, "big").hex(),
                           "exponent": ex.to_bytes(4, "big").hex(), "modulus": mod.hex()}
                else:
                    crv, kdf = rng.choice(list(CURVE)), rng.choice(list(ALG))
                    x, y = rng.bytes_(rng.choice([0, 32, 48, 66])), rng.bytes_(rng.choice([0, 32, 48, 66]))
                    if rng.random() < 0.5:
                        # small structures of every total length (incl. those whose length resembles their own first field)
                        pol = rng.bytes_(rng.choice([0, 0, 1, 4, 15]))
                        x, y = rng.bytes_(rng.randrange(0, 17)), rng.bytes_(rng.randrange(0, 17))
                    b = T.encode_pub_area("ecc", name_alg=name_alg, attributes=attrs, auth_policy=pol, symmetric=sym, scheme=sch,
                                          curve_id=crv, kdf=kdf, x=x, y=y)
                    params = {"kind": "ecc", "symmetric": "TPM_ALG_" + ALG[sym], "scheme": "TPM_ALG_" + ALG[sch],
                              "curve_id": CURVE[crv], "kdf": "TPM_ALG_" + ALG[kdf]}
                    uniq = x + y
                    ty = "TPM_ALG_ECC"
                    lay = {"op": "encode_pub_area", "kind": "ecc", "type": "0023", "crv": crv.to_bytes(2, "big").hex(),
                           "kdf": kdf.to_bytes(2, "big").hex(), "x": x.hex(), "y": y.hex()}
                lay.update({"name_alg": name_alg.to_bytes(2, "big").hex(), "attrs": attrs, "policy": pol.hex(),
                            "sym": sym.to_bytes(2, "big").hex(), "sch": sch.to_bytes(2, "big").hex()})
                tie.check(lay, {"k": "accept", "record": b.hex()}, label=["layout", kind])
                code = cases.code_parse_pub_area(b)
                res.evaluations += 1
                tie.check({"op": "parse_pub_area", "b": b.hex()}, code, label=["pubarea", kind])
                res.nontrivial.add(b)
                res.count("pubarea:" + corr.kind(code))
                exp = {"type": ty, "name_alg": "TPM_ALG_" + ALG[name_alg], "object_attributes": [bool(attrs >> i & 1) for i in ATTR_BITS],
                       "auth_policy": pol.hex(), "parameters": params, "unique": uniq.hex()}
                if code["k"] != "accept" or code["record"] != exp:
                    res.violations.append({"why": f"pubArea not decoded field for field: {code}", "b": b.hex(), "expected": exp,
                                           "match": {"op": "parse_pub_area", "rule": "fields"}})
                if len(res.samples) < 4:
                    res.samples.append({"structure": "TPMT_PUBLIC", "kind": kind, "hex": b.hex()[:120], "outcome": corr.kind(code)})
            else:  # mutants: truncations, unknown ids, random bytes (equality of outcomes only)
                b = T.encode_cert_info(extra_data=rng.bytes_(32), attested_name=b"\x00\x0b" + rng.bytes_(32)) if rng.random() < 0.5 \
                    else T.encode_pub_area("rsa", modulus=rng.bytes_(256))
                m = rng.random()
                if m < 0.4:
                    b = b[:rng.randrange(0, len(b) + 1)]
                elif m < 0.7:
                    j = rng.randrange(min(len(b), 40))
                    b = b[:j] + bytes([rng.getrandbits(8)]) + b[j + 1:]
                else:
                    b = rng.bytes_(rng.randrange(0, 60))
                for op, fn in (("parse_cert_info", cases.code_parse_cert_info), ("parse_pub_area", cases.code_parse_pub_area)):
                    code = fn(b)
                    res.evaluations += 1
                    tie.check({"op": op, "b": b.hex()}, code, label=["mutant", op])
                    res.count("mutant:" + corr.kind(code))
    if drv:
        drv.close()
    return res


def run(ctx, res):
    n = 600 if ctx.quick() else 12000
    tasks = [(ctx.seed * 104729 + i, n) for i in range(16)]
    work.driver_ok = ctx.driver_ok
    corr.merge(res, corr.parallel(work, tasks))
    res.rule = ("TPMS_ATTEST and TPMT_PUBLIC byte strings built by an independent encoder over all structure tags, all algorithm and curve "
                "identifiers, every attribute word shape, 2-byte length-prefixed field sizes 0-600, both key kinds; plus truncations, byte "
                "mutations and random bytes (outcome equality only); distinct = the byte string")
