"""C09 — Signatures are verified with exactly the algorithm the COSE key declares."""
import cbor2

from .. import cases, corr, faults, spec
from ..check import Result
from ..driver import Driver
from ..oracle import Oracle
from ..sim import attest, core, keys
from . import _reg

ID = "C09"
P = "Webauthn.Props.C09."
THEOREMS = [P + n for n in ("scheme_is_declared", "dispatch_complete", "no_other_scheme", "accepted_means_valid", "raw_u2f",
                            "to_keyspec_ec2", "to_keyspec_rsa", "to_keyspec_okp",
                            "decode_encode_ec2", "decode_encode_rsa", "decode_encode_okp", "beNat_leading_zero", "okp_only_eddsa")] + \
           ["Webauthn.sigDispatchTable_ok", "Webauthn.sigDispatchDefault_ok", "Webauthn.sigPlan_sound"]
LEAN_TARGETS = ["Props.C09"]
SPEC_FILES = ["Spec/Core.lean"]
ASSUMPTIONS = ["that a signature made under scheme A does not verify under scheme B is cryptography (oracle)",
               "the dispatch matrix is regenerated from /repo with spy keys for every COSE algorithm identifier the library knows"]
KEYS = [("p256", 0), ("p384", 0), ("p521", 0), ("ed25519", 0), ("rsa", 0), ("p256lz", 0), ("p521lz", 0),
        ("p521", 1), ("p521", 2), ("rsa2047", 0), ("rsa1024", 0), ("rsa3072", 0)]
DECLARED = core.ALL_ALGS + [0, -1, -6, -9, -35, -40, -256, -260, 7, 257]


# signing schemes that no registered algorithm identifier denotes: PSS whose mask function uses another hash than the message,
# PKCS#1 v1.5 / ECDSA over hashes outside the table. Whatever the key declares, these must not verify.
EXOTIC = [("pss", "sha256", "sha1"), ("pss", "sha384", "sha1"), ("pss", "sha512", "sha256"), ("pss", "sha256", "sha512"),
          # ... and with the salt lengths other stacks default to (20 = Java's PSSParameterSpec.DEFAULT, 0, the hash of the mask)
          ("pss", "sha256", "sha1", 20), ("pss", "sha384", "sha1", 20), ("pss", "sha512", "sha1", 20), ("pss", "sha256", "sha1", 0),
          ("pss", "sha512", "sha256", 32), ("pss", "sha256", "sha384", 48),
          ("pkcs1", "sha224", None), ("pkcs1", "sha3_256", None),
          # EMSA-PKCS1-v1_5 blocks that are not what the scheme prescribes: the bare digest without its DigestInfo, and the
          # digest wrapped in the DigestInfo of another hash (RIPEMD-160's OID)
          ("pkcs1-bare", "sha1", None), ("pkcs1-bare", "sha256", None), ("pkcs1-bare", "sha512", None),
          ("pkcs1-other-oid", "sha1", None), ("pkcs1-other-oid", "sha256", None), ("ecdsa", "sha384", None), ("ecdsa", "sha1", None),
          ("ecdsa", "sha224", None)]


def sign_exotic(priv, scheme, data):
    from cryptography.hazmat.primitives import hashes
    from cryptography.hazmat.primitives.asymmetric import ec, padding
    H = {"sha1": hashes.SHA1, "sha224": hashes.SHA224, "sha256": hashes.SHA256, "sha384": hashes.SHA384, "sha512": hashes.SHA512,
         "sha3_256": hashes.SHA3_256}
    kind, h, mgf = scheme[:3]
    salt = scheme[3] if len(scheme) > 3 else None
    k = core.key_kind(priv)
    if kind in ("pkcs1-bare", "pkcs1-other-oid") and k == "rsa":
        import hashlib
        digest = hashlib.new(h, data).digest()
        t = digest if kind == "pkcs1-bare" else bytes.fromhex("3021300906052b2403020105000414")[:-1] + bytes([len(digest)]) + digest
        nums = priv.private_numbers()
        n = nums.public_numbers.n
        klen = (n.bit_length() + 7) // 8
        if klen < len(t) + 11:
            return None
        em = b"\x00\x01" + b"\xff" * (klen - len(t) - 3) + b"\x00" + t
        return pow(int.from_bytes(em, "big"), nums.d, n).to_bytes(klen, "big")
    try:
        if kind == "pss" and k == "rsa":
            return priv.sign(data, padding.PSS(mgf=padding.MGF1(H[mgf]()), salt_length=H[h]().digest_size if salt is None else salt), H[h]())
        if kind == "pkcs1" and k == "rsa":
            return priv.sign(data, padding.PKCS1v15(), H[h]())
        if kind == "ecdsa" and k == "ec":
            return priv.sign(data, ec.ECDSA(H[h]()))
    except ValueError:
        return None
    return None


def sign_as(priv, alg, data):
    """sign `data` the way algorithm `alg` prescribes, if the key type can"""
    if isinstance(alg, tuple):
        return sign_exotic(priv, alg, data)
    k = core.key_kind(priv)
    if (k == "ec" and alg in (core.ES256, core.ES512)) or (k == "okp" and alg == core.EDDSA) or \
            (k == "rsa" and alg in (core.RS1, core.RS256, core.RS384, core.RS512, core.PS256, core.PS384, core.PS512)):
        try:
            return core.sign(priv, alg, data)
        except ValueError:          # e.g. PS512 with a 1024-bit modulus: the key cannot produce such a signature
            return None
    return None


def work(tasks, idx):
    res = Result()
    drv = Driver(Oracle()) if work.driver_ok else None
    tie = corr.Tie(res, drv, "code_accept_implies_model_accept")
    for kind, kidx, declared, used, via in tasks:
        priv = keys.get(kind, kidx)
        cred = core.SimCredential(priv=priv, alg=used if isinstance(used, int) else declared, cred_id=b"matrix-cred-id")
        if via in ("auth", "auth-large"):
            ad = core.auth_data(core.sha256(b"example.com"), core.UP, 7)
            if via == "auth-large":
                # the same matrix over a large signature base (authenticator data with ~70 KiB of extension data): the scheme
                # does not depend on how much is signed
                import cbor2 as _c
                ad = core.auth_data(core.sha256(b"example.com"), core.UP | core.ED, 7, ext=_c.dumps({"largeBlob": bytes(70 * 1024)}))
            cdj = core.client_data("webauthn.get", b"\x01" * 32, "https://example.com")
            sig = sign_as(priv, used, ad + core.sha256(cdj))
            if sig is None:
                continue
            a = {"id": core.b64url(cred.cred_id), "raw_id": cred.cred_id, "type": "public-key", "client_data_json": cdj,
                 "authenticator_data": ad, "signature": sig, "user_handle": None}
            e = {"challenge": b"\x01" * 32, "rp_id": "example.com", "origin": "https://example.com",
                 "public_key": core.cose_key(priv.public_key(), declared), "stored_count": 3, "require_uv": False}
            code = cases.run_auth(a, e)
            res.evaluations += 1
            tie.check(cases.auth_case(a, e), code, label=[kind, declared, used, via])
            expect = declared == used and declared in spec.SCHEME
            case = cases.auth_case(a, e)
        else:  # packed self attestation
            cdj = core.client_data("webauthn.create", b"\x02" * 32, "https://example.com")
            cose = core.cose_key(priv.public_key(), declared)
            ad = core.auth_data(core.sha256(b"example.com"), core.UP | core.AT, 0, aaguid=b"\x00" * 16, cred_id=cred.cred_id, cose=cose)
            sig = sign_as(priv, used, ad + core.sha256(cdj))
            if sig is None:
                continue
            ao = cbor2.dumps({"fmt": "packed", "attStmt": {"alg": declared, "sig": sig}, "authData": ad})
            c = {"id": core.b64url(cred.cred_id), "raw_id": cred.cred_id, "type": "public-key", "client_data_json": cdj,
                 "attestation_object": ao}
            e = {"challenge": b"\x02" * 32, "rp_id": "example.com", "origin": "https://example.com", "algs": DECLARED, "roots": {}}
            code = cases.run_reg(c, e)
            res.evaluations += 1
            tie.check(cases.reg_case(c, e), code, label=[kind, declared, used, via])
            expect = declared == used and declared in spec.SCHEME
            case = cases.reg_case(c, e)
        res.nontrivial.add((kind, kidx, declared, used, via))
        res.count(f"{via}:" + corr.kind(code))
        if (code["k"] == "accept") and not expect:
            res.violations.append({"why": f"{kind} key declaring alg {declared}: signature made with alg {used} accepted ({via})",
                                   "case": case, "match": {"op": "matrix", "declared": declared, "used": used, "kind": kind}})
        if (code["k"] != "accept") and expect:
            res.violations.append({"why": f"{kind} key declaring alg {declared}: genuine signature with the same alg rejected ({via}): {code}",
                                   "case": case, "match": {"op": "matrix-complete", "declared": declared, "kind": kind}})
        if len(res.samples) < 4:
            res.samples.append({"key": kind, "declared": declared, "signed_with": used, "via": via, "outcome": corr.kind(code)})
    # COSE decoding yields precisely the key (incl. keys with leading zero bytes and the raw 65-byte form)
    for kind, kidx in KEYS:
        priv = keys.get(kind, kidx)
        for alg in core.algs_for(priv):
            b = core.cose_key(priv.public_key(), alg)
            code = cases.code_cose_to_pubkey(b)
            res.evaluations += 1
            tie.check({"op": "cose_to_pubkey", "b": b.hex()}, code, label=["decode", kind], direction="eq")
            from ..oracle import key_view
            # the closed-form encoders of the decode_encode_* theorems are what cbor2 emits for this key
            m = cbor2.loads(b)
            if m[1] == 2:
                enc = {"op": "encode_cose", "kind": "ec2", "alg": str(alg), "crv": str(m[-1]), "a": m[-2].hex(), "b": m[-3].hex()}
            elif m[1] == 3:
                enc = {"op": "encode_cose", "kind": "rsa", "alg": str(alg), "crv": "0", "a": m[-1].hex(), "b": m[-2].hex()}
            else:
                enc = {"op": "encode_cose", "kind": "okp", "alg": str(alg), "crv": "0", "a": m[-2].hex(), "b": ""}
            tie.check(enc, {"k": "accept", "record": b.hex()}, label=["encode", kind], direction="eq")
            if code["k"] != "accept" or code["record"] != key_view(priv.public_key()):
                res.violations.append({"why": f"COSE {kind} key does not decode to the same public key: {code}", "b": b.hex(),
                                       "match": {"op": "decode_cose", "kind": kind}})
        if core.key_kind(priv) == "ec":
            # the point with the same x and the other y (-Q) is a different, equally valid key: decoding must tell them apart,
            # also right after Q itself was decoded
            P = {"secp256r1": 2 ** 256 - 2 ** 224 + 2 ** 192 + 2 ** 96 - 1, "secp384r1": 2 ** 384 - 2 ** 128 - 2 ** 96 + 2 ** 32 - 1,
                 "secp521r1": 2 ** 521 - 1}[priv.curve.name]
            nums = priv.public_key().public_numbers()
            size = (priv.curve.key_size + 7) // 8
            for alg in core.algs_for(priv)[:1]:
                m = core.cose_key_map(priv.public_key(), alg)
                m[-3] = (P - nums.y).to_bytes(size, "big")
                neg = cbor2.dumps(m)
                code = cases.code_cose_to_pubkey(neg)
                res.evaluations += 1
                tie.check({"op": "cose_to_pubkey", "b": neg.hex()}, code, label=["decode-negated", kind], direction="eq")
                from cryptography.hazmat.primitives.asymmetric import ec as _ec
                want = key_view(_ec.EllipticCurvePublicNumbers(nums.x, P - nums.y, priv.curve).public_key())
                if code["k"] != "accept" or code["record"] != want:
                    res.violations.append({"why": f"COSE {kind} key (x, p-y) does not decode to that key (decoded right after (x, y)): "
                                                  f"{str(code)[:200]}", "b": neg.hex(), "match": {"op": "decode_cose", "kind": kind + "-negated"}})
                # and an assertion signed by Q does not verify against -Q
                ad = core.auth_data(core.sha256(b"example.com"), core.UP, 7)
                cdj = core.client_data("webauthn.get", b"\x01" * 32, "https://example.com")
                a = {"id": core.b64url(b"neg"), "raw_id": b"neg", "type": "public-key", "client_data_json": cdj,
                     "authenticator_data": ad, "signature": core.sign(priv, alg, ad + core.sha256(cdj)), "user_handle": None}
                e = {"challenge": b"\x01" * 32, "rp_id": "example.com", "origin": "https://example.com",
                     "public_key": core.cose_key(priv.public_key(), alg), "stored_count": 3, "require_uv": False}
                ok = cases.run_auth(a, e)
                bad = cases.run_auth(a, dict(e, public_key=neg))
                res.evaluations += 2
                if ok["k"] == "accept" and bad["k"] == "accept":
                    res.violations.append({"why": f"assertion signed by Q accepted against the stored key -Q ({kind})",
                                           "case": cases.auth_case(a, dict(e, public_key=neg)),
                                           "match": {"op": "verify_auth", "kind": kind + "-negated"}})
        if core.key_kind(priv) == "ec":
            # a coordinate that is one byte too long, the extra leading byte not zero: not this key (not a point at all)
            for alg in core.algs_for(priv)[:1]:
                for member in (-2, -3):
                    m = core.cose_key_map(priv.public_key(), alg)
                    m[member] = b"\x01" + m[member]
                    odd = cbor2.dumps(m)
                    code = cases.code_cose_to_pubkey(odd)
                    res.evaluations += 1
                    tie.check({"op": "cose_to_pubkey", "b": odd.hex()}, code, label=["decode-overlong", kind], direction="eq")
                    if code["k"] == "accept":
                        res.violations.append({"why": f"COSE {kind} key with an over-long coordinate (leading 0x01) decoded to a key: {str(code)[:160]}",
                                               "b": odd.hex(), "match": {"op": "decode_cose", "kind": kind + "-overlong"}})
        if kind.startswith("p256"):
            n = priv.public_key().public_numbers()
            raw = b"\x04" + n.x.to_bytes(32, "big") + n.y.to_bytes(32, "big")
            code = cases.code_cose_to_pubkey(raw)
            res.evaluations += 1
            tie.check({"op": "cose_to_pubkey", "b": raw.hex()}, code, label=["decode-raw", kind], direction="eq")
            if code["k"] != "accept" or code["record"] != key_view(priv.public_key()):
                res.violations.append({"why": f"raw uncompressed key does not decode to the same public key: {code}", "b": raw.hex(),
                                       "match": {"op": "decode_cose", "kind": "raw"}})
    if drv:
        drv.close()
    return res


def run(ctx, res):
    tasks = []
    for kind, kidx in KEYS:
        priv = keys.get(kind, kidx)
        for declared in DECLARED:
            for used in core.ALL_ALGS:
                for via in ("auth", "packed-self"):
                    tasks.append((kind, kidx, declared, used, via))
            if declared in core.ALL_ALGS:
                for used in EXOTIC:
                    tasks.append((kind, kidx, declared, used, "auth"))
            if kidx == 0 and kind in ("p256", "rsa"):
                for used in core.ALL_ALGS:
                    tasks.append((kind, kidx, declared, used, "auth-large"))
    work.driver_ok = ctx.driver_ok
    corr.merge(res, corr.parallel(work, tasks))
    res.exhaustive = True
    res.rule = ("complete matrix key type/curve {P-256, P-384, P-521 (several, with and without leading-zero coordinates), Ed25519, RSA with 1024/2047/2048/3072-bit moduli} x declared "
                "algorithm (all 10 registered identifiers + 10 non-members) x algorithm actually used to sign (every one the key can "
                "produce), through verify_authentication_response and packed self-attestation; accepted iff declared = used and the "
                "identifier is in the spec table; plus COSE decoding of every key incl. the raw 65-byte form; distinct = matrix cell")
