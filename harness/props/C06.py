"""C06 — Integrity of signed material: no single-bit change survives."""
import cbor2

from .. import spec, cases, corr, faults
from ..check import Result
from ..driver import Driver
from ..oracle import Oracle
from ..sim import attest, core
from . import _reg, _auth

ID = "C06"
P = "Webauthn.Props.C06."
THEOREMS = [P + n for n in ("binding_auth", "bitflip_auth", "binding_registration", "append_inj_right_len",
                            "bitflip_reg_packed_self", "authData_of_raw",
                            "sig_same_data_same", "bitflip_reg_direct_signature", "bitflip_reg_tpm", "bitflip_reg_apple",
                            "bitflip_reg_u2f", "bitflip_reg_safetynet", "b64Std_injective")]
LEAN_TARGETS = ["Props.C06"]
SPEC_FILES = ["Spec/Core.lean", "Props/C03.lean"]
ASSUMPTIONS = ["PARTIAL: that a changed signature base fails verification is a cryptographic property; it appears as the named "
               "hypotheses UniqueSig / HashLen32 / NoCollision of bitflip_auth, and is exercised exhaustively over bit positions by the tie",
               "tie direction: whenever the real code accepts, the model accepts"]


def flips(b):
    for i in range(len(b) * 8):
        yield i, b[:i // 8] + bytes([b[i // 8] ^ (1 << (i % 8))]) + b[i // 8 + 1:]


def authdata_region(ad, bit):
    """which field of the authenticator data a bit position lies in"""
    i = bit // 8
    if i < 32:
        return "rpIdHash"
    if i == 32:
        return "flags"
    if i < 37:
        return "counter"
    if i < 53:
        return "aaguid"
    if i < 55:
        return "credIdLen"
    n = int.from_bytes(ad[53:55], "big")
    if i < 55 + n:
        return "credId"
    k = ad[55 + n:]
    try:
        m = cbor2.loads(k)
        klen = len(cbor2.dumps(m))
        if i >= 55 + n + klen:
            return "extensions"
        for name in (-2, -3, -1):
            v = m.get(name)
            if isinstance(v, bytes) and len(v) >= 16:
                off = k.find(v)
                if off >= 0 and 55 + n + off <= i < 55 + n + off + len(v):
                    return {-2: "cose-x", -3: "cose-y", -1: "cose-n"}[name]
    except Exception:
        pass
    return "cose-other"


def rebuild_attobj(att_obj, **replace):
    d = cbor2.loads(att_obj)
    for k, v in replace.items():
        if k == "authData":
            d["authData"] = v
        else:
            d["attStmt"] = dict(d["attStmt"], **{k: v})
    return cbor2.dumps(d)


def jws_meaning(resp):
    """what a compact JWS *says*: its signing input (the ASCII bytes header.payload) and the signature bytes its third
    segment denotes. The property speaks of these; the unused trailing bits of the signature segment's last base64url
    character denote nothing, so flipping them changes neither the signing input nor the signature."""
    parts = bytes(resp).split(b".")
    if len(parts) != 3:
        return None
    try:
        sig = spec.lenient_b64url_decode(parts[2].decode("ascii"))
    except UnicodeDecodeError:
        return None
    return parts[0] + b"." + parts[1], sig


def work(tasks, idx):
    res = Result()
    drv = Driver(Oracle()) if work.driver_ok else None
    tie = corr.Tie(res, drv, "code_accept_implies_model_accept")
    cs = _auth.creds()
    for t in tasks:
        if t[0] == "inplace":
            # one credential object whose byte fields are writable buffers, verified, then changed *in place* bit by bit and
            # presented again (the very same object, the very same buffers): what is verified is what the buffers hold now
            _, kind, ci, wrap = t
            mk = (lambda b: bytearray(b)) if wrap == "bytearray" else (lambda b: memoryview(bytearray(b)))
            if kind == "auth":
                a, e, _ = faults.build_assertion(cs[ci], flags=core.UP | core.UV)
                bufs = {k: mk(a[k]) for k in ("client_data_json", "authenticator_data", "signature")}
                obj = cases.auth_record(dict(a, **bufs))
                run_obj = lambda: cases.run_auth(a, e, cred_obj=obj)
            else:
                b = _reg.build("packed", _reg.cred_choices("packed")[ci % 3], ())
                if b is None:
                    continue
                req, r = b
                e = _reg.expectation(req, r.roots)
                a = r.credential
                bufs = {k: mk(a[k]) for k in ("client_data_json", "attestation_object")}
                obj = cases.reg_record(dict(a, **bufs))
                run_obj = lambda: cases.run_reg(a, e, cred_obj=obj)
            first = run_obj()
            res.evaluations += 1
            if first["k"] != "accept":
                res.nonblocking.append({"why": f"base {kind} ceremony with {wrap} fields rejected", "code": first})
                continue
            for field, buf in bufs.items():
                if field == "attestation_object":
                    continue          # kept as it is: its bits are covered by the per-format streams
                step = 1 if field != "signature" else 5
                for i in range(0, len(buf) * 8, step):
                    buf[i // 8] ^= 1 << (7 - i % 8)
                    code = run_obj()
                    buf[i // 8] ^= 1 << (7 - i % 8)
                    res.evaluations += 1
                    res.nontrivial.add(("inplace", kind, ci, wrap, field, i))
                    res.count(f"inplace-{kind}:" + field)
                    if code["k"] == "accept":
                        cur = dict(a, **{field: bytes(buf[: i // 8]) + bytes([buf[i // 8] ^ (1 << (7 - i % 8))]) + bytes(buf[i // 8 + 1:])})
                        res.violations.append({"why": f"{kind}: after bit {i} of {field} was flipped in place in a {wrap} the credential object verified earlier "
                                                      f"is still accepted", "case": (cases.auth_case if kind == "auth" else cases.reg_case)(cur, e),
                                               "history": "verify(obj) -> accept; flip the bit inside obj's own buffer; verify(obj)",
                                               "match": {"op": "verify_" + kind, "flip": field, "rule": "in-place"}})
                        break
            again = run_obj()
            res.evaluations += 1
            if again["k"] != "accept":
                res.violations.append({"why": f"{kind}: the restored credential object is rejected after the in-place sweep: {again}",
                                       "match": {"op": "verify_" + kind, "rule": "in-place-restored"}})
            continue
        if t[0] == "auth":
            _, ci, field, lo, hi = t[:5]
            trailer = t[5] if len(t) > 5 else b""
            c = cs[ci]
            a, e, _ = faults.build_assertion(c, flags=core.UP | core.UV)
            if trailer:
                # a response that is not canonical but that a lenient verifier might accept: the signature followed or preceded
                # by padding bytes, the client data surrounded by whitespace that was not signed. If such a response is accepted
                # at all, its bits are signed material like any other
                if isinstance(trailer, tuple) and trailer[0] == "sig-prefix":
                    a = dict(a, signature=trailer[1] + a["signature"])
                elif isinstance(trailer, tuple) and trailer[0] == "cdj-ws":
                    a = dict(a, client_data_json=trailer[1] + a["client_data_json"] + trailer[2])
                else:
                    a = dict(a, signature=a["signature"] + trailer)
            base = cases.run_auth(a, e)
            if base["k"] != "accept":
                if trailer:
                    res.count("auth-base-with-signature-trailer:rejected")
                else:
                    res.nonblocking.append({"why": "base assertion rejected", "code": base})
                continue
            for i, nb in flips(a[field]):
                if not (lo <= i < hi):
                    continue
                a2 = dict(a, **{field: nb})
                code = cases.run_auth(a2, e)
                res.evaluations += 1
                res.nontrivial.add(("auth", ci, field, i))
                if i % 16 == 0:
                    tie.check(cases.auth_case(a2, e), code, label=["auth-flip", field, i])
                res.count("auth-flip:" + field)
                if code["k"] == "accept":
                    res.violations.append({"why": f"authentication survives flipping bit {i} of {field}", "case": cases.auth_case(a2, e),
                                           "match": {"op": "verify_auth", "flip": field}})
            if len(res.samples) < 2:
                res.samples.append({"ceremony": "authentication", "alg": c.alg, "field": field, "bits": [lo, hi]})
            continue
        _, fmt, choice, field, lo, hi = t[:6]
        pad = t[6] if len(t) > 6 else 0         # SafetyNet: payload JSON of another length mod 3 (its base64 then ends in spare bits)
        b = _reg.build(fmt, choice, (), **({"snet_payload_pad": pad} if pad else {}))
        if b is None:
            continue
        req, r = b
        e = _reg.expectation(req, r.roots)
        c = r.credential
        base = cases.run_reg(c, e)
        if base["k"] != "accept":
            res.nonblocking.append({"why": f"base {fmt} registration rejected", "code": base})
            continue
        ao = cbor2.loads(c["attestation_object"])
        if field == "client_data_json":
            target = c["client_data_json"]
        elif field == "authData":
            target = ao["authData"]
        else:
            target = ao["attStmt"].get(field)
        if not isinstance(target, (bytes, bytearray)):
            continue
        for i, nb in flips(bytes(target)):
            if not (lo <= i < hi):
                continue
            if field == "client_data_json":
                c2 = dict(c, client_data_json=nb)
            else:
                c2 = dict(c, attestation_object=rebuild_attobj(c["attestation_object"], **{field: nb}))
            code = cases.run_reg(c2, e)
            res.evaluations += 1
            if field == "authData" and code["k"] != "accept" and i % 8 == 3:
                # the same flipped response in JSON form, as a browser's toJSON() emits it: with the convenience copies
                # response.authenticatorData / publicKeyAlgorithm next to the attestation object - the copy is the unflipped one
                j = core.to_reg_json(c2)
                j["response"]["authenticatorData"] = core.b64url(bytes(target))
                j["response"]["publicKeyAlgorithm"] = choice[2]
                j["authenticatorAttachment"] = "cross-platform"
                code_j = cases.run_reg(c2, e, cred_obj=j)
                res.evaluations += 1
                res.count(f"{fmt}-flip:authData:json-form-with-copy")
                if code_j["k"] == "accept":
                    code = code_j
            res.nontrivial.add((fmt, field, i))
            if i % 32 == 0:
                tie.check(cases.reg_case(c2, e), code, label=[fmt, "flip", field, i])
            res.count(f"{fmt}-flip:{field}")
            if code["k"] == "accept" and field == "response" and jws_meaning(nb) is not None and jws_meaning(nb) == jws_meaning(target):
                res.count(f"{fmt}-flip:response:encoding-slack-only (signing input and signature bytes unchanged)")
                continue
            if code["k"] == "accept":
                region = authdata_region(bytes(target), i) if field == "authData" else field
                res.violations.append({"why": f"{fmt} registration survives flipping bit {i} of {field} ({region})",
                                       "case": cases.reg_case(c2, e), "bit": i,
                                       "match": {"op": "verify_reg", "flip": field, "fmt": fmt, "region": region}})
        if len(res.samples) < 5:
            res.samples.append({"ceremony": "registration", "fmt": fmt, "field": field, "bits": [lo, hi], "len": len(target)})
    if drv:
        drv.close()
    return res


SIGNED_FIELDS = {"packed": ["sig"], "packed-self": ["sig"], "fido-u2f": ["sig"], "tpm": ["sig", "certInfo"],
                 "android-key": ["sig"], "android-safetynet": ["response"], "apple": []}
CHUNK = 256


def run(ctx, res):
    rng = ctx.rng
    tasks = []
    ncreds = len(_auth.creds())
    auth_creds = [0, 4, 5, 8] if ctx.quick() else list(range(ncreds))
    for ci in auth_creds:
        for field, nbits in (("authenticator_data", 37 * 8), ("client_data_json", 150 * 8), ("signature", 512 * 8)):
            for lo in range(0, nbits, CHUNK):
                tasks.append(("auth", ci, field, lo, lo + CHUNK))
        for trailer in (b"\x00", b"\x00\x00\x00", b"\xff\xfe"):
            for lo in range(0, 640, CHUNK):
                tasks.append(("auth", ci, "signature", lo, lo + CHUNK, trailer))
        for prefix in (b"\x00", b"\x00\x00"):
            for lo in range(0, 256, CHUNK):
                tasks.append(("auth", ci, "signature", lo, lo + CHUNK, ("sig-prefix", prefix)))
        for lead, trail in ((b"", b"\n"), (b" ", b""), (b"\t", b"\r\n"), (b"\x0b", b"\x0c")):
            for lo in range(0, 150 * 8, CHUNK):
                tasks.append(("auth", ci, "client_data_json", lo, lo + CHUNK, ("cdj-ws", lead, trail)))
    for ci in ([0, 5] if ctx.quick() else auth_creds):
        for wrap in ("bytearray", "memoryview"):
            tasks.append(("inplace", "auth", ci, wrap))
    for ci in ([0] if ctx.quick() else [0, 1, 2]):
        for wrap in ("bytearray", "memoryview"):
            tasks.append(("inplace", "reg", ci, wrap))
    fmts = ["packed", "fido-u2f", "tpm"] if ctx.quick() else list(SIGNED_FIELDS)
    for fmt in fmts:
        choices = _reg.cred_choices(fmt)
        for ch in (choices[:1] if ctx.quick() else choices[:3]):
            for field in ["authData", "client_data_json"] + SIGNED_FIELDS[fmt]:
                nbits = 2400 * 8 if field == "response" else 700 * 8
                step = CHUNK * (4 if field in ("response",) else 1)
                for lo in range(0, nbits, step):
                    tasks.append(("reg", fmt, ch, field, lo, lo + step))
    # the SafetyNet JWS in every tier, with payloads of each length mod 3: the signed text is the base64url text itself, spare
    # bits of a segment's last character included
    if "android-safetynet" not in fmts or ctx.quick():
        ch = _reg.cred_choices("android-safetynet")[0]
        for pad in (0, 1, 2):
            if pad == 0 and "android-safetynet" in fmts:
                continue
            for lo in range(0, 2400 * 8, CHUNK * 4):
                tasks.append(("reg", "android-safetynet", ch, "response", lo, lo + CHUNK * 4, pad))
    elif "android-safetynet" in fmts:
        ch = _reg.cred_choices("android-safetynet")[0]
        for pad in (1, 2):
            for lo in range(0, 2400 * 8, CHUNK * 4):
                tasks.append(("reg", "android-safetynet", ch, "response", lo, lo + CHUNK * 4, pad))
    work.driver_ok = ctx.driver_ok
    corr.merge(res, corr.parallel(work, tasks))
    # keys under which nothing can be signed (modulus too small for the hash): should a response be accepted against one,
    # a single-bit change must still be refused
    from .C01 import small_modulus_sweep
    small_modulus_sweep(res, flip=True)
    res.exhaustive = True
    res.rule = ("for each accepted ceremony (quick: 4 authentication algorithms and packed / fido-u2f / tpm; thorough: all algorithms and "
                "all signed formats) EVERY bit position of authenticatorData, clientDataJSON and the signature / certInfo / JWS is flipped "
                "in turn and the response re-verified by the real code (every 16th/32nd also by the model); distinct = (ceremony, field, bit)")
