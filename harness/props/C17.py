"""C17 — Time-limited evidence is judged against the clock at verification time.
Runs its cases in a child process under the LD_PRELOAD fake clock (harness/fakeclock.so)."""
import json, os, pickle, subprocess, sys

from .. import common
from ..check import Result

ID = "C17"
P = "Webauthn.Props.C17."
THEOREMS = [P + n for n in ("window", "window_real_time", "wired", "clock_per_call", "timestamp_must_be_integer")]
LEAN_TARGETS = ["Props.C17"]
SPEC_FILES = ["Spec/Core.lean"]
ASSUMPTIONS = ["PARTIAL: the clock and OpenSSL's validity comparison are runtime behaviour; the model takes the clock as an oracle "
               "(W.nowSeconds, W.chainVerify) and the tie runs the real code under a controlled clock (LD_PRELOAD shim)",
               "the two SafetyNet guards are regenerated from the source by the T2 translator"]


def run(ctx, res):
    so = os.path.join(common.VERIF, "harness", "fakeclock.so")
    if not os.path.exists(so):
        src = os.path.join(common.VERIF, "harness", "fakeclock.c")
        subprocess.run(["gcc", "-shared", "-fPIC", "-O2", "-o", so, src, "-ldl"], check=False)
    env = dict(os.environ, PYTHONPATH=common.VERIF, VERIF_C17_TIER=ctx.tier, VERIF_C17_SEED=str(ctx.seed),
               VERIF_C17_DRIVER="1" if ctx.driver_ok else "0")
    route = "ld_preload"
    if os.path.exists(so):
        env["LD_PRELOAD"] = so
    else:
        route = "monkeypatch"
    env["VERIF_C17_ROUTE"] = route
    from .. import corr
    # the verifying process's time zone is not an input of the API: the same instants are judged in UTC and in zones
    # behind and ahead of it (POSIX TZ strings, no tzdata needed: "VRF8" = UTC-8, "VRF-9" = UTC+9)
    parts = []
    for tz in ("UTC0", "VRF8", "VRF-9"):
        env_tz = dict(env, TZ=tz, VERIF_C17_PART="full" if tz == "UTC0" else "chain")
        p = subprocess.run([sys.executable, "-m", "harness.props.C17_worker"], env=env_tz, cwd=common.VERIF, capture_output=True)
        if p.returncode != 0:
            raise RuntimeError(f"C17 worker (TZ={tz}) failed:\n" + p.stderr.decode()[-3000:])
        parts.append(pickle.loads(p.stdout))
    corr.merge(res, parts)
    res.extra["time_zones"] = ["UTC0", "VRF8 (UTC-8)", "VRF-9 (UTC+9)"]
    res.extra["clock_route"] = route
    res.rule = ("real code and model under a controlled clock, in processes running in UTC, UTC-8 and UTC+9: packed+x5c chain (leaf, intermediate, root validity windows chosen by the "
                "CA simulator) verified at clock offsets dense (1 s) around each notBefore/notAfter and sparse elsewhere; SafetyNet "
                "timestampMs at 1 ms steps around the four window boundaries; sequences that move the clock between repeated "
                "verifications of one response; the expected verdict is computed from the validity periods, not from OpenSSL; "
                "distinct = (evidence kind, boundary, offset)")
