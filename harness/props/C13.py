"""C13 — Client-supplied JSON is decoded faithfully and never partially."""
import json

from webauthn.helpers import parse_registration_credential_json, parse_authentication_credential_json

from .. import cases, corr
from ..check import Result
from ..driver import Driver, to_jval, OutOfModel
from ..oracle import Oracle
from ..sim import core

ID = "C13"
P = "Webauthn.Props.C13."
THEOREMS = [P + n for n in ("faithful_reg", "faithful_auth", "transports", "text_eq_dict_reg", "text_eq_dict_auth",
                            "rejects_reg", "rejects_auth", "client_data", "attachment_values", "credential_type_values",
                            "attachment_exact", "type_exact")]
LEAN_TARGETS = ["Props.C13"]
SPEC_FILES = ["Spec/Core.lean"]
ASSUMPTIONS = ["json.loads is an oracle (the model sees the Python value it returns)",
               "nesting depth is kept far below the interpreter's recursion limit, as the property says"]
ALLOWED = {"reg": {"InvalidJSONStructure", "InvalidRegistrationResponse"}, "auth": {"InvalidJSONStructure", "InvalidAuthenticationResponse"}}
TRANSPORTS = ["usb", "nfc", "ble", "smart-card", "internal", "cable", "hybrid"]


def code_parse(kind, v):
    fn = parse_registration_credential_json if kind == "reg" else parse_authentication_credential_json

    def rec(c):
        r = c.response
        out = {"id": c.id, "raw_id": c.raw_id.hex(), "client_data_json": r.client_data_json.hex(),
               "authenticator_attachment": None if c.authenticator_attachment is None else c.authenticator_attachment.value,
               "type": c.type.value if hasattr(c.type, "value") else c.type}
        if kind == "reg":
            out["attestation_object"] = r.attestation_object.hex()
            out["transports"] = None if r.transports is None else [t.value for t in r.transports]
        else:
            out["authenticator_data"] = r.authenticator_data.hex()
            out["signature"] = r.signature.hex()
            out["user_handle"] = None if r.user_handle is None else r.user_handle.hex()
        return out
    return corr.code_outcome(lambda: fn(v), rec)


def arbitrary(rng, depth=0):
    t = rng.randrange(0, 9 if depth < 3 else 6)
    if t == 0:
        return None
    if t == 1:
        return rng.choice([True, False])
    if t == 2:
        return rng.choice([0, 1, -1, 2 ** 70, 65537])
    if t == 3:
        return rng.choice([0.5, 1e300, -0.0])
    if t in (4, 5):
        return rng.choice(["", "a", "AA", "AAA=", "public-key", "platform", "usb", "é", "a b", "A" * 5, "QUJD", "-_-_", "+/+/", "="])
    if t == 6:
        return [arbitrary(rng, depth + 1) for _ in range(rng.randrange(0, 3))]
    return {rng.choice(["id", "rawId", "response", "type", "x", "clientDataJSON"]): arbitrary(rng, depth + 1)
            for _ in range(rng.randrange(0, 3))}


def valid_b64(rng):
    return core.b64url(rng.bytes_(rng.randrange(0, 40)))


BAD_STRINGS = ["A", "AAAAA", "é", "AAAAé", "A=A", "😀"]


def member(rng, good, kind="b64"):
    r = rng.random()
    if r < 0.55:
        return ("valid", good())
    if r < 0.75:
        return ("invalid-string", rng.choice(BAD_STRINGS))
    if r < 0.85:
        return ("absent", None)
    return ("arbitrary", arbitrary(rng))


def gen(rng, kind):
    """a credential JSON value with each member valid / an invalid string / absent / arbitrary"""
    resp, top, shape = {}, {}, []

    def put(d, k, choice):
        tag, v = choice
        shape.append(f"{k}:{tag}")
        if tag != "absent":
            d[k] = v
    raw = rng.bytes_(rng.randrange(1, 40))
    put(top, "id", member(rng, lambda: core.b64url(raw)))
    put(top, "rawId", member(rng, lambda: core.b64url(raw)))
    put(resp, "clientDataJSON", member(rng, lambda: valid_b64(rng)))
    if kind == "reg":
        put(resp, "attestationObject", member(rng, lambda: valid_b64(rng)))
        r = rng.random()
        if r < 0.5:
            resp["transports"] = [rng.choice(TRANSPORTS + ["bogus", 5, None, ["usb"], "USB"]) for _ in range(rng.randrange(0, 5))]
        elif r < 0.6:
            resp["transports"] = arbitrary(rng)
    else:
        put(resp, "authenticatorData", member(rng, lambda: valid_b64(rng)))
        put(resp, "signature", member(rng, lambda: valid_b64(rng)))
        r = rng.random()
        if r < 0.4:
            put(resp, "userHandle", member(rng, lambda: valid_b64(rng)))
        elif r < 0.5:
            resp["userHandle"] = None
    r = rng.random()
    if r < 0.8:
        top["response"] = resp
    elif r < 0.9:
        top["response"] = arbitrary(rng)
    put(top, "type", ("valid", "public-key") if rng.random() < 0.8 else ("arbitrary", rng.choice(["public-keys", "", None, 5, ["public-key"], {"a": 1}])))
    r = rng.random()
    if r < 0.3:
        top["authenticatorAttachment"] = rng.choice(["platform", "cross-platform"])
    elif r < 0.45:
        top["authenticatorAttachment"] = rng.choice(["bogus", "", None, 5, ["platform"], "Platform"])
    if rng.random() < 0.2:
        top["clientExtensionResults"] = arbitrary(rng)
    return top, shape


CATALOGUE_VALUES = [None, True, False, 0, 1, 1234, -1, 2 ** 70, 0.5, "", "A", "AAAAA", "é", "AQID", "public-key", [], ["AQID"], [1],
                    # near misses of the enumerated strings: other spellings are other (unknown) values
                    "cross_platform", "crossPlatform", "CROSS-PLATFORM", "Platform", " platform", "platform ", "plat-form",
                    "public_key", "Public-Key", "publickey", "USB", "internal ", "Hybrid",
                    {}, {"a": 1}, {"status": "x"}, "a b", "=", "AQID=", "-_-_",
                    # strings holding an unpaired surrogate (legal JSON text: "\ud800"): they are strings like any other
                    "x\ud800y", "\udc80", "AQID\udfff"]


def systematic(kind):
    """all members valid except one (or two), which takes every value of a fixed catalogue"""
    import itertools
    raw = bytes(range(20))
    base_resp = {"clientDataJSON": core.b64url(b'{"type":"webauthn.get"}')}
    if kind == "reg":
        base_resp["attestationObject"] = core.b64url(bytes(range(40)))
        base_resp["transports"] = ["usb", "nfc"]
    else:
        base_resp.update(authenticatorData=core.b64url(bytes(range(37))), signature=core.b64url(bytes(range(70))),
                         userHandle=core.b64url(b"user"))
    base = {"id": core.b64url(raw), "rawId": core.b64url(raw), "response": base_resp, "type": "public-key",
            "authenticatorAttachment": "platform", "clientExtensionResults": {}}
    paths = [("id",), ("rawId",), ("type",), ("authenticatorAttachment",), ("response",)] + [("response", k) for k in base_resp]
    import copy
    out = [(copy.deepcopy(base), ["all-valid"])]
    # well-formed credentials whose binary members are long (ids up to the 1023 bytes the specification allows and beyond,
    # large client data / attestation objects): size is not a reason to refuse
    for n in (255, 256, 767, 768, 769, 1023, 1024, 4096):
        d = copy.deepcopy(base)
        big = bytes((i * 7 + n) % 256 for i in range(n))
        d["id"] = d["rawId"] = core.b64url(big)
        out.append((d, [f"rawId-{n}-bytes"]))
        d2 = copy.deepcopy(base)
        for k in d2["response"]:
            if isinstance(d2["response"][k], str):
                d2["response"][k] = core.b64url(big)
        out.append((d2, [f"response-members-{n}-bytes"]))
    for path in paths:
        for v in CATALOGUE_VALUES + ["<absent>"]:
            d = copy.deepcopy(base)
            tgt = d if len(path) == 1 else d["response"]
            if v == "<absent>":
                del tgt[path[-1]]
            else:
                tgt[path[-1]] = v
            out.append((d, [".".join(path) + "=" + repr(v)[:20]]))
    return out


def _fidelity(kind, rec, v, dec):
    ok = rec["id"] == v["id"] and rec["raw_id"] == dec(v["rawId"]) and rec["client_data_json"] == dec(v["response"]["clientDataJSON"])
    if kind == "reg":
        ok = ok and rec["attestation_object"] == dec(v["response"]["attestationObject"])
        tr = v["response"].get("transports")
        exp = [t for t in tr if isinstance(t, str) and t in TRANSPORTS] if isinstance(tr, list) else None
        ok = ok and rec["transports"] == exp
    else:
        ok = ok and rec["authenticator_data"] == dec(v["response"]["authenticatorData"]) and rec["signature"] == dec(v["response"]["signature"])
        uh = v["response"].get("userHandle")
        ok = ok and rec["user_handle"] == (dec(uh) if isinstance(uh, str) else None)
    att = v.get("authenticatorAttachment")
    return ok and rec["authenticator_attachment"] == (att if isinstance(att, str) else None)


def work(tasks, idx):
    from .. import common
    res = Result()
    drv = Driver(Oracle()) if work.driver_ok else None
    tie = corr.Tie(res, drv, "eq")
    for kind, seed, n in tasks:
        rng = common.Rng(seed)
        sysl = systematic(kind) if n < 0 else []
        for it in range(len(sysl) if n < 0 else n):
            if n < 0:
                v, shape = sysl[it]
            elif rng.random() < 0.08:
                v, shape = arbitrary(rng), ["non-credential"]
            else:
                v, shape = gen(rng, kind)
            code_d = code_parse(kind, v)
            res.evaluations += 1
            in_model = True
            try:
                jv = to_jval(v)
            except OutOfModel:
                # values the model's JSON type cannot hold (unpaired surrogates): the property's own relations are still judged
                # on the real code below
                in_model = False
                res.out_of_model += 1
            try:
                text = json.dumps(v)
            except ValueError:
                res.out_of_model += 1
                continue
            if in_model:
                tie.check({"op": "parse_cred_json", "kind": kind, "value": jv}, code_d, label=shape)
            code_t = code_parse(kind, text)
            res.evaluations += 1
            if in_model:
                tie.check({"op": "parse_cred_json", "kind": kind, "text": text}, code_t, label=["text"] + shape)
            # JSON text in which a member name occurs twice (hand-written or proxied JSON): the text means what `json.loads`
            # makes of it, so the text and that dict must give the same result
            if isinstance(v, dict) and "type" in v and (n < 0 and it % 5 == 0 or n >= 0 and rng.random() < 0.05):
                for dup, dl in ((text[:-1] + ', "type": ' + json.dumps(v["type"]) + "}", "type-twice-same-value"),
                                (text[:-1] + ', "clientExtensionResults": {"a": 1, "a": 1}}', "repeat-inside-ignored-member"),
                                ('{"id": "ignored-first-occurrence", ' + text[1:], "id-twice-last-wins")):
                    try:
                        as_dict = json.loads(dup)
                    except ValueError:
                        continue
                    c_text, c_dict = code_parse(kind, dup), code_parse(kind, as_dict)
                    res.evaluations += 2
                    res.count(f"{kind}:repeated-member:" + corr.kind(c_text))
                    if in_model:
                        tie.check({"op": "parse_cred_json", "kind": kind, "text": dup}, c_text, label=["repeated-member", dl])
                    if corr.kind(c_text) != corr.kind(c_dict) or c_text.get("record") != c_dict.get("record"):
                        res.violations.append({"why": f"text with a repeated member name ({dl}) and the dict json.loads makes of it give different results",
                                               "value": dup[:600], "dict": c_dict, "text": c_text,
                                               "match": {"op": "parse_cred_json", "kind": kind, "relation": "text-vs-dict"}})
            res.nontrivial.add((kind, text))
            res.count(f"{kind}:" + corr.kind(code_d))
            # the property on the real code: text and dict agree; never a non-library error; fidelity on accept
            if shape and isinstance(shape[0], str) and (shape[0] == "all-valid" or shape[0].startswith(("rawId-", "response-members-"))) \
                    and code_d["k"] != "accept":
                res.violations.append({"why": f"well-formed credential ({shape[0]}) was not parsed: {str(code_d)[:200]}", "value": text[:600],
                                       "match": {"op": "parse_cred_json", "kind": kind, "relation": "well-formed-refused"}})
            if corr.kind(code_d) != corr.kind(code_t) or code_d.get("record") != code_t.get("record"):
                res.violations.append({"why": "text and dict form give different results", "value": text, "dict": code_d, "text": code_t,
                                       "match": {"op": "parse_cred_json", "kind": kind, "relation": "text-vs-dict"}})
            for form, code in (("dict", code_d), ("text", code_t)):
                if code["k"] == "reject" and ("nonlib" in code or code.get("lib") not in ALLOWED[kind]):
                    mem = "userHandle" if "userHandle" in str(v) and isinstance(v, dict) and isinstance(v.get("response"), dict) and isinstance(v["response"].get("userHandle"), str) else "other"
                    res.violations.append({"why": f"rejected with {code.get('nonlib') or code.get('lib')} instead of the structure/response exception",
                                           "value": text, "form": form, "code": code,
                                           "match": {"op": "parse_cred_json", "kind": kind, "member": mem}})
            if code_d["k"] == "accept":
                rec = code_d["record"]
                import base64
                def dec(s):
                    if not isinstance(s, str):
                        raise TypeError("member is not a string")
                    return base64.urlsafe_b64decode(s + "===").hex()
                try:
                    ok = _fidelity(kind, rec, v, dec)
                except Exception as ex:
                    ok = False
                if not ok:
                    res.violations.append({"why": "accepted credential does not equal the decoded members (or a member is not a string)",
                                           "value": text, "code": code_d, "match": {"op": "parse_cred_json", "kind": kind, "relation": "fidelity"}})
            # JSON text whose top-level value is not an object - e.g. the credential stringified twice, or wrapped in a
            # list - is not a credential: it must be refused with the structure exception, however valid its content
            if isinstance(v, dict) and (n < 0 or rng.random() < 0.1):
                for wrapped, wl in ((json.dumps(text), "json-string-of-the-text"), (json.dumps([v]), "list-of-the-value"),
                                    (json.dumps(json.dumps(text)), "stringified-three-times")):
                    code_w = code_parse(kind, wrapped)
                    res.evaluations += 1
                    tie.check({"op": "parse_cred_json", "kind": kind, "text": wrapped}, code_w, label=["wrapped", wl])
                    res.count(f"{kind}:wrapped:" + corr.kind(code_w))
                    if code_w["k"] == "accept" or "nonlib" in code_w or code_w.get("lib") not in ALLOWED[kind]:
                        res.violations.append({"why": f"JSON text whose top-level value is not an object ({wl}) was not refused with the "
                                                      f"structure exception: {str(code_w)[:200]}", "value": wrapped[:400],
                                               "match": {"op": "parse_cred_json", "kind": kind, "relation": "non-object-text"}})
            # JSON text that `json.loads` refuses for another reason than its grammar: an integer literal beyond the interpreter's
            # digit limit (as a member, or as the whole text), and text with an isolated surrogate escape
            if isinstance(v, dict) and (n < 0 and it % 7 == 0 or n >= 0 and rng.random() < 0.02):
                huge = "7" * 4301
                for bad, bl in ((text.replace("{", '{"x-count": ' + huge + ", ", 1), "huge-literal-member"), (huge, "huge-literal-alone"),
                                ("[" + huge + "]", "huge-literal-in-list")):
                    code_b = code_parse(kind, bad)
                    res.evaluations += 1
                    tie.check({"op": "parse_cred_json", "kind": kind, "text": bad}, code_b, label=["undecodable-text", bl])
                    res.count(f"{kind}:undecodable-text:" + corr.kind(code_b))
                    if code_b["k"] == "accept" or "nonlib" in code_b or code_b.get("lib") not in ALLOWED[kind]:
                        res.violations.append({"why": f"JSON text that json.loads refuses ({bl}) was not refused with the structure exception: "
                                                      f"{str(code_b)[:160]}", "value": bad[:80] + "...",
                                               "match": {"op": "parse_cred_json", "kind": kind, "relation": "undecodable-text"}})
            if len(res.samples) < 4:
                res.samples.append({"kind": kind, "value": text[:300], "shape": shape, "outcome": corr.kind(code_d)})
        if n < 0:
            _large(kind, res)
    if drv:
        drv.close()
    return res


def _large(kind, res):
    """well-formed credentials that are large as a whole (hundreds of KiB to a few MiB of text: a long attestation chain, a
    large ignored extension result): the list-based model is not asked; the property's own relations are checked on the real
    code - parsed, text form and dict form equal, decoded members exact"""
    import base64, copy, hashlib
    base = systematic(kind)[0][0]
    member = "attestationObject" if kind == "reg" else "authenticatorData"
    for nbytes in (300_000, 786_500, 1_600_000):
        blob = hashlib.shake_256(b"c13-large-%d" % nbytes).digest(nbytes)
        for where in ("member", "ignored-extension-result"):
            d = copy.deepcopy(base)
            if where == "member":
                d["response"][member] = core.b64url(blob)
            else:
                d["clientExtensionResults"] = {"largeBlob": {"blob": core.b64url(blob)}, "credProps": {"rk": True}}
            text = json.dumps(d)
            how = {"kind": kind, "large": where, "bytes": nbytes, "text_chars": len(text),
                   "reproduce": f"systematic('{kind}')[0][0] with shake_256(b'c13-large-{nbytes}').digest({nbytes}) as {where}"}
            code_d, code_t = code_parse(kind, d), code_parse(kind, text)
            res.evaluations += 2
            res.count(f"{kind}:large:" + corr.kind(code_t))
            res.nontrivial.add((kind, "large", where, nbytes))
            if code_d["k"] != "accept" or code_t["k"] != "accept":
                res.violations.append({"why": f"well-formed credential of {len(text)} characters ({where}) was not parsed: dict {str(code_d)[:120]} / text {str(code_t)[:120]}",
                                       "value": how, "match": {"op": "parse_cred_json", "kind": kind, "relation": "well-formed-refused"}})
                continue
            if code_d["record"] != code_t["record"]:
                res.violations.append({"why": "text and dict form give different results (large credential)", "value": how,
                                       "match": {"op": "parse_cred_json", "kind": kind, "relation": "text-vs-dict"}})
            dec = lambda t: base64.urlsafe_b64decode(t + "===").hex()
            if not _fidelity(kind, code_t["record"], d, dec):
                res.violations.append({"why": "accepted large credential does not equal the decoded members", "value": how,
                                       "match": {"op": "parse_cred_json", "kind": kind, "relation": "fidelity"}})


def run(ctx, res):
    n = 400 if ctx.quick() else 8000
    tasks = [(kind, ctx.seed * 7919 + i, n) for i in range(16) for kind in ("reg", "auth")]
    tasks += [("reg", 0, -1), ("auth", 0, -1)]     # the systematic single-member streams
    work.driver_ok = ctx.driver_ok
    corr.merge(res, corr.parallel(work, tasks))
    res.rule = ("credential JSON values in which every expected member independently holds a valid value, an invalid string (wrong length, "
                "non-ASCII, non-BMP), is absent, or holds an arbitrary JSON value (depth <= 4), plus non-object values; each in dict and "
                "in text form; compared: outcome equality code vs model, text vs dict agreement, exception class, fidelity of decoded "
                "members and transports; distinct = the JSON text")
