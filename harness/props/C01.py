"""C01 — Authentication soundness."""
import itertools

from .. import corr, faults, common
from ..check import Result
from ..driver import Driver
from ..oracle import Oracle
from ..sim import core
from . import _auth

ID = "C01"
P = "Webauthn.Props.C01."
THEOREMS = [P + "sound", P + "reject_any_deviation",
            "Webauthn.verifyAuth_ok_iff", "Webauthn.cose_sigPlan_sound", "Webauthn.sigDispatchTable_ok",
            "Webauthn.parseFlags_eq_flagRow", "Webauthn.parseAuthData_header", "Webauthn.clientDataOfJVal_ok"] + \
           ["Webauthn.Props.Examples.auth_accepts", "Webauthn.Props.Examples.auth_rejects"]
AUDIT_IMPORTS = ["Props.Examples"]
LEAN_TARGETS = ["Props.Examples", "Props.C01"]
SPEC_FILES = ["Spec/Core.lean", "Proofs/VerifyAuth.lean"]
ASSUMPTIONS = [
    "signature validity, hashing and JSON decoding are the external libraries' verdicts (oracles); theorems hold for every oracle behaviour",
    "tie direction: whenever the real code accepts, the model accepts with an equal record (checked on every generated case)",
]


# deviations the statement of C01 does not speak about (they belong to C07 / C10 / C02-style checks);
# they stay in the stream for the correspondence, but are not judged here
NOT_C01 = {"A.ctr-equal", "A.ctr-smaller", "A.ctr-zero-vs-pos", "A.bs-without-be", "A.tb-not-supported", "A.cred-type"}


def work(tasks, idx):
    res = Result()
    drv = Driver(Oracle()) if work.driver_ok else None
    tie = corr.Tie(res, drv, "code_accept_implies_model_accept")
    cs = _auth.creds()
    for ci, fs, variant in tasks:
        c = cs[ci]
        kw = {"flags": core.UP | core.UV, "faults": fs}
        if variant % 2:
            kw["origin_list"] = ["https://a.example", "https://example.com", "https://b.example"]
        if variant % 3 == 1:
            kw["require_uv"] = True
        if variant % 5 == 2:
            kw["cd_extra"] = {"crossOrigin": False, "other_keys_can_be_added_here": "do not compare clientDataJSON against a template"}
        a, e, eff = faults.build_assertion(c, **kw)
        code = _auth.eval_auth(tie, res, a, e, label=list(fs), faults_applied=eff, check_counter=False)
        res.nontrivial.add((ci, tuple(sorted(fs)), variant % 30))
        res.count(f"alg:{c.alg}")
        res.count(f"nfaults:{min(len(fs), 3)}")
        if len(eff) == 1 and code["k"] == "accept" and list(eff)[0] not in NOT_C01:
            res.violations.append({"why": f"single fault {list(eff)[0]} accepted", "faults": list(eff),
                                   "case": __import__("harness.cases", fromlist=["x"]).auth_case(a, e), "code": code,
                                   "match": {"op": "verify_auth", "fault": list(eff)[0]}})
        if not eff and code["k"] != "accept":
            res.nonblocking.append({"why": "conformant assertion rejected (completeness, C05)", "code": code})
        if len(res.samples) < 3:
            res.samples.append(_auth.sample_case(a, e, fs, code))
    if drv:
        drv.close()
    return res


def run(ctx, res):
    rng = ctx.rng
    ncreds = len(_auth.creds())
    F = faults.AUTH_FAULTS
    tasks = []
    for ci in range(ncreds):
        tasks.append((ci, (), rng.randrange(30)))
        for f in F:
            tasks.append((ci, (f,), rng.randrange(30)))
        nrand = 40 if ctx.quick() else 400
        for _ in range(nrand):
            tasks.append((ci, tuple(rng.sample(F, rng.randrange(2, 6))), rng.randrange(30)))
        if not ctx.quick():
            for pair in itertools.combinations(F, 2):
                tasks.append((ci, pair, rng.randrange(30)))
    work.driver_ok = ctx.driver_ok
    corr.merge(res, corr.parallel(work, tasks))
    res.rule = ("authenticator/client simulator with real keys x fault catalogue (27 named deviations, each re-signed): per "
                "credential algorithm 1 valid + every single fault + random subsets (thorough: all pairs); distinct = "
                "(credential algorithm, fault set, client-data/origin/policy variant); every case is non-trivial (validly signed)")
