"""C01 — Authentication soundness."""
import itertools

from .. import corr, faults, common
from ..check import Result
from ..driver import Driver
from ..oracle import Oracle
from ..sim import core
from . import _auth

ID = "C01"
P = "Webauthn.Props.C01."
THEOREMS = [P + "sound", P + "reject_any_deviation",
            "Webauthn.verifyAuth_ok_iff", "Webauthn.cose_sigPlan_sound", "Webauthn.sigDispatchTable_ok",
            "Webauthn.parseFlags_eq_flagRow", "Webauthn.parseAuthData_header", "Webauthn.clientDataOfJVal_ok"] + \
           ["Webauthn.Props.Examples.auth_accepts", "Webauthn.Props.Examples.auth_rejects"]
AUDIT_IMPORTS = ["Props.Examples"]
LEAN_TARGETS = ["Props.Examples", "Props.C01"]
SPEC_FILES = ["Spec/Core.lean", "Proofs/VerifyAuth.lean"]
ASSUMPTIONS = [
    "signature validity, hashing and JSON decoding are the external libraries' verdicts (oracles); theorems hold for every oracle behaviour",
    "tie direction: whenever the real code accepts, the model accepts with an equal record (checked on every generated case)",
]


# deviations the statement of C01 does not speak about (they belong to C07 / C10 / C02-style checks);
# they stay in the stream for the correspondence, but are not judged here
NOT_C01 = {"A.ctr-equal", "A.ctr-smaller", "A.ctr-zero-vs-pos", "A.bs-without-be", "A.tb-not-supported", "A.cred-type"}


def work(tasks, idx):
    res = Result()
    drv = Driver(Oracle()) if work.driver_ok else None
    tie = corr.Tie(res, drv, "code_accept_implies_model_accept")
    cs = _auth.creds()
    for ci, fs, variant in tasks:
        c = cs[ci]
        kw = {"flags": core.UP | core.UV, "faults": fs}
        if variant % 2:
            kw["origin_list"] = ["https://a.example", "https://example.com", "https://b.example"]
        if variant % 3 == 1:
            kw["require_uv"] = True
        if variant % 5 == 2:
            kw["cd_extra"] = {"crossOrigin": False, "other_keys_can_be_added_here": "do not compare clientDataJSON against a template"}
        a, e, eff = faults.build_assertion(c, **kw)
        code = _auth.eval_auth(tie, res, a, e, label=list(fs), faults_applied=eff, check_counter=False)
        res.nontrivial.add((ci, tuple(sorted(fs)), variant % 30))
        res.count(f"alg:{c.alg}")
        res.count(f"nfaults:{min(len(fs), 3)}")
        if len(eff) == 1 and code["k"] == "accept" and list(eff)[0] not in NOT_C01:
            res.violations.append({"why": f"single fault {list(eff)[0]} accepted", "faults": list(eff),
                                   "case": __import__("harness.cases", fromlist=["x"]).auth_case(a, e), "code": code,
                                   "match": {"op": "verify_auth", "fault": list(eff)[0]}})
        if not eff and code["k"] != "accept":
            res.nonblocking.append({"why": "conformant assertion rejected (completeness, C05)", "code": code})
        if len(res.samples) < 3:
            res.samples.append(_auth.sample_case(a, e, fs, code))
    if drv:
        drv.close()
    return res


def small_modulus_sweep(res, hierarchy=False, flip=False, driver_ok=False):
    """Stored RSA keys too small for the hash their algorithm names (PS512 under a 512..520-bit modulus, PS384 under < 393 bits,
    PS256 under < 265 bits, and their PKCS#1 v1.5 counterparts): no octet string is a valid signature under such a key, so whatever
    is presented must be refused. Such keys cannot be generated with the crypto library but load from a COSE key all the same.
    Deterministic; judged by the property alone (nothing to sign with, so no accepted original exists)."""
    import cbor2
    import hashlib
    from .. import cases
    signer = [c for c in _auth.creds() if core.key_kind(c.priv) == "rsa"][0]
    drv = Driver(Oracle()) if driver_ok else None
    tie = corr.Tie(res, drv, "eq") if drv else None
    a0, e0, _ = faults.build_assertion(signer, flags=core.UP | core.UV)
    algs = {"PS256": core.PS256, "PS384": core.PS384, "PS512": core.PS512, "RS256": core.RS256, "RS384": core.RS384, "RS512": core.RS512}
    for name, alg in algs.items():
        h = int(name[2:])
        for bits in sorted({h - 8, h, h + 1, h + 8, h + 9, h + 16, h + 17, 2 * h + 16, 2 * h + 17, 512, 513, 520, 521, 528, 768}):
            if bits < 64:
                continue
            fill = int.from_bytes(hashlib.shake_256(b"n-%d-%d" % (alg, bits)).digest((bits + 7) // 8), "big")
            n = (fill % (1 << bits)) | (1 << (bits - 1)) | 1
            nb = n.to_bytes((bits + 7) // 8, "big")
            key = cbor2.dumps({1: 3, 3: alg, -1: nb, -2: b"\x01\x00\x01"})
            L = len(nb)
            sigs = [bytes(L), (1).to_bytes(L, "big"), (n - 1).to_bytes(L, "big"), hashlib.shake_256(nb).digest(L)[:L - 1] + b"\x01",
                    b"", a0["signature"][:L]]
            sigs[3] = (int.from_bytes(sigs[3], "big") % n).to_bytes(L, "big")
            for sig in sigs:
                a, e = dict(a0, signature=sig), dict(e0, public_key=key)
                code = cases.run_auth(a, e)
                res.evaluations += 1
                res.count("small-modulus:" + corr.kind(code))
                if tie is not None:
                    # the model's `sigSeen` (what verify_signature makes of a primitive that raises) against the code
                    tie.check(cases.auth_case(a, e), code, label=["small-modulus", name, bits])
                res.nontrivial.add(("small-modulus", name, bits, sig[:4]))
                if hierarchy:
                    # C19's reading: the response is well-formed and is refused because no signature verifies - a semantic
                    # rejection, which must come from the library's hierarchy
                    if code["k"] == "reject" and "nonlib" in code:
                        res.violations.append({"why": f"well-formed assertion refused against a stored {name} key with a {bits}-bit modulus by "
                                                      f"{code['nonlib']}: {str(code.get('msg'))[:100]} (not a WebAuthnException)",
                                               "case": cases.auth_case(a, e), "code": code,
                                               "match": {"op": "verify_auth", "rule": "library-exception", "fault": "A.key-too-small-for-hash",
                                                         "exception": code["nonlib"], "scheme": name[:2]}})
                elif flip:
                    # C06's reading: if such a response is accepted at all, a single-bit change of signed material must undo that
                    if code["k"] == "accept" and sig:
                        for where in ("signature", "auth_data"):
                            buf = bytearray(a[where] if where == "signature" else a["authenticator_data"])
                            buf[-1] ^= 1
                            a2 = dict(a, **{("signature" if where == "signature" else "authenticator_data"): bytes(buf)})
                            c2 = cases.run_auth(a2, e)
                            res.evaluations += 1
                            if c2["k"] == "accept":
                                res.violations.append({"why": f"accepted assertion (stored {name} key, {bits}-bit modulus) stays accepted after flipping "
                                                              f"the last bit of its {where}", "case": cases.auth_case(a2, e), "original": cases.auth_case(a, e),
                                                       "match": {"op": "verify_auth", "flip": where, "fault": "A.key-too-small-for-hash"}})
                elif code["k"] == "accept":
                    res.violations.append({"why": f"assertion accepted against a stored {name} key with a {bits}-bit modulus, under which no "
                                                  f"signature can verify (presented signature: {sig.hex()[:40]}...)",
                                           "case": cases.auth_case(a, e), "code": code,
                                           "match": {"op": "verify_auth", "fault": "A.key-too-small-for-hash", "alg": name, "bits": bits}})
    if drv:
        drv.close()


def run(ctx, res):
    rng = ctx.rng
    ncreds = len(_auth.creds())
    F = faults.AUTH_FAULTS
    tasks = []
    for ci in range(ncreds):
        tasks.append((ci, (), rng.randrange(30)))
        for f in F:
            tasks.append((ci, (f,), rng.randrange(30)))
        nrand = 40 if ctx.quick() else 400
        for _ in range(nrand):
            tasks.append((ci, tuple(rng.sample(F, rng.randrange(2, 6))), rng.randrange(30)))
        if not ctx.quick():
            for pair in itertools.combinations(F, 2):
                tasks.append((ci, pair, rng.randrange(30)))
    work.driver_ok = ctx.driver_ok
    corr.merge(res, corr.parallel(work, tasks))
    small_modulus_sweep(res, driver_ok=ctx.driver_ok)
    res.rule = ("authenticator/client simulator with real keys x fault catalogue (27 named deviations, each re-signed): per "
                "credential algorithm 1 valid + every single fault + random subsets (thorough: all pairs); distinct = "
                "(credential algorithm, fault set, client-data/origin/policy variant); every case is non-trivial (validly signed)")
