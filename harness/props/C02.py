"""C02 — Registration soundness: RP expectations enforced for every attestation format."""
import itertools

from .. import cases, corr, spec
from ..check import Result
from ..driver import Driver
from ..oracle import Oracle
from ..sim import attest, core
from . import _reg

ID = "C02"
P = "Webauthn.Props.C02."
THEOREMS = [P + "sound", P + "reject_any_deviation", "Webauthn.verifyReg_ok_iff", "Webauthn.parseAttObj_ok",
            "Webauthn.verifyFormat_ok", "Webauthn.Props.C10.layout"] + \
           ["Webauthn.Props.Examples.reg_accepts"]
AUDIT_IMPORTS = ["Props.Examples"]
LEAN_TARGETS = ["Props.Examples", "Props.C02"]
SPEC_FILES = ["Spec/Core.lean", "Proofs/VerifyReg.lean"]
ASSUMPTIONS = ["external libraries are oracles; theorems hold for every oracle behaviour",
               "tie direction: whenever the real code accepts, the model accepts with an equal record"]
# ceremony-level deviations the statement of C02 names (the rest of the catalogue is format-level: C03)
CEREMONY = attest.CATALOGUE["ceremony"] + attest.CATALOGUE["none"]
NOT_C02 = {"R.cred-type", "R.bs-without-be", "R.tb-not-supported", "R.at-clear-data-present"}
# deviations applied by this harness around the simulator (X. = expectation-side)
HARNESS_FAULTS = ["X.origin-is-proper-prefix-of-expected", "X.origin-is-infix-of-expected", "X.alg-not-allowed",
                  "X.alg-unregistered-not-allowed", "X.uv-clear-required-up-waived", "X.origin-list-lacks-it",
                  "X.expected-origin-has-trailing-slash", "X.expected-origin-has-surrounding-space", "X.expected-origin-has-explicit-default-port",
                  "X.alg-list-empty", "X.alg-list-empty-tuple", "X.expected-origin-ipv6-literal-read-as-glob", "X.expected-origin-star-read-as-glob", "X.expected-origin-qmark-read-as-glob"]


def work(tasks, idx):
    res = Result()
    drv = Driver(Oracle()) if work.driver_ok else None
    tie = corr.Tie(res, drv, "code_accept_implies_model_accept")
    for fmt, choice, fs, variant in tasks:
        kw = {"n_intermediates": variant % 2} if fmt in attest.CHAIN_FORMATS and fmt != "fido-u2f" else {}
        xs = [f for f in fs if f.startswith("X.")]
        sim_fs = tuple(f for f in fs if not f.startswith("X."))
        if "X.origin-is-proper-prefix-of-expected" in xs:
            kw["origin"] = "https://example.co"
        if "X.origin-is-infix-of-expected" in xs:
            kw["origin"] = "example"
        if "X.uv-clear-required-up-waived" in xs:
            sim_fs = sim_fs + ("R.uv-clear",)
        # expected origins that contain characters some matcher gives a meaning to: they are plain strings to compare
        GLOBS = {"X.expected-origin-ipv6-literal-read-as-glob": ("https://[::1]:8443", "https://1:8443"),
                 "X.expected-origin-star-read-as-glob": ("https://*.example.com", "https://login.example.com"),
                 "X.expected-origin-qmark-read-as-glob": ("https://example.co?", "https://example.com")}
        glob = next((GLOBS[x] for x in xs if x in GLOBS), None)
        if glob:
            kw["origin"] = glob[1]
        if "R.rpid-hash-of-lowercase" in sim_fs or "R.rpid-hash-of-idna-form" in sim_fs:
            kw["rp_id"] = "B\u00fccher.Example"         # an expected RP ID for which those other strings exist
            kw["origin"] = "https://b\u00fccher.example"
        if "X.alg-unregistered-not-allowed" in xs:
            if fmt not in ("none",):
                continue
            choice = (choice[0], choice[1], -35 if variant % 2 else -47)
        b = _reg.build(fmt, choice, sim_fs, aaguid=bytes((variant * 7 + i) % 256 for i in range(16)), **kw)
        if b is None:
            continue
        req, r = b
        over = {"require_uv": True} if "R.uv-clear" in sim_fs or variant % 3 == 0 else {}
        if variant % 4 == 1:
            over["origin"] = [req.origin, "https://other.example"]
        if "R.up-clear" in sim_fs:
            over["require_up"] = True
        if xs and xs[0].startswith("X.origin-is"):
            over["origin"] = "https://example.com"
        if "X.origin-list-lacks-it" in xs:
            over["origin"] = ["https://a.example", req.origin + "x", "x" + req.origin]
        # the policy names a *different string* than the one the client reports: exactness is the rule, in both forms
        if glob:
            over["origin"] = glob[0] if variant % 2 else [glob[0], "https://other.example"]
        if "X.expected-origin-has-trailing-slash" in xs:
            over["origin"] = req.origin + "/" if variant % 2 else [req.origin + "/"]
        if "X.expected-origin-has-explicit-default-port" in xs:
            dp = req.origin + (":443" if req.origin.startswith("https://") else ":80")
            over["origin"] = dp if variant % 2 else [dp]
        if "X.expected-origin-has-surrounding-space" in xs:
            over["origin"] = " " + req.origin if variant % 2 else [req.origin + " "]
        if "X.alg-not-allowed" in xs or "X.alg-unregistered-not-allowed" in xs:
            over["algs"] = [a for a in cases.ALL_ALGS if a != choice[2]][: 3 + variant % 5]
        if "X.alg-list-empty" in xs:
            over["algs"] = []                 # the RP allows no algorithm at all: nothing can be accepted
        if "X.alg-list-empty-tuple" in xs:
            over["algs"] = ()
        if "X.uv-clear-required-up-waived" in xs:
            over["require_up"], over["require_uv"] = False, True
        e = _reg.expectation(req, r.roots, **over)
        c = r.credential
        code, _ = _reg.eval_reg(tie, res, c, e, label=[fmt] + list(fs))
        res.nontrivial.add((fmt, choice, tuple(sorted(fs)), variant % 12))
        res.count("fmt:" + fmt)
        if code["k"] == "accept":
            conj = spec.reg_conjuncts(c, e)
            bad = _reg.first_false(conj)
            if bad is not None:
                res.violations.append({"why": f"accepted although conjunct '{bad}' is false", "faults": list(fs), "fmt": fmt,
                                       "case": cases.reg_case(c, e), "code": code,
                                       "match": {"op": "verify_reg", "conjunct": bad}})
            elif len(fs) == 1 and (fs[0] in CEREMONY or fs[0] in HARNESS_FAULTS) and fs[0] not in NOT_C02:
                res.violations.append({"why": f"single ceremony-level fault {fs[0]} accepted under {fmt}", "faults": list(fs),
                                       "fmt": fmt, "case": cases.reg_case(c, e), "code": code,
                                       "match": {"op": "verify_reg", "fault": fs[0]}})
        elif not fs:
            res.nonblocking.append({"why": f"conformant {fmt} registration rejected (completeness, C05)", "code": code})
        if len(res.samples) < 3:
            res.samples.append(_reg.sample(fmt, fs, c, code))
    if drv:
        drv.close()
    return res


def run(ctx, res):
    rng = ctx.rng
    tasks = []
    for fmt in _reg.FORMATS:
        choices = _reg.cred_choices(fmt)
        faults = attest.CATALOGUE["ceremony"] + (attest.CATALOGUE["none"] if fmt == "none" else [])
        for ch in (choices if not ctx.quick() else choices[:3]):
            tasks.append((fmt, ch, (), rng.randrange(12)))
        for f in faults + HARNESS_FAULTS:
            # the algorithm-policy faults depend on which key type / curve / label the credential has: every choice, every run
            every = not ctx.quick() or f.startswith("X.alg-")
            for k, ch in enumerate(choices if every else rng.sample(choices, min(2, len(choices)))):
                tasks.append((fmt, ch, (f,), k if f.startswith("X.alg-") else rng.randrange(12)))
        n = 12 if ctx.quick() else 150
        for _ in range(n):
            k = rng.randrange(2, 4)
            fs = tuple(rng.sample(attest.CATALOGUE["ceremony"], k))
            tasks.append((fmt, rng.choice(choices), fs, rng.randrange(12)))
    work.driver_ok = ctx.driver_ok
    corr.merge(res, corr.parallel(work, tasks))
    res.rule = ("attestation simulator (real keys, own CAs) over all 7 formats + packed self-attestation x ceremony-level fault "
                "catalogue (24 deviations + 8 none-statement variants), the statement regenerated so it stays valid for the deviating "
                "data: per format valid + every single fault + random combinations; distinct = (format, credential key/alg, fault "
                "set, policy/origin variant)")
