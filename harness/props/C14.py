"""C14 — base64url codec is a faithful, canonical round trip."""
import re
from webauthn.helpers.base64url_to_bytes import base64url_to_bytes
from webauthn.helpers.bytes_to_base64url import bytes_to_base64url

from .. import corr
from ..driver import Driver, has_surrogate
from ..oracle import Oracle

ID = "C14"
P = "Webauthn.Props.C14."
THEOREMS = [P + n for n in ("alphabet", "no_padding", "roundtrip", "roundtrip_unpadded", "injective", "roundtrip_str", "length")]
LEAN_TARGETS = ["Props.C14"]
ASSUMPTIONS = [
    "model = transcription of CPython binascii.a2b_base64 (non-strict) + urlsafe translation; tied to the code by "
    "exhaustive comparison on all byte strings of length 0-2 and random strings, and on arbitrary text for the lenient decoder",
]
ALPHABET = re.compile(r"^[A-Za-z0-9_-]*$")


def code_decode(s):
    try:
        return {"k": "accept", "record": base64url_to_bytes(s).hex()}
    except Exception as e:
        return {"k": "reject", "nonlib": type(e).__name__}


def same_outcome(code, model):
    if code["k"] != model.get("k"):
        return False
    if code["k"] == "accept":
        return code["record"] == model.get("record")
    # both reject: base64 helpers raise non-library errors; compare the class coarsely
    return ("nonlib" in model) == ("nonlib" in code)


MODEL_MAX = 8192


def run(ctx, res):
    rng = ctx.rng
    drv = Driver(Oracle()) if ctx.driver_ok else None
    res.rule = ("all byte strings of length 0-2 (65 793) x paddings 0-3, random byte strings up to 4 KB in all three "
                "length classes, byte strings that are themselves url-safe text (every length to 120, encodings of encodings), "
                "large values (48 KiB - 200 KB; thorough 1 MiB), and arbitrary text for the lenient decoder; a case is non-trivial when its byte string "
                "/ text is distinct; compared: real encode/decode vs model driver, and the C14 predicate on the real code")
    short = [b""] + [bytes([a]) for a in range(256)] + [bytes([a, b]) for a in range(256) for b in range(256)]
    n_rand = 300 if ctx.quick() else 6000
    rand = []
    for i in range(n_rand):
        ln = rng.choice([3, 4, 5, 31, 32, 33, 64, 65, 255, 256, 1023, rng.randrange(0, 4096)])
        rand.append(rng.bytes_(ln))
    # byte strings that are themselves text: made only of the url-safe alphabet (every length up to 120, incl. the encoding
    # of an encoding), identifiers, '=' and whitespace - an encoder must not care what the bytes look like
    ALPHA = b"ABCDEFGHIJKLMNOPQRSTUVWXYZabcdefghijklmnopqrstuvwxyz0123456789-_"
    texty = [bytes(rng.choice(ALPHA) for _ in range(ln)) for ln in range(0, 121)]
    texty += [bytes_to_base64url(b).encode("ascii") for b in rand[:40]]
    texty += [b"user-%021d" % i for i in range(5)] + [b"=" * k for k in range(1, 6)] + [b"AAAA" * 8, b"A" * 22, b"-" * 23, b"_" * 24,
              b" \t\r\n" * 6, b"QUJD", b"QUJD" * 7, bytes(range(256))]
    # large values (largeBlob payloads, long chains): sizes around 48 KiB / 64 KiB of text and beyond
    big = [rng.bytes_(n) for n in ([49150, 49152, 49153, 65535, 65536, 65537, 3 * 65536 // 4 + 1, 200000] + ([] if ctx.quick() else [1 << 20]))]
    # byte strings whose *encoding* spells something a program might treat specially: literals, keywords, words
    import base64
    WORDS = ["null", "None", "true", "false", "True", "False", "NaN", "nil", "void", "undefined", "Infinity", "0", "00", "000", "0000",
             "AAAA", "____", "----", "test", "data", "user", "admin", "root", "pass", "password", "token", "secret", "default", "empty",
             "none", "NULL", "TRUE", "_id", "id", "key", "YQ", "YWI", "YWJj", "Zm9v", "YmFy", "e30", "W10", "eyJ9", "bnVsbA", "dW5kZWZpbmVk"]
    wordy = []
    for w in WORDS:
        try:
            b = base64.urlsafe_b64decode(w + "=" * (-len(w) % 4))
        except Exception:
            continue
        if base64.urlsafe_b64encode(b).decode().rstrip("=") == w:     # w is the canonical encoding of b
            wordy.append(b)
    inputs = short + rand + texty + big + wordy
    every_padding = set(wordy) | set(texty)
    res.exhaustive = True
    seen_enc = {}
    # --- encode: code vs model, alphabet, injectivity
    CH = 4096
    for i in range(0, len(inputs), CH):
        chunk = inputs[i:i + CH]
        code_enc = [bytes_to_base64url(b) for b in chunk]
        model_enc = None
        if drv:
            # the model (list-based) is asked up to 8 KiB; larger values are judged by the property predicate on the real code
            small = [b for b in chunk if len(b) <= MODEL_MAX]
            r, _ = drv.call({"op": "batch", "cases": [{"op": "b64_encode", "b": b.hex()} for b in small]})
            it = iter(x.get("record") for x in r["results"])
            model_enc = [next(it) if len(b) <= MODEL_MAX else None for b in chunk]
        for j, b in enumerate(chunk):
            e = code_enc[j]
            res.evaluations += 1
            res.nontrivial.add(b)
            res.count(f"len%3={len(b) % 3}")
            if not ALPHABET.match(e):
                res.violations.append({"why": "encoding leaves the url-safe alphabet", "input": b.hex(), "encoded": e,
                                       "match": {"op": "b64_encode"}})
            if e in seen_enc and seen_enc[e] != b:
                res.violations.append({"why": "two byte strings share an encoding", "input": b.hex(),
                                       "other": seen_enc[e].hex(), "encoded": e, "match": {"op": "b64_encode"}})
            seen_enc[e] = b
            if model_enc is not None and model_enc[j] is not None and model_enc[j] != e:
                res.disagreements.append({"why": "encode differs", "input": b.hex(), "code": e, "model": model_enc[j]})
    # --- decode with every padding: code vs model, round trip
    dec_cases = []
    for b in inputs:
        e = bytes_to_base64url(b)
        pads = range(0, 4) if (len(b) <= 2 or b in every_padding) else [0, rng.randrange(1, 6)]
        for k in pads:
            dec_cases.append((b, e + "=" * k))
    for i in range(0, len(dec_cases), CH):
        chunk = dec_cases[i:i + CH]
        model = None
        if drv:
            small = [s for b, s in chunk if len(b) <= MODEL_MAX]
            r, _ = drv.call({"op": "batch", "cases": [{"op": "b64_decode", "s": s} for s in small]})
            it = iter(r["results"])
            model = [next(it) if len(b) <= MODEL_MAX else None for b, s in chunk]
        for j, (b, s) in enumerate(chunk):
            c = code_decode(s)
            res.evaluations += 1
            if c["k"] != "accept" or c["record"] != b.hex():
                res.violations.append({"why": "decode(encode(b) + padding) != b", "input": b.hex(), "text": s, "code": c,
                                       "match": {"op": "b64_decode"}})
            if model is not None and model[j] is not None and not same_outcome(c, model[j]):
                res.disagreements.append({"why": "decode differs", "text": s, "code": c, "model": model[j]})
    # --- values of several MiB (long certificate chains, largeBlob writes), sizes around 2^21 .. 2^24: above what the list-based
    # model is asked, judged by the property's own predicates on the real code - alphabet, canonical length, round trip with
    # and without padding. The value is derived from a short seed so that a replay stays small.
    import hashlib
    HUGE = [(1 << 21) - 1, 1 << 21, (1 << 21) + 1, (1 << 21) + 2, 3 * (1 << 20) + 1, (1 << 22) + 1] + ([] if ctx.quick() else [(1 << 23) + 5, (1 << 24) + 1])
    for n in HUGE:
        seed = rng.bytes_(8).hex()
        b = hashlib.shake_256(bytes.fromhex(seed)).digest(n)
        how = {"shake256_seed": seed, "len": n, "reproduce": f"hashlib.shake_256(bytes.fromhex('{seed}')).digest({n})"}
        for form in (b, bytearray(b), memoryview(b)):
            e = bytes_to_base64url(form)
            res.evaluations += 1
            res.count("huge")
            problem = None
            if not ALPHABET.match(e):
                problem = "encoding leaves the url-safe alphabet"
            elif len(e) != (4 * n + 2) // 3:
                problem = f"encoding of {n} bytes has {len(e)} characters, not {(4 * n + 2) // 3}"
            else:
                for pad in ("", "=", "=="):
                    c = code_decode(e + pad)
                    res.evaluations += 1
                    if c["k"] != "accept" or bytes.fromhex(c["record"]) != b:
                        problem = f"decode(encode(b) + {pad!r}) != b ({c['k']}: {str(c.get('msg') or c.get('nonlib') or '')[:80]})"
                        break
            if problem:
                res.violations.append({"why": problem + f" for a value of {n} bytes given as {type(form).__name__}", "input": how,
                                       "encoded_head": e[:64], "encoded_len": len(e), "match": {"op": "b64_encode", "size": "huge"}})
                break
        res.nontrivial.add(("huge", n))
    # --- structured lengths. An encoder that works in slices (or a decoder that does) goes wrong, if it does, at lengths that are
    # multiples of its slice size - which is some "round" number: a multiple of 3 times a power of two (48 KiB = 3 * 2^14), a power
    # of two or of ten, a MIME line (57 / 45 / 60 bytes), a page. Random and 2^n +- d lengths never meet those. The sweep is
    # deterministic: k * m and its neighbours for every such m up to the cap, over slices of one buffer derived from a short seed;
    # judged by the property's own predicates on the real code (alphabet, canonical length, round trip).
    CAP = (1 << 22) if ctx.quick() else (1 << 24) + 8
    lat_seed = rng.bytes_(8).hex()
    BIG = hashlib.shake_256(bytes.fromhex(lat_seed)).digest(CAP + 2)
    units = set()
    for j in range(0, 25):
        units.update((3 << j, 1 << j, 9 << j, 5 << j, 57 << j, 45 << j, 15 << j))
    units.update(10 ** j for j in range(1, 8))
    units.update(3 * 10 ** j for j in range(1, 8))
    lattice = set()
    for m in units:
        for k in range(1, 9):
            if k * m <= CAP:
                lattice.add(k * m)
                if k * m > 4096 and (k <= 3):
                    lattice.update((k * m - 1, k * m + 1))
    # every multiple of 3 KiB up to 1.5 MiB as well (slice sizes that are not so round)
    lattice.update(range(3072, (3 << 19) + 1, 3072))
    view = memoryview(BIG)
    lat_bad = 0
    for n in sorted(lattice):
        if n > CAP:
            continue
        b = view[:n]
        e = bytes_to_base64url(bytes(b) if n % 2 else b)
        res.evaluations += 1
        res.count("lattice")
        problem = None
        if len(e) != (4 * n + 2) // 3:
            problem = f"encoding of {n} bytes has {len(e)} characters, not {(4 * n + 2) // 3}"
        elif not ALPHABET.match(e):
            problem = "encoding leaves the url-safe alphabet"
        else:
            c = code_decode(e + ("=" * (-len(e) % 4) if n % 5 == 0 else ""))
            if c["k"] != "accept" or bytes.fromhex(c["record"]) != b:
                problem = f"decode(encode(b)) != b ({c['k']}: {str(c.get('msg') or c.get('nonlib') or '')[:80]})"
        if problem:
            lat_bad += 1
            if lat_bad <= 3:
                res.violations.append({"why": problem + f" for a value of {n} bytes", "encoded_head": e[:64], "encoded_len": len(e),
                                       "input": {"shake256_seed": lat_seed, "len": n,
                                                 "reproduce": f"hashlib.shake_256(bytes.fromhex('{lat_seed}')).digest({CAP + 2})[:{n}]"},
                                       "match": {"op": "b64_encode", "size": "lattice"}})
    res.nontrivial.add(("lattice", len(lattice)))
    del BIG, view
    # --- the same bytes behind buffers whose items are not single bytes (memoryviews cast to 16/32/64-bit items or to signed
    # bytes / chars, multi-dimensional views, array.array): a buffer's content is its bytes, whatever its `len()` counts
    import array
    for n in list(range(0, 25)) + [48, 99, 100, 1022, 4096]:
        b = rng.bytes_(n)
        want = bytes_to_base64url(b)
        forms = [("array-B", array.array("B", b))]
        for fmt in ("b", "c", "H", "h", "I", "Q"):
            size = memoryview(b"\0" * 8).cast(fmt).itemsize
            if n and n % size == 0:
                forms.append((f"memoryview-cast-{fmt}", memoryview(b).cast(fmt)))
                if fmt in ("H", "I", "Q"):
                    arr = array.array(fmt)
                    if arr.itemsize == size:
                        arr.frombytes(b)
                        forms.append((f"array-{fmt}", arr))
        if n and n % 2 == 0:
            forms.append(("memoryview-2d", memoryview(b).cast("B", shape=[2, n // 2])))
        for label, form in forms:
            c = corr.code_outcome(lambda: bytes_to_base64url(form), lambda r: r)
            res.evaluations += 1
            res.count("buffer-form:" + label.split("-")[0])
            res.nontrivial.add(("buffer-form", label, n))
            if c["k"] != "accept" or c["record"] != want:
                res.violations.append({"why": f"the {n} bytes {b.hex()[:40]} given as {label} encode to {str(c.get('record') or c)[:80]}, as bytes to {want[:80]}",
                                       "input": b.hex(), "form": label, "match": {"op": "b64_encode", "form": "buffer"}})
    # --- mutable byte-like inputs changed in place between two conversions: each conversion is of the bytes as they are now
    for k in range(40):
        buf = bytearray(rng.bytes_(rng.choice([1, 3, 16, 33])))
        for view in (buf, memoryview(buf)):
            first = bytes_to_base64url(view)
            buf[0] ^= 0xFF
            buf[-1] = (buf[-1] + 1) % 256
            second = bytes_to_base64url(view)
            res.evaluations += 2
            want = base64.urlsafe_b64encode(bytes(buf)).decode().rstrip("=")
            c = code_decode(second)
            if second != want or c["k"] != "accept" or c["record"] != bytes(buf).hex():
                res.violations.append({"why": f"a {type(view).__name__} changed in place between two conversions is encoded as its old content",
                                       "input": bytes(buf).hex(), "encoded": second, "match": {"op": "b64_encode", "relation": "mutable-input"}})
    # --- lenient decoder on arbitrary text (equality of outcomes; no property predicate applies)
    n_text = 3000 if ctx.quick() else 60000
    alph = "ABCDEFGHIJKLMNOPQRSTUVWXYZabcdefghijklmnopqrstuvwxyz0123456789-_+/="
    junk = " \n\t.,:;!?*#@[]{}()'\"\\~^%$&|<>`\x00\x7f\u00e9\u20ac\U0001F600"
    texts = []
    for i in range(n_text):
        ln = rng.randrange(0, 24)
        mode = rng.random()
        pool = alph if mode < 0.5 else (alph + junk if mode < 0.9 else junk + "=")
        texts.append("".join(rng.choice(pool) for _ in range(ln)))
    texts += ["", "=", "==", "===", "A", "A=", "A==", "AA", "AA=", "AA==", "AAA", "AAA=", "AAAA", "AAAAA", "A=A=A", "AA=A",
              "AA=A=", "AAA=A", "=AAAA", "+/+/", "-_-_", "+-/_", "\u00e9", "AAAA\u00e9"]
    for i in range(0, len(texts), CH):
        chunk = texts[i:i + CH]
        model = None
        if drv:
            r, _ = drv.call({"op": "batch", "cases": [{"op": "b64_decode", "s": s} for s in chunk]})
            model = r["results"]
        for j, s in enumerate(chunk):
            c = code_decode(s)
            res.evaluations += 1
            res.nontrivial.add(("t", s))
            res.count("lenient:" + (c["k"] if c["k"] == "accept" else c["nonlib"]))
            if model is not None and model[j] is not None and not same_outcome(c, model[j]):
                res.disagreements.append({"why": "lenient decode differs", "text": s, "code": c, "model": model[j]})
    res.samples = [{"bytes": "fbff", "encoded": bytes_to_base64url(b"\xfb\xff"), "decoded_with_padding": code_decode("-_8==")},
                   {"text": "A", "code": code_decode("A")}, {"text": "A=A=A", "code": code_decode("A=A=A")}]
    if drv:
        drv.close()
