"""C10 — Authenticator flag semantics for all 256 flag bytes (authentication and registration)."""
import cbor2

from .. import cases, corr, faults
from ..check import Result
from ..driver import Driver
from ..oracle import Oracle
from ..sim import core
from . import _auth

ID = "C10"
P = "Webauthn.Props.C10."
THEOREMS = [P + n for n in ("bits", "graph", "reserved_ignored", "backup", "auth_gate", "layout", "reg_gate")] + \
           ["Webauthn.Props.C02.sound", "Webauthn.Props.C05.reg_fidelity"]   # the registration gate and report
LEAN_TARGETS = ["Props.C10", "Props.C02", "Props.C05"]
AUDIT_IMPORTS = ["Props.C02", "Props.C05"]
SPEC_FILES = ["Spec/Core.lean"]
ASSUMPTIONS = ["the six mask expressions and the 256-row flag graph are regenerated from /repo on every run; "
               "theorems are checked against them by kernel evaluation over all 256 bytes"]


# what follows the attested data when ED is set: the table must not depend on *which* extension map it is
# (the empty map is a legal, canonically encoded extension map)
EXTS = [{"credProtect": 2}, {}, {"credBlob": True, "x": [1, {"y": b"z"}]}, {"credProtect": 2, "example.confidence": 0.5, "f": [1.5, 1.1]}]


def spec_row(b):
    return {"up": bool(b & 1), "uv": bool(b & 4), "be": bool(b & 8), "bs": bool(b & 16), "at": bool(b & 64), "ed": bool(b & 128)}


def reg_case(res, tie, b, policy, c, xi=0):
    """registration (fmt none) with flags byte b under (require_up, require_uv)"""
    if len(policy) == 3:
        return reg_case_fmt(res, tie, b, policy[:2], policy[2])
    require_up, require_uv = policy
    row = spec_row(b)
    cose = c.cose() if row["at"] else None
    ext = cbor2.dumps(EXTS[xi]) if row["ed"] else None
    ad = core.auth_data(core.sha256(b"example.com"), b, 4, aaguid=bytes(range(16)), cred_id=b"cred-id-0123", cose=cose, ext=ext)
    cdj = core.client_data("webauthn.create", b"\x02" * 32, "https://example.com")
    ao = cbor2.dumps({"fmt": "none", "attStmt": {}, "authData": ad})
    cr = {"id": core.b64url(b"cred-id-0123"), "raw_id": b"cred-id-0123", "type": "public-key", "client_data_json": cdj,
          "attestation_object": ao}
    e = {"challenge": b"\x02" * 32, "rp_id": "example.com", "origin": "https://example.com", "require_up": require_up,
         "require_uv": require_uv, "algs": cases.ALL_ALGS, "roots": {}}
    code = cases.run_reg(cr, e)
    res.evaluations += 1
    tie.check(cases.reg_case(cr, e), code, label=["reg-flags", b, require_up, require_uv])
    res.nontrivial.add(("reg", b, policy, xi))
    res.count("reg:" + corr.kind(code))
    expect_accept = (row["up"] or not require_up) and (row["uv"] or not require_uv) and row["at"] and not (row["bs"] and not row["be"])
    ok = (code["k"] == "accept") == expect_accept
    if ok and code["k"] == "accept":
        r = code["record"]
        ok = (r["user_verified"] == row["uv"] and r["credential_backed_up"] == row["bs"]
              and r["credential_device_type"] == ("multi_device" if row["be"] else "single_device"))
    if not ok:
        res.violations.append({"why": f"registration with flags {b:#04x}, require_up={require_up}, require_uv={require_uv}: {str(code)[:200]}",
                               "flags": b, "case": cases.reg_case(cr, e),
                               "match": {"op": "verify_reg", "flags": b, "require_up": require_up, "require_uv": require_uv}})


def reg_case_fmt(res, tie, b, policy, fmt):
    """the same table for a format with a statement (fido-u2f, packed self): the flags mean the same whatever the format"""
    from . import _reg
    require_up, require_uv = policy
    row = spec_row(b)
    if not row["at"] or row["ed"]:
        return                      # these builders lay out attested data and no extensions
    ch = ("p256", 1, core.ES256) if fmt == "fido-u2f" else ("p256", 0, core.ES256)
    built = _reg.build(fmt, ch, (), flags=b)
    if built is None:
        return
    req, r = built
    e = _reg.expectation(req, r.roots, require_up=require_up, require_uv=require_uv)
    code = cases.run_reg(r.credential, e)
    res.evaluations += 1
    tie.check(cases.reg_case(r.credential, e), code, label=["reg-flags", fmt, b, require_up, require_uv])
    res.nontrivial.add(("reg", fmt, b, policy))
    res.count(f"reg-{fmt}:" + corr.kind(code))
    expect_accept = (row["up"] or not require_up) and (row["uv"] or not require_uv) and not (row["bs"] and not row["be"])
    ok = (code["k"] == "accept") == expect_accept
    if ok and code["k"] == "accept":
        rr = code["record"]
        ok = (rr["user_verified"] == row["uv"] and rr["credential_backed_up"] == row["bs"]
              and rr["credential_device_type"] == ("multi_device" if row["be"] else "single_device"))
    if not ok:
        res.violations.append({"why": f"{fmt} registration with flags {b:#04x}, require_up={require_up}, require_uv={require_uv}: {str(code)[:200]}",
                               "flags": b, "case": cases.reg_case(r.credential, e),
                               "match": {"op": "verify_reg", "fmt": fmt, "flags": b, "require_up": require_up, "require_uv": require_uv}})


def work(tasks, idx):
    res = Result()
    drv = Driver(Oracle()) if work.driver_ok else None
    tie = corr.Tie(res, drv, "eq")
    cs = _auth.creds()
    for b, require_uv, ci, xi in tasks:
        if isinstance(require_uv, tuple):
            reg_case(res, tie, b, require_uv, cs[ci], xi)
            continue
        c = cs[ci]
        row = spec_row(b)
        cose = c.cose() if row["at"] else None
        ext = cbor2.dumps(EXTS[xi]) if row["ed"] else None
        ad = core.auth_data(core.sha256(b"example.com"), b, 9, aaguid=b"\x07" * 16, cred_id=b"cred-id-0123", cose=cose, ext=ext)
        # the parser alone
        code_p = cases.code_parse_auth_data(ad)
        res.evaluations += 1
        tie.check({"op": "parse_auth_data", "b": ad.hex()}, code_p)
        if code_p["k"] != "accept" or code_p["record"]["flags"] != row or \
                (code_p["record"]["attested"] is not None) != row["at"] or (code_p["record"]["extensions"] is not None) != row["ed"]:
            res.violations.append({"why": f"flags byte {b:#04x} parsed as {code_p}", "flags": b,
                                   "match": {"op": "parse_auth_data", "flags": b}})
        # authentication under the policy
        a = core.assertion(c, rp_id="example.com", challenge=b"\x01" * 32, origin="https://example.com", ad_override=ad)
        e = {"challenge": b"\x01" * 32, "rp_id": "example.com", "origin": "https://example.com", "public_key": c.cose(),
             "stored_count": 3, "require_uv": require_uv}
        if require_uv and (b + ci) % 3:
            # "required" said with another truthy value than the literal True (1, the enum member, its string): still required
            from webauthn.helpers.structs import UserVerificationRequirement as _UVR
            e["require_uv"] = [True, 1, _UVR.REQUIRED][(b + ci) % 3]
        code = cases.run_auth(a, e)
        res.evaluations += 1
        tie.check(cases.auth_case(a, e), code, label=["flags", b, require_uv])
        expect_accept = row["up"] and (row["uv"] or not require_uv) and not (row["bs"] and not row["be"])
        res.nontrivial.add((b, require_uv, xi))
        res.count("auth:" + corr.kind(code))
        ok = (code["k"] == "accept") == expect_accept
        if ok and code["k"] == "accept":
            r = code["record"]
            ok = (r["user_verified"] == row["uv"] and r["credential_backed_up"] == row["bs"]
                  and r["credential_device_type"] == ("multi_device" if row["be"] else "single_device"))
        if ok and code["k"] == "reject" and row["up"] and (row["uv"] or not require_uv):
            ok = code.get("lib") == "InvalidBackupFlags"
        if not ok:
            res.violations.append({"why": f"authentication with flags {b:#04x}, require_uv={require_uv}: {code}", "flags": b,
                                   "case": cases.auth_case(a, e), "match": {"op": "verify_auth", "flags": b, "require_uv": require_uv}})
        if len(res.samples) < 3:
            res.samples.append({"flags": b, "require_uv": require_uv, "outcome": corr.kind(code), "record": code.get("record")})
    if drv:
        drv.close()
    return res


def run(ctx, res):
    rng = ctx.rng
    ncreds = len(_auth.creds())
    def exts(b):
        return range(len(EXTS)) if b & 0x80 else (0,)
    tasks = [(b, uv, rng.randrange(ncreds), xi) for b in range(256) for uv in (False, True) for xi in exts(b)]
    tasks += [(b, (up, uv), rng.randrange(ncreds), xi) for b in range(256) for up in (False, True) for uv in (False, True)
              for xi in exts(b)]
    tasks += [(b, (up, uv, fmt), 0, 0) for b in range(256) if b & 0x40 and not b & 0x80 for up in (False, True) for uv in (False, True)
              for fmt in ("fido-u2f", "packed-self")]
    work.driver_ok = ctx.driver_ok
    corr.merge(res, corr.parallel(work, tasks))
    res.exhaustive = True
    res.rule = ("ALL 256 flag bytes x require_user_verification in {False, True} for authentication and x (require_user_presence, "
                "require_user_verification) in all four combinations for registration (fmt none), authenticator data laid out as the flags announce (four extension maps incl. the empty one and one with floating-point values - outside the model, judged on the real code - when ED is set), "
                "each assertion genuinely signed; parser outcome and verify_authentication_response outcome/reported fields compared "
                "with the spec table and with the model (equality); distinct = (flag byte, policy)")
