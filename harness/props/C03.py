"""C03 — Attestation statements bind credential, ceremony data and format rules."""
import itertools

from .. import cases, corr, spec
from ..check import Result
from ..driver import Driver
from ..oracle import Oracle
from ..sim import attest, core, keys, tpm as simtpm
from . import _reg

ID = "C03"
P = "Webauthn.Props.C03."
THEOREMS = [P + n for n in ("packed", "fido_u2f", "fido_u2f_scheme", "tpm", "tpmKeyAgreement_ok", "tpmCertProfile_ok",
                            "apple", "android_key", "safetynet", "registration")] + \
           ["Webauthn.sigPlan_sound", "Webauthn.validateChainReg_ok", "Webauthn.verifySignatureC_ok"]
LEAN_TARGETS = ["Props.C03"]
SPEC_FILES = ["Spec/Core.lean", "Proofs/Formats.lean"]
ASSUMPTIONS = ["X.509 / ASN.1 parsing, path validation, signature verification and hashing are oracles (trusted libraries)",
               "tie direction: whenever the real code accepts, the model accepts with an equal record"]
SIGNED = ["packed", "packed-self", "fido-u2f", "tpm", "apple", "android-key", "android-safetynet"]
ATT_KEYS = {  # attestation key choices per format: (kind, idx, alg)
    "packed": [("p256", 3, core.ES256), ("p384", 1, core.ES256), ("p521", 1, core.ES512), ("rsa", 4, core.RS256),
               ("rsa", 4, core.PS256), ("rsa", 4, core.RS1), ("ed25519", 2, core.EDDSA)],
    "tpm": [("rsa", 5, core.RS256), ("rsa", 5, core.RS1), ("rsa", 5, core.RS384), ("rsa", 5, core.RS512), ("rsa", 5, core.PS256),
            ("rsa", 5, core.PS512), ("p256", 4, core.ES256)],
}
TPM_NAME_ALGS = [simtpm.TPM_ALG_SHA1, simtpm.TPM_ALG_SHA256, simtpm.TPM_ALG_SHA384, simtpm.TPM_ALG_SHA512]


def work(tasks, idx):
    res = Result()
    drv = Driver(Oracle()) if work.driver_ok else None
    tie = corr.Tie(res, drv, "code_accept_implies_model_accept")
    for fmt, choice, att, fs, variant in tasks:
        kw = {}
        if att is not None:
            kw["att_key"], kw["att_alg"] = keys.get(att[0], att[1]), att[2]
        if fmt == "tpm":
            kw["tpm_name_alg"] = TPM_NAME_ALGS[variant % 4]
            kw["tpm_vendor"] = simtpm.TCG_VENDOR_IDS[variant % len(simtpm.TCG_VENDOR_IDS)] if variant % 29 != 11 else "id:414D4400"
        if fmt in attest.CHAIN_FORMATS and fmt != "fido-u2f":
            kw["n_intermediates"] = variant % 3
        b = _reg.build(fmt, choice, fs, **kw)
        if b is None:
            continue
        req, r = b
        e = _reg.expectation(req, r.roots, require_uv=bool(variant % 2))
        c = r.credential
        code, _ = _reg.eval_reg(tie, res, c, e, label=[fmt] + list(fs))
        res.nontrivial.add((fmt, choice, att, tuple(sorted(fs)), variant % 24))
        res.count("fmt:" + fmt)
        res.count("nfaults:%d" % min(len(fs), 3))
        if code["k"] == "accept" and len(fs) == 1:
            res.violations.append({"why": f"statement with single fault {fs[0]} accepted ({fmt})", "faults": list(fs), "fmt": fmt,
                                   "case": cases.reg_case(c, e), "code": code, "match": {"op": "verify_reg", "fault": fs[0]}})
        if code["k"] != "accept" and not fs:
            res.nonblocking.append({"why": f"conformant {fmt} statement rejected (completeness, C05)", "code": code,
                                    "vendor": kw.get("tpm_vendor")})
        if len(res.samples) < 4:
            res.samples.append(_reg.sample(fmt, fs, c, code))
    if drv:
        drv.close()
    return res


def run(ctx, res):
    rng = ctx.rng
    tasks = []
    for fmt in SIGNED:
        choices = _reg.cred_choices(fmt)
        atts = ATT_KEYS.get(fmt, [None])
        fl = attest.CATALOGUE[fmt]
        for ch in choices:
            for at in atts:
                tasks.append((fmt, ch, at, (), rng.randrange(1000)))
        for f in fl:
            # every credential choice: some faults only exist for one key type (RSA exponent, EC curve, ...), and which
            # choice a seed happens to draw must not decide whether a fault is exercised at all
            # ... and every attestation-key algorithm likewise (some deviations only exist under one statement algorithm)
            for i in range(max(len(choices), len(atts))):
                tasks.append((fmt, choices[i % len(choices)], atts[(i + fl.index(f)) % len(atts)], (f,), rng.randrange(1000)))
            for _ in range(0 if ctx.quick() else 6):
                tasks.append((fmt, rng.choice(choices), rng.choice(atts), (f,), rng.randrange(1000)))
        # combinations: pairs (thorough: all pairs; quick: a sample)
        pairs = list(itertools.combinations(fl, 2))
        if ctx.quick():
            pairs = rng.sample(pairs, min(len(pairs), 25))
        for pr in pairs:
            tasks.append((fmt, rng.choice(choices), rng.choice(atts), pr, rng.randrange(1000)))
    work.driver_ok = ctx.driver_ok
    corr.merge(res, corr.parallel(work, tasks))
    res.rule = ("per-format fault catalogues (packed 7, packed-self 7, fido-u2f 14, tpm 33, apple 5, android-key 17, safetynet 13: "
                "one fault per declared verification step, everything else incl. signatures/certificates regenerated valid) x credential "
                "and attestation key algorithms x TPM name algorithms x vendor ids; singles and pairs; distinct = (format, keys, fault set, variant)")
