"""Shared machinery for the registration-ceremony checks (C02–C06, C08, C17, C19, C20)."""
import datetime

from .. import cases, corr, spec
from ..sim import attest, core, keys

FORMATS = attest.FORMATS
RP_ID = "example.com"
ORIGIN = "https://example.com"


def cred_choices(fmt):
    """(kind, idx, alg) triples a conformant authenticator could register under `fmt`"""
    if fmt == "fido-u2f":
        return [("p256", 1, core.ES256), ("p256lz", 0, core.ES256)]
    if fmt == "tpm":
        return [("rsa", 0, core.RS256), ("rsa", 1, core.RS1), ("p256", 0, core.ES256), ("p384", 0, core.ES256), ("p521", 0, core.ES512),
                ("rsa3", 0, core.RS256)]
    if fmt in ("apple", "android-key"):
        return [("p256", 0, core.ES256), ("p384", 0, core.ES256), ("rsa", 2, core.RS256), ("p256lz", 1, core.ES256)]
    if fmt == "android-safetynet":
        return [("p256", 2, core.ES256), ("ed25519", 0, core.EDDSA), ("rsa", 3, core.PS256)]
    # ... and moduli beyond 4096 bits (no size is special to a relying party: what registers must authenticate)
    return [(k, 0, a) for k, a in core.CRED_KINDS] + [("p256lz", 0, core.ES256), ("p521lz", 0, core.ES512),
                                                      ("rsa4104", 0, core.RS256), ("rsa8192", 0, core.PS256)]


def make_cred(choice, rng=None, cred_id=None, aaguid=None):
    kind, idx, alg = choice
    c = core.make_credential(kind, idx, alg, cred_id=cred_id, aaguid=aaguid)
    return c


def expectation(req, roots, **over):
    e = {"challenge": req.challenge, "rp_id": req.rp_id, "origin": req.origin, "require_up": True, "require_uv": False,
         "algs": cases.ALL_ALGS, "roots": roots}
    e.update(over)
    return e


def build(fmt, choice, faults=(), **kw):
    """returns (request, result) or None when the fault does not apply to these keys"""
    cred_id = kw.pop("cred_id", None)
    aaguid = kw.pop("aaguid", None)
    cose_var = kw.pop("cose_var", None)
    if fmt == "fido-u2f":
        aaguid = None       # U2F demands the zero AAGUID
    cred = make_cred(choice, cred_id=cred_id, aaguid=aaguid)
    if cose_var:
        import dataclasses
        cred = dataclasses.replace(cred, **{k: v for k, v in cose_var.items() if v is not None})
    req = attest.RegRequest(fmt=fmt, cred=cred, faults=set(faults), **kw)
    try:
        return req, attest.build_registration(req)
    except attest.NotApplicable:
        return None
    except ValueError as e:
        if "too long for key size" in str(e):
            return None     # this key cannot produce a signature under the scheme the fault calls for (PS512 on 1024 bits)
        raise
    except (AttributeError, TypeError, KeyError):
        if len(req.faults) + len(req.chain_faults) > 1:
            return None     # a combination of faults the simulator cannot build consistently
        raise


def first_false(conj):
    for k, v in conj.items():
        if not v:
            return k
    return None


def eval_reg(tie, res, c, e, label, direction=None):
    code = cases.run_reg(c, e)
    res.evaluations += 1
    model = tie.check(cases.reg_case(c, e), code, label=label, direction=direction)
    res.count("code:" + corr.kind(code))
    return code, model


def sample(fmt, fs, c, code):
    return {"fmt": fmt, "faults": list(fs), "client_data_json": c["client_data_json"].decode("utf-8", "replace"),
            "attestation_object_prefix": c["attestation_object"][:48].hex(), "outcome": corr.kind(code),
            "message": code.get("msg")}
