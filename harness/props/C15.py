"""C15 — Generated options: fresh unpredictable challenges, caller values unchanged."""
import collections, random, secrets

import webauthn
import webauthn.registration.generate_registration_options as gro
import webauthn.registration.verify_registration_response as vrr

from .. import corr, common
from ..check import Result
from ..driver import Driver
from ..oracle import Oracle
from . import _opts

ID = "C15"
P = "Webauthn.Props.C15."
THEOREMS = [P + n for n in ("fresh_draw_reg", "fresh_draw_auth", "no_draw_when_given", "distinct", "passthrough_reg", "passthrough_auth",
                            "resident_key", "refuses_empty", "defaults")]
LEAN_TARGETS = ["Props.C15"]
SPEC_FILES = ["Spec/Core.lean"]
ASSUMPTIONS = ["PARTIAL: that secrets.token_bytes (the OS source) is unpredictable and non-repeating is the operating system's property; "
               "the model takes each draw as an oracle answer and the theorems are about which draws are made and where they go",
               "entropy is recorded by replacing secrets.token_bytes in the harness process; the random module is trapped"]


class Stream:
    """deterministic stand-in for secrets.token_bytes that records every draw"""

    def __init__(self, seed):
        self.seed, self.calls = seed, []

    def value(self, k, n):
        import hashlib
        out, i = b"", 0
        while len(out) < n:
            out += hashlib.sha256(f"{self.seed}:{k}:{i}".encode()).digest()
            i += 1
        return out[:n]

    def __call__(self, n=None):
        k = len(self.calls)
        self.calls.append(n)
        return self.value(k, n if n is not None else 32)


RANDOM_FUNCS = ["random", "randbytes", "getrandbits", "randint", "randrange", "choice", "choices", "sample", "shuffle", "uniform"]


def with_traps(fn, stream):
    """run fn() with secrets.token_bytes replaced by `stream` and the random module's functions trapped"""
    hits = []
    saved = {n: getattr(random, n) for n in RANDOM_FUNCS}
    saved_tb = secrets.token_bytes

    def trap(name):
        def f(*a, **k):
            hits.append(name)
            return saved[name](*a, **k)
        return f
    try:
        for n in RANDOM_FUNCS:
            setattr(random, n, trap(n))
        secrets.token_bytes = stream
        return fn(), hits
    finally:
        secrets.token_bytes = saved_tb
        for n in RANDOM_FUNCS:
            setattr(random, n, saved[n])


def work(tasks, idx):
    res = Result()
    orc = Oracle()
    drv = Driver(orc) if work.driver_ok else None
    tie = corr.Tie(res, drv, "eq")
    for seed, n in tasks:
        rng = common.Rng(seed)
        for i in range(n):
            kind = "reg" if rng.random() < 0.6 else "auth"
            a = _opts.rand_reg_args(rng) if kind == "reg" else _opts.rand_auth_args(rng)
            if rng.random() < 0.06:
                a[rng.choice(["rp_id", "rp_name", "user_name"] if kind == "reg" else ["rp_id"])] = ""
            stream = Stream(seed * 1000 + i)
            gen = _opts.call_gen_reg if kind == "reg" else _opts.call_gen_auth
            canon = _opts.canon_reg if kind == "reg" else _opts.canon_auth
            holder = {}

            def run_code():
                def f():
                    o, hits = with_traps(lambda: gen(a), stream)
                    holder["hits"] = hits
                    return o
                return corr.code_outcome(f, canon)
            code = run_code()
            res.evaluations += 1
            orc.begin_case(token_stream=stream.value)
            tie.check({"op": f"gen_{kind}_options", "args": _opts.args_to_driver(a)}, code, label=[kind] + sorted(a))
            orc.begin_case()
            res.nontrivial.add((kind, repr(sorted((k, repr(v)) for k, v in a.items()))))
            res.count(f"{kind}:" + corr.kind(code))
            empty = [k for k in ("rp_id", "rp_name", "user_name") if a.get(k) == ""]
            bad = None
            if empty:
                if code["k"] == "accept":
                    bad = f"empty {empty} accepted"
            elif code["k"] != "accept":
                bad = f"admissible arguments refused: {code}"
            else:
                r = code["record"]
                want_draws = []
                if kind == "reg" and not a.get("user_id"):
                    want_draws.append(("user_id", r["user_id"]))
                if not a.get("challenge"):
                    want_draws.append(("challenge", r["challenge"]))
                if stream.calls != [64] * len(want_draws):
                    bad = f"entropy draws {stream.calls}, expected {len(want_draws)} draws of 64 bytes from secrets.token_bytes"
                for k, (nm, got) in enumerate(want_draws):
                    if got != stream.value(k, 64).hex():
                        bad = bad or f"{nm} is not the fresh draw"
                if holder.get("hits"):
                    bad = bad or f"the random module was used: {holder['hits']}"
                # pass-through
                checks = {"rp_id": a["rp_id"], "timeout": str(a["timeout"])}
                if kind == "reg":
                    checks.update(rp_name=a["rp_name"], user_name=a["user_name"], attestation=a["attestation"],
                                  user_display_name=a.get("user_display_name") or a["user_name"])
                    if a.get("user_id"):
                        checks["user_id"] = a["user_id"].hex()
                    if a.get("supported_algs"):
                        checks["params"] = [["public-key", str(x)] for x in a["supported_algs"]]
                    else:
                        checks["params"] = [["public-key", str(int(x))] for x in gro.default_supported_pub_key_algs]
                    checks["hints"] = a.get("hints")
                    checks["exclude_credentials"] = [{"id": d["id"].hex(), "transports": d["transports"]} for d in a.get("exclude_credentials") or []]
                    sel = a.get("authenticator_selection")
                    if sel is not None:
                        exp = dict(sel)
                        if exp["resident_key"] == "required":
                            exp["require_resident_key"] = True
                        checks["authenticator_selection"] = exp
                    else:
                        checks["authenticator_selection"] = None
                else:
                    checks["user_verification"] = a["user_verification"]
                    checks["allow_credentials"] = [{"id": d["id"].hex(), "transports": d["transports"]} for d in a.get("allow_credentials") or []]
                if a.get("challenge"):
                    checks["challenge"] = a["challenge"].hex()
                for k, v in checks.items():
                    if r.get(k) != v:
                        bad = bad or f"argument {k} does not appear unchanged: got {r.get(k)!r}, gave {v!r}"
            if bad:
                res.violations.append({"why": bad, "kind": kind, "args": {k: (v.hex() if isinstance(v, bytes) else v) for k, v in _opts.args_to_driver(a).items()},
                                       "match": {"op": f"gen_{kind}_options", "rule": bad.split(":")[0][:40]}})
            if len(res.samples) < 3:
                res.samples.append({"kind": kind, "args": sorted(a), "draws": list(stream.calls), "outcome": corr.kind(code)})
    if drv:
        drv.close()
    return res


def run(ctx, res):
    n = 150 if ctx.quick() else 4000
    tasks = [(ctx.seed * 613 + i, n) for i in range(16)]
    work.driver_ok = ctx.driver_ok
    corr.merge(res, corr.parallel(work, tasks))
    # unpatched: thousands of calls — distinctness, independence from the random module's state, byte balance
    m = 3000 if ctx.quick() else 40000
    seen, counts = set(), collections.Counter()
    dup = 0
    for i in range(m):
        random.seed(1234)            # reseeding the non-cryptographic generator identically before every call
        if i % 2:
            o = webauthn.generate_registration_options(rp_id="example.com", rp_name="Example", user_name="u")
            vals = [bytes(o.challenge), bytes(o.user.id)]
        else:
            o = webauthn.generate_authentication_options(rp_id="example.com")
            vals = [bytes(o.challenge)]
        for v in vals:
            res.evaluations += 1
            if len(v) != 64:
                res.violations.append({"why": f"generated value has {len(v)} bytes, expected 64", "match": {"op": "gen", "rule": "length"}})
            if v in seen:
                dup += 1
            seen.add(v)
            counts.update(v)
    if dup:
        res.violations.append({"why": f"{dup} generated values repeated across {m} calls (random module reseeded identically before each call)",
                               "match": {"op": "gen", "rule": "distinct"}})
    total = sum(counts.values())
    res.extra["byte_value_balance"] = {"draws": len(seen), "min_freq": min(counts.values()) / total * 256, "max_freq": max(counts.values()) / total * 256}
    # defaults offered = defaults accepted
    import inspect
    offered = [int(p.alg) for p in webauthn.generate_registration_options(rp_id="e.com", rp_name="E", user_name="u").pub_key_cred_params]
    accepted_default = inspect.signature(vrr.verify_registration_response).parameters["supported_pub_key_algs"].default
    res.evaluations += 1
    if accepted_default is None or sorted(offered) != sorted(int(x) for x in accepted_default):
        res.violations.append({"why": f"algorithms offered by default {offered} differ from those verification accepts by default {accepted_default}",
                               "match": {"op": "gen", "rule": "defaults"}})
    res.rule = ("all argument combinations (each optional argument absent or present with random admissible values, occasionally empty "
                "strings) with secrets.token_bytes replaced by a recording stream and the random module trapped: source, count and size "
                "of draws, where the draws end up, pass-through of every argument, model equality; then thousands of unpatched calls with "
                "the random module reseeded identically before each: distinctness, length, byte balance (a sanity statistic)")
