"""Shared machinery for the option-generation / serialisation checks (C15, C16, C18)."""
import json

import webauthn
from webauthn.helpers import options_to_json, parse_registration_options_json, parse_authentication_options_json
from webauthn.helpers.cose import COSEAlgorithmIdentifier
from webauthn.helpers.structs import (AttestationConveyancePreference, AuthenticatorAttachment, AuthenticatorSelectionCriteria,
                                      AuthenticatorTransport, PublicKeyCredentialDescriptor, PublicKeyCredentialHint,
                                      ResidentKeyRequirement, UserVerificationRequirement)

from .. import corr
from ..driver import to_jval

TRANSPORTS = [t.value for t in AuthenticatorTransport]
ALGS = [int(a) for a in COSEAlgorithmIdentifier]


def rand_descriptors(rng):
    out = []
    for _ in range(rng.randrange(0, 4)):
        tr = None
        r = rng.random()
        if r < 0.3:
            tr = rng.sample(TRANSPORTS, rng.randrange(1, 4))
        elif r < 0.4:
            # the caller's list as given: a member may occur more than once
            tr = [rng.choice(TRANSPORTS) for _ in range(rng.randrange(2, 5))]
            tr.append(tr[0])
        elif r < 0.5:
            tr = []
        out.append({"id": rng.bytes_(rng.choice([1, 16, 32, 64])), "transports": tr})
    # the caller's list is the caller's: repeated ids (same credential listed twice, with different transports), repeated
    # whole entries and a particular order are all "values the caller gives"
    if out and rng.random() < 0.3:
        d = dict(out[rng.randrange(len(out))])
        if rng.random() < 0.6:
            d["transports"] = rng.sample(TRANSPORTS, rng.randrange(1, 3)) if d["transports"] is None or rng.random() < 0.5 else None
        out.insert(rng.randrange(len(out) + 1), d)
    return out


def rand_selection(rng):
    pick = lambda vals: rng.choice(vals + [None])
    return {"authenticator_attachment": pick([a.value for a in AuthenticatorAttachment]),
            "resident_key": pick([r.value for r in ResidentKeyRequirement]),
            "require_resident_key": rng.choice([True, False, None]) if rng.random() < 0.7 else False,
            "user_verification": pick([u.value for u in UserVerificationRequirement]) if rng.random() < 0.8 else "preferred"}


# strings that are legal JSON / Python text but that "helpful" processing changes: not in Unicode NFC (combining mark,
# Angstrom / Ohm signs, conjoining jamo, compatibility ideograph), case-sensitive, leading/trailing/inner whitespace,
# control characters, characters JSON must escape, non-BMP
ODD_TEXT = ["Cafe\u0301", "\u212b\u2126", "\u1112\u1161\u11ab", "\uf900", "  padded  ", "Tab\tNew\nLine", "quote\"back\\slash/",
            "\U0001f600 smile", "MiXeD CaSe", "\u0000nul", "\u200bzero-width", "\ufb01 ligature",
            "AT&T", "<script>alert(1)</script>", "a > b && c < d", "&amp; already escaped", "100%", "C:\\path", "${name}", "{0}", "%s"]


def rand_reg_args(rng):
    """keyword arguments in a neutral JSON-able form (bytes stay bytes)"""
    a = {"rp_id": rng.choice(["example.com", "login.example.org", "é.example"]), "rp_name": rng.choice(["Example", "ACME Ünïcode"] + ODD_TEXT),
         "user_name": rng.choice(["alice", "bob@example.com", "ユーザー"] + ODD_TEXT), "timeout": rng.choice([60000, 1, 0, 120000, 2 ** 40]),
         "attestation": rng.choice([a.value for a in AttestationConveyancePreference])}
    if rng.random() < 0.5:
        a["user_id"] = rng.bytes_(rng.choice([1, 16, 64]))
    if rng.random() < 0.1:
        a["user_id"] = b""
    if rng.random() < 0.25:
        # user handles that are themselves text: the user name, an account number, an e-mail address, a UUID, a URL - an RP's
        # choice; they are bytes to hand through
        a["user_id"] = rng.choice([a["user_name"].encode("utf-8"), b"100183", b"x@y.zz", b"svc.backup@corp.example", b"alice@example.com",
                                   b"6f9619ff-8b86-d011-b42d-00c04fc964ff", b"https://example.com/u/1", b"admin", b"null", b"0", b" ",
                                   b"user-0001", "\u30e6\u30fc\u30b6\u30fc".encode("utf-8")])
    if rng.random() < 0.5:
        a["user_display_name"] = rng.choice(["Alice A.", "", "ボブ"] + ODD_TEXT)
    if rng.random() < 0.5:
        a["challenge"] = rng.bytes_(rng.choice([16, 32, 64]))
    if rng.random() < 0.1:
        a["challenge"] = b""
    if rng.random() < 0.5:
        a["authenticator_selection"] = rand_selection(rng)
    if rng.random() < 0.6:
        a["exclude_credentials"] = rand_descriptors(rng)
    if rng.random() < 0.5:
        a["supported_algs"] = rng.sample(ALGS, rng.randrange(0, 5))
    if rng.random() < 0.4:
        a["hints"] = rng.sample([h.value for h in PublicKeyCredentialHint], rng.randrange(0, 3))
        if a["hints"] and rng.random() < 0.3:
            a["hints"] = a["hints"] + [a["hints"][0]]          # a repeated hint is still the caller's list
    return a


def rand_auth_args(rng):
    a = {"rp_id": rng.choice(["example.com", "login.example.org"]), "timeout": rng.choice([60000, 1, 0, 2 ** 40]),
         "user_verification": rng.choice([u.value for u in UserVerificationRequirement])}
    if rng.random() < 0.5:
        a["challenge"] = rng.bytes_(rng.choice([16, 32, 64]))
    if rng.random() < 0.1:
        a["challenge"] = b""
    if rng.random() < 0.6:
        a["allow_credentials"] = rand_descriptors(rng)
    return a


def mk_descriptors(ds):
    if ds is None:
        return None
    return [PublicKeyCredentialDescriptor(id=d["id"], transports=None if d["transports"] is None else [AuthenticatorTransport(t) for t in d["transports"]])
            for d in ds]


def mk_selection(s):
    if s is None:
        return None
    return AuthenticatorSelectionCriteria(
        authenticator_attachment=None if s["authenticator_attachment"] is None else AuthenticatorAttachment(s["authenticator_attachment"]),
        resident_key=None if s["resident_key"] is None else ResidentKeyRequirement(s["resident_key"]),
        require_resident_key=s["require_resident_key"],
        user_verification=None if s["user_verification"] is None else UserVerificationRequirement(s["user_verification"]))


def call_gen_reg(a):
    kw = {"rp_id": a["rp_id"], "rp_name": a["rp_name"], "user_name": a["user_name"], "timeout": a["timeout"],
          "attestation": AttestationConveyancePreference(a["attestation"])}
    for k in ("user_id", "user_display_name", "challenge"):
        if k in a:
            kw[k] = a[k]
    if "authenticator_selection" in a:
        kw["authenticator_selection"] = mk_selection(a["authenticator_selection"])
    if "exclude_credentials" in a:
        kw["exclude_credentials"] = mk_descriptors(a["exclude_credentials"])
    if "supported_algs" in a:
        kw["supported_pub_key_algs"] = [COSEAlgorithmIdentifier(x) for x in a["supported_algs"]]
    if "hints" in a:
        kw["hints"] = [PublicKeyCredentialHint(h) for h in a["hints"]]
    return webauthn.generate_registration_options(**kw)


def call_gen_auth(a):
    kw = {"rp_id": a["rp_id"], "timeout": a["timeout"], "user_verification": UserVerificationRequirement(a["user_verification"])}
    if "challenge" in a:
        kw["challenge"] = a["challenge"]
    if "allow_credentials" in a:
        kw["allow_credentials"] = mk_descriptors(a["allow_credentials"])
    return webauthn.generate_authentication_options(**kw)


def val(x):
    return x.value if hasattr(x, "value") else x


def canon_desc(d):
    return {"id": bytes(d.id).hex(), "transports": None if d.transports is None else [val(t) for t in d.transports]}


def canon_sel(s):
    if s is None:
        return None
    return {"authenticator_attachment": val(s.authenticator_attachment), "resident_key": val(s.resident_key),
            "require_resident_key": s.require_resident_key, "user_verification": val(s.user_verification)}


def canon_reg(o):
    return {"rp_id": o.rp.id, "rp_name": o.rp.name, "user_id": bytes(o.user.id).hex(), "user_name": o.user.name,
            "user_display_name": o.user.display_name, "challenge": bytes(o.challenge).hex(),
            "params": [[val(p.type), str(int(p.alg))] for p in o.pub_key_cred_params],
            "timeout": None if o.timeout is None else str(o.timeout),
            "exclude_credentials": None if o.exclude_credentials is None else [canon_desc(d) for d in o.exclude_credentials],
            "authenticator_selection": canon_sel(o.authenticator_selection),
            "hints": None if o.hints is None else [val(h) for h in o.hints], "attestation": val(o.attestation)}


def canon_auth(o):
    return {"challenge": bytes(o.challenge).hex(), "timeout": None if o.timeout is None else str(o.timeout), "rp_id": o.rp_id,
            "allow_credentials": None if o.allow_credentials is None else [canon_desc(d) for d in o.allow_credentials],
            "user_verification": val(o.user_verification)}


def args_to_driver(a):
    out = dict(a)
    for k in ("user_id", "challenge"):
        if k in out:
            out[k] = out[k].hex()
    for k in ("exclude_credentials", "allow_credentials"):
        if k in out:
            out[k] = [{"id": d["id"].hex(), "transports": d["transports"]} for d in out[k]]
    out["timeout"] = str(out["timeout"])
    if "supported_algs" in out:
        out["supported_algs"] = [str(x) for x in out["supported_algs"]]
    return out
