"""C16 — Options serialise to the WebAuthn JSON wire format and parse back unchanged."""
import base64, copy, json, re

from webauthn.helpers import options_to_json, parse_registration_options_json, parse_authentication_options_json

from .. import corr, common
from ..check import Result
from ..driver import Driver, to_jval
from ..oracle import Oracle
from . import _opts

ID = "C16"
P = "Webauthn.Props.C16."
THEOREMS = [P + n for n in ("no_null_reg", "no_null_auth", "members_reg", "members_auth", "roundtrip_auth", "roundtrip_descriptors",
                            "roundtrip_reg", "header_refuses", "required_missing_refused", "auth_refuses")]
LEAN_TARGETS = ["Props.C16"]
SPEC_FILES = ["Spec/Core.lean"]
ASSUMPTIONS = ["JSON text rendering/parsing (json.dumps / json.loads) is the standard library's: the model works on the Python value",
               "round trip is stated for options objects the generators can return (enum values valid, RP id non-empty)"]
B64URL = re.compile(r"^[A-Za-z0-9_-]*$")
ENUMS = {"attestation": ["none", "indirect", "direct", "enterprise"], "userVerification": ["required", "preferred", "discouraged"],
         "residentKey": ["discouraged", "preferred", "required"], "authenticatorAttachment": ["platform", "cross-platform"],
         "transports": _opts.TRANSPORTS, "hints": ["security-key", "client-device", "hybrid"]}


def has_null(v):
    if v is None:
        return True
    if isinstance(v, dict):
        return any(has_null(x) for x in v.values())
    if isinstance(v, list):
        return any(has_null(x) for x in v)
    return False


def b64_is(s, b):
    return isinstance(s, str) and B64URL.match(s) is not None and base64.urlsafe_b64decode(s + "===") == b


def shape_reg(v, o):
    """is `v` a valid PublicKeyCredentialCreationOptionsJSON instance for options object `o` (first problem, or None)"""
    if not isinstance(v, dict) or has_null(v):
        return "null member or not an object"
    if not isinstance(v.get("rp"), dict) or v["rp"].get("name") != o.rp.name or v["rp"].get("id") != o.rp.id:
        return "rp"
    u = v.get("user")
    if not isinstance(u, dict) or not b64_is(u.get("id"), bytes(o.user.id)) or u.get("name") != o.user.name or u.get("displayName") != o.user.display_name:
        return "user"
    if not b64_is(v.get("challenge"), bytes(o.challenge)):
        return "challenge"
    p = v.get("pubKeyCredParams")
    if not isinstance(p, list) or [(x.get("type"), x.get("alg")) for x in p] != [("public-key", int(q.alg)) for q in o.pub_key_cred_params] \
            or not all(type(x["alg"]) is int for x in p):
        return "pubKeyCredParams"
    if v.get("attestation") not in ENUMS["attestation"] or v["attestation"] != _opts.val(o.attestation):
        return "attestation"
    if "timeout" in v and (type(v["timeout"]) is not int or v["timeout"] != o.timeout):
        return "timeout"
    for d, od in zip(v.get("excludeCredentials", []), o.exclude_credentials or []):
        if d.get("type") != "public-key" or not b64_is(d.get("id"), bytes(od.id)):
            return "excludeCredentials"
        if "transports" in d and (not d["transports"] or any(t not in ENUMS["transports"] for t in d["transports"])):
            return "excludeCredentials.transports"
    if len(v.get("excludeCredentials", [])) != len(o.exclude_credentials or []):
        return "excludeCredentials.length"
    s = v.get("authenticatorSelection")
    if (s is None) != (o.authenticator_selection is None):
        return "authenticatorSelection presence"
    if s is not None:
        for k in ("authenticatorAttachment", "residentKey", "userVerification"):
            if k in s and s[k] not in ENUMS[k]:
                return "authenticatorSelection." + k
        if "requireResidentKey" in s and type(s["requireResidentKey"]) is not bool:
            return "requireResidentKey"
    if "hints" in v and any(h not in ENUMS["hints"] for h in v["hints"]):
        return "hints"
    extra = set(v) - {"rp", "user", "challenge", "pubKeyCredParams", "timeout", "excludeCredentials", "authenticatorSelection", "attestation", "hints"}
    return ("unknown members " + str(extra)) if extra else None


def shape_auth(v, o):
    if not isinstance(v, dict) or has_null(v):
        return "null member or not an object"
    if not b64_is(v.get("challenge"), bytes(o.challenge)):
        return "challenge"
    if v.get("rpId") != o.rp_id:
        return "rpId"
    if v.get("userVerification") not in ENUMS["userVerification"]:
        return "userVerification"
    for d, od in zip(v.get("allowCredentials", []), o.allow_credentials or []):
        if d.get("type") != "public-key" or not b64_is(d.get("id"), bytes(od.id)):
            return "allowCredentials"
    extra = set(v) - {"challenge", "timeout", "rpId", "allowCredentials", "userVerification"}
    return ("unknown members " + str(extra)) if extra else None


def norm_reg(r):
    """documented defaults for unset optional sub-members"""
    r = copy.deepcopy(r)
    for d in r["exclude_credentials"] or []:
        if d["transports"] == []:
            d["transports"] = None
    s = r["authenticator_selection"]
    if s is not None:
        if s["require_resident_key"] is None:
            s["require_resident_key"] = False
        if s["user_verification"] is None:
            s["user_verification"] = "preferred"
    return r


def norm_auth(r):
    r = copy.deepcopy(r)
    for d in r["allow_credentials"] or []:
        if d["transports"] == []:
            d["transports"] = None
    return r


REQUIRED_REG = [("rp",), ("rp", "name"), ("user",), ("user", "id"), ("user", "name"), ("user", "displayName"), ("challenge",),
                ("attestation",), ("pubKeyCredParams",)]
REQUIRED_AUTH = [("challenge",), ("userVerification",)]
WRONG = [None, 5, True, 1.5, [], ["x"], {}, {"a": 1}]
ENUM_MEMBERS_REG = [("attestation",), ("authenticatorSelection", "authenticatorAttachment"), ("authenticatorSelection", "residentKey"),
                    ("authenticatorSelection", "userVerification")]


def mutate(v, path, val):
    w = copy.deepcopy(v)
    t = w
    for k in path[:-1]:
        t = t.get(k)
        if not isinstance(t, dict):
            return None
    if val == "<absent>":
        if path[-1] not in t:
            return None
        del t[path[-1]]
    else:
        t[path[-1]] = val
    return w


def work(tasks, idx):
    res = Result()
    orc = Oracle()
    drv = Driver(orc) if work.driver_ok else None
    tie = corr.Tie(res, drv, "eq")
    for seed, n in tasks:
        rng = common.Rng(seed)
        for i in range(n):
            kind = "reg" if rng.random() < 0.6 else "auth"
            a = _opts.rand_reg_args(rng) if kind == "reg" else _opts.rand_auth_args(rng)
            try:
                o = (_opts.call_gen_reg if kind == "reg" else _opts.call_gen_auth)(a)
            except Exception as ex:
                res.nonblocking.append({"why": f"generator refused admissible arguments: {ex}"})
                continue
            canon = _opts.canon_reg if kind == "reg" else _opts.canon_auth
            parse = parse_registration_options_json if kind == "reg" else parse_authentication_options_json
            rec = canon(o)
            text = options_to_json(o)
            v = json.loads(text)
            res.evaluations += 1
            res.nontrivial.add(text)
            res.count(kind)
            # wire shape
            bad = (shape_reg if kind == "reg" else shape_auth)(v, o)
            if bad:
                res.violations.append({"why": f"options JSON is not a valid {kind} options instance: {bad}", "json": text[:600],
                                       "match": {"op": "options_to_json", "kind": kind, "rule": bad.split(" ")[0]}})
            # model: same dict (member order included)
            tie.check({"op": "options_to_json", "kind": kind, "options": rec}, {"k": "accept", "record": to_jval(v)}, label=[kind, "to_json"])
            # round trip, text and dict
            want = (norm_reg if kind == "reg" else norm_auth)(rec)
            for form, arg in (("text", text), ("dict", v)):
                back = corr.code_outcome(lambda: parse(arg), canon)
                res.evaluations += 1
                if back["k"] != "accept" or back["record"] != want:
                    diff = None if back["k"] != "accept" else {k: (back["record"][k], want[k]) for k in want if back["record"][k] != want[k]}
                    res.violations.append({"why": f"parsing the {form} form does not return the original options: {back.get('msg') or diff}",
                                           "json": text[:600], "match": {"op": "roundtrip", "kind": kind, "member": sorted(diff)[0] if diff else "rejected"}})
                if form == "dict":
                    tie.check({"op": "parse_options_json", "kind": kind, "value": to_jval(v)}, back, label=[kind, "parse"])
            # refusals: required scalar missing / wrong type, unknown enum value
            muts = []
            for path in (REQUIRED_REG if kind == "reg" else REQUIRED_AUTH):
                wrong = [w for w in WRONG if not (path == ("pubKeyCredParams",) and isinstance(w, list))]
                for val in ["<absent>"] + [rng.choice(wrong)]:
                    muts.append((path, val, "required"))
            for path in (ENUM_MEMBERS_REG if kind == "reg" else [("userVerification",)]):
                muts.append((path, rng.choice(["bogus", "", "Required", "NONE"]), "enum"))
            if kind == "reg":
                muts.append((("hints",), ["bogus"], "enum"))
                muts.append((("pubKeyCredParams",), [{"type": "public-key", "alg": -999}], "enum"))
            for path, val, why in (muts if i % 4 == 0 else rng.sample(muts, 4)):
                w = mutate(v, path, val)
                if w is None:
                    continue
                code = corr.code_outcome(lambda: parse(w), canon)
                res.evaluations += 1
                tie.check({"op": "parse_options_json", "kind": kind, "value": to_jval(w)}, code, label=[kind, "mutant", ".".join(path)])
                res.count("mutant:" + corr.kind(code))
                if code["k"] == "accept" or code.get("lib") != "InvalidJSONStructure":
                    res.violations.append({"why": f"{why} member {'.'.join(path)} := {val!r}: not refused with InvalidJSONStructure but {corr.kind(code)}",
                                           "json": json.dumps(w)[:600], "match": {"op": "parse_options_json", "kind": kind, "member": ".".join(path)}})
            if i % 8 == 0:
                # JSON text that `json.loads` refuses for another reason than its grammar: an integer literal beyond the
                # interpreter's digit limit (as a member value, and as the whole text). Still "text that is not valid options"
                huge = "7" * 4301
                for label, bad in (("huge-literal-member", text.replace('"rp"', '"x-count": ' + huge + ', "rp"', 1) if '"rp"' in text
                                    else text.replace("{", '{"x-count": ' + huge + ", ", 1)),
                                   ("huge-literal-alone", huge), ("huge-literal-in-list", "[" + huge + "]")):
                    code = corr.code_outcome(lambda: parse(bad), canon)
                    res.evaluations += 1
                    res.count("undecodable-text:" + corr.kind(code))
                    if code["k"] == "accept" or code.get("lib") != "InvalidJSONStructure":
                        res.violations.append({"why": f"options text that json.loads refuses ({label}) was not refused with InvalidJSONStructure "
                                                      f"but {code.get('nonlib') or code.get('lib') or 'accepted'}", "json": bad[:80] + "...",
                                               "match": {"op": "parse_options_json", "kind": kind, "member": label}})
            if len(res.samples) < 3:
                res.samples.append({"kind": kind, "json": text[:400]})
    if drv:
        drv.close()
    return res


def run(ctx, res):
    n = 120 if ctx.quick() else 3000
    tasks = [(ctx.seed * 4409 + i, n) for i in range(16)]
    work.driver_ok = ctx.driver_ok
    corr.merge(res, corr.parallel(work, tasks))
    res.rule = ("options objects reachable from the generators over random admissible arguments (all enum members, 0-3 descriptors with "
                "and without transports, all subsets of optional members): JSON text validated against the WebAuthn *OptionsJSON shape, "
                "parsed back from text and dict and compared with the original (documented defaults applied), model equality for both "
                "directions; deletions / type changes of every required scalar member and unknown enum values must be refused with "
                "InvalidJSONStructure; distinct = the JSON text")
