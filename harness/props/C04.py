"""C04 — Trust anchors are enforced for attestation certificate chains."""
from .. import cases, corr, oracle
from ..check import Result
from ..driver import Driver
from ..oracle import Oracle
from ..sim import attest, ca, core
from . import _reg

ID = "C04"
P = "Webauthn.Props.C04."
THEOREMS = [P + n for n in ("enforced", "anchors_require_valid_chain", "isolation", "unchecked_when_no_anchor",
                            "rootsFor_text", "no_builtin_roots", "signer_is_validated_leaf", "android_key_root_is_anchor")] + \
           ["Webauthn.validateChainReg_ok"]
LEAN_TARGETS = ["Props.C04"]
SPEC_FILES = ["Spec/Core.lean", "Props/C03.lean"]
ASSUMPTIONS = ["what makes a chain valid (signatures, CA bit, validity period) is OpenSSL's verdict: an oracle",
               "built-in anchors (Apple, Google, GlobalSign) can only be exercised negatively plus positively through RP-supplied roots"]
X5C_FORMATS = ["packed", "fido-u2f", "tpm", "apple", "android-key", "android-safetynet"]
NO_BUILTIN = {"packed", "fido-u2f", "tpm"}
OTHER = {"packed": "tpm", "fido-u2f": "packed", "tpm": "apple", "apple": "packed", "android-key": "apple", "android-safetynet": "tpm"}


def work(tasks, idx):
    res = Result()
    drv = Driver(Oracle()) if work.driver_ok else None
    tie = corr.Tie(res, drv, "code_accept_implies_model_accept")
    for fmt, choice, nint, order, fault, rootcfg, extras in tasks:
        kw = {"n_intermediates": nint, "chain_order": order}
        if fault:
            kw["chain_faults"] = {fault}
        if extras:
            other = ca.build_chain(core.make_credential("p256", 3).pub, n_intermediates=1)
            kw["chain_extras"] = [other.intermediates[0]]
        try:
            b = _reg.build(fmt, choice, (), **kw)
        except ValueError:
            continue
        if b is None:
            continue
        req, r = b
        own = r.roots.get(attest.FMT_STRING[fmt], [])
        f = attest.FMT_STRING[fmt]
        from ..sim import keys as _keys
        other_root = [ca.build_chain(core.make_credential("p256", 2).pub, root_key=_keys.get("p521", 2)).root_pem()]
        if rootcfg.startswith("unloadable"):
            # anchors are in force, but what the RP supplied cannot be read as PEM certificates (DER instead of PEM, a truncated
            # file, an empty entry): whatever the verifier makes of that - an error is fine - it has no anchor to accept under
            if not own:
                continue
            from cryptography import x509 as _x509
            from cryptography.hazmat.primitives import serialization as _ser
            pem = bytes(own[0])
            der = _x509.load_pem_x509_certificate(pem).public_bytes(_ser.Encoding.DER)
            bad = {"unloadable-der": [der], "unloadable-truncated": [pem[: len(pem) // 2]], "unloadable-empty": [b""],
                   "unloadable-two": [der, b"-----BEGIN CERTIFICATE-----\nAAAA\n-----END CERTIFICATE-----\n"]}[rootcfg]
            e = _reg.expectation(req, {f: bad})
            code = cases.run_reg(r.credential, e)
            res.evaluations += 1
            res.nontrivial.add((fmt, choice, nint, order, fault, rootcfg, extras))
            res.count("roots:" + rootcfg)
            res.count("unloadable:" + corr.kind(code))
            if code["k"] == "accept":
                res.violations.append({"why": f"{fmt}: accepted although the anchors in force ({rootcfg}) contain no readable certificate "
                                              f"(fault={fault})", "case": cases.reg_case(r.credential, e), "code": code,
                                       "match": {"op": "verify_reg", "fault": rootcfg, "fmt": fmt}})
            continue
        roots = {"own": {f: own}, "none": {}, "own+other": {f: own + other_root}, "only-other-format": {OTHER[fmt]: own},
                 "other-root": {f: other_root}, "int-as-root": None}[rootcfg]
        if rootcfg == "int-as-root":
            if not r.chain or not r.chain.intermediates or fault:
                continue
            from cryptography.hazmat.primitives import serialization
            roots = {f: [r.chain.intermediates[-1].public_bytes(serialization.Encoding.PEM)]}
        if fmt == "android-key" and rootcfg in ("none", "only-other-format", "other-root"):
            pass  # x5c's own root is then simply not a known root
        e = _reg.expectation(req, roots)
        work.n = getattr(work, "n", 0) + 1
        e["roots_shape"] = ["list", "tuple", "generator", "iter", "map"][work.n % 5]
        res.count("roots-shape:" + e["roots_shape"])
        c = r.credential
        code, _ = _reg.eval_reg(tie, res, c, e, label=[fmt, nint, order, fault, rootcfg])
        res.nontrivial.add((fmt, choice, nint, order, fault, rootcfg, extras))
        res.count("fmt:" + fmt)
        res.count("roots:" + rootcfg)
        in_force = (rootcfg in ("own", "own+other", "other-root", "int-as-root")) or fmt not in NO_BUILTIN
        chain_good = (not fault) and rootcfg in ("own", "own+other", "int-as-root")
        if fmt == "android-key" and rootcfg == "int-as-root":
            chain_good = False   # android-key demands that x5c's last certificate itself be a trusted root
        must_reject = in_force and not chain_good
        if must_reject and code["k"] == "accept":
            res.violations.append({"why": f"{fmt}: chain accepted although anchors are in force and the chain is not valid for them "
                                          f"(fault={fault}, roots={rootcfg})", "case": cases.reg_case(c, e), "code": code,
                                   "match": {"op": "verify_reg", "fault": fault or rootcfg, "fmt": fmt}})
        if not must_reject and code["k"] != "accept":
            res.nonblocking.append({"why": f"{fmt}: good chain / unchecked chain rejected (fault={fault}, roots={rootcfg})", "code": code})
        # isolation: roots configured only for another format behave like no roots at all
        if rootcfg == "only-other-format":
            code0 = cases.run_reg(c, _reg.expectation(req, {}))
            res.evaluations += 1
            if corr.kind(code0) != corr.kind(code):
                res.violations.append({"why": f"{fmt}: roots supplied for {OTHER[fmt]} changed the outcome", "case": cases.reg_case(c, e),
                                       "code": code, "code_no_roots": code0, "match": {"op": "verify_reg", "relation": "isolation"}})
        if len(res.samples) < 4:
            res.samples.append({"fmt": fmt, "intermediates": nint, "order": order, "fault": fault, "roots": rootcfg,
                                "outcome": corr.kind(code), "message": code.get("msg")})
    if drv:
        drv.close()
    return res


def run(ctx, res):
    rng = ctx.rng
    tasks = []
    for fmt in X5C_FORMATS:
        choices = _reg.cred_choices(fmt)
        nints = [0] if fmt == "fido-u2f" else [0, 1, 2]
        for rootcfg in ("own", "none", "own+other", "only-other-format", "other-root", "int-as-root"):
            for nint in nints:
                for order in (("normal",) if nint < 2 else ("normal", "reversed")):
                    for extras in ((False, True) if nint and fmt != "android-key" and not ctx.quick() else (False,)):
                        tasks.append((fmt, rng.choice(choices), nint, order, None, rootcfg, extras))
        for rootcfg in ("unloadable-der", "unloadable-truncated", "unloadable-empty", "unloadable-two"):
            for fault in (None, "C.self-signed-leaf", "C.untrusted-issuer"):
                tasks.append((fmt, choices[0], 0 if fmt == "fido-u2f" else 1, "normal", fault, rootcfg, False))
        for fault in ca.CHAIN_FAULTS:
            if fmt == "fido-u2f" and fault in ca.NEED_INTERMEDIATE:
                continue
            for rootcfg in ("own", "none"):
                for nint in ([1] if ctx.quick() or fmt == "fido-u2f" else [1, 2]):
                    tasks.append((fmt, rng.choice(choices), 0 if fmt == "fido-u2f" else nint, "normal", fault, rootcfg, False))
    work.driver_ok = ctx.driver_ok
    corr.merge(res, corr.parallel(work, tasks))
    # "currently valid": the chain scenarios of the C17 worker (controlled clock: offsets around every validity edge, a new
    # response over the same certificates after they expired, the attestation certificate pinned as anchor) also decide C04
    import os, pickle, subprocess, sys
    from .. import common
    so = os.path.join(common.VERIF, "harness", "fakeclock.so")
    if os.path.exists(so):
        env = dict(os.environ, PYTHONPATH=common.VERIF, VERIF_C17_TIER=ctx.tier, VERIF_C17_SEED=str(ctx.seed),
                   VERIF_C17_DRIVER="1" if ctx.driver_ok else "0", LD_PRELOAD=so, VERIF_C17_ROUTE="ld_preload", TZ="UTC0",
                   VERIF_C17_PART="chain")
        p = subprocess.run([sys.executable, "-m", "harness.props.C17_worker"], env=env, cwd=common.VERIF, capture_output=True)
        if p.returncode != 0:
            raise RuntimeError("clock worker failed:\n" + p.stderr.decode()[-3000:])
        corr.merge(res, [pickle.loads(p.stdout)])
    else:
        ctx.notes.append("fakeclock.so missing: the clock scenarios of C04 were not run")
    res.rule = ("CA simulator: x5c-bearing formats x chain shapes (direct, 1-2 intermediates, reversed order, unrelated extras) x root "
                "configurations (own, none, own+other, only-other-format, other-root, intermediate-as-root) x 12 chain faults; the expected "
                "verdict comes from how the chain was built; plus, under a controlled clock, offsets around every validity edge, new responses over "
                "certificates that have expired since they were first seen, and the leaf pinned as anchor; distinct = (format, key, shape, fault, root configuration)")
