"""Shared machinery for the authentication-ceremony checks (C01, C07, C10, C19, C20)."""
import itertools, json

from .. import cases, corr, faults, spec, common
from ..check import Result
from ..driver import Driver
from ..oracle import Oracle
from ..sim import core

CREDS = None


def creds():
    global CREDS
    if CREDS is None:
        CREDS = [core.make_credential(k, 0, a) for k, a in core.CRED_KINDS]
    return CREDS


def first_false(conj):
    for k, v in conj.items():
        if not v:
            return k
    return None


def eval_auth(tie, res, a, e, label, faults_applied=(), forms=("record",), check_counter=True):
    """one authentication case: real code, model, C01/C07 predicate on the code's outcome"""
    code = cases.run_auth(a, e, forms[0])
    res.evaluations += 1
    tie.check(cases.auth_case(a, e), code, label=label)
    res.count("code:" + corr.kind(code))
    if code["k"] == "accept":
        conj = spec.auth_conjuncts(a, e)
        bad = first_false(conj)
        if bad is None and check_counter and not spec.counter_conjunct(a, e):
            bad = "counter"
        if bad is not None:
            res.violations.append({"why": f"accepted although conjunct '{bad}' is false", "faults": list(faults_applied),
                                   "case": cases.auth_case(a, e), "code": code,
                                   "match": {"op": "verify_auth", "conjunct": bad}})
    return code


def sample_case(a, e, fs, code):
    return {"faults": list(fs), "client_data_json": a["client_data_json"].decode("utf-8", "replace"),
            "authenticator_data": a["authenticator_data"].hex(), "outcome": corr.kind(code)}
