"""C20 — Loosening RP policy never rejects; credential input form is irrelevant."""
import json

from .. import cases, corr, faults
from ..check import Result
from ..driver import Driver
from ..oracle import Oracle
from ..sim import core
from . import _auth

ID = "C20"
P = "Webauthn.Props.C20."
THEOREMS = [P + n for n in ("auth_mono", "origins_superset", "single_as_list", "single_into_list")]
LEAN_TARGETS = ["Props.C20"]
SPEC_FILES = ["Spec/Core.lean"]
ASSUMPTIONS = ["bytes / bytes-subclass / memoryview input forms are Python runtime typing: covered by the tie only"]


class MyBytes(bytes):
    pass


def loosenings(e):
    """policies at least as loose as e (paired with a label)"""
    out = []
    if e["require_uv"]:
        out.append(("uv-not-required", dict(e, require_uv=False)))
    o = e["origin"]
    if isinstance(o, str):
        out.append(("string-as-singleton", dict(e, origin=[o])))
        out.append(("origin-superset", dict(e, origin=["https://x.example", o, "https://y.example"])))
    else:
        out.append(("origin-superset", dict(e, origin=list(o) + ["https://z.example"])))
        if len(o) == 1:
            out.append(("singleton-as-string", dict(e, origin=o[0])))
    if e["require_uv"] and isinstance(o, str):
        out.append(("uv+origins", dict(e, require_uv=False, origin=[o, "https://w.example"])))
    return out


def byte_forms(a, e, wrap):
    a2 = dict(a)
    for k in ("raw_id", "client_data_json", "authenticator_data", "signature"):
        a2[k] = wrap(a[k])
    return a2, dict(e, challenge=wrap(e["challenge"]), public_key=wrap(e["public_key"]))


def work(tasks, idx):
    res = Result()
    drv = Driver(Oracle()) if work.driver_ok else None
    tie = corr.Tie(res, drv, "eq")
    cs = _auth.creds()
    for ci, fs, variant in tasks:
        c = cs[ci]
        kw = {"flags": core.UP | (core.UV if variant % 4 else 0), "faults": fs, "require_uv": variant % 2 == 0}
        if variant % 3 == 0:
            kw["origin_list"] = ["https://example.com"] if variant % 2 else ["https://q.example", "https://example.com"]
        a, e, eff = faults.build_assertion(c, **kw)
        base = cases.run_auth(a, e)
        res.evaluations += 1
        res.nontrivial.add((ci, tuple(sorted(fs)), variant % 12))
        mbase = tie.check(cases.auth_case(a, e), base, label=list(fs))
        res.count("base:" + corr.kind(base))
        for label, e2 in loosenings(e):
            code2 = cases.run_auth(a, e2)
            res.evaluations += 1
            tie.check(cases.auth_case(a, e2), code2, label=[label] + list(fs))
            if base["k"] == "accept" and (code2["k"] != "accept" or code2["record"] != base["record"]):
                res.violations.append({"why": f"accepted, but rejected/changed under looser policy '{label}'", "faults": list(fs),
                                       "case": cases.auth_case(a, e), "looser": cases.auth_case(a, e2), "code": base, "code_looser": code2,
                                       "match": {"op": "verify_auth", "relation": label}})
            res.count("loosen:" + label)
        # input forms: text, dict, record x bytes / bytes subclass / memoryview
        outcomes = {"record": base}
        if "A.cred-type" not in fs:   # the JSON forms always carry type public-key
            outcomes["dict"] = cases.run_auth(a, e, "dict")
            outcomes["text"] = cases.run_auth(a, e, "text")
        for nm, wrap in (("bytes-subclass", MyBytes), ("memoryview", memoryview)):
            a2, e2 = byte_forms(a, e, wrap)
            outcomes[nm] = cases.run_auth(a2, e2)
        res.evaluations += len(outcomes) - 1
        kinds = {k: (corr.kind(v), json.dumps(v.get("record"), sort_keys=True)) for k, v in outcomes.items()}
        if len(set(kinds.values())) != 1:
            res.violations.append({"why": f"input forms disagree: {kinds}", "faults": list(fs), "case": cases.auth_case(a, e),
                                   "match": {"op": "verify_auth", "relation": "input-form"}})
        if len(res.samples) < 3:
            res.samples.append({"faults": list(fs), "policy": {"require_uv": e["require_uv"], "origin": e["origin"]},
                                "outcome": corr.kind(base), "forms": {k: v[0] for k, v in kinds.items()}})
    if drv:
        drv.close()
    return res


def run(ctx, res):
    rng = ctx.rng
    ncreds = len(_auth.creds())
    F = faults.AUTH_FAULTS
    tasks = []
    for ci in range(ncreds):
        for v in range(12):
            tasks.append((ci, (), v))
        for f in F:
            tasks.append((ci, (f,), rng.randrange(12)))
        for _ in range(10 if ctx.quick() else 200):
            tasks.append((ci, tuple(rng.sample(F, rng.randrange(2, 5))), rng.randrange(12)))
    work.driver_ok = ctx.driver_ok
    corr.merge(res, corr.parallel(work, tasks))
    res.rule = ("every response of the C01 stream (valid, single-fault, multi-fault) under every policy and every looser policy "
                "(UV not required, origin superset, string <-> one-element list), and in all input forms (JSON text, dict, record x "
                "bytes / bytes subclass / memoryview); distinct = (credential algorithm, fault set, policy variant)")
