"""C20 — Loosening RP policy never rejects; credential input form is irrelevant."""
import json

from .. import cases, corr, faults
from ..check import Result
from ..driver import Driver
from ..oracle import Oracle
from ..sim import core
from . import _auth

ID = "C20"
P = "Webauthn.Props.C20."
THEOREMS = [P + n for n in ("auth_mono", "reg_mono", "algAllowed_mono", "origins_superset", "single_as_list", "single_into_list")]
LEAN_TARGETS = ["Props.C20"]
SPEC_FILES = ["Spec/Core.lean"]
ASSUMPTIONS = ["bytes / bytes-subclass / memoryview input forms are Python runtime typing: covered by the tie only"]


class MyBytes(bytes):
    pass


def loosenings(e):
    """policies at least as loose as e (paired with a label)"""
    out = []
    if e["require_uv"]:
        out.append(("uv-not-required", dict(e, require_uv=False)))
    o = e["origin"]
    if isinstance(o, str):
        out.append(("string-as-singleton", dict(e, origin=[o])))
        out.append(("origin-superset", dict(e, origin=["https://x.example", o, "https://y.example"])))
    else:
        out.append(("origin-superset", dict(e, origin=list(o) + ["https://z.example"])))
        if len(o) == 1:
            out.append(("singleton-as-string", dict(e, origin=o[0])))
    if e["require_uv"] and isinstance(o, str):
        out.append(("uv+origins", dict(e, require_uv=False, origin=[o, "https://w.example"])))
    return out


def text_spellings(d):
    """other JSON texts of the same credential: pretty-printed, \\u-escaped names, a member name written twice (the text
    means what json.loads makes of it: the last occurrence)"""
    compact = json.dumps(d, separators=(",", ":"))
    return [("text-pretty", json.dumps(d, indent=2, sort_keys=True)),
            ("text-type-twice", compact[:-1] + ',"type":' + json.dumps(d["type"]) + "}"),
            ("text-id-twice-last-wins", '{"id":"overridden-below",' + compact[1:]),
            ("text-repeat-in-ignored-member", compact.replace('"clientExtensionResults":{}', '"clientExtensionResults":{"a":1,"a":2}')),
            ("text-escaped-names", compact.replace('"type"', '"\\u0074ype"').replace('"response"', '"r\\u0065sponse"'))]


def byte_forms(a, e, wrap):
    a2 = dict(a)
    for k in ("raw_id", "client_data_json", "authenticator_data", "signature"):
        a2[k] = wrap(a[k])
    return a2, dict(e, challenge=wrap(e["challenge"]), public_key=wrap(e["public_key"]))


REG_ALGS = [[], [-7], [-8], [-257], [-7, -8], [-8, -257], [-7, -257, -8], None]


def reg_policies(rng, req, cred_alg):
    """(label, base overrides, looser overrides) pairs ordered by looseness"""
    out = []
    for up in (True, False):
        for uv in (True, False):
            for algs in ([], [cred_alg], [a for a in (-8, -257, -7) if a != cred_alg], None):
                base = {"require_up": up, "require_uv": uv, "algs": algs}
                if uv:
                    out.append(("uv-not-required", base, dict(base, require_uv=False)))
                if up:
                    out.append(("up-waived", base, dict(base, require_up=False)))
                if algs is not None:
                    sup = list(algs) + [x for x in (-36, -259, cred_alg, -8) if x not in algs][: 1 + len(algs) % 3]
                    out.append(("algs-superset", base, dict(base, algs=sup)))
                    out.append(("algs-all", base, dict(base, algs=list(cases.ALL_ALGS))))
                    # a superset may name identifiers the library has no member for (ES384 = -35, ES256K = -47): the RP's list is
                    # a list of integers
                    out.append(("algs-superset-with-unregistered-ids", base, dict(base, algs=list(algs) + [-35, -47])))
                    out.append(("algs-superset-with-unregistered-ids", base, dict(base, algs=[-47] + list(cases.ALL_ALGS) + [-35])))
                out.append(("origin-superset", base, dict(base, origin=[req.origin, "https://z.example"])))
                out.append(("string-as-singleton", base, dict(base, origin=[req.origin])))
    return out


def reg_work(res, tie, fmt, choice, fs, variant):
    from . import _reg
    from ..sim import attest
    b = _reg.build(fmt, choice, fs, flags=core.UP * (variant % 2) | core.UV * (variant // 2 % 2) | core.AT)
    if b is None:
        return
    req, r = b
    c = r.credential
    rng = __import__("harness.common", fromlist=["x"]).Rng(variant)
    pols = reg_policies(rng, req, choice[2])
    for label, base, loose in (pols if variant % 5 == 0 else rng.sample(pols, 12)):
        e1 = _reg.expectation(req, r.roots, **base)
        e2 = _reg.expectation(req, r.roots, **loose)
        c1 = cases.run_reg(c, e1)
        c2 = cases.run_reg(c, e2)
        res.evaluations += 2
        if variant % 3 == 0:
            tie.check(cases.reg_case(c, e1), c1, label=["reg", fmt, label])
        res.nontrivial.add(("reg", fmt, choice, tuple(sorted(fs)), label, json.dumps(base, sort_keys=True)))
        res.count("reg-loosen:" + label)
        if c1["k"] == "accept" and (c2["k"] != "accept" or c2["record"] != c1["record"]):
            res.violations.append({"why": f"registration accepted under {base} but rejected/changed under looser policy '{label}' {loose}: {c2.get('msg')}",
                                   "case": cases.reg_case(c, e1), "looser": cases.reg_case(c, e2),
                                   "match": {"op": "verify_reg", "relation": label}})
    # one dict-form credential object presented twice (strict, then looser policy)
    if "R.cred-type" not in fs:
        import copy
        obj = core.to_reg_json(c)
        before = copy.deepcopy(obj)
        e1 = _reg.expectation(req, r.roots, require_uv=bool(variant // 2 % 2))
        first = cases.run_reg(c, e1, cred_obj=obj)
        again = cases.run_reg(c, _reg.expectation(req, r.roots, require_uv=False, require_up=False), cred_obj=obj)
        res.evaluations += 2
        if first["k"] == "accept" and (again["k"] != "accept" or again["record"] != first["record"]):
            res.violations.append({"why": f"one dict credential object: accepted, then rejected/changed under a looser policy when the same "
                                          f"object is presented again: {again.get('msg') or again.get('lib')}",
                                   "case": cases.reg_case(c, e1), "match": {"op": "verify_reg", "relation": "same-object"}})
        if obj != before:
            res.count("note:dict-credential-object-modified-by-the-call")
    # input forms
    e = _reg.expectation(req, r.roots)
    outcomes = {"record": cases.run_reg(c, e)}
    if "R.cred-type" not in fs:
        outcomes["dict"] = cases.run_reg(c, e, "dict")
        outcomes["text"] = cases.run_reg(c, e, "text")
        for nm, text in text_spellings(core.to_reg_json(c)):
            outcomes[nm] = cases.run_reg(c, e, cred_obj=text)
    for nm, wrap in (("bytes-subclass", MyBytes), ("memoryview", memoryview),
                     ("memoryview-of-writable-buffer", lambda b: memoryview(bytearray(b))),
                     ("memoryview-slice", lambda b: memoryview(b"\x00" + bytes(b) + b"\x00")[1:-1]),
                     ("memoryview-strided", lambda b: memoryview(bytes(x for y in bytes(b) for x in (y, 0)))[::2]),
                     # memoryviews whose items are chars / signed bytes (what `.cast()` or some C extensions hand out)
                     ("memoryview-cast-char", lambda b: memoryview(bytes(b)).cast("c")),
                     ("memoryview-cast-signed", lambda b: memoryview(bytes(b)).cast("b"))):
        c2 = dict(c, raw_id=wrap(c["raw_id"]), client_data_json=wrap(c["client_data_json"]), attestation_object=wrap(c["attestation_object"]))
        outcomes[nm] = cases.run_reg(c2, dict(e, challenge=wrap(e["challenge"])))
    res.evaluations += len(outcomes)
    kinds = {k: (corr.kind(v), json.dumps(v.get("record"), sort_keys=True)) for k, v in outcomes.items()}
    if len(set(kinds.values())) != 1:
        res.violations.append({"why": f"registration input forms disagree: { {k: v[0] for k, v in kinds.items()} }", "case": cases.reg_case(c, e),
                               "match": {"op": "verify_reg", "relation": "input-form"}})


def work(tasks, idx):
    res = Result()
    drv = Driver(Oracle()) if work.driver_ok else None
    tie = corr.Tie(res, drv, "eq")
    cs = _auth.creds()
    for t in tasks:
        if t[0] == "reg":
            reg_work(res, tie, *t[1:])
            continue
        ci, fs, variant = t
        c = cs[ci]
        kw = {"flags": core.UP | (core.UV if variant % 4 else 0), "faults": fs, "require_uv": variant % 2 == 0}
        if variant % 3 == 0:
            kw["origin_list"] = ["https://example.com"] if variant % 2 else ["https://q.example", "https://example.com"]
        kw["challenge"] = bytes((variant * 37 + 200 + 11 * i) % 256 for i in range(32))     # bytes above 0x7f among them
        a, e, eff = faults.build_assertion(c, **kw)
        base = cases.run_auth(a, e)
        res.evaluations += 1
        res.nontrivial.add((ci, tuple(sorted(fs)), variant % 12))
        mbase = tie.check(cases.auth_case(a, e), base, label=list(fs))
        res.count("base:" + corr.kind(base))
        for label, e2 in loosenings(e):
            code2 = cases.run_auth(a, e2)
            res.evaluations += 1
            tie.check(cases.auth_case(a, e2), code2, label=[label] + list(fs))
            if base["k"] == "accept" and (code2["k"] != "accept" or code2["record"] != base["record"]):
                res.violations.append({"why": f"accepted, but rejected/changed under looser policy '{label}'", "faults": list(fs),
                                       "case": cases.auth_case(a, e), "looser": cases.auth_case(a, e2), "code": base, "code_looser": code2,
                                       "match": {"op": "verify_auth", "relation": label}})
            res.count("loosen:" + label)
        # one credential object (dict form, then record form) presented under the strict policy and then under each looser
        # one, the way an RP retries: the credential a caller passes stays the caller's
        if "A.cred-type" not in fs:
            import copy
            for form, obj in (("dict", core.to_auth_json(a)), ("record", cases.auth_record(a))):
                before = copy.deepcopy(obj)
                first = cases.run_auth(a, e, cred_obj=obj)
                res.evaluations += 1
                for label, e2 in [("same-policy-again", e)] + loosenings(e):
                    again = cases.run_auth(a, e2, cred_obj=obj)
                    res.evaluations += 1
                    if first["k"] == "accept" and (again["k"] != "accept" or again["record"] != first["record"]):
                        res.violations.append({"why": f"one {form} credential object: accepted, then rejected/changed under '{label}' "
                                                      f"when the same object is presented again: {again.get('msg') or again.get('lib')}",
                                               "faults": list(fs), "case": cases.auth_case(a, e), "looser": cases.auth_case(a, e2),
                                               "match": {"op": "verify_auth", "relation": "same-object-" + label}})
                        break
                if obj != before:     # not by itself something C20 speaks about: recorded in the evidence, not a violation
                    res.count(f"note:{form}-credential-object-modified-by-the-call")
        # input forms: text, dict, record x bytes / bytes subclass / memoryview
        outcomes = {"record": base}
        if "A.cred-type" not in fs:   # the JSON forms always carry type public-key
            outcomes["dict"] = cases.run_auth(a, e, "dict")
            outcomes["text"] = cases.run_auth(a, e, "text")
            for nm, text in text_spellings(core.to_auth_json(a)):
                outcomes[nm] = cases.run_auth(a, e, cred_obj=text)
        for nm, wrap in (("bytes-subclass", MyBytes), ("memoryview", memoryview),
                         ("memoryview-of-writable-buffer", lambda b: memoryview(bytearray(b))),
                         ("memoryview-slice", lambda b: memoryview(b"\x00" + bytes(b) + b"\x00")[1:-1]),
                         ("memoryview-strided", lambda b: memoryview(bytes(x for y in bytes(b) for x in (y, 0)))[::2]),
                         ("memoryview-cast-char", lambda b: memoryview(bytes(b)).cast("c")),
                         ("memoryview-cast-signed", lambda b: memoryview(bytes(b)).cast("b"))):
            a2, e2 = byte_forms(a, e, wrap)
            outcomes[nm] = cases.run_auth(a2, e2)
        res.evaluations += len(outcomes) - 1
        kinds = {k: (corr.kind(v), json.dumps(v.get("record"), sort_keys=True)) for k, v in outcomes.items()}
        if len(set(kinds.values())) != 1:
            res.violations.append({"why": f"input forms disagree: {kinds}", "faults": list(fs), "case": cases.auth_case(a, e),
                                   "match": {"op": "verify_auth", "relation": "input-form"}})
        if len(res.samples) < 3:
            res.samples.append({"faults": list(fs), "policy": {"require_uv": e["require_uv"], "origin": e["origin"]},
                                "outcome": corr.kind(base), "forms": {k: v[0] for k, v in kinds.items()}})
    if drv:
        drv.close()
    return res


def run(ctx, res):
    rng = ctx.rng
    ncreds = len(_auth.creds())
    F = faults.AUTH_FAULTS
    tasks = []
    for ci in range(ncreds):
        for v in range(12):
            tasks.append((ci, (), v))
        for f in F:
            tasks.append((ci, (f,), rng.randrange(12)))
        for _ in range(10 if ctx.quick() else 200):
            tasks.append((ci, tuple(rng.sample(F, rng.randrange(2, 5))), rng.randrange(12)))
    from . import _reg
    from ..sim import attest
    for fmt in _reg.FORMATS:
        choices = _reg.cred_choices(fmt)
        for i in range(6 if ctx.quick() else 60):
            tasks.append(("reg", fmt, rng.choice(choices), (), i))
        for f in rng.sample(attest.CATALOGUE["ceremony"], 4 if ctx.quick() else len(attest.CATALOGUE["ceremony"])):
            tasks.append(("reg", fmt, rng.choice(choices), (f,), rng.randrange(20)))
    work.driver_ok = ctx.driver_ok
    corr.merge(res, corr.parallel(work, tasks))
    res.rule = ("registrations of every format under policy pairs ordered by looseness (UV not required, UP waived, allowed "
                "algorithms [] / [alg] / others / default -> supersets, origin supersets and string <-> list) and in all input forms; and "
                "every response of the C01 stream (valid, single-fault, multi-fault) under every policy and every looser policy "
                "(UV not required, origin superset, string <-> one-element list), and in all input forms (JSON text, dict, record x "
                "bytes / bytes subclass / memoryview); distinct = (credential algorithm, fault set, policy variant)")
