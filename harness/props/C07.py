"""C07 — Signature-counter rule over every history."""
import itertools

from .. import cases, corr, faults, spec
from ..check import Result
from ..driver import Driver
from ..oracle import Oracle
from ..sim import core
from . import _auth

ID = "C07"
P = "Webauthn.Props.C07."
THEOREMS = [P + n for n in ("guard_iff", "rule", "monotone", "no_replay", "ctr_lt", "rpStep_mono",
                              "accepted_gt_start", "accepted_strictly_increasing", "final_state")]
LEAN_TARGETS = ["Props.C07"]
SPEC_FILES = ["Spec/Core.lean"]
ASSUMPTIONS = ["the counter guard used by the model is the Lean term regenerated from the source by harness/extract.py (T2)",
               "histories are modelled as an RP that stores the reported counter after each success"]
GRID = [0, 1, 2, 2 ** 31 - 1, 2 ** 31, 2 ** 32 - 2, 2 ** 32 - 1]
# assertions may carry attested credential data too; these AAGUIDs continue, after a counter ending in 0xa3, the byte pattern
# the parser's Ed25519 work-around looks for (which it must only ever look for at the key position)
PATTERN_TAIL = bytes.fromhex("01634f4b500327206745643235353139")
AAGUIDS = [None, None, PATTERN_TAIL, bytes(range(16))]
PATTERN_COUNTERS = [0xa3, 0x1a3, 0x7fffffa3, 0xffffffa3, 0xa2, 0xa4]
# the rule must not depend on anything else the authenticator data says: every legal flag combination
FLAGSETS = [core.UP, core.UP | core.UV, core.UP | core.BE, core.UP | core.BE | core.BS, core.UP | core.UV | core.BE,
            core.UP | core.UV | core.BE | core.BS, core.UP | 0x02, core.UP | 0x20, core.UP | core.UV | 0x22]


def work(tasks, idx):
    res = Result()
    drv = Driver(Oracle()) if work.driver_ok else None
    tie = corr.Tie(res, drv, "code_accept_implies_model_accept")
    cs = _auth.creds()
    for kind, ci, x in tasks:
        c = cs[ci]
        if kind == "pair":
            s, cnt, fl = x[:3]
            aag = x[3] if len(x) > 3 else AAGUIDS[(s + cnt) % len(AAGUIDS)]
            a, e, _ = faults.build_assertion(c, counter=cnt, stored=s, flags=fl, attested_aaguid=aag,
                                             attachment=[None, "platform", "cross-platform"][(s + cnt + fl) % 3])
            e["stored_count"] = s
            # the RP's stored counter in the numeric types a database layer hands back: the rule is about its value
            import decimal, fractions
            shape = (s + cnt + fl) % 6
            if shape in (1, 2, 3, 4):
                class _IntSub(int):
                    pass
                typed = [None, decimal.Decimal(s), fractions.Fraction(s), _IntSub(s), float(s) if s < 2 ** 53 else s][shape]
                code_t = cases.run_auth(a, dict(e, stored_count=typed))
                res.evaluations += 1
                res.count("stored-counter-type:" + type(typed).__name__)
                expect_t = cnt > s or (cnt == 0 and s == 0)
                if (code_t["k"] == "accept") != expect_t and code_t["k"] == "accept":
                    res.violations.append({"why": f"accepted with counter {cnt} against stored {typed!r} ({type(typed).__name__})",
                                           "case": cases.auth_case(a, e), "code": code_t,
                                           "match": {"op": "verify_auth", "conjunct": "counter", "stored_type": type(typed).__name__}})
            code = _auth.eval_auth(tie, res, a, e, label=["pair", s, cnt])
            expect = cnt > s or (cnt == 0 and s == 0)
            res.nontrivial.add(("pair", s, cnt, fl))
            res.count("pair:" + ("accept" if expect else "reject"))
            if (code["k"] == "accept") != expect:
                if code["k"] == "accept":
                    res.violations.append({"why": f"accepted with counter {cnt} against stored {s} (flags {fl:#04x})", "case": cases.auth_case(a, e),
                                           "code": code, "match": {"op": "verify_auth", "conjunct": "counter"}})
                else:
                    res.nonblocking.append({"why": f"rejected counter {cnt} against stored {s}", "code": code})
            if code["k"] == "accept" and code["record"]["new_sign_count"] != str(cnt):
                res.violations.append({"why": "new_sign_count differs from the counter in authenticator data", "case": cases.auth_case(a, e),
                                       "code": code, "match": {"op": "verify_auth", "conjunct": "new-sign-count"}})
            if len(res.samples) < 2:
                res.samples.append({"stored": s, "counter": cnt, "outcome": corr.kind(code)})
        else:  # a presentation history over a pool of pre-signed assertions
            counters, seq, fl = x
            pool = []
            for cnt in counters:
                a, e, _ = faults.build_assertion(c, counter=cnt, stored=0, flags=fl,
                                                 attachment=[None, "platform", "cross-platform"][(cnt + fl) % 3])
                pool.append((cnt, a, e))
            stored, accepted_nonzero, trail = 0, set(), []
            for i in seq:
                cnt, a, e = pool[i]
                e = dict(e, stored_count=stored)
                code = _auth.eval_auth(tie, res, a, e, label=["history", list(seq)])
                if code["k"] == "accept":
                    new = int(code["record"]["new_sign_count"])
                    if new < stored:
                        res.violations.append({"why": "stored counter decreased along a history", "history": list(seq),
                                               "counters": list(counters), "match": {"op": "rp_history", "conjunct": "monotone"}})
                    if cnt != 0 and i in accepted_nonzero:
                        res.violations.append({"why": "assertion with non-zero counter accepted twice", "history": list(seq),
                                               "counters": list(counters), "match": {"op": "rp_history", "conjunct": "no-replay"}})
                    if cnt != 0:
                        accepted_nonzero.add(i)
                    stored = new
                trail.append((cnt, corr.kind(code), stored))
            res.nontrivial.add(("hist", tuple(counters), tuple(seq), fl))
            res.count("history-length:%d" % len(seq))
            if len(res.samples) < 4:
                res.samples.append({"history": trail})
    if drv:
        drv.close()
    return res


def run(ctx, res):
    rng = ctx.rng
    tasks = []
    ncreds = len(_auth.creds())
    for s in GRID:
        for c in GRID:
            for fl in FLAGSETS:
                tasks.append(("pair", rng.randrange(ncreds), (s, c, fl)))
    # stored counters wider than 32 bits (an RP's integer column holds what it holds): no 32-bit counter exceeds them
    for s in (2 ** 32, 2 ** 32 + 7, 2 ** 40, 2 ** 63 - 1, 2 ** 64 + 1):
        for c in (0, 1, 8, 2 ** 31, 2 ** 32 - 1):
            tasks.append(("pair", rng.randrange(ncreds), (s, c, FLAGSETS[(s + c) % len(FLAGSETS)])))
    for cnt in PATTERN_COUNTERS:
        for s in (cnt, cnt - 1, cnt + 1, 0):
            for fl in FLAGSETS[:3]:
                tasks.append(("pair", rng.randrange(ncreds), (s, cnt, fl, PATTERN_TAIL)))
    for _ in range(100 if ctx.quick() else 3000):
        s, c = rng.randrange(2 ** 32), rng.randrange(2 ** 32)
        if rng.random() < 0.3:
            c = max(0, min(2 ** 32 - 1, s + rng.randrange(-2, 3)))
        tasks.append(("pair", rng.randrange(ncreds), (s, c, rng.choice(FLAGSETS))))
    # histories: all sequences up to length L over a pool with distinct and repeated counters
    pool_counters = (0, 0, 1, 2, 2, 7) if ctx.quick() else (0, 0, 1, 2, 2, 7, 2 ** 32 - 1, 3)
    L = 4 if ctx.quick() else 5
    seqs = []
    for ln in range(1, L + 1):
        seqs += list(itertools.product(range(len(pool_counters)), repeat=ln))
    if len(seqs) > (1600 if ctx.quick() else 40000):
        seqs = rng.sample(seqs, 1600 if ctx.quick() else 40000)
    for seq in seqs:
        tasks.append(("hist", rng.randrange(ncreds), (pool_counters, seq, rng.choice(FLAGSETS))))
    work.driver_ok = ctx.driver_ok
    corr.merge(res, corr.parallel(work, tasks))
    res.rule = ("(stored, counter) over the boundary grid {0,1,2,2^31-1,2^31,2^32-2,2^32-1}^2 x 9 flag combinations (UV, BE, BS, "
                "reserved bits) plus random pairs; presentation "
                "histories = sequences (quick: all up to length 4 sampled to 1600, thorough: length 5 sampled to 40000) over a pool of "
                "pre-signed assertions with distinct and repeated counters, driven through the real API with the stored value updated "
                "from the returned new_sign_count; distinct = (stored,counter) pair or (pool, sequence)")
