"""C11 — Authenticator data is parsed exactly and completely."""
import cbor2

from .. import cases, corr, common
from ..check import Result
from ..driver import Driver
from ..oracle import Oracle
from ..sim import core
from . import _auth

ID = "C11"
P = "Webauthn.Props.C11."
THEOREMS = [P + n for n in ("total", "too_short", "header", "leftover_plain", "parseCbor_err", "flagsByteOf_total")] + \
           ["Webauthn.Props.C10.layout"]
LEAN_TARGETS = ["Props.C11"]
SPEC_FILES = ["Spec/Core.lean", "Model/Cbor.lean"]
ASSUMPTIONS = ["CBOR outside the modelled fragment (tags, floats, indefinite lengths, other simple values, non-scalar map keys) is "
               "out of model: excluded from the tie and from the theorems' scope; the Lean CBOR codec is compared with cbor2 in the same run"]
LIB = {"InvalidAuthenticatorDataStructure", "InvalidCBORData"}


def rand_ext(rng, depth=0):
    t = rng.randrange(0, 9 if depth < 3 else 6)
    if t == 0:
        return rng.choice([0, 1, 23, 24, 255, 256, 65535, 65536, 2 ** 32, 2 ** 64 - 1])
    if t == 1:
        return -rng.choice([1, 24, 25, 256, 65537, 2 ** 32 + 1, 2 ** 64])
    if t == 2:
        return rng.bytes_(rng.randrange(0, 40))
    if t == 3:
        return "".join(rng.choice("abcé€ xyz") for _ in range(rng.randrange(0, 8)))
    if t in (4, 5):
        return rng.choice([True, False, None])
    if t in (6, 7):
        return [rand_ext(rng, depth + 1) for _ in range(rng.randrange(0, 4))]
    return {rng.choice(["a", "b", "credProtect", 1, 2, -1, b"k"]): rand_ext(rng, depth + 1) for _ in range(rng.randrange(0, 4))}


def work(tasks, idx):
    res = Result()
    drv = Driver(Oracle()) if work.driver_ok else None
    tie = corr.Tie(res, drv, "eq")
    creds = _auth.creds()
    for seed, n in tasks:
        rng = common.Rng(seed)
        for _ in range(n):
            c = rng.choice(creds)
            flags = rng.randrange(256)
            rp, counter, aaguid = rng.bytes_(32), rng.randrange(2 ** 32), rng.bytes_(16)
            cid = rng.bytes_(rng.choice([0, 1, 16, 32, 64, 255, 256, 1023]))
            cose = c.cose() if flags & 0x40 else None
            extv = {"ext": rand_ext(rng)} if flags & 0x80 else None
            ext = cbor2.dumps(extv) if extv is not None else None
            ad = core.auth_data(rp, flags, counter, aaguid=aaguid, cred_id=cid, cose=cose, ext=ext)
            mode = rng.random()
            label = "canonical"
            b = ad
            if mode < 0.25:
                b, label = ad[:rng.randrange(0, len(ad))], "truncated"
            elif mode < 0.45:
                b, label = ad + rng.bytes_(rng.randrange(1, 6)), "suffix"
            elif mode < 0.5:
                b, label = rng.bytes_(rng.randrange(0, 120)), "random"
            code = cases.code_parse_auth_data(b)
            res.evaluations += 1
            tie.check({"op": "parse_auth_data", "b": b.hex()}, code, label=[label, flags])
            res.nontrivial.add(b)
            res.count(label + ":" + corr.kind(code))
            if code["k"] == "reject" and ("nonlib" in code or code.get("lib") not in LIB):
                res.violations.append({"why": f"parser raised {code.get('nonlib') or code.get('lib')}: {code.get('msg')}", "b": b.hex(),
                                       "match": {"op": "parse_auth_data", "rule": "library-exception"}})
            if label == "canonical":
                exp = {"rp_id_hash": rp.hex(), "flags": {"up": bool(flags & 1), "uv": bool(flags & 4), "be": bool(flags & 8),
                                                         "bs": bool(flags & 16), "at": bool(flags & 64), "ed": bool(flags & 128)},
                       "sign_count": str(counter),
                       "attested": {"aaguid": aaguid.hex(), "credential_id": cid.hex(), "public_key": cose.hex()} if cose else None,
                       "extensions": ext.hex() if ext else None}
                if code["k"] != "accept" or code["record"] != exp:
                    res.violations.append({"why": f"canonical authenticator data not parsed exactly: {str(code)[:300]}", "b": b.hex(),
                                           "match": {"op": "parse_auth_data", "rule": "exact"}})
            elif label in ("truncated", "suffix") and code["k"] == "accept":
                res.violations.append({"why": f"{label} authenticator data accepted", "b": b.hex(), "original": ad.hex(),
                                       "match": {"op": "parse_auth_data", "rule": label}})
            if len(res.samples) < 4:
                res.samples.append({"kind": label, "flags": flags, "hex": b.hex()[:160], "outcome": corr.kind(code)})
            # the Lean CBOR codec against cbor2 on the extension / key bytes themselves
            if ext is not None and rng.random() < 0.3:
                code2 = cases.code_cbor_roundtrip(ext)
                res.evaluations += 1
                tie.check({"op": "cbor_roundtrip", "b": ext.hex()}, code2, label=["cbor"])
    if drv:
        drv.close()
    return res


def run(ctx, res):
    n = 1200 if ctx.quick() else 30000
    tasks = [(ctx.seed * 15485863 + i, n) for i in range(16)]
    work.driver_ok = ctx.driver_ok
    corr.merge(res, corr.parallel(work, tasks))
    res.rule = ("authenticator data laid out per the spec over all flag bytes, RP ID hashes, counters, AAGUIDs, credential-id lengths "
                "{0,1,16,32,64,255,256,1023}, every key type, nested extension maps (ints, byte/text strings, booleans, null, arrays, "
                "maps); every canonical input must parse to exactly its fields; truncations at random points, appended suffixes and "
                "random byte strings must be refused with a library exception; distinct = the byte string")
