"""C11 — Authenticator data is parsed exactly and completely."""
import cbor2
import hashlib

from .. import cases, corr, common
from ..check import Result
from ..driver import Driver
from ..oracle import Oracle
from ..sim import core
from . import _auth

ID = "C11"
P = "Webauthn.Props.C11."
THEOREMS = [P + n for n in ("total", "too_short", "header", "leftover_plain", "parseCbor_err", "flagsByteOf_total",
                            "exact", "suffix_rejected", "truncated", "fuel_suffices")] + \
           ["Webauthn.Props.C10.layout", "Webauthn.Cbor.dec_enc", "Webauthn.parseCbor_enc", "Webauthn.parseAuthData_encode_sfx",
            "Webauthn.Cbor.dec_prefix", "Webauthn.Cbor.enough", "Webauthn.Cbor.mono", "Webauthn.parseCbor_prefix"]
LEAN_TARGETS = ["Props.C11"]
SPEC_FILES = ["Spec/Core.lean", "Model/Cbor.lean"]
ASSUMPTIONS = ["CBOR outside the modelled fragment (tags, floats, indefinite lengths, other simple values, non-scalar map keys) is "
               "out of model: excluded from the tie and from the theorems' scope; the Lean CBOR codec is compared with cbor2 in the same run"]
LIB = {"InvalidAuthenticatorDataStructure", "InvalidCBORData"}


def rand_ext(rng, depth=0):
    if rng.random() < 0.04:
        return rng.choice([0.5, 1.5, 1.1, -0.0, 1e300, 65504.0, 3.4028234663852886e+38])     # floats: outside the model, real code only
    t = rng.randrange(0, 9 if depth < 3 else 6)
    if t == 0:
        return rng.choice([0, 1, 23, 24, 255, 256, 65535, 65536, 2 ** 32, 2 ** 64 - 1])
    if t == 1:
        return -rng.choice([1, 24, 25, 256, 65537, 2 ** 32 + 1, 2 ** 64])
    if t == 2:
        return rng.bytes_(rng.randrange(0, 40))
    if t == 3:
        return "".join(rng.choice("abcé€ xyz") for _ in range(rng.randrange(0, 8)))
    if t in (4, 5):
        return rng.choice([True, False, None])
    if t in (6, 7):
        return [rand_ext(rng, depth + 1) for _ in range(rng.randrange(0, 4))]
    return {rng.choice(["a", "b", "credProtect", 1, 2, -1, b"k"]): rand_ext(rng, depth + 1) for _ in range(rng.randrange(0, 4))}


# semantic tags cbor2 has a decoder for (dates, bignums, decimal fractions, bigfloats, shared references, rationals,
# regular expressions, MIME, UUID, sets, IP addresses / networks, self-described CBOR) and some it has none for
TAGS = [0, 1, 2, 3, 4, 5, 28, 29, 30, 35, 36, 37, 100, 256, 258, 260, 261, 1004, 43000, 55799]
TAG_INNERS = [b"\x03", b"\x63abc", b"\x41\x00", b"\x80", b"\xa0", b"\xf6", b"\x82\x01\x02", b"\x82\x01\x00", b"\x50" + bytes(16),
              b"\xf9\x7e\x00", b"\x20", b"\x82\x20\x00", b"\x83\x01\x02\x03",
              # wrongly typed members of decimal fractions / bigfloats / rationals, out-of-range dates, non-text regexps
              b"\x82\x61\x61\x01", b"\x82\x01\x61\x61", b"\x82\xf6\x01", b"\x82\x01\xf6", b"\x82\x41\x00\x01",
              b"\x1a\xff\xff\xff\xff", b"\x1b\xff\xff\xff\xff\xff\xff\xff\xff", b"\x3b\xff\xff\xff\xff\xff\xff\xff\xff",
              b"\x00", b"\x82\x01\x00", b"\x82\x00\x00", b"\xfb\x7f\xf0\x00\x00\x00\x00\x00\x00", b"\x62\x28\x3f",
              # pairs of two texts, exponents / mantissas far outside what a decimal context or a float can hold, NaN members
              b"\x82\x61\x61\x61\x62", b"\x82\x1b\x00\x00\x00\xe8\xd4\xa5\x10\x00\x01", b"\x82\x01\x1b\x00\x00\x00\xe8\xd4\xa5\x10\x00",
              b"\x82\x3b\x00\x00\x00\xe8\xd4\xa5\x10\x00\x01", b"\x82\xf9\x7e\x00\x01", b"\x82\x01\xf9\x7c\x00",
              b"\x82\xc2\x49" + b"\xff" * 9 + b"\x01", b"\x63\x2a\x2a\x2a", b"\x78\x18" + b"2024-13-45T25:61:61+99:99"[:24]]


def tagged(tag, inner):
    return cbor2.dumps(cbor2.CBORTag(tag, 0))[:-1] + inner


def tagged_all():
    """every tag over every payload, bare and as a map member"""
    for tag in TAGS:
        for inner in TAG_INNERS:
            j = tagged(tag, inner)
            yield j
            yield b"\xa1\x61\x6b" + j


def exotic_cbor(rng):
    """CBOR that cbor2 decodes through special paths: semantic tags over wrongly typed content, bignums, fractions,
    half floats, simple values, indefinite lengths, deep nesting, huge declared lengths"""
    t = rng.randrange(12)
    if t == 0:   # tag n over a value of the wrong type
        return tagged(rng.choice(TAGS), rng.choice(TAG_INNERS))
    if t == 1:
        return bytes([0xc0 + rng.randrange(24)]) + rng.bytes_(rng.randrange(0, 6))
    if t == 2:
        return bytes([rng.choice([0x9f, 0xbf, 0x5f, 0x7f])]) + rng.bytes_(rng.randrange(0, 6)) + rng.choice([b"", b"\xff"])
    if t == 3:
        return bytes([rng.choice([0xf8, 0xf9, 0xfa, 0xfb])]) + rng.bytes_(rng.randrange(0, 9))
    if t == 4:
        return bytes([0xe0 + rng.randrange(32)])
    if t == 5:   # deep nesting (kept well below the interpreter's recursion limit)
        d = rng.choice([10, 100, 400, 400, 3000, 6000])     # the deepest exceed the interpreter's recursion limit
        return b"\x81" * d + b"\x00"
    if t == 6:
        d = rng.choice([10, 100, 400, 400, 3000, 6000])     # the deepest exceed the interpreter's recursion limit
        return b"\xa1\x00" * d + b"\x00"
    if t == 7:   # huge declared lengths
        return bytes([rng.choice([0x5b, 0x7b, 0x9b, 0xbb])]) + rng.choice([b"\xff" * 8, b"\x00\x00\x00\x01\x00\x00\x00\x00", b"\x7f" + b"\xff" * 7]) + rng.bytes_(4)
    if t == 8:   # unhashable / odd map keys
        return rng.choice([b"\xa1\x80\x00", b"\xa1\xa0\x00", b"\xa1\x82\x01\x02\x00", b"\xa1\xf9\x7e\x00\x00", b"\xa2\x01\x02\xf5\x03"])
    if t == 9:   # shared references / string references
        return rng.choice([b"\xd8\x1c\x80", b"\xd8\x1d\x00", b"\xd8\x1d\x05", b"\xd9\x01\x00\x80", b"\xd8\x19\x00"])
    if t == 10:  # invalid utf-8 text
        return b"\x62\xc3\x28"
    return rng.bytes_(rng.randrange(1, 12))


def work(tasks, idx):
    res = Result()
    drv = Driver(Oracle()) if work.driver_ok else None
    tie = corr.Tie(res, drv, "eq")
    creds = _auth.creds()
    for seed, n in tasks:
        rng = common.Rng(seed)
        if n == -1:
            # the systematic stream: every semantic tag over every payload, given to parse_cbor itself, as the credential key and
            # as the extension data - refused (or decoded), never with an exception from outside the hierarchy
            from webauthn.helpers import parse_cbor as _pc
            for junk in tagged_all():
                outs = [("parse_cbor", corr.code_outcome(lambda: _pc(junk), lambda r: "ok"))]
                for fl, kw in ((0x41, {"cose": junk}), (0x81, {"ext": junk}), (0xC1, {"cose": creds[0].cose(), "ext": junk})):
                    b = core.auth_data(bytes(32), fl, 1, aaguid=bytes(16), cred_id=b"tagged-cbor-id", **kw)
                    outs.append(("parse_auth_data", cases.code_parse_auth_data(b)))
                for op, code in outs:
                    res.evaluations += 1
                    res.count("tagged:" + corr.kind(code))
                    if code["k"] == "oom" or (code["k"] == "reject" and ("nonlib" in code or code.get("lib") not in LIB)):
                        res.violations.append({"why": f"{op} on tagged CBOR raised {code.get('nonlib') or code.get('lib') or code.get('msg')}: {str(code.get('msg'))[:120]}",
                                               "b": junk.hex(), "match": {"op": op, "rule": "library-exception"}})
                res.nontrivial.add(junk)
            continue
        if n <= -2:
            # the size lattice (deterministic): a field is however long the layout says. Key, credential-id and extension sizes
            # at and around every "round" number a window, buffer or limit could be set to (2^j, 3*2^j, 10^j), each laid out
            # canonically with and without the other optional part, and cut one byte short / extended by one byte.
            part = (-n - 2) % 300      # 0: keys, 1: ids, 2: extensions
            sizes = set()
            for j in range(0, 17):
                for m in (1 << j, 3 << j, 5 << j):
                    sizes.update((m - 1, m, m + 1, m + 24))
            sizes.update(10 ** j + d for j in range(1, 5) for d in (-1, 0, 1))
            top = {0: 70000, 1: 1023, 2: 70000}[part]
            if part == 1:
                sizes.update(range(0, 1024, 1 if n < -100 else 7))
            for L in sorted(x for x in sizes if 0 <= x <= top):
                for with_other in (False, True):
                    rp = hashlib.sha256(b"lattice-%d-%d" % (part, L)).digest()
                    fill = hashlib.shake_256(b"lattice-fill-%d-%d" % (part, L)).digest(max(L, 1))[:L]
                    counter, aaguid = L * 2654435761 % 2 ** 32, hashlib.md5(b"%d" % L).digest()
                    cose, cid = creds[L % len(creds)].cose(), hashlib.shake_256(b"id").digest(16 + L % 48)
                    extv = {"credProtect": 2}
                    if part == 0:
                        if L < 1:
                            continue
                        cose = cbor2.dumps({1: 3, 3: -257, -1: bytes([fill[0] | 0x80]) + fill[1:], -2: b"\x01\x00\x01"})
                        flags = 0x41 | (0x80 if with_other else 0)
                    elif part == 1:
                        cid = fill
                        flags = 0x45 | (0x80 if with_other else 0)
                    else:
                        extv = {"credBlob": fill, "credProtect": 1}
                        flags = 0x81 | (0x40 if with_other else 0)
                    ext = cbor2.dumps(extv, canonical=True) if flags & 0x80 else None
                    if not flags & 0x40:
                        cose = None
                    ad = core.auth_data(rp, flags, counter, aaguid=aaguid, cred_id=cid, cose=cose, ext=ext)
                    exp = {"rp_id_hash": rp.hex(), "flags": {"up": bool(flags & 1), "uv": bool(flags & 4), "be": bool(flags & 8),
                                                             "bs": bool(flags & 16), "at": bool(flags & 64), "ed": bool(flags & 128)},
                           "sign_count": str(counter),
                           "attested": {"aaguid": aaguid.hex(), "credential_id": cid.hex(), "public_key": cose.hex()} if cose else None,
                           "extensions": ext.hex() if ext else None}
                    for label, b in (("canonical", ad), ("truncated", ad[:-1]), ("suffix", ad + b"\x00")):
                        code = cases.code_parse_auth_data(b)
                        res.evaluations += 1
                        res.count("lattice-%s:%s:%s" % (("key", "id", "ext")[part], label, corr.kind(code)))
                        if len(b) <= 12000 and label == "canonical":
                            tie.check({"op": "parse_auth_data", "b": b.hex()}, code, label=["lattice", label, flags])
                        how = {"part": ("key", "id", "ext")[part], "size": L, "with_other_part": with_other, "len": len(b),
                               "b_head": b[:120].hex(), "b_sha256": hashlib.sha256(b).hexdigest()}
                        if len(b) <= 4096:
                            how["b"] = b.hex()
                        if code["k"] == "oom" or (code["k"] == "reject" and ("nonlib" in code or code.get("lib") not in LIB)):
                            res.violations.append({"why": f"parser raised {code.get('nonlib') or code.get('lib')}: {str(code.get('msg'))[:120]}", **how,
                                                   "match": {"op": "parse_auth_data", "rule": "library-exception"}})
                        elif label == "canonical" and (code["k"] != "accept" or code["record"] != exp):
                            res.violations.append({"why": f"canonical authenticator data with a {how['part']} part of {L} bytes not parsed exactly: "
                                                          f"{str({k: v for k, v in code.items() if k != 'record'})[:200]}", **how,
                                                   "match": {"op": "parse_auth_data", "rule": "exact", "size": "lattice"}})
                        elif label != "canonical" and code["k"] == "accept":
                            res.violations.append({"why": f"{label} authenticator data accepted", **how,
                                                   "match": {"op": "parse_auth_data", "rule": label, "size": "lattice"}})
                    res.nontrivial.add(ad[:64] + bytes([part]) + L.to_bytes(4, "big"))
            continue
        for _ in range(n):
            c = rng.choice(creds)
            flags = rng.randrange(256)
            rp, counter, aaguid = rng.bytes_(32), rng.randrange(2 ** 32), rng.bytes_(16)
            cid = rng.bytes_(rng.choice([0, 1, 16, 32, 64, 255, 256, 1023]))
            if rng.random() < 0.05:     # an id containing the byte pattern the Ed25519 work-around looks for (at the key position only)
                cid = rng.bytes_(rng.randrange(0, 20)) + bytes.fromhex("a301634f4b500327206745643235353139") + rng.bytes_(rng.randrange(0, 20))
            cose = c.cose() if flags & 0x40 else None
            if cose is not None and rng.random() < 0.04:
                # large keys (RSA-8192 / RSA-16384 sized moduli): the key is however long its CBOR says
                cose = cbor2.dumps({1: 3, 3: -257, -1: rng.bytes_(rng.choice([960, 1024, 1025, 2048])), -2: b"\x01\x00\x01"})
            extv = None
            if flags & 0x80:
                # registered extension identifiers with arbitrary (also out-of-range) values: the parser's job is to return the
                # bytes, not to interpret them
                names = rng.sample(["ext", "credProtect", "credBlob", "hmac-secret", "minPinLength", "largeBlobKey", "uvm", "thirdPartyPayment"],
                                   rng.randrange(0, 4))
                extv = {nm: (rng.choice([0, 1, 2, 3, 4, 255, -1, True, None, "x", b"\x00"]) if rng.random() < 0.5 else rand_ext(rng)) for nm in names}
            ext = cbor2.dumps(extv) if extv is not None else None
            if rng.random() < 0.05:
                # the work-around's byte pattern planted elsewhere in the layout: inside the RP ID hash, or starting in the
                # counter and running on through the AAGUID
                bad = bytes.fromhex("a301634f4b500327206745643235353139")
                k = rng.choice([rng.randrange(0, 16), 33, 34, 35, 36])
                if k < 16:
                    rp = rp[:k] + bad + rp[k + 17:]
                else:
                    hdr = bytearray(counter.to_bytes(4, "big") + aaguid)
                    hdr[k - 33:k - 33 + 17] = bad
                    counter, aaguid = int.from_bytes(hdr[:4], "big"), bytes(hdr[4:20])
            ad = core.auth_data(rp, flags, counter, aaguid=aaguid, cred_id=cid, cose=cose, ext=ext)
            mode = rng.random()
            label = "canonical"
            b = ad
            if rng.random() < 0.15:
                # exotic CBOR where the credential key or the extensions are expected
                junk = exotic_cbor(rng)
                if rng.random() < 0.5:
                    b = core.auth_data(rp, flags | 0x40, counter, aaguid=aaguid, cred_id=cid, cose=junk, ext=ext if flags & 0x80 else None)
                else:
                    b = core.auth_data(rp, flags | 0x80, counter, aaguid=aaguid, cred_id=cid, cose=cose, ext=junk)
                mode, label = 1.0, "exotic-cbor"
            if mode < 0.25:
                b, label = ad[:rng.randrange(0, len(ad))], "truncated"
            elif mode < 0.45:
                b, label = ad + rng.bytes_(rng.randrange(1, 6)), "suffix"
            elif mode < 0.5:
                b, label = rng.bytes_(rng.randrange(0, 120)), "random"
            if label == "exotic-cbor" and rng.random() < 0.3:
                from webauthn.helpers import parse_cbor as _pc
                codec = corr.code_outcome(lambda: _pc(junk), lambda r: "ok")
                res.evaluations += 1
                if codec["k"] == "reject" and "nonlib" in codec:
                    res.violations.append({"why": f"parse_cbor raised {codec['nonlib']}: {codec.get('msg')}", "b": junk.hex(),
                                           "match": {"op": "parse_cbor", "rule": "library-exception"}})
            code = cases.code_parse_auth_data(b)
            res.evaluations += 1
            deep = b.count(b"\x81" * 900) > 0 or b.count(b"\xa1\x00" * 450) > 0
            if deep:
                # nesting beyond the interpreter's recursion limit: the model has no such limit, so only the property is judged
                # (a library exception, nothing else)
                res.count("deep-nesting:" + corr.kind(code))
            else:
                tie.check({"op": "parse_auth_data", "b": b.hex()}, code, label=[label, flags])
            res.nontrivial.add(b)
            res.count(label + ":" + corr.kind(code))
            if code["k"] == "oom":
                res.violations.append({"why": "parser let a RecursionError escape (deeply nested CBOR must be refused with a library exception)",
                                       "b": b.hex()[:200] + "...", "match": {"op": "parse_auth_data", "rule": "library-exception", "exception": "RecursionError"}})
            if code["k"] == "reject" and ("nonlib" in code or code.get("lib") not in LIB):
                res.violations.append({"why": f"parser raised {code.get('nonlib') or code.get('lib')}: {code.get('msg')}", "b": b.hex(),
                                       "match": {"op": "parse_auth_data", "rule": "library-exception"}})
            if label == "canonical":
                # the layout of the `exact` theorem (encodeAuthData) is the simulator's layout
                tie.check({"op": "encode_auth_data", "rp": rp.hex(), "flags": flags, "counter": counter,
                           "aaguid": aaguid.hex() if cose else None, "cred_id": cid.hex() if cose else None,
                           "key": cose.hex() if cose else None, "ext": ext.hex() if ext else None},
                          {"k": "accept", "record": ad.hex()}, label=["layout", flags])
                exp = {"rp_id_hash": rp.hex(), "flags": {"up": bool(flags & 1), "uv": bool(flags & 4), "be": bool(flags & 8),
                                                         "bs": bool(flags & 16), "at": bool(flags & 64), "ed": bool(flags & 128)},
                       "sign_count": str(counter),
                       "attested": {"aaguid": aaguid.hex(), "credential_id": cid.hex(), "public_key": cose.hex()} if cose else None,
                       "extensions": ext.hex() if ext else None}
                if code["k"] != "accept" or code["record"] != exp:
                    res.violations.append({"why": f"canonical authenticator data not parsed exactly: {str(code)[:300]}", "b": b.hex(),
                                           "match": {"op": "parse_auth_data", "rule": "exact"}})
            elif label in ("truncated", "suffix") and code["k"] == "accept":
                res.violations.append({"why": f"{label} authenticator data accepted", "b": b.hex(), "original": ad.hex(),
                                       "match": {"op": "parse_auth_data", "rule": label}})
            if len(res.samples) < 4:
                res.samples.append({"kind": label, "flags": flags, "hex": b.hex()[:160], "outcome": corr.kind(code)})
            # the Lean CBOR codec against cbor2 on the extension / key bytes themselves
            if ext is not None and rng.random() < 0.3:
                code2 = cases.code_cbor_roundtrip(ext)
                res.evaluations += 1
                tie.check({"op": "cbor_roundtrip", "b": ext.hex()}, code2, label=["cbor"])
    if drv:
        drv.close()
    return res


def run(ctx, res):
    n = 1200 if ctx.quick() else 30000
    tasks = [(ctx.seed * 15485863 + i, n) for i in range(16)] + [(0, -1)] + [(0, -2 - p - (0 if ctx.quick() else 300)) for p in range(3)]
    work.driver_ok = ctx.driver_ok
    corr.merge(res, corr.parallel(work, tasks))
    res.rule = ("authenticator data laid out per the spec over all flag bytes, RP ID hashes, counters, AAGUIDs, credential-id lengths "
                "{0,1,16,32,64,255,256,1023}, every key type, nested extension maps (ints, byte/text strings, booleans, null, arrays, "
                "maps); every canonical input must parse to exactly its fields; truncations at random points, appended suffixes and "
                "random byte strings must be refused with a library exception; distinct = the byte string")
