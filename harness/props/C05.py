"""C05 — Completeness and fidelity: conformant ceremonies accepted, reported exactly."""
import cbor2

from .. import cases, corr, faults, spec
from ..check import Result
from ..driver import Driver
from ..oracle import Oracle
from ..sim import attest, core, keys, tpm as simtpm
from . import _reg, _auth
from .C03 import ATT_KEYS, TPM_NAME_ALGS

ID = "C05"
P = "Webauthn.Props.C05."
THEOREMS = [P + n for n in ("auth_complete", "reg_complete", "dispatch_complete", "vendor_ids", "curves_complete")]
LEAN_TARGETS = ["Props.C05"]
SPEC_FILES = ["Spec/Core.lean"]
ASSUMPTIONS = ["honest-world hypotheses (the libraries parse what was rendered and verify what was signed) are explicit in the theorems",
               "tie direction: whenever the model accepts, the real code accepts with an equal record"]
FLAG_SETS = [core.UP, core.UP | core.UV, core.UP | core.BE, core.UP | core.UV | core.BE | core.BS, core.UP | core.UV | 0x02 | 0x20]
COUNTERS = [0, 1, 2 ** 31 - 1, 2 ** 31, 2 ** 32 - 1]
ID_LENS = [1, 2, 16, 255, 256, 1023]
EXTS = [None, cbor2.dumps({"credProtect": 2}), cbor2.dumps({"hmac-secret": True, "x": [1, {"y": b"z", "n": None}], "m": {"k": -5}})]
CD = [{}, {"extra": {"crossOrigin": False, "topOrigin": "https://top.example", "unknown": [1, 2, {"a": None}]}},
      {"token_binding": {"status": "supported"}}, {"token_binding": {"status": "present", "id": "abc"}}, {"token_binding": "unused"},
      # the same client data written differently: whitespace, \u escapes, another member order
      {"style": "pretty"}, {"style": "escaped"}, {"order": ("origin", "challenge", "type"), "cross_origin": True}]


def origin_for(rp_id, k):
    """origins a conformant client reports: web origins with and without a port, and the platform forms of native apps"""
    return ["https://" + rp_id, "https://" + rp_id + ":8443", "android:apk-key-hash:0vxKQK0dklP_9SoqqZ5iNlSfMd7fXZ1WBnx1yZLj6ks",
            "ios:bundle-id:com.example.app", "https://" + rp_id][k % 5]


RP_IDS = ["example.com", "Login.Example.org", "b\u00fccher.example", "localhost", "xn--bcher-kva.example", "a.b.c.d.example"]


def work(tasks, idx):
    res = Result()
    drv = Driver(Oracle()) if work.driver_ok else None
    tie = corr.Tie(res, drv, "model_accept_implies_code_accept")
    cs = _auth.creds()
    for t in tasks:
        if t[0] == "auth":
            _, ci, flags, counter, ext, cdi, stored, uvreq = t
            c = cs[ci]
            if uvreq:
                flags |= core.UV
            rp_id = RP_IDS[(ci + counter + flags) % len(RP_IDS)]      # whatever string the RP uses as its id
            a, e, _ = faults.build_assertion(c, flags=flags, counter=counter, stored=stored, require_uv=uvreq, ext=ext,
                                             cd_kwargs=CD[cdi], rp_id=rp_id, origin=origin_for(rp_id, ci + counter + cdi))
            # unsigned envelope members a conformant client sends: a user handle of 1-64 bytes (discoverable credentials), an
            # attachment; and the three input forms
            k = ci + counter + cdi + flags
            uh_len = [None, 1, 16, 32, 63, 64, 64][k % 7]
            if uh_len is not None:
                a["user_handle"] = bytes((k + i) % 256 for i in range(uh_len))
            a["attachment"] = [None, "platform", "cross-platform"][k % 3]
            form = ["record", "dict", "text"][k % 3]
            code = cases.run_auth(a, e, form)
            res.evaluations += 1
            tie.check(cases.auth_case(a, e), code, label=list(t))
            res.nontrivial.add(t)
            res.count("auth:" + corr.kind(code))
            res.count("auth-form:" + form)
            exp = {"credential_id": c.cred_id.hex(), "new_sign_count": str(counter),
                   "credential_device_type": "multi_device" if flags & core.BE else "single_device",
                   "credential_backed_up": bool(flags & core.BS), "user_verified": bool(flags & core.UV)}
            if code["k"] != "accept" or code["record"] != exp:
                res.violations.append({"why": f"conformant assertion not accepted / misreported: {code}", "case": cases.auth_case(a, e),
                                       "expected": exp, "match": {"op": "verify_auth", "conformant": True}})
            continue
        _, fmt, choice, att, flags, counter, idlen, exti, cdi, variant = t
        kw = {"flags": flags | core.AT, "counter": counter, "ext": EXTS[exti], "cd_kwargs": CD[cdi]}
        if att is not None:
            kw["att_key"], kw["att_alg"] = keys.get(att[0], att[1]), att[2]
        vendor = None
        if fmt == "tpm":
            kw["tpm_name_alg"] = TPM_NAME_ALGS[variant % 4]
            vendor = kw["tpm_vendor"] = simtpm.TCG_VENDOR_IDS[variant % len(simtpm.TCG_VENDOR_IDS)]
            kw["tpm_san_extra_dnsname_first"] = variant % 5 == 2     # an extra dNSName before the directoryName is still conformant
            kw["tpm_eku_extra"] = [None, "first", "last", None][variant % 4]   # the EKU extension "MUST contain" the AIK purpose
        if fmt in attest.CHAIN_FORMATS and fmt != "fido-u2f":
            kw["n_intermediates"] = variant % 3
        if fmt in attest.CHAIN_FORMATS and fmt != "android-key" and variant % 5 in (1, 3):
            # after a CA key roll-over the RP's anchor list holds two root certificates with one name (told apart by their key
            # identifiers); the response chains to one of them
            kw["stale_same_name_anchor"] = "first" if variant % 5 == 1 else "last"
        # the same maps written differently: member order of the attestation object and of the COSE_Key, additional members
        kw["attobj_order"] = [None, "reversed", "rotated"][variant % 3]
        if variant % 4 == 1:
            kw["attobj_extra"] = {"x-future-member": [1, 2, 3]}
        cose_var = {"cose_order": [None, "reversed", "rotated"][(variant // 3) % 3],
                    "cose_extra": {-70001: b"vendor", 4: [2]} if variant % 5 == 4 and fmt != "fido-u2f" else None}
        kw["rp_id"] = RP_IDS[variant % len(RP_IDS)]
        kw["origin"] = origin_for(kw["rp_id"], variant)
        cred_id = bytes((variant + i) % 256 for i in range(idlen))
        if variant % 6 == 1 and idlen >= 17:
            # a credential id that happens to contain the byte pattern the parser's Ed25519 work-around looks for
            bad = bytes.fromhex("a301634f4b500327206745643235353139")
            cred_id = (cred_id[: idlen - 17 - variant % 3] + bad + cred_id[: variant % 3])[:idlen] if idlen > 17 else bad
        if variant % 7 == 3 and fmt != "fido-u2f":
            # fidelity only: the envelope's rawId/id name something else than the attested credential id; the record must
            # still report what the authenticator data says
            kw["envelope_id"] = bytes((variant * 3 + i) % 251 for i in range(16))
        b = _reg.build(fmt, choice, (), cred_id=cred_id, aaguid=bytes((variant * 13 + 7 * i + 1) % 256 for i in range(16)),
                       cose_var=cose_var, **kw)
        if b is None:
            continue
        req, r = b
        e = _reg.expectation(req, r.roots, require_uv=bool(flags & core.UV))
        if e.get("roots") and variant % 3 != 0:
            # the RP's anchors as PEM files are found in the wild (RFC 7468 allows text around the armour): a leading blank line,
            # a comment or an `openssl x509 -text` preamble before it, CRLF line ends, text after it
            def respell(pem, k):
                pem = bytes(pem)
                return [b"\n" + pem, b"# Sim Attestation Root\n" + pem, pem.replace(b"\n", b"\r\n"),
                        b"Certificate:\n    Data:\n        Version: 3 (0x2)\n" + pem, pem + b"\ntrailing text\n",
                        b"  \n\n" + pem][k % 6]
            e["roots"] = {f: [respell(p, variant + i) for i, p in enumerate(v)] for f, v in e["roots"].items()}
        if variant % 4 == 2:
            # the RP's allow-list also names identifiers the library has no member for (ES384, ES256K)
            e["algs"] = [-47] + list(cases.ALL_ALGS) + [-35]
        c = r.credential
        code = cases.run_reg(c, e)
        res.evaluations += 1
        tie.check(cases.reg_case(c, e), code, label=[str(x) for x in t])
        res.nontrivial.add(t)
        res.count("fmt:" + fmt)
        exp = spec.reg_expected_record(c)
        if code["k"] != "accept" or code["record"] != exp:
            diff = None if code["k"] != "accept" else {k: (code["record"].get(k), v) for k, v in exp.items() if code["record"].get(k) != v}
            res.violations.append({"why": f"conformant {fmt} registration not accepted / misreported: {code.get('msg') or diff}",
                                   "case": cases.reg_case(c, e), "fmt": fmt, "vendor": vendor,
                                   "match": {"op": "verify_reg", "conformant": True, "fmt": fmt, **({"vendor": vendor} if code["k"] != "accept" and vendor and "Manufacturer" in (code.get("msg") or "") else {})}})
        if len(res.samples) < 4:
            res.samples.append({"fmt": fmt, "credential": choice, "attestation_key": att, "flags": flags, "counter": counter,
                                "id_len": idlen, "vendor": vendor, "outcome": corr.kind(code)})
    if drv:
        drv.close()
    return res


def run(ctx, res):
    rng = ctx.rng
    tasks = []
    ncreds = len(_auth.creds())
    for ci in range(ncreds):
        for flags in FLAG_SETS:
            for _ in range(2 if ctx.quick() else 12):
                counter = rng.choice(COUNTERS)
                stored = 0 if counter == 0 else rng.choice([0, counter - 1])
                tasks.append(("auth", ci, flags, counter, rng.choice(EXTS), rng.randrange(len(CD)), stored, bool(flags & core.UV) and rng.random() < 0.5))
    for fmt in _reg.FORMATS:
        choices = _reg.cred_choices(fmt)
        atts = ATT_KEYS.get(fmt, [None])
        n = 40 if ctx.quick() else 600
        if fmt == "tpm":
            n = max(n, 2 * len(simtpm.TCG_VENDOR_IDS))
        for i in range(n):
            tasks.append(("reg", fmt, choices[i % len(choices)], atts[i % len(atts)], rng.choice(FLAG_SETS), rng.choice(COUNTERS),
                          rng.choice(ID_LENS), rng.randrange(len(EXTS)), rng.randrange(len(CD)), i))
    work.driver_ok = ctx.driver_ok
    corr.merge(res, corr.parallel(work, tasks))
    res.rule = ("conformant ceremonies from the simulator over format x credential algorithm/curve x attestation-key algorithm x flags "
                "x counter boundary x credential-id length {1,2,16,255,256,1023} x extension map x client-data variation x every TCG "
                "vendor id (all 29, each at least twice) x policy; every case must be accepted with exactly the record the authenticator "
                "data dictates; distinct = the parameter tuple")
