"""C18 — Stateless API: no history, aliasing or thread interference."""
import copy, dataclasses, enum, importlib, pkgutil, threading

import webauthn

from .. import cases, corr, common, faults
from ..check import Result
from ..driver import Driver, has_surrogate
from ..oracle import Oracle
from ..sim import attest, core
from . import _auth, _opts, _reg

ID = "C18"
P = "Webauthn.Props.C18."
THEOREMS = [P + n for n in ("module_cells_reviewed", "history_independent", "same_call_same_outcome", "interleaving",
                            "schedules_agree", "roots_built_per_call")]
LEAN_TARGETS = ["Props.C18"]
SPEC_FILES = ["Spec/Core.lean"]
ASSUMPTIONS = ["PARTIAL: the model's API functions are pure, so hidden state can only be exhibited on the real code: histories with "
               "in-place mutation of earlier results, identity walks, argument snapshots and 16 threads are the tie; interpreter and "
               "native-library (OpenSSL, cryptography) thread safety is runtime behaviour outside any model",
               "the list of module-level mutable objects is regenerated on every run and must equal the reviewed list",
               "the clock read by the SafetyNet timestamp check is held fixed while histories run (the clock is an input of the API, "
               "not state; C17 is the check that moves it)"]


def module_objects():
    """every module-level list / dict / set / bytearray of webauthn.*, plus the mutable objects nested in them"""
    top, nested = {}, {}
    for m in pkgutil.walk_packages(webauthn.__path__, "webauthn."):
        mod = importlib.import_module(m.name)
        for name, obj in vars(mod).items():
            if name.startswith("__"):
                continue
            if isinstance(obj, (list, dict, set, bytearray)):
                top[id(obj)] = (m.name, name, obj)
    for _, (mn, name, obj) in list(top.items()):
        for x in walk(obj):
            if id(x) not in top:
                nested[id(x)] = (mn, name + "[...]", x)
    return top, nested


def walk(obj, seen=None, depth=0):
    """mutable objects reachable from obj (containers and dataclass instances)"""
    seen = seen if seen is not None else set()
    if id(obj) in seen or depth > 8:
        return
    if isinstance(obj, (str, bytes, int, float, bool, type(None), enum.Enum, memoryview)):
        return
    seen.add(id(obj))
    if isinstance(obj, (list, tuple, set)):
        if not isinstance(obj, tuple):
            yield obj
        for x in obj:
            yield from walk(x, seen, depth + 1)
    elif isinstance(obj, dict):
        yield obj
        for k, v in obj.items():
            yield from walk(v, seen, depth + 1)
    elif dataclasses.is_dataclass(obj) and not isinstance(obj, type):
        yield obj
        for f in dataclasses.fields(obj):
            yield from walk(getattr(obj, f.name), seen, depth + 1)
    elif hasattr(obj, "__dict__") and type(obj).__module__.startswith("webauthn"):
        yield obj
        for v in vars(obj).values():
            yield from walk(v, seen, depth + 1)


def snapshot_modules(top):
    return {k: repr(corr.canon(v[2])) for k, v in top.items()}


# --------------------------------------------------------------------------------------------- call pool

def build_pool(rng, quick):
    """call specs with deterministic outcomes: ('kind', builder) where builder() -> (callable taking fresh args, fresh args, canon)"""
    pool = []
    cs = _auth.creds()
    for ci in range(0, len(cs), 3 if quick else 1):
        for fs in [(), ("A.chal-other",), ("A.up-clear",), ("A.sig-other-key",)]:
            a, e, _ = faults.build_assertion(cs[ci], flags=core.UP | core.UV, faults=fs, origin_list=["https://example.com", "https://b.example"])
            pool.append(("verify_auth", (a, e)))
    for fmt in _reg.FORMATS:
        ch = _reg.cred_choices(fmt)[0]
        for fs in [(), ("R.chal-other",), ("R.rpid-other",)]:
            b = _reg.build(fmt, ch, fs, n_intermediates=1 if fmt in attest.CHAIN_FORMATS and fmt != "fido-u2f" else 0)
            if b is None:
                continue
            req, r = b
            pool.append(("verify_reg", (r.credential, _reg.expectation(req, r.roots, algs=list(cases.ALL_ALGS)))))
    # rejection paths that handle the RP's own lists: a credential algorithm that is not allowed, with the RP's list in a
    # non-sorted order, and with the library's default list (no list passed)
    for fmt, ch in (("none", ("p256", 0, core.ES256)), ("packed-self", ("rsa", 0, core.RS1)), ("none", ("rsa", 0, core.RS1))):
        b = _reg.build(fmt, ch, ())
        if b is not None:
            req, r = b
            pool.append(("verify_reg", (r.credential, _reg.expectation(req, r.roots, algs=[-8, -259, -36, -257] if ch[2] != core.RS1 else [-7, -259, -8]))))
            pool.append(("verify_reg", (r.credential, dict(_reg.expectation(req, r.roots), algs=None))))
    # other RP IDs: a ceremony for b.example under its own id, the same response under a.example, and under an RP ID that cannot
    # be encoded (whatever that raises, it raises every time)
    a, e, _ = faults.build_assertion(cs[0], flags=core.UP | core.UV, rp_id="b.example", origin="https://b.example")
    for rp in ("b.example", "a.example", "\udc80.example"):
        pool.append(("verify_auth", (a, dict(e, rp_id=rp))))
    b = _reg.build("none", _reg.cred_choices("none")[0], (), rp_id="b.example", origin="https://b.example")
    if b is not None:
        req, r = b
        for rp in ("b.example", "a.example", "\udc80.example"):
            pool.append(("verify_reg", (r.credential, dict(_reg.expectation(req, r.roots), rp_id=rp))))
    for i in range(6 if quick else 20):
        a = _opts.rand_reg_args(rng)
        a["challenge"], a["user_id"] = rng.bytes_(32), rng.bytes_(16)      # deterministic outcome
        if i % 2 == 0:
            a.pop("supported_algs", None)                                  # default algorithm list in play
        pool.append(("gen_reg", a))
        b = _opts.rand_auth_args(rng)
        b["challenge"] = rng.bytes_(32)
        if i % 3 == 0:
            b.pop("allow_credentials", None)                               # default (absent) credential list in play
        pool.append(("gen_auth", b))
    # every optional argument left at its default: whatever the library substitutes for an absent list / selection / hint
    # list is what an earlier caller gets back and may fill in
    pool.append(("gen_reg", {"rp_id": "example.com", "rp_name": "Example", "user_name": "alice", "timeout": 60000, "attestation": "none",
                             "challenge": rng.bytes_(32), "user_id": rng.bytes_(16)}))
    pool.append(("gen_auth", {"rp_id": "example.com", "timeout": 60000, "user_verification": "preferred", "challenge": rng.bytes_(32)}))
    return pool


def execute(spec):
    """run one call with freshly built argument objects; returns (canonical outcome, raw result, args before, args after)"""
    kind, x = spec
    if kind == "verify_auth":
        a, e = x
        e2 = copy.deepcopy(e)
        before = copy.deepcopy(e2)
        cred = cases.auth_record(a)
        out = corr.code_outcome(lambda: webauthn.verify_authentication_response(
            credential=cred, expected_challenge=e2["challenge"], expected_rp_id=e2["rp_id"], expected_origin=e2["origin"],
            credential_public_key=e2["public_key"], credential_current_sign_count=e2["stored_count"],
            require_user_verification=e2["require_uv"]), safe(corr.canon))
        return strip(out), raw(out), before, e2
    if kind == "verify_reg":
        c, e = x
        from webauthn.helpers.structs import AttestationFormat
        from webauthn.helpers.cose import COSEAlgorithmIdentifier as A
        e2 = copy.deepcopy(e)
        algs = None if e2["algs"] is None else [A(v) if v in A._value2member_map_ else v for v in e2["algs"]]
        roots = {AttestationFormat(k): list(v) for k, v in (e2.get("roots") or {}).items()}
        # the RP's trust-anchor mapping in the shapes an RP may hold it: a plain dict, an OrderedDict, a defaultdict(list) -
        # and with an entry for some *other* format, so that the lookup for this response's format misses
        execute.n = getattr(execute, "n", 0) + 1
        shape = execute.n % 4
        if shape in (1, 2, 3):
            other = AttestationFormat.TPM if AttestationFormat.TPM not in roots else AttestationFormat.APPLE
            if other not in roots:
                roots[other] = [UNRELATED_ROOT_PEM]
        if shape == 2:
            import collections
            roots = collections.defaultdict(list, roots)
        elif shape == 3:
            import collections
            roots = collections.OrderedDict(roots)
        held = {"origin": e2["origin"], "algs": algs, "roots": roots}
        before = copy.deepcopy(held)
        cred = cases.reg_record(c)
        out = corr.code_outcome(lambda: webauthn.verify_registration_response(
            credential=cred, expected_challenge=e2["challenge"], expected_rp_id=e2["rp_id"], expected_origin=held["origin"],
            require_user_verification=False, pem_root_certs_bytes_by_fmt=held["roots"] or None,
            **({} if held["algs"] is None else {"supported_pub_key_algs": held["algs"]})),
            safe(corr.canon))
        return strip(out), raw(out), before, held
    if kind == "gen_reg":
        out = corr.code_outcome(lambda: _opts.call_gen_reg(x), safe(_opts.canon_reg))
        return strip(out), raw(out), None, None
    out = corr.code_outcome(lambda: _opts.call_gen_auth(x), safe(_opts.canon_auth))
    return strip(out), raw(out), None, None


def _unrelated_root():
    from ..sim import ca, keys
    from cryptography.hazmat.primitives import serialization
    k = keys.get("p384", 2)
    return ca.make_cert("Sim Unrelated Root For Another Format", None, k, k.public_key(), ca=True).public_bytes(serialization.Encoding.PEM)


UNRELATED_ROOT_PEM = _unrelated_root()


def safe(canon):
    """a canonicaliser that cannot crash on a result corrupted through shared state"""
    def f(r):
        try:
            return (canon(r), r)
        except Exception as ex:
            return (f"<result cannot be canonicalised: {type(ex).__name__}: {ex}>", r)
    return f


def strip(out):
    if out["k"] == "accept":
        return {"k": "accept", "record": out["record"][0]}
    return {"k": out["k"], "class": out.get("lib") or out.get("nonlib")}


def raw(out):
    return out["record"][1] if out["k"] == "accept" else None


def vandalise(rng, result):
    """what an earlier caller may do to the object it was given back"""
    if result is None:
        return
    for obj in list(walk(result)):
        try:
            if isinstance(obj, list):
                r = rng.random()
                if not obj:
                    obj.append("junk")            # an empty list can only be filled in
                elif r < 0.4:
                    obj.clear()
                elif r < 0.7:
                    obj.append(obj[0])
                else:
                    obj.pop()
            elif isinstance(obj, dict):
                obj.clear()
            elif dataclasses.is_dataclass(obj):
                for f in dataclasses.fields(obj):
                    v = getattr(obj, f.name)
                    if isinstance(v, bool):
                        setattr(obj, f.name, not v)
                    elif isinstance(v, int) and not isinstance(v, enum.Enum):
                        setattr(obj, f.name, v + 1)
                    elif isinstance(v, enum.Enum) and rng.random() < 0.5:
                        setattr(obj, f.name, list(type(v))[0])
                    elif isinstance(v, str) and not isinstance(v, enum.Enum):
                        setattr(obj, f.name, v + "-mutated")
        except Exception:
            pass


class _HeldClock:
    """stands in for the `time` module inside verify_safetynet_timestamp and the oracle while histories run: the clock
    is an *input* of the API, not state; holding it makes 'the same call' mean the same call (a SafetyNet response is
    only valid for +-10 s, histories of the thorough tier run for a minute)"""

    def __init__(self, t):
        self.t = t

    def time(self):
        return self.t


def run(ctx, res):
    import time as _time
    import sys
    import webauthn.helpers                                                       # noqa: F401 (loads the submodule)
    vst = sys.modules["webauthn.helpers.verify_safetynet_timestamp"]            # the attribute of that name is the function
    from .. import oracle as _oracle
    held = _HeldClock(_time.time())
    saved = (vst.time, _oracle.time)
    vst.time = held
    _oracle.time = held
    try:
        _run(ctx, res)
    finally:
        vst.time, _oracle.time = saved


def _run(ctx, res):
    rng = ctx.rng
    top, nested = module_objects()
    module_ids = dict(top)
    module_ids.update(nested)
    snap0 = snapshot_modules(top)
    pool = build_pool(rng, ctx.quick())
    # reference outcomes: each call on its own, before any result is tampered with
    reference = []
    for spec in pool:
        out, result, before, after = execute(spec)
        reference.append(out)
        res.evaluations += 1
    drv = Driver(Oracle()) if ctx.driver_ok else None
    tie = corr.Tie(res, drv, "eq")
    for i, spec in enumerate(pool):   # the model's history-free outcome
        if spec[0] in ("verify_auth", "verify_reg") and has_surrogate(spec[1][1]["rp_id"]):
            continue                  # not expressible in the model's strings; judged on the real code by the histories
        if spec[0] == "verify_auth":
            tie.check(cases.auth_case(*spec[1]), cases.run_auth(*spec[1]), label=["pool", i])
        elif spec[0] == "verify_reg":
            tie.check(cases.reg_case(*spec[1]), cases.run_reg(*spec[1]), label=["pool", i])
    # every call repeated immediately (three times in a row): the second and third outcome are the first
    for idx, spec in enumerate(pool):
        for rep in range(3):
            out, result, before, after = execute(spec)
            res.evaluations += 1
            if out != reference[idx]:
                res.violations.append({"why": f"a {spec[0]} call repeated immediately gives another outcome the {rep + 1}. time: {str(out)[:160]} instead of {str(reference[idx])[:160]}",
                                       "history": [spec[0]] * (rep + 1), "alone": reference[idx], "in_history": out,
                                       "case": (cases.auth_case(*spec[1]) if spec[0] == "verify_auth" else cases.reg_case(*spec[1])) if spec[0].startswith("verify") and not has_surrogate(spec[1][1]["rp_id"]) else None,
                                       "match": {"op": spec[0], "rule": "history"}})
                break
    # histories
    n_hist, length = (200, 30) if ctx.quick() else (4000, 30)
    for h in range(n_hist):
        seq = [rng.randrange(len(pool)) for _ in range(length)]
        for pos, idx in enumerate(seq):
            out, result, before, after = execute(pool[idx])
            res.evaluations += 1
            if out != reference[idx]:
                res.violations.append({"why": f"outcome of a {pool[idx][0]} call differs at position {pos} of a history from its outcome alone",
                                       "history": [pool[j][0] for j in seq[:pos + 1]], "alone": reference[idx], "in_history": out,
                                       "match": {"op": pool[idx][0], "rule": "history"}})
            if before is not None and corr.canon(before) != corr.canon(after):
                res.violations.append({"why": f"{pool[idx][0]} modified an argument it was passed", "before": corr.canon(before),
                                       "after": corr.canon(after), "match": {"op": pool[idx][0], "rule": "argument-modified"}})
            if result is not None:
                shared = [module_ids[id(o)][:2] for o in walk(result) if id(o) in module_ids]
                if shared:
                    res.violations.append({"why": f"the result of {pool[idx][0]} references module-level objects {sorted(set(shared))}",
                                           "cells": sorted(set(shared)),
                                           "match": {"op": "gen_reg_options" if pool[idx][0] == "gen_reg" else pool[idx][0],
                                                     "cell": sorted(set(shared))[0][1].split("[")[0]}})
                if rng.random() < 0.7:
                    vandalise(rng, result)
        res.nontrivial.add(tuple(seq))
    res.count("histories", n_hist)
    if snapshot_modules(top) != snap0:
        changed = [top[k][:2] for k in top if snapshot_modules(top)[k] != snap0[k]]
        res.violations.append({"why": f"module-level objects changed during the run: {changed}", "match": {"op": "module-state", "cell": changed[0][1]}})
    # threads: 16 threads, shuffled copies of the pool
    errors = []
    rounds = 2 if ctx.quick() else 20

    def worker(order):
        try:
            for _ in range(rounds):
                for idx in order:
                    out, _, before, after = execute(pool[idx])
                    if out != reference[idx]:
                        errors.append((pool[idx][0], reference[idx], out))
                    if before is not None and corr.canon(before) != corr.canon(after):
                        errors.append((pool[idx][0], "argument modified", None))
        except Exception as ex:   # pragma: no cover
            errors.append(("exception", repr(ex), None))
    threads = []
    for t in range(16):
        order = list(range(len(pool)))
        rng.shuffle(order)
        threads.append(threading.Thread(target=worker, args=(order,)))
    for t in threads:
        t.start()
    for t in threads:
        t.join()
    res.evaluations += 16 * rounds * len(pool)
    res.count("threaded-calls", 16 * rounds * len(pool))
    for kind, ref, out in errors[:5]:
        res.violations.append({"why": f"under 16 threads a {kind} call gave {str(out)[:200]} instead of {str(ref)[:200]}",
                               "match": {"op": kind, "rule": "threads"}})
    res.samples = [{"pool": [p[0] for p in pool][:12], "history_length": length, "reference_outcomes": [r["k"] for r in reference][:12]}]
    res.extra["module_level_mutable_objects"] = sorted(f"{v[0]}.{v[1]}" for v in top.values())
    if drv:
        drv.close()
    res.rule = ("a pool of registration / authentication / generation calls (valid and invalid, all formats) with deterministic outcomes; "
                "random histories of 30 calls in which the objects returned by earlier calls are mutated in place between calls: every "
                "outcome must equal that call's outcome alone, arguments (origin list, algorithm list, root mapping and lists) must be "
                "deep-equal before and after, no result may reference a module-level mutable object (identity walk), module-level "
                "objects must be unchanged at the end; then 16 threads run shuffled copies of the pool; distinct = the history")
