"""C19 — Rejections are signalled through the library's own exception hierarchy."""
import inspect

import webauthn.helpers.exceptions as wex
from webauthn.helpers import parse_cbor, encode_cbor

from .. import cases, corr, faults, common
from ..check import Result
from ..driver import Driver
from ..oracle import Oracle
from ..sim import attest, core
from . import _auth, _reg

ID = "C19"
P = "Webauthn.Props.C19."
THEOREMS = [P + n for n in ("hierarchy", "vocabulary", "parsers_reg", "parsers_auth", "parsers_authdata", "parsers_cbor",
                            "semantic_auth", "never_returns_unverified", "semantic_reg", "fmt_none_in_hierarchy",
                            "fmt_unknown_in_hierarchy", "fmt_packed_in_hierarchy", "fmt_apple_in_hierarchy", "fmt_u2f_in_hierarchy",
                            "fmt_android_key_in_hierarchy", "fmt_tpm_in_hierarchy", "fmt_safetynet_in_hierarchy", "semantic_reg_closed")] + \
           ["Webauthn.sigPlan_fail"]
LEAN_TARGETS = ["Props.C19", "Props.C19Formats"]
AUDIT_IMPORTS = ["Props.C19Formats"]
SPEC_FILES = ["Spec/Core.lean"]
ASSUMPTIONS = ["tie direction: whenever the model says 'library exception' the real code raises a subclass of the real base class",
               "malformed (not well-formed) responses may raise other exceptions; the property is about semantic rejections of well-formed ones"]


def work(tasks, idx):
    res = Result()
    drv = Driver(Oracle()) if work.driver_ok else None
    tie = corr.Tie(res, drv, "model_lib_implies_code_lib")
    cs = _auth.creds()
    for t in tasks:
        if t[0] == "auth":
            _, ci, fs = t
            a, e, eff = faults.build_assertion(cs[ci], flags=core.UP | core.UV, faults=fs)
            code = cases.run_auth(a, e)
            res.evaluations += 1
            tie.check(cases.auth_case(a, e), code, label=list(fs))
            res.nontrivial.add(t)
            res.count("auth:" + corr.kind(code))
            if code["k"] == "reject" and "nonlib" in code:
                res.violations.append({"why": f"semantic rejection ({list(fs)}) raised {code['nonlib']}: {code.get('msg')}",
                                       "case": cases.auth_case(a, e), "match": {"op": "verify_auth", "exception": code["nonlib"]}})
        elif t[0] == "reg":
            _, fmt, choice, fs, chain = t
            kw = {"chain_faults": set(chain), "n_intermediates": 1} if chain else {}
            try:
                b = _reg.build(fmt, choice, fs, **kw)
            except ValueError:
                continue
            if b is None:
                continue
            req, r = b
            e = _reg.expectation(req, r.roots, require_uv=True)
            code = cases.run_reg(r.credential, e)
            res.evaluations += 1
            tie.check(cases.reg_case(r.credential, e), code, label=[fmt] + list(fs) + list(chain))
            res.nontrivial.add(t)
            res.count("reg:" + corr.kind(code))
            if code["k"] == "reject" and "nonlib" in code:
                res.violations.append({"why": f"semantic rejection ({fmt} {list(fs)} {list(chain)}) raised {code['nonlib']}: {code.get('msg')}",
                                       "case": cases.reg_case(r.credential, e), "match": {"op": "verify_reg", "exception": code["nonlib"]}})
            if len(res.samples) < 4:
                res.samples.append({"fmt": fmt, "faults": list(fs) + list(chain), "outcome": corr.kind(code), "message": code.get("msg")})
        elif t[0] == "json":
            from . import C13
            C13.work.driver_ok = work.driver_ok
            part = C13.work([t[1]], idx)
            corr.merge(res, [part])
        elif t[0] == "reg-alg":
            _, alg, allowed = t
            cred = core.SimCredential(priv=__import__("harness.sim.keys", fromlist=["x"]).get("p256", 0), alg=alg, cred_id=b"unregistered-alg")
            req = attest.RegRequest(fmt="none", cred=cred)
            r = attest.build_registration(req)
            e = _reg.expectation(req, r.roots, algs=allowed)
            code = cases.run_reg(r.credential, e)
            res.evaluations += 1
            tie.check(cases.reg_case(r.credential, e), code, label=["alg", alg])
            res.nontrivial.add(t[:2])
            res.count("reg-alg:" + corr.kind(code))
            if code["k"] == "reject" and "nonlib" in code:
                res.violations.append({"why": f"registration with COSE alg {alg} not in the allowed list raised {code['nonlib']}: {code.get('msg')}",
                                       "case": cases.reg_case(r.credential, e), "match": {"op": "verify_reg", "exception": code["nonlib"]}})
        else:  # CBOR helpers on arbitrary bytes
            _, seed, n = t
            rng = common.Rng(seed)
            from .C11 import exotic_cbor, tagged_all
            stream = list(tagged_all()) if n < 0 else [None] * n        # n < 0: every semantic tag over every payload, once
            for b in stream:
                # random bytes, and CBOR that the decoder handles through special paths (semantic tags over wrongly typed
                # content, bignums, huge lengths, ...): whatever the helper refuses, it refuses with the library's exception
                if b is None:
                    b = rng.bytes_(rng.randrange(0, 24)) if rng.random() < 0.4 else exotic_cbor(rng)
                code = corr.code_outcome(lambda: encode_cbor(parse_cbor(b)), lambda r: r.hex())
                res.evaluations += 1
                tie.check({"op": "cbor_roundtrip", "b": b.hex()}, code, label=["cbor"])
                res.nontrivial.add(b)
                if code["k"] == "reject" and "nonlib" in code:
                    res.violations.append({"why": f"CBOR helper raised {code['nonlib']}", "b": b.hex(), "match": {"op": "cbor", "exception": code["nonlib"]}})
    if drv:
        drv.close()
    return res


def run(ctx, res):
    rng = ctx.rng
    # reflection: every exception class the module defines derives from the single base
    classes = [o for _, o in vars(wex).items() if inspect.isclass(o) and issubclass(o, BaseException) and o.__module__ == wex.__name__]
    for c in classes:
        res.evaluations += 1
        if not issubclass(c, wex.WebAuthnException):
            res.violations.append({"why": f"{c.__name__} does not derive from WebAuthnException", "match": {"op": "hierarchy", "class": c.__name__}})
    res.extra["exception_classes"] = sorted(c.__name__ for c in classes)
    tasks = []
    ncreds = len(_auth.creds())
    semantic = [f for f in faults.AUTH_FAULTS if f not in faults.MALFORMED]     # the response stays well-formed
    for ci in range(ncreds):
        for f in semantic:
            tasks.append(("auth", ci, (f,)))
        for _ in range(5 if ctx.quick() else 60):
            tasks.append(("auth", ci, tuple(rng.sample(semantic, rng.randrange(2, 5)))))
    for fmt in _reg.FORMATS:
        choices = _reg.cred_choices(fmt)
        for f in attest.applicable(fmt):
            if f in attest.MALFORMED:
                continue
            for ch in choices:      # every credential choice: some faults only exist for one key type
                tasks.append(("reg", fmt, ch, (f,), ()))
        if fmt in attest.CHAIN_FORMATS:
            from ..sim import ca
            for cf in ca.CHAIN_FAULTS:
                tasks.append(("reg", fmt, rng.choice(choices), (), (cf,)))
        for _ in range(5 if ctx.quick() else 80):
            tasks.append(("reg", fmt, rng.choice(choices), tuple(rng.sample([f for f in attest.applicable(fmt) if f not in attest.MALFORMED], 2)), ()))
    for i in range(16):
        tasks.append(("cbor", ctx.seed * 31 + i, 200 if ctx.quick() else 5000))
    tasks.append(("cbor", 0, -1))
    for kind in ("reg", "auth"):
        tasks.append(("json", (kind, 0, -1)))
        for i in range(4):
            tasks.append(("json", (kind, ctx.seed * 101 + i, 150 if ctx.quick() else 3000)))
    for alg in (-35, -47, -9, 0, 5, -7, -8, -257, -65535, 2 ** 40):
        tasks.append(("reg-alg", alg, [-257, -8]))
        tasks.append(("reg-alg", alg, []))
    work.driver_ok = ctx.driver_ok
    corr.merge(res, corr.parallel(work, tasks))
    from .C01 import small_modulus_sweep
    small_modulus_sweep(res, hierarchy=True, driver_ok=ctx.driver_ok)
    res.rule = ("reflection over every exception class of webauthn.helpers.exceptions; every fault and fault combination of the C01-C04 "
                "catalogues across formats and algorithms (the response stays well-formed, so the rejection is semantic) must raise a "
                "subclass of the base exception; arbitrary byte strings through parse_cbor/encode_cbor; distinct = the case tuple")
