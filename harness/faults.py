"""Named fault catalogues (DESIGN.md Appendix B).  Every fault is applied *before* signing so that
whatever is signed stays genuinely signed; the only thing wrong is the named deviation."""
import copy

from .sim import core
from .sim.core import UP, UV, BE, BS, AT, ED

AUTH_FAULTS = [
    "A.type-create", "A.type-other", "A.chal-other", "A.chal-prefix", "A.chal-extended",
    "A.origin-other-host", "A.origin-case", "A.origin-trailing-slash", "A.origin-scheme",
    "A.origin-proper-prefix", "A.origin-infix", "A.origin-empty",
    "A.expected-origin-trailing-slash", "A.expected-origin-surrounding-space",
    "A.expected-origin-ipv6-literal-read-as-glob", "A.expected-origin-star-read-as-glob", "A.origin-unparsable-port",
    "A.origin-unbalanced-bracket", "A.origin-fullwidth-solidus",
    "A.origin-other-but-toporigin-expected", "A.origin-other-with-lone-surrogate", "A.type-other-with-lone-surrogate",
    "A.cdj-undecodable-byte-in-origin", "A.cdj-undecodable-byte-in-type", "A.rpid-hash-of-idna-form", "A.rpid-hash-of-lowercase",
    "A.rpid-other", "A.rpid-uppercase", "A.rpid-hash-of-origin", "A.rpid-hash-of-host-with-scheme-slashes",
    "A.origin-explicit-default-port", "A.expected-origin-explicit-default-port", "A.up-clear", "A.uv-clear-required",
    "A.id-other-credential", "A.id-padded", "A.id-std-alphabet", "A.cred-type",
    "A.sig-other-key", "A.sig-authdata-only", "A.sig-unhashed-cdj", "A.sig-other-hash",
    "A.key-declares-other-alg", "A.tb-not-supported", "A.ctr-equal", "A.ctr-smaller", "A.ctr-zero-vs-pos",
    "A.bs-without-be",
]

# faults that make the response *malformed* (client data that is not UTF-8 text): C01 still demands rejection, but C19's
# "well-formed response rejected for a semantic reason" does not speak about them
MALFORMED = {"A.cdj-undecodable-byte-in-origin", "A.cdj-undecodable-byte-in-type"}

# which other algorithm the same private key can (mis)use
OTHER_ALG = {core.ES256: core.ES512, core.ES512: core.ES256, core.RS256: core.RS384, core.RS384: core.RS512,
             core.RS512: core.RS256, core.RS1: core.RS256, core.PS256: core.RS256, core.PS384: core.PS512,
             core.PS512: core.PS256}


def other_key(cred):
    """a different private key of the same type (and curve)"""
    from .sim import keys
    from cryptography.hazmat.primitives.asymmetric import ec, rsa
    p = cred.priv
    if isinstance(p, ec.EllipticCurvePrivateKey):
        kind = {"secp256r1": "p256", "secp384r1": "p384", "secp521r1": "p521"}[p.curve.name]
    elif isinstance(p, rsa.RSAPrivateKey):
        kind = "rsa"
    else:
        kind = "ed25519"
    for i in range(6):
        k = keys.get(kind, i)
        if k.public_key().public_numbers() != p.public_key().public_numbers() if kind != "ed25519" else \
                k.public_key().public_bytes_raw() != p.public_key().public_bytes_raw():
            return k
    raise RuntimeError("no other key")


def std_alphabet_raw_id():
    # encodes to "-_-_-_-_" in base64url
    return bytes([0xfb, 0xff, 0xbf] * 2)


def build_assertion(cred, *, rp_id="example.com", challenge=b"\x01" * 32, origin="https://example.com",
                    origin_list=None, flags=UP, counter=5, stored=4, require_uv=False, ext=None, faults=(),
                    cd_extra=None, attachment=None, attested_aaguid=None, cd_kwargs=None):
    """returns (assertion fields, expectation) for the authentication ceremony with `faults` applied"""
    faults = set(faults)
    unknown = faults - set(AUTH_FAULTS)
    if unknown:
        raise ValueError(f"unknown faults {unknown}")
    cred = copy.copy(cred)
    typ = "webauthn.get"
    cd_challenge, cd_origin = challenge, origin
    ad_rp = rp_id
    expected_origin = origin if origin_list is None else list(origin_list)
    kw = {}
    cd_kwargs = dict(cd_kwargs or {}, **({"extra": cd_extra} if cd_extra else {}))
    stored_key_alg = cred.alg
    if "A.type-create" in faults:
        typ = "webauthn.create"
    if "A.type-other" in faults:
        typ = "webauthn.got"
    if "A.chal-other" in faults:
        cd_challenge = bytes(b ^ 0x5A for b in challenge)
    if "A.chal-prefix" in faults:
        cd_challenge = cd_challenge[:-1]
    if "A.chal-extended" in faults:
        cd_challenge = cd_challenge + b"\x00"
    if "A.origin-other-host" in faults:
        cd_origin = "https://evil.example"
    if "A.origin-case" in faults:
        cd_origin = cd_origin.replace("example", "EXAMPLE") if "example" in cd_origin else cd_origin.upper()
    if "A.origin-trailing-slash" in faults:
        cd_origin = cd_origin + "/"
    if "A.origin-scheme" in faults:
        cd_origin = cd_origin.replace("https://", "http://")
    # the same web origin to a browser, another string to compare: the scheme's default port written out
    if "A.origin-explicit-default-port" in faults:
        cd_origin = cd_origin + (":443" if cd_origin.startswith("https://") else ":80")
    if "A.expected-origin-explicit-default-port" in faults:
        dp = lambda o: o + (":443" if o.startswith("https://") else ":80")
        expected_origin = dp(origin) if origin_list is None else [dp(o) for o in origin_list]
    if "A.origin-proper-prefix" in faults:
        cd_origin = origin[:-1]
    if "A.origin-infix" in faults:
        cd_origin = origin[8:-4]
    if "A.origin-empty" in faults:
        cd_origin = ""
    # policy-side: the RP's configured origin is a different string than the one the client reports
    if "A.expected-origin-trailing-slash" in faults:
        expected_origin = origin + "/" if origin_list is None else [o + "/" for o in origin_list]
    if "A.expected-origin-surrounding-space" in faults:
        expected_origin = " " + origin if origin_list is None else [o + " " for o in origin_list]
    if "A.expected-origin-ipv6-literal-read-as-glob" in faults:
        cd_origin = "https://1:8443"
        expected_origin = "https://[::1]:8443" if origin_list is None else ["https://[::1]:8443", "https://b.example"]
    if "A.expected-origin-star-read-as-glob" in faults:
        cd_origin = "https://login.example.com"
        expected_origin = "https://*.example.com" if origin_list is None else ["https://*.example.com"]
    # wrong origins that URL libraries refuse to take apart: still just strings that differ from the expected one
    if "A.origin-unparsable-port" in faults:
        cd_origin = origin + ":80a"
    if "A.origin-unbalanced-bracket" in faults:
        cd_origin = "https://[::1"
    if "A.origin-fullwidth-solidus" in faults:
        cd_origin = origin.replace("://", ":\uff0f\uff0f") + "\uff0fx"
    if "A.rpid-hash-of-idna-form" in faults:
        # the RP expects a non-ASCII RP ID; the authenticator data carries the hash of a *different string* (its A-label form)
        rp_id = "b\u00fccher.example"
        ad_rp = rp_id.encode("idna").decode("ascii")
    if "A.rpid-hash-of-lowercase" in faults:
        rp_id = "Login.Example.com"
        ad_rp = rp_id.lower()
    if "A.rpid-other" in faults:
        ad_rp = "other.example"
    # the hash of a *related* string: the origin the client reports (a U2F AppID), or "//" + the RP ID
    if "A.rpid-hash-of-origin" in faults:
        ad_rp = cd_origin
    if "A.rpid-hash-of-host-with-scheme-slashes" in faults:
        ad_rp = "//" + ad_rp
    if "A.rpid-uppercase" in faults:
        ad_rp = ad_rp.upper()
    if "A.up-clear" in faults:
        flags &= ~UP
    if "A.uv-clear-required" in faults:
        flags &= ~UV
        require_uv = True
    if "A.bs-without-be" in faults:
        flags = (flags | BS) & ~BE
    if "A.ctr-equal" in faults:
        stored = max(stored, 1)
        counter = stored
    if "A.ctr-smaller" in faults:
        stored = max(stored, 2)
        counter = stored - 1
    if "A.ctr-zero-vs-pos" in faults:
        stored = max(stored, 1)
        counter = 0
    # a wrong value that is valid JSON (pure ASCII on the wire) but decodes to text with an isolated surrogate
    if "A.origin-other-with-lone-surrogate" in faults:
        cd_origin = origin + "\ud83d"
    if "A.type-other-with-lone-surrogate" in faults:
        typ = typ + "\udc00"
    if "A.origin-other-but-toporigin-expected" in faults:
        # an embedded (cross-origin) ceremony: the caller's origin is the attacker's, the page around it is the RP's.
        # `origin` is what the RP must compare; `topOrigin` is information
        cd_kwargs["extra"] = dict(cd_kwargs.get("extra") or {}, crossOrigin=True, topOrigin=cd_origin)
        cd_origin = "https://evil.example"
    if "A.tb-not-supported" in faults:
        cd_kwargs["token_binding"] = {"status": "not-supported"}
    if "A.id-std-alphabet" in faults:
        cred.cred_id = std_alphabet_raw_id()
    if "A.sig-other-key" in faults:
        kw["sign_key"] = other_key(cred)
    if "A.sig-other-hash" in faults and cred.alg in OTHER_ALG:
        kw["sign_alg"] = OTHER_ALG[cred.alg]
    if "A.key-declares-other-alg" in faults and cred.alg in OTHER_ALG:
        stored_key_alg = OTHER_ALG[cred.alg]
    fl = flags | (ED if ext is not None else 0)
    if attested_aaguid is not None:
        # an assertion whose authenticator data also carries attested credential data (AT set): legal, and signed like the rest
        ad = core.auth_data(core.sha256(ad_rp.encode()), fl | AT, counter, aaguid=attested_aaguid, cred_id=cred.cred_id,
                            cose=cred.cose(), ext=ext)
    else:
        ad = core.auth_data(core.sha256(ad_rp.encode()), fl, counter, ext=ext)
    cdj = core.client_data(typ, cd_challenge, cd_origin, **cd_kwargs)
    # bytes that are not UTF-8 inside a member: the client data is then not the JSON text the RP expects, whatever a
    # lenient decoder would make of it (what is signed is these very bytes)
    if "A.cdj-undecodable-byte-in-origin" in faults:
        cdj = cdj.replace(b"https://", b"https://\xff", 1) if b"https://" in cdj else cdj + b"\xff"
    if "A.cdj-undecodable-byte-in-type" in faults:
        cdj = cdj.replace(b"webauthn.", b"webauthn.\xfe", 1) if b"webauthn." in cdj else cdj + b"\xfe"
    if "A.sig-authdata-only" in faults:
        kw["sign_data"] = ad
    if "A.sig-unhashed-cdj" in faults:
        kw["sign_data"] = ad + cdj
    a = core.assertion(cred, rp_id=rp_id, challenge=challenge, origin=origin, flags=flags, counter=counter,
                       ad_override=ad, cdj_override=cdj, **kw)
    if attachment is not None:
        a["attachment"] = attachment      # an unsigned envelope member: it is reported by the client, it proves nothing
    if "A.id-other-credential" in faults:
        a["id"] = core.b64url(bytes(b ^ 0xFF for b in cred.cred_id))
    if "A.id-padded" in faults:
        a["id"] = a["id"] + "="
    if "A.id-std-alphabet" in faults:
        a["id"] = a["id"].replace("-", "+").replace("_", "/")
    if "A.cred-type" in faults:
        a["type"] = "other"
    e = {"challenge": challenge, "rp_id": rp_id, "origin": expected_origin,
         "public_key": cred.cose(alg=stored_key_alg), "stored_count": stored, "require_uv": require_uv}
    # faults that cannot manifest for this credential (no alternative algorithm) are reported back
    effective = set(faults)
    if cred.alg not in OTHER_ALG:
        effective -= {"A.sig-other-hash", "A.key-declares-other-alg"}
    return a, e, effective
