"""Correspondence runner: canonical outcomes of the real code and of the model, and their comparison
in the direction a property needs (DESIGN.md §3.2)."""
import dataclasses, enum, multiprocessing, os, traceback

from webauthn.helpers.exceptions import WebAuthnException

from .driver import Driver, OutOfModel, DriverDied
from .oracle import Oracle


# ---------------------------------------------------------------------------------------------
# canonical outcomes
# ---------------------------------------------------------------------------------------------

def canon(v):
    """Canonical JSON-able form of a library result (dataclasses, enums, bytes)."""
    if dataclasses.is_dataclass(v) and not isinstance(v, type):
        return {f.name: canon(getattr(v, f.name)) for f in dataclasses.fields(v)}
    if isinstance(v, enum.Enum):
        return canon(v.value)
    if isinstance(v, (bytes, bytearray, memoryview)):
        return bytes(v).hex()
    if isinstance(v, (list, tuple)):
        return [canon(x) for x in v]
    if isinstance(v, dict):
        return {str(k): canon(x) for k, x in v.items()}
    if isinstance(v, bool) or v is None or isinstance(v, str):
        return v
    if isinstance(v, int):
        return str(v)
    if hasattr(v, "__dict__"):
        return {k: canon(x) for k, x in vars(v).items()}
    return repr(v)


def code_outcome(fn, record=canon):
    try:
        r = fn()
    except WebAuthnException as e:
        return {"k": "reject", "lib": type(e).__name__, "msg": str(e)[:200]}
    except RecursionError:
        return {"k": "oom", "why": "recursion"}
    except Exception as e:
        return {"k": "reject", "nonlib": type(e).__name__, "msg": str(e)[:200]}
    return {"k": "accept", "record": record(r)}


def kind(o):
    if o.get("k") == "accept":
        return "accept"
    if o.get("k") == "reject":
        return "lib:" + o["lib"] if "lib" in o else "nonlib"
    return o.get("k", "?")


def compare(code, model, direction, record_eq=None):
    """returns (status, why): status in ok | blocking | nonblocking | oom | driver-error"""
    if model.get("k") == "oom" or code.get("k") == "oom":
        return "oom", model.get("why") or code.get("why")
    if model.get("k") == "driver-error":
        return "driver-error", model.get("why")
    kc, km = kind(code), kind(model)
    rec_same = True
    if kc == "accept" and km == "accept":
        rec_same = (record_eq or (lambda a, b: a == b))(code["record"], model["record"])
    same = kc == km and rec_same
    if same:
        return "ok", ""
    why = f"code {kc} vs model {km}" + ("" if rec_same else " (records differ)")
    if direction == "eq":
        return "blocking", why
    if direction == "code_accept_implies_model_accept":
        return ("blocking" if kc == "accept" else "nonblocking"), why
    if direction == "model_accept_implies_code_accept":
        return ("blocking" if km == "accept" else "nonblocking"), why
    if direction == "model_lib_implies_code_lib":
        bad = km.startswith("lib:") and not kc.startswith("lib:")
        return ("blocking" if bad else "nonblocking"), why
    if direction == "both_accept":  # blocking when exactly one side accepts or records differ
        return ("blocking" if "accept" in (kc, km) else "nonblocking"), why
    raise ValueError(direction)


class Tie:
    """Accumulates comparisons into a check Result."""

    def __init__(self, res, drv, direction):
        self.res, self.drv, self.direction = res, drv, direction

    def check(self, case, code, label=None, record_eq=None, direction=None):
        """Send `case` to the driver, compare with the code outcome. Returns the model outcome (or None)."""
        if self.drv is None:
            return None
        try:
            model, trace = self.drv.call(case)
        except OutOfModel as e:
            self.res.out_of_model += 1
            return None
        except DriverDied as e:
            self.res.disagreements.append({"why": "driver died: " + str(e)[-300:], "case": case})
            return None
        st, why = compare(code, model, direction or self.direction, record_eq)
        if st == "oom":
            self.res.out_of_model += 1
            self.res.count("oom:" + str(why))
        elif st in ("blocking", "driver-error"):
            self.res.disagreements.append({"why": why, "label": label, "case": case, "code": code, "model": model})
        elif st == "nonblocking":
            self.res.nonblocking.append({"why": why, "label": label, "code": kind(code), "model": kind(model),
                                         "site": model.get("site")})
        if model.get("site"):
            self.res.count("model-site:" + model["site"])
        return model


# ---------------------------------------------------------------------------------------------
# simple fork-based parallel map (each worker owns a driver process)
# ---------------------------------------------------------------------------------------------

class _FormatAndDrop(__import__("logging").Handler):
    """formats every record (so that lazy %-arguments are evaluated) and drops it"""

    def emit(self, record):
        self.format(record)


def _debug_logging_on():
    """Process state a deployment may have and the test suite never has: logging at DEBUG for every logger. Library code
    guarded by `logger.isEnabledFor(DEBUG)` then runs. Half of the workers of every check run like this."""
    import logging
    logging.disable(logging.NOTSET)
    root = logging.getLogger()
    root.setLevel(logging.DEBUG)
    root.addHandler(_FormatAndDrop())
    # the same processes run with `-W error` for warnings attributed to the library's own modules (a deployment may): a
    # deprecated call inside the library then raises instead of warning
    import warnings
    warnings.filterwarnings("error", module=r"webauthn(\..*)?$")


def _logging_silenced():
    """The opposite process state: a deployment that has switched logging off altogether (`logging.disable(CRITICAL)`), so
    that `logger.isEnabledFor(...)` is false for every level. Library code placed under such a guard then does not run."""
    import logging
    logging.disable(logging.CRITICAL)


def _worker(args):
    fn, chunk, idx = args
    try:
        mode = idx % 3        # 0: as imported; 1: DEBUG everywhere + library warnings as errors; 2: logging switched off
        if mode == 1:
            _debug_logging_on()
        elif mode == 2:
            _logging_silenced()
        out = fn(chunk, idx)
        if hasattr(out, "count"):
            out.count(["process-state:default", "process-state:logging-at-DEBUG+library-warnings-as-errors",
                       "process-state:logging-disabled"][mode])
        return out
    except Exception:
        return {"error": traceback.format_exc()}


def parallel(fn, items, nproc=None):
    """fn(chunk, worker_index) -> picklable partial result; returns the list of partial results."""
    nproc = nproc or min(16, os.cpu_count() or 4)
    if len(items) < 2 * nproc:
        nproc = max(1, len(items) // 2) or 1
    chunks = [items[i::nproc] for i in range(nproc)]
    if nproc == 1:
        return [_worker((fn, chunks[0], 0))]
    ctx = multiprocessing.get_context("fork")
    with ctx.Pool(nproc) as pool:
        out = pool.map(_worker, [(fn, c, i) for i, c in enumerate(chunks)])
    for o in out:
        if isinstance(o, dict) and "error" in o:
            raise RuntimeError("worker failed:\n" + o["error"])
    return out


def merge(res, parts):
    for p in parts:
        res.evaluations += p.evaluations
        res.nontrivial |= p.nontrivial
        res.violations += p.violations
        res.disagreements += p.disagreements
        res.nonblocking += p.nonblocking
        res.out_of_model += p.out_of_model
        for k, v in p.distribution.items():
            res.distribution[k] = res.distribution.get(k, 0) + v
        if len(res.samples) < 8:
            res.samples += p.samples[: 8 - len(res.samples)]
