"""Client side of the line protocol: sends a case to the compiled Lean driver, answers its oracle
queries with the real external libraries (harness/oracle.py), returns the model's result."""
import json, subprocess, os
from . import common


class OutOfModel(Exception):
    pass


def has_surrogate(s):
    return any(0xD800 <= ord(c) <= 0xDFFF for c in s)


def to_jval(v, depth=0):
    """Tagged JSON value (DESIGN Appendix C).  Raises OutOfModel for lone surrogates."""
    if v is None:
        return {"t": "null"}
    if v is True or v is False:
        return {"t": "bool", "v": v}
    if isinstance(v, int):
        return {"t": "int", "v": str(v)}
    if isinstance(v, float):
        return {"t": "real", "v": repr(v)}
    if isinstance(v, str):
        if has_surrogate(v):
            raise OutOfModel("surrogate")
        return {"t": "str", "v": v}
    if isinstance(v, (list, tuple)):
        return {"t": "arr", "v": [to_jval(x, depth + 1) for x in v]}
    if isinstance(v, dict):
        out = []
        for k, x in v.items():
            if not isinstance(k, str):
                raise OutOfModel("non-str-key")
            if has_surrogate(k):
                raise OutOfModel("surrogate")
            out.append([k, to_jval(x, depth + 1)])
        return {"t": "obj", "v": out}
    raise OutOfModel(f"py-type:{type(v).__name__}")


def from_jval(j):
    t = j["t"]
    if t == "null":
        return None
    if t == "bool":
        return j["v"]
    if t == "int":
        return int(j["v"])
    if t == "real":
        return float(j["v"])
    if t == "str":
        return j["v"]
    if t == "arr":
        return [from_jval(x) for x in j["v"]]
    if t == "obj":
        return {k: from_jval(v) for k, v in j["v"]}
    raise ValueError(t)


class DriverDied(Exception):
    pass


class Driver:
    def __init__(self, oracle):
        self.oracle = oracle
        self.p = None
        self._start()

    def _start(self):
        if not os.path.exists(common.DRIVER):
            raise DriverDied("driver executable missing (model does not build)")
        self.p = subprocess.Popen([common.DRIVER], stdin=subprocess.PIPE, stdout=subprocess.PIPE,
                                  stderr=subprocess.PIPE, bufsize=0)

    def close(self):
        if self.p:
            try:
                self.p.stdin.close()
                self.p.wait(timeout=5)
            except Exception:
                self.p.kill()
            self.p = None

    def call(self, case):
        """returns (result_json, trace) where trace is the list of (query, answer)."""
        data = json.dumps(case, ensure_ascii=False).encode("utf-8") + b"\n"
        self.p.stdin.write(data)
        trace = []
        while True:
            line = self.p.stdout.readline()
            if not line:
                err = self.p.stderr.read().decode("utf-8", "replace")
                self._start()
                raise DriverDied(err[-2000:])
            if line.startswith(b"Q "):
                q = json.loads(line[2:])
                try:
                    a = self.oracle.answer(q)
                except OutOfModel:
                    try:                   # the model is waiting for an answer it will not get: fresh process
                        self.p.kill()
                        self.p.wait(timeout=5)
                    except Exception:
                        pass
                    self._start()
                    raise
                trace.append((q, a))
                self.p.stdin.write(json.dumps(a, ensure_ascii=False).encode("utf-8") + b"\n")
            elif line.startswith(b"R "):
                return json.loads(line[2:]), trace
            # anything else (debug prints) is ignored
