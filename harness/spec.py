"""Python-side property predicates, evaluated on the *real code's* outcomes (DESIGN.md §4 step 5).
They are written from the property statements, independently of both the library and the model:
own JSON/CBOR/flag parsing, `cryptography` called directly."""
import base64, hashlib, json

import cbor2
from cryptography.exceptions import InvalidSignature
from cryptography.hazmat.primitives import hashes
from cryptography.hazmat.primitives.asymmetric import ec, ed25519, padding, rsa

SCHEME = {  # COSE alg -> (family, hash)        (the table in C09's statement)
    -7: ("ecdsa", hashes.SHA256), -36: ("ecdsa", hashes.SHA512), -8: ("eddsa", None),
    -257: ("pkcs1", hashes.SHA256), -258: ("pkcs1", hashes.SHA384), -259: ("pkcs1", hashes.SHA512),
    -65535: ("pkcs1", hashes.SHA1), -37: ("pss", hashes.SHA256), -38: ("pss", hashes.SHA384), -39: ("pss", hashes.SHA512),
}
CURVES = {1: ec.SECP256R1, 2: ec.SECP384R1, 3: ec.SECP521R1}


def b64url_nopad(b):
    return base64.urlsafe_b64encode(b).rstrip(b"=").decode()


def strict_b64url_decode(s):
    """decode canonical unpadded base64url text; None if `s` is not the canonical encoding of anything"""
    if not isinstance(s, str):
        return None
    try:
        b = base64.urlsafe_b64decode(s + "=" * (-len(s) % 4))
    except Exception:
        return None
    return b if b64url_nopad(b) == s.rstrip("=") else None


def lenient_b64url_decode(s):
    """the bytes a base64url text denotes when characters outside the alphabet are ignored (the
    stdlib's non-strict reading, which is the library's documented way of reading these members)"""
    try:
        return base64.urlsafe_b64decode(s + "===")
    except Exception:
        return None


def load_cose_key(cose_bytes):
    """(public key object, declared alg) or None when the COSE key is not one the properties speak about"""
    try:
        if cose_bytes[:1] == b"\x04" and len(cose_bytes) >= 65:
            x, y = int.from_bytes(cose_bytes[1:33], "big"), int.from_bytes(cose_bytes[33:65], "big")
            return ec.EllipticCurvePublicNumbers(x, y, ec.SECP256R1()).public_key(), -7
        m = cbor2.loads(cose_bytes)
        kty, alg = m[1], m[3]
        if kty == 2:
            pk = ec.EllipticCurvePublicNumbers(int.from_bytes(m[-2], "big"), int.from_bytes(m[-3], "big"), CURVES[m[-1]]()).public_key()
        elif kty == 3:
            pk = rsa.RSAPublicNumbers(int.from_bytes(m[-2], "big"), int.from_bytes(m[-1], "big")).public_key()
        elif kty == 1 and m[-1] == 6:
            pk = ed25519.Ed25519PublicKey.from_public_bytes(m[-2])
        else:
            return None
        return pk, alg
    except Exception:
        return None


def signature_ok(pk, alg, sig, data):
    """does `sig` verify over `data` under `pk` with exactly the scheme `alg` denotes"""
    if alg not in SCHEME:
        return False
    fam, h = SCHEME[alg]
    try:
        if fam == "ecdsa" and isinstance(pk, ec.EllipticCurvePublicKey):
            pk.verify(sig, data, ec.ECDSA(h()))
        elif fam == "eddsa" and isinstance(pk, ed25519.Ed25519PublicKey):
            pk.verify(sig, data)
        elif fam == "pkcs1" and isinstance(pk, rsa.RSAPublicKey):
            pk.verify(sig, data, padding.PKCS1v15(), h())
        elif fam == "pss" and isinstance(pk, rsa.RSAPublicKey):
            pk.verify(sig, data, padding.PSS(mgf=padding.MGF1(h()), salt_length=padding.PSS.MAX_LENGTH), h())
        else:
            return False
        return True
    except InvalidSignature:
        return False
    except Exception:
        return False


def origin_ok(expected, origin):
    if not isinstance(origin, str):
        return False
    return origin == expected if isinstance(expected, str) else origin in list(expected)


def client_data_conjuncts(cdj, typ, challenge, expected_origin):
    out = {}
    try:
        cd = json.loads(cdj)
    except Exception:
        return {"client-data-json": False}
    if not isinstance(cd, dict):
        return {"client-data-object": False}
    out["type"] = cd.get("type") == typ
    ch = cd.get("challenge")
    out["challenge"] = isinstance(ch, str) and lenient_b64url_decode(ch) == bytes(challenge)
    out["origin"] = origin_ok(expected_origin, cd.get("origin"))
    return out


def auth_conjuncts(a, e):
    """The conjuncts of C01 for assertion fields `a` under expectation `e`: name -> bool."""
    out = client_data_conjuncts(a["client_data_json"], "webauthn.get", e["challenge"], e["origin"])
    ad = bytes(a["authenticator_data"])
    out["authdata-length"] = len(ad) >= 37
    if len(ad) >= 37:
        out["rp-id-hash"] = ad[:32] == hashlib.sha256(e["rp_id"].encode()).digest()
        out["up"] = bool(ad[32] & 1)
        out["uv-if-required"] = (not e["require_uv"]) or bool(ad[32] & 4)
    out["id=b64url(raw_id)"] = a["id"] == b64url_nopad(bytes(a["raw_id"]))
    k = load_cose_key(bytes(e["public_key"]))
    out["key-loads"] = k is not None
    if k is not None:
        pk, alg = k
        out["signature"] = signature_ok(pk, alg, bytes(a["signature"]),
                                        ad + hashlib.sha256(bytes(a["client_data_json"])).digest())
    return out


def counter_conjunct(a, e):
    ad = bytes(a["authenticator_data"])
    if len(ad) < 37:
        return False
    c = int.from_bytes(ad[33:37], "big")
    s = e["stored_count"]
    return c > s or (c == 0 and s == 0)


KNOWN_FORMATS = {"none", "packed", "tpm", "android-key", "android-safetynet", "fido-u2f", "apple"}


def reg_conjuncts(c, e, strict_none=True):
    """The conjuncts of C02 for registration fields `c` under expectation `e`: name -> bool.
    e: challenge, rp_id, origin, require_up, require_uv, algs."""
    out = client_data_conjuncts(c["client_data_json"], "webauthn.create", e["challenge"], e["origin"])
    out["id=b64url(raw_id)"] = c["id"] == b64url_nopad(bytes(c["raw_id"]))
    try:
        ao = cbor2.loads(bytes(c["attestation_object"]))
        ad = ao["authData"]
        fmt = ao["fmt"]
        stmt = ao.get("attStmt", {})
    except Exception:
        out["attestation-object"] = False
        return out
    if not isinstance(ad, (bytes, bytearray)) or len(ad) < 37:
        out["authdata-length"] = False
        return out
    out["rp-id-hash"] = ad[:32] == hashlib.sha256(e["rp_id"].encode()).digest()
    flags = ad[32]
    out["up-unless-waived"] = (not e.get("require_up", True)) or bool(flags & 1)
    out["uv-if-required"] = (not e.get("require_uv", False)) or bool(flags & 4)
    out["attested-data"] = bool(flags & 0x40) and len(ad) >= 55
    if out["attested-data"]:
        n = int.from_bytes(ad[53:55], "big")
        out["credential-id-nonempty"] = n > 0
        try:
            key = cbor2.loads(ad[55 + n:])
            alg = -7 if ad[55 + n:56 + n] == b"\x04" else key[3]
            out["alg-allowed"] = alg in list(e["algs"])
        except Exception:
            out["alg-allowed"] = False
    out["format-known"] = isinstance(fmt, str) and fmt in KNOWN_FORMATS
    if fmt == "none":
        out["none-statement-empty"] = (stmt == {}) if strict_none else not any(
            stmt.get(m) is not None for m in ("sig", "x5c", "response", "alg", "ver", "certInfo", "pubArea"))
    return out


def reg_expected_record(c, meta_cred=None):
    """What C05 says the record must report, computed from the authenticator data."""
    ao = cbor2.loads(bytes(c["attestation_object"]))
    ad = ao["authData"]
    flags = ad[32]
    n = int.from_bytes(ad[53:55], "big")
    key_and_rest = ad[55 + n:]
    key = cbor2.loads(key_and_rest)
    key_bytes = key_and_rest[:len(cbor2.dumps(key))]
    aaguid = ad[37:53].hex()
    return {"credential_id": ad[55:55 + n].hex(), "credential_public_key": key_bytes.hex(),
            "sign_count": str(int.from_bytes(ad[33:37], "big")),
            "aaguid": f"{aaguid[0:8]}-{aaguid[8:12]}-{aaguid[12:16]}-{aaguid[16:20]}-{aaguid[20:32]}",
            "fmt": ao["fmt"], "credential_type": "public-key", "user_verified": bool(flags & 4),
            "attestation_object": bytes(c["attestation_object"]).hex(),
            "credential_device_type": "multi_device" if flags & 8 else "single_device",
            "credential_backed_up": bool(flags & 16)}
