"""./check replay <file>: re-run a stored case on the real code and on the model; print both."""
import json, sys

from . import common, corr
from .driver import Driver
from .oracle import Oracle


def rerun_case(case, drv):
    op = case.get("op")
    from . import cases
    out = {}
    if op == "verify_auth":
        c, e = case["cred"], case["expect"]
        a = {"id": c["id"], "raw_id": bytes.fromhex(c["raw_id"]), "type": c["type"], "client_data_json": bytes.fromhex(c["cdj"]),
             "authenticator_data": bytes.fromhex(c["auth_data"]), "signature": bytes.fromhex(c["sig"]),
             "user_handle": bytes.fromhex(c["user_handle"]) if c.get("user_handle") else None}
        ex = {"challenge": bytes.fromhex(e["challenge"]), "rp_id": e["rp_id"], "origin": e["origin"],
              "public_key": bytes.fromhex(e["public_key"]), "stored_count": int(e["stored_count"]), "require_uv": e["require_uv"]}
        out["code"] = cases.run_auth(a, ex)
    elif op == "b64_decode":
        from .props.C14 import code_decode
        out["code"] = code_decode(case["s"])
    elif op == "parse_auth_data":
        out["code"] = cases.code_parse_auth_data(bytes.fromhex(case["b"]))
    elif op == "verify_reg":
        c, e = case["cred"], case["expect"]
        cr = {"id": c["id"], "raw_id": bytes.fromhex(c["raw_id"]), "type": c["type"], "client_data_json": bytes.fromhex(c["cdj"]),
              "attestation_object": bytes.fromhex(c["att_obj"])}
        ex = {"challenge": bytes.fromhex(e["challenge"]), "rp_id": e["rp_id"], "origin": e["origin"],
              "require_up": e.get("require_up", True), "require_uv": e.get("require_uv", False),
              "algs": [int(a) for a in e["algs"]], "roots": {k: [bytes.fromhex(p) for p in v] for k, v in e.get("roots", [])}}
        out["code"] = cases.run_reg(cr, ex)
    elif op == "parse_cred_json":
        from .props.C13 import code_parse
        from .driver import from_jval
        out["code"] = code_parse(case["kind"], case["text"] if "text" in case else from_jval(case["value"]))
    elif op == "decode_cose":
        out["code"] = cases.code_decode_cose(bytes.fromhex(case["b"]))
    elif op == "cose_to_pubkey":
        out["code"] = cases.code_cose_to_pubkey(bytes.fromhex(case["b"]))
    elif op == "parse_cert_info":
        out["code"] = cases.code_parse_cert_info(bytes.fromhex(case["b"]))
    elif op == "parse_pub_area":
        out["code"] = cases.code_parse_pub_area(bytes.fromhex(case["b"]))
    elif op == "cbor_roundtrip":
        out["code"] = cases.code_cbor_roundtrip(bytes.fromhex(case["b"]))
    elif op == "parse_client_data":
        out["code"] = cases.code_parse_client_data(bytes.fromhex(case["b"]))
    elif op == "b64_encode":
        from webauthn.helpers import bytes_to_base64url
        out["code"] = {"k": "accept", "record": bytes_to_base64url(bytes.fromhex(case["b"]))}
    else:
        out["code"] = {"note": f"no real-code replay is implemented for op {op!r}; the model's outcome follows; the property module "
                               f"harness/props/<id>.py shows how the case was built"}
    if drv is not None:
        out["model"], _ = drv.call(case)
    return out


def main(argv):
    if not argv:
        print("usage: ./check replay <file>")
        return 2
    data = json.load(open(argv[0]))
    print("verdict recorded:", data.get("verdict"))
    drv = None
    try:
        drv = Driver(Oracle())
    except Exception as e:
        print("model driver unavailable:", e)
    found = []

    def walk(x):
        if isinstance(x, dict):
            if "op" in x and isinstance(x["op"], str) and (set(x) & {"cred", "b", "s", "text", "value", "args", "cases"}):
                found.append(x)
            else:
                for v in x.values():
                    walk(v)
        elif isinstance(x, list):
            for v in x:
                walk(v)
    walk(data.get("case"))
    walk(data.get("all_new_violations"))
    walk(data.get("first_disagreements"))
    walk(data.get("tie_disagreements"))
    for case in found[:5]:
        print("case:", json.dumps(case)[:400])
        try:
            out = rerun_case(case, drv)
            for k, v in out.items():
                print(f"  {k}: {json.dumps(v)[:400]}")
        except Exception as e:
            print("  replay failed:", type(e).__name__, e)
    if not found:
        print(f"no single executable case in this file (a history / schedule / proof-obligation entry). To reproduce: "
              f"VERIF_SEED={data.get('seed', 0)} ./check {data.get('property')} --tier {data.get('tier', 'quick')}")
        for v in (data.get("all_new_violations") or [])[:3]:
            print("  violation:", json.dumps({k: v[k] for k in v if k != "case"})[:600])
        print(json.dumps({k: data[k] for k in data if k in ('undischarged_theorems', 'banned_tokens', 'build_errors')}, indent=1)[:2000])
    return 0
