"""./check replay <file>: re-run a stored case on the real code and on the model; print both."""
import json, sys

from . import common, corr
from .driver import Driver
from .oracle import Oracle


def rerun_case(case, drv):
    op = case.get("op")
    from . import cases
    out = {}
    if op == "verify_auth":
        c, e = case["cred"], case["expect"]
        a = {"id": c["id"], "raw_id": bytes.fromhex(c["raw_id"]), "type": c["type"], "client_data_json": bytes.fromhex(c["cdj"]),
             "authenticator_data": bytes.fromhex(c["auth_data"]), "signature": bytes.fromhex(c["sig"]),
             "user_handle": bytes.fromhex(c["user_handle"]) if c.get("user_handle") else None}
        ex = {"challenge": bytes.fromhex(e["challenge"]), "rp_id": e["rp_id"], "origin": e["origin"],
              "public_key": bytes.fromhex(e["public_key"]), "stored_count": int(e["stored_count"]), "require_uv": e["require_uv"]}
        out["code"] = cases.run_auth(a, ex)
    elif op == "b64_decode":
        from .props.C14 import code_decode
        out["code"] = code_decode(case["s"])
    elif op == "parse_auth_data":
        out["code"] = cases.code_parse_auth_data(bytes.fromhex(case["b"]))
    else:
        from . import replay_ops
        out["code"] = replay_ops.run(case)
    if drv is not None:
        out["model"], _ = drv.call(case)
    return out


def main(argv):
    if not argv:
        print("usage: ./check replay <file>")
        return 2
    data = json.load(open(argv[0]))
    print("verdict recorded:", data.get("verdict"))
    drv = None
    try:
        drv = Driver(Oracle())
    except Exception as e:
        print("model driver unavailable:", e)
    found = []

    def walk(x):
        if isinstance(x, dict):
            if "op" in x and isinstance(x["op"], str):
                found.append(x)
            else:
                for v in x.values():
                    walk(v)
        elif isinstance(x, list):
            for v in x:
                walk(v)
    walk(data.get("case"))
    walk(data.get("first_disagreements"))
    for case in found[:5]:
        print("case:", json.dumps(case)[:400])
        try:
            out = rerun_case(case, drv)
            for k, v in out.items():
                print(f"  {k}: {json.dumps(v)[:400]}")
        except Exception as e:
            print("  replay failed:", type(e).__name__, e)
    if not found:
        print("no executable case in this file (proof obligation / correspondence entry only):")
        print(json.dumps({k: data[k] for k in data if k in ('undischarged_theorems', 'banned_tokens', 'build_errors')}, indent=1)[:2000])
    return 0
