#!/bin/sh
# MANIFEST.setup_cmd — offline build of the Lean project (model, proofs, property theorems) and the driver.
set -e
cd "$(dirname "$0")"
export PYTHONPATH="$(pwd)"
/venv/bin/python -m harness.extract >/dev/null
cd lean
lake build Model Generated Spec Proofs Props Driver
lake build driver
if [ -f ../harness/fakeclock.c ]; then
  gcc -shared -fPIC -O2 -o ../harness/fakeclock.so ../harness/fakeclock.c -ldl
fi
echo "setup ok"
