/-
  The six signed attestation formats: packed, fido-u2f, tpm, apple, android-key, android-safetynet.
  One `reject` line per Python `if …: raise`.
-/
import Model.Attestation
import Model.ClientData
import Model.Cose
import Model.Tpm
import Model.Chain
namespace Webauthn
open Generated

def regErr (site : String) : Err := libErr .InvalidRegistrationResponse site

def cborTruthy (v : Option Cbor) : Bool :=
  match v with
  | some c => c.truthy
  | none => false

/-- a bytes-like argument handed to a library call / `b"".join` -/
def needBytes (v : Cbor) (site : String) : Except Err Bytes :=
  match v with
  | .bytes b => .ok b
  | _ => .error (nonlibErr "TypeError" site)

def optBytes (v : Option Cbor) (site : String) : Except Err Bytes :=
  match v with
  | some c => needBytes c site
  | none => .error (nonlibErr "TypeError" site)

/-- the statement's `x5c` as a list of DER byte strings (other shapes: out of model) -/
def x5cList (v : Option Cbor) : Except Err (List Bytes) :=
  match v with
  | some (.arr xs) =>
    xs.mapM (fun x => match x with
      | .bytes b => .ok b
      | _ => .error (oomErr "x5c-element"))
  | _ => .error (oomErr "x5c-shape")

/-- `validate_certificate_chain` inside `try … except InvalidCertificateChain: raise InvalidRegistrationResponse` -/
def validateChainReg (x5c : List Bytes) (roots : List Root) (site : String) : M Unit :=
  if roots.isEmpty then pure ()
  else match x5c with
    | [] => throw (regErr (site ++ ".chain.x5c-empty"))
    | leaf :: inter => do
      let r ← chainVerifyM leaf inter roots
      match r with
      | .ok => pure ()
      | _ => throw (regErr (site ++ ".chain"))

/-- `x509.load_der_x509_certificate(der)` -/
def loadCert (der : Bytes) (site : String) : M CertView := do
  let r ← x509LoadM der
  match r with
  | some v => pure v
  | none => throw (nonlibErr "ValueError" site)

/-- `verify_signature` with the signature taken from a CBOR member -/
def verifySignatureC (k : PubKey) (alg : Cbor) (sig : Option Cbor) (data : Bytes) (onInvalid : Err) : M Unit :=
  match sigPlan k alg with
  | .fail e => throw e
  | .verify s =>
    match sig with
    | some (.bytes b) => do
      let r ← sigVerifyM k s b data
      match r with
      | .valid => pure ()
      | .invalid => throw onInvalid
      | .raised c => throw (nonlibErr c "verify_signature.raised")
    | _ => throw (nonlibErr "TypeError" "verify_signature.sig-type")

/-- Python `a != b` between the key's alg and the statement's alg (scalars only) -/
def cborNe (a b : Cbor) : Except Err Bool :=
  if a.isScalarKey && b.isScalarKey then .ok (!Cbor.keyEq a b) else .error (oomErr "py-eq-container")

/-- authenticatorData ‖ SHA-256(clientDataJSON), with authenticatorData as decoded from the object -/
def attToBeSigned (authDataRaw : Cbor) (cdHash : Bytes) (site : String) : Except Err Bytes := do
  let ad ← needBytes authDataRaw site
  pure (ad ++ cdHash)

/-! ### packed -/

def verifyPacked (st : AttStmt) (authDataRaw : Cbor) (cdj : Bytes) (credKey : Bytes) (roots : List Root) : M Unit := do
  reject (!cborTruthy st.sig) (regErr "packed.sig-missing")
  reject (!cborTruthy st.alg) (regErr "packed.alg-missing")
  let cdHash ← sha256M cdj
  let data ← liftE (attToBeSigned authDataRaw cdHash "packed.join")
  let alg := st.alg.getD .null
  if cborTruthy st.x5c then do
    let x5c ← liftE (x5cList st.x5c)
    validateChainReg x5c roots "packed"
    let leaf ← match x5c with
      | l :: _ => pure l
      | [] => throw (nonlibErr "IndexError" "packed.x5c0")
    let cert ← loadCert leaf "packed.cert"
    verifySignatureC cert.key alg st.sig data (regErr "packed.signature")
  else do
    let key ← liftE (decodeCose credKey)
    let ne ← liftE (cborNe key.alg alg)
    reject ne (regErr "packed.self-alg")
    let pk ← loadCoseKey key
    verifySignatureC pk alg st.sig data (regErr "packed.self-signature")

/-! ### fido-u2f -/

def x5cLen (v : Option Cbor) : Except Err Nat :=
  match v with
  | some (.arr xs) => .ok xs.length
  | _ => .error (oomErr "x5c-shape")

def zeroAaguid : String := "00000000-0000-0000-0000-000000000000"

def verifyFidoU2f (st : AttStmt) (cdj : Bytes) (rpIdHash credId credKey aaguid : Bytes) (roots : List Root) : M Unit := do
  reject (!cborTruthy st.sig) (regErr "u2f.sig-missing")
  reject (!cborTruthy st.x5c) (regErr "u2f.x5c-missing")
  let n ← liftE (x5cLen st.x5c)
  reject (decide (n > 1)) (regErr "u2f.x5c-many")
  let x5c ← liftE (x5cList st.x5c)
  validateChainReg x5c roots "u2f"
  let aa ← liftE (aaguidToString aaguid)
  reject (aa != zeroAaguid) (regErr "u2f.aaguid")
  let leaf ← match x5c with
    | l :: _ => pure l
    | [] => throw (nonlibErr "IndexError" "u2f.x5c0")
  let cert ← loadCert leaf "u2f.cert"
  let crv ← match cert.key with
    | .ec c _ _ => pure c
    | _ => throw (regErr "u2f.leaf-not-ec")
  reject (crv != .p256) (regErr "u2f.leaf-not-p256")
  let key ← liftE (decodeCose credKey)
  let (x, y) ← match key with
    | .ec2 _ _ _ x y => pure (x, y)
    | _ => throw (regErr "u2f.cred-not-ec2")
  let xb ← liftE (needBytes x "u2f.join")
  let yb ← liftE (needBytes y "u2f.join")
  let cdHash ← sha256M cdj
  let data := [0x00] ++ rpIdHash ++ cdHash ++ credId ++ ([0x04] ++ xb ++ yb)
  verifySignatureC cert.key (.nint 6) st.sig data (regErr "u2f.signature")

/-! ### tpm -/

/-- `hash_by_alg(data, alg)` -/
def hashByAlgM (data : Bytes) (alg : Option Cbor) : M Bytes := do
  let h ← liftE (hashAlgByCose alg)
  hashM h data

def cborOfInt (i : Int) : Cbor := if i ≥ 0 then .uint i.toNat else .nint (-1 - i).toNat

def textIs (v : Option Cbor) (s : String) : Bool :=
  match v with
  | some (.text t) => t == utf8 s
  | _ => false

/-- the SAN walk of `verify_tpm`: (manufacturer, model, version), last occurrence wins -/
def tcgAttrs (attrs : List (String × String)) : Option String × Option String × Option String :=
  attrs.foldl (fun (acc : Option String × Option String × Option String) (a : String × String) =>
    if a.1 == "2.23.133.2.1" then (some a.2, acc.2.1, acc.2.2)
    else if a.1 == "2.23.133.2.2" then (acc.1, some a.2, acc.2.2)
    else if a.1 == "2.23.133.2.3" then (acc.1, acc.2.1, some a.2)
    else acc) (none, none, none)

def strTruthy (s : Option String) : Bool :=
  match s with
  | some t => !t.isEmpty
  | none => false

/-- the AIK certificate requirements -/
def tpmCertProfile (cert : CertView) : Except Err Unit := do
  rejectE (!cert.versionV3) (regErr "tpm.cert-version")
  rejectE (decide (cert.subjectLen > 0)) (regErr "tpm.cert-subject")
  rejectE (!cert.extsOk) (nonlibErr "ValueError" "tpm.cert-extensions")
  let san ← match cert.san with
    | some s => pure s
    | none => throw (regErr "tpm.san-missing")
  let attrs ← match san with
    | .dirName a => pure a
    | .empty => throw (nonlibErr "IndexError" "tpm.san-empty")
    | .otherName => throw (nonlibErr "TypeError" "tpm.san-othername")
    | .text => throw (nonlibErr "AttributeError" "tpm.san-text")
    | .otherKind => throw (nonlibErr "TypeError" "tpm.san-otherkind")
  let (manufacturer, model, version) := tcgAttrs attrs
  rejectE (!strTruthy manufacturer || !strTruthy model || !strTruthy version) (regErr "tpm.san-attrs")
  rejectE (!(tpmManufacturers.contains (manufacturer.getD ""))) (regErr "tpm.vendor")
  let eku ← match cert.eku with
    | some e => pure e
    | none => throw (regErr "tpm.eku-missing")
  let first ← match eku with
    | o :: _ => pure o
    | [] => throw (nonlibErr "IndexError" "tpm.eku-empty")
  rejectE (first != "2.23.133.8.3") (regErr "tpm.eku-first")
  let ca ← match cert.bcCa with
    | some c => pure c
    | none => throw (regErr "tpm.bc-missing")
  rejectE ca (regErr "tpm.bc-ca")

/-- pubArea / credential key agreement -/
def tpmKeyAgreement (pa : TPMPubArea) (key : CoseKey) : Except Err Unit :=
  match pa.parameters with
  | .rsa _ _ _ exponent => do
    let (n, e) ← match key with
      | .rsa _ _ n e => pure (n, e)
      | _ => throw (regErr "tpm.key-not-rsa")
    rejectE (match n with | .bytes b => pa.unique != b | _ => true) (regErr "tpm.unique-modulus")
    let paExp := if beNat exponent == 0 then 65537 else beNat exponent
    let eb ← needBytes e "tpm.exponent-type"
    rejectE (paExp != beNat eb) (regErr "tpm.exponent")
  | .ecc _ _ curveId _ => do
    let (crv, x, y) ← match key with
      | .ec2 _ _ crv x y => pure (crv, x, y)
      | _ => throw (regErr "tpm.key-not-ecc")
    let xb ← needBytes x "tpm.join"
    let yb ← needBytes y "tpm.join"
    rejectE (pa.unique != xb ++ yb) (regErr "tpm.unique-xy")
    let paCrv ← match tpmEccCurveCoseCrvMap.lookup curveId with
      | some c => pure c
      | none => throw (nonlibErr "KeyError" "tpm.curve-map")
    rejectE (crv.asInt? != some paCrv) (regErr "tpm.curve")

def verifyTpm (st : AttStmt) (authDataRaw : Cbor) (cdj : Bytes) (credKey : Bytes) (roots : List Root) : M Unit := do
  reject (!cborTruthy st.certInfo) (regErr "tpm.certinfo-missing")
  reject (!cborTruthy st.pubArea) (regErr "tpm.pubarea-missing")
  reject (!cborTruthy st.alg) (regErr "tpm.alg-missing")
  reject (!cborTruthy st.x5c) (regErr "tpm.x5c-missing")
  reject (!cborTruthy st.sig) (regErr "tpm.sig-missing")
  reject (!textIs st.ver "2.0") (regErr "tpm.ver")
  let x5c ← liftE (x5cList st.x5c)
  validateChainReg x5c roots "tpm"
  let pubAreaBytes ← liftE (optBytes st.pubArea "tpm.pubarea-type")
  let pa ← liftE (parsePubArea pubAreaBytes)
  let key ← liftE (decodeCose credKey)
  liftE (tpmKeyAgreement pa key)
  let certInfoBytes ← liftE (optBytes st.certInfo "tpm.certinfo-type")
  let ci ← liftE (parseCertInfo certInfoBytes)
  reject (beNat ci.magic != 0xFF544347) (regErr "tpm.magic")
  let cdHash ← hashByAlgM cdj none
  let attToBeSigned ← liftE (attToBeSigned authDataRaw cdHash "tpm.join")
  let extra ← hashByAlgM attToBeSigned st.alg
  reject (ci.extraData != extra) (regErr "tpm.extra-data")
  let nameCose ← match tpmAlgCoseAlgMap.lookup pa.nameAlg with
    | some a => pure a
    | none => throw (nonlibErr "KeyError" "tpm.name-alg-map")
  let paHash ← hashByAlgM pubAreaBytes (some (cborOfInt nameCose))
  reject (ci.attested.nameAlgBytes ++ paHash != ci.attested.name) (regErr "tpm.attested-name")
  let leaf ← match x5c with
    | l :: _ => pure l
    | [] => throw (nonlibErr "IndexError" "tpm.x5c0")
  let cert ← loadCert leaf "tpm.cert"
  verifySignatureC cert.key (st.alg.getD .null) st.sig certInfoBytes (regErr "tpm.signature")
  liftE (tpmCertProfile cert)

/-! ### apple -/

def verifyApple (st : AttStmt) (authDataRaw : Cbor) (cdj : Bytes) (credKey : Bytes) (roots : List Root) : M Unit := do
  reject (!cborTruthy st.x5c) (regErr "apple.x5c-missing")
  let x5c ← liftE (x5cList st.x5c)
  validateChainReg x5c (roots ++ (builtinRootNames.lookup "apple" |>.getD []).map Root.builtin) "apple"
  let cdHash ← sha256M cdj
  let nonceToHash ← liftE (attToBeSigned authDataRaw cdHash "apple.join")
  let nonce ← sha256M nonceToHash
  let leaf ← match x5c with
    | l :: _ => pure l
    | [] => throw (nonlibErr "IndexError" "apple.x5c0")
  let cert ← loadCert leaf "apple.cert"
  reject (!cert.extsOk) (nonlibErr "ValueError" "apple.cert-extensions")
  let ext ← match cert.appleNonce with
    | some e => pure e
    | none => throw (regErr "apple.nonce-ext-missing")
  reject (ext.drop 6 != nonce) (regErr "apple.nonce")
  let key ← liftE (decodeCose credKey)
  let pk ← loadCoseKey key
  let spki ← spkiM pk
  reject (cert.spki != spki) (regErr "apple.key-mismatch")

/-! ### android-key -/

def verifyAndroidKey (st : AttStmt) (authDataRaw : Cbor) (cdj : Bytes) (credKey : Bytes) (roots : List Root) : M Unit := do
  reject (!cborTruthy st.sig) (regErr "akey.sig-missing")
  reject (!cborTruthy st.alg) (regErr "akey.alg-missing")
  reject (!cborTruthy st.x5c) (regErr "akey.x5c-missing")
  let x5c ← liftE (x5cList st.x5c)
  let rootDer ← match x5c.getLast? with
    | some r => pure r
    | none => throw (nonlibErr "IndexError" "akey.x5c-last")
  let noRoot := x5c.dropLast
  let rootCert ← loadCert rootDer "akey.root-cert"
  validateChainReg noRoot [Root.pem rootCert.pem] "akey"
  -- "Make sure the root cert is one of these"
  let builtin := (builtinRootNames.lookup "android-key").getD []
  let builtinPems ← builtin.mapM builtinPemM
  let rpPems := roots.filterMap (fun r => match r with | .pem b => some b | .builtin _ => none)
  reject (!((rpPems ++ builtinPems).contains rootCert.pem)) (regErr "akey.root-unknown")
  let cdHash ← sha256M cdj
  let data ← liftE (attToBeSigned authDataRaw cdHash "akey.join")
  let leaf ← match x5c with
    | l :: _ => pure l
    | [] => throw (nonlibErr "IndexError" "akey.x5c0")
  let cert ← loadCert leaf "akey.cert"
  verifySignatureC cert.key (st.alg.getD .null) st.sig data (regErr "akey.signature")
  let key ← liftE (decodeCose credKey)
  let pk ← loadCoseKey key
  let spki ← spkiM pk
  reject (cert.spki != spki) (regErr "akey.key-mismatch")
  reject (!cert.extsOk) (nonlibErr "ValueError" "akey.cert-extensions")
  let kdDer ← match cert.keyDesc with
    | some d => pure d
    | none => throw (regErr "akey.keydesc-missing")
  let kdr ← keyDescriptionM kdDer
  let kd ← match kdr with
    | some k => pure k
    | none => throw (nonlibErr "ValueError" "akey.keydesc-parse")
  reject (kd.attestationChallenge != cdHash) (regErr "akey.challenge")
  reject (!kd.swAllAppsNativeIsNone) (regErr "akey.allapps-software")
  reject (!kd.teeAllAppsNativeIsNone) (regErr "akey.allapps-tee")
  reject (kd.teeOrigin != some 0) (regErr "akey.origin")
  reject (kd.teePurpose != some [2]) (regErr "akey.purpose")

/-! ### android-safetynet -/

def splitOnDot (s : List Char) : List (List Char) :=
  s.foldr (fun c acc => if c == '.' then [] :: acc else
    match acc with
    | h :: t => (c :: h) :: t
    | [] => [[c]]) [[]]

/-- `json.loads(base64url_to_bytes(part))` must be a dict (`.get` is called on it) -/
def jwsPartJson (part : List Char) (site : String) : M (List (String × JVal)) := do
  let b ← liftE (Base64.decode part)
  let r ← jsonLoadsBytesM b
  match r with
  | .ok (.obj kvs) => pure kvs
  | .ok _ => throw (nonlibErr "AttributeError" site)
  | .decodeError => throw (nonlibErr "JSONDecodeError" site)
  | .otherError c => if c.startsWith "oom:" then throw (oomErr c) else throw (nonlibErr c site)

def asciiChars (b : Bytes) : Option (List Char) :=
  b.mapM (fun x => if x.toNat < 128 then some (Char.ofNat x.toNat) else none)

def b64Std (b : Bytes) : List Char :=
  -- base64.b64encode: standard alphabet with padding
  let e := (Base64.encode b).map (fun c => if c == '-' then '+' else if c == '_' then '/' else c)
  e ++ List.replicate ((4 - e.length % 4) % 4) '='

def verifySafetyNet (st : AttStmt) (authDataRaw : Cbor) (cdj : Bytes) (roots : List Root) : M Unit := do
  reject (!cborTruthy st.ver) (regErr "snet.ver-missing")
  reject (!cborTruthy st.response) (regErr "snet.response-missing")
  let resp ← match st.response with
    | some (.bytes b) => pure b
    | _ => throw (nonlibErr "AttributeError" "snet.response-type")
  let jws ← match asciiChars resp with
    | some cs => pure cs
    | none => throw (nonlibErr "UnicodeDecodeError" "snet.response-ascii")
  let parts := splitOnDot jws
  let (p0, p1, p2) ← match parts with
    | [a, b, c] => pure (a, b, c)
    | _ => throw (regErr "snet.jws-parts")
  let header ← jwsPartJson p0 "snet.header"
  let payload ← jwsPartJson p1 "snet.payload"
  let hAlg := (JVal.lookup header "alg").getD (.str "")
  let hX5c := (JVal.lookup header "x5c").getD (.arr [])
  let nonceV := (JVal.lookup payload "nonce").getD (.str "")
  let tsV := (JVal.lookup payload "timestampMs").getD (.int 0)
  let integrity := (JVal.lookup payload "basicIntegrity").getD (.bool false)
  let cdHash ← sha256M cdj
  let nonceData ← liftE (attToBeSigned authDataRaw cdHash "snet.join")
  let nonceHash ← sha256M nonceData
  reject (!(match nonceV with | .str s => s.toList == b64Std nonceHash | _ => false)) (regErr "snet.nonce")
  let x5c ← match hX5c with
    | .arr xs => liftE (xs.mapM b64urlOfJVal)
    | _ => throw (oomErr "snet-x5c-shape")
  reject (!integrity.truthy) (regErr "snet.basic-integrity")
  let ts ← match tsV with
    | .int i => pure i
    | .bool b => pure (if b then 1 else 0)
    | .real _ => throw (oomErr "snet-timestamp-float")
    | _ => throw (nonlibErr "TypeError" "snet.timestamp-type")
  let late ← safetynetTimestampFails ts
  reject late (regErr "snet.timestamp")
  let leaf ← match x5c with
    | l :: _ => pure l
    | [] => throw (nonlibErr "IndexError" "snet.x5c0")
  let cert ← loadCert leaf "snet.cert"
  let cn ← match cert.subjectCNs with
    | c :: _ => pure c
    | [] => throw (nonlibErr "IndexError" "snet.cn-missing")
  reject (cn != "attest.android.com") (regErr "snet.cn")
  validateChainReg x5c (roots ++ (builtinRootNames.lookup "android-safetynet" |>.getD []).map Root.builtin) "snet"
  let data := utf8 (String.ofList (p0 ++ ['.'] ++ p1))
  let sig ← liftE (Base64.decode p2)
  reject (!(match hAlg with | .str s => s == "RS256" | _ => false)) (regErr "snet.alg")
  verifySignatureC cert.key (.nint 256) (some (.bytes sig)) data (regErr "snet.signature")

end Webauthn
