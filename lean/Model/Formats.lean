/-
  The six signed attestation formats: packed, fido-u2f, tpm, apple, android-key, android-safetynet.
  One `reject` line per Python `if …: raise`.
-/
import Model.Attestation
import Model.ClientData
import Model.Cose
import Model.Tpm
import Model.Chain
namespace Webauthn
open Generated

def regErr (site : String) : Err := libErr .InvalidRegistrationResponse site

def cborTruthy (v : Option Cbor) : Bool :=
  match v with
  | some c => c.truthy
  | none => false

/-- a bytes-like argument handed to a library call / `b"".join` -/
def needBytes (v : Cbor) (site : String) : Except Err Bytes :=
  match v with
  | .bytes b => .ok b
  | _ => .error (nonlibErr "TypeError" site)

def optBytes (v : Option Cbor) (site : String) : Except Err Bytes :=
  match v with
  | some c => needBytes c site
  | none => .error (nonlibErr "TypeError" site)

/-- the statement's `x5c` as a list of DER byte strings (other shapes: out of model) -/
def x5cList (v : Option Cbor) : Except Err (List Bytes) :=
  match v with
  | some (.arr xs) =>
    xs.mapM (fun x => match x with
      | .bytes b => .ok b
      | _ => .error (oomErr "x5c-element"))
  | _ => .error (oomErr "x5c-shape")

/-- `validate_certificate_chain` inside `try … except InvalidCertificateChain: raise InvalidRegistrationResponse` -/
def chainResult (r : ChainOutcome) (site : String) : Except Err Unit :=
  match r with
  | .ok => .ok ()
  | _ => .error (regErr (site ++ ".chain"))

def validateChainReg (x5c : List Bytes) (roots : List Root) (site : String) : M Unit :=
  if roots.isEmpty then pure ()
  else match x5c with
    | [] => throw (regErr (site ++ ".chain.x5c-empty"))
    | leaf :: inter => do
      let r ← chainVerifyM leaf inter roots
      liftE (chainResult r site)

/-- `x509.load_der_x509_certificate(der)` -/
def loadCert (der : Bytes) (site : String) : M CertView := do
  let r ← x509LoadM der
  liftE (someOr r (nonlibErr "ValueError" site))

def sigResult (r : SigOutcome) (onInvalid : Err) : Except Err Unit :=
  match r with
  | .valid => .ok ()
  | .invalid => .error onInvalid
  | .raised c => .error (nonlibErr c "verify_signature.raised")

/-- `verify_signature` with the signature taken from a CBOR member -/
def verifySignatureC (k : PubKey) (alg : Cbor) (sig : Option Cbor) (data : Bytes) (onInvalid : Err) : M Unit :=
  match sigPlan k alg with
  | .fail e => throw e
  | .verify s =>
    match sig with
    | some (.bytes b) => do
      let r ← sigVerifyM k s b data
      liftE (sigResult (sigSeen s r) onInvalid)
    | _ => throw (nonlibErr "TypeError" "verify_signature.sig-type")

/-- Python `a != b` between the key's alg and the statement's alg (scalars only) -/
def cborNe (a b : Cbor) : Except Err Bool :=
  if a.isScalarKey && b.isScalarKey then .ok (!Cbor.keyEq a b) else .error (oomErr "py-eq-container")

/-- authenticatorData ‖ SHA-256(clientDataJSON), with authenticatorData as decoded from the object -/
def attToBeSigned (authDataRaw : Cbor) (cdHash : Bytes) (site : String) : Except Err Bytes := do
  let ad ← needBytes authDataRaw site
  pure (ad ++ cdHash)

/-! ### packed -/

def verifyPacked (st : AttStmt) (authDataRaw : Cbor) (cdj : Bytes) (credKey : Bytes) (roots : List Root) : M Unit := do
  reject (!cborTruthy st.sig) (regErr "packed.sig-missing")
  reject (!cborTruthy st.alg) (regErr "packed.alg-missing")
  let cdHash ← sha256M cdj
  let data ← liftE (attToBeSigned authDataRaw cdHash "packed.join")
  let alg := st.alg.getD .null
  if cborTruthy st.x5c then do
    let x5c ← liftE (x5cList st.x5c)
    validateChainReg x5c roots "packed"
    let leaf ← liftE (headOr x5c (nonlibErr "IndexError" "packed.x5c0"))
    let cert ← loadCert leaf "packed.cert"
    verifySignatureC cert.key alg st.sig data (regErr "packed.signature")
  else do
    let key ← liftE (decodeCose credKey)
    let ne ← liftE (cborNe key.alg alg)
    reject ne (regErr "packed.self-alg")
    let pk ← loadCoseKey key
    verifySignatureC pk alg st.sig data (regErr "packed.self-signature")

/-! ### fido-u2f -/

def x5cLen (v : Option Cbor) : Except Err Nat :=
  match v with
  | some (.arr xs) => .ok xs.length
  | _ => .error (oomErr "x5c-shape")

def ecCurveOf : PubKey → Option Curve
  | .ec c _ _ => some c
  | _ => none

def ec2Coords : CoseKey → Option (Cbor × Cbor)
  | .ec2 _ _ _ x y => some (x, y)
  | _ => none

def zeroAaguid : String := "00000000-0000-0000-0000-000000000000"

def verifyFidoU2f (st : AttStmt) (cdj : Bytes) (rpIdHash credId credKey aaguid : Bytes) (roots : List Root) : M Unit := do
  reject (!cborTruthy st.sig) (regErr "u2f.sig-missing")
  reject (!cborTruthy st.x5c) (regErr "u2f.x5c-missing")
  let n ← liftE (x5cLen st.x5c)
  reject (decide (n > 1)) (regErr "u2f.x5c-many")
  let x5c ← liftE (x5cList st.x5c)
  validateChainReg x5c roots "u2f"
  let aa ← liftE (aaguidToString aaguid)
  reject (aa != zeroAaguid) (regErr "u2f.aaguid")
  let leaf ← liftE (headOr x5c (nonlibErr "IndexError" "u2f.x5c0"))
  let cert ← loadCert leaf "u2f.cert"
  let crv ← liftE (someOr (ecCurveOf cert.key) (regErr "u2f.leaf-not-ec"))
  reject (crv != .p256) (regErr "u2f.leaf-not-p256")
  let key ← liftE (decodeCose credKey)
  let xy ← liftE (someOr (ec2Coords key) (regErr "u2f.cred-not-ec2"))
  let xb ← liftE (needBytes xy.1 "u2f.join")
  let yb ← liftE (needBytes xy.2 "u2f.join")
  let cdHash ← sha256M cdj
  let data := [0x00] ++ rpIdHash ++ cdHash ++ credId ++ ([0x04] ++ xb ++ yb)
  verifySignatureC cert.key (.nint 6) st.sig data (regErr "u2f.signature")

/-! ### tpm -/

/-- `hash_by_alg(data, alg)` -/
def hashByAlgM (data : Bytes) (alg : Option Cbor) : M Bytes := do
  let h ← liftE (hashAlgByCose alg)
  hashM h data

def cborOfInt (i : Int) : Cbor := if i ≥ 0 then .uint i.toNat else .nint (-1 - i).toNat

/-- the COSE_Key a conformant authenticator emits (canonical member order), used by the
round-trip theorems of C09/C08; tied to `cbor2.dumps` by the C09 correspondence check -/
def encodeEc2 (alg : Int) (crv : Nat) (x y : Bytes) : Bytes :=
  Cbor.enc (.map [(.uint 1, .uint 2), (.uint 3, cborOfInt alg), (.nint 0, .uint crv), (.nint 1, .bytes x), (.nint 2, .bytes y)])

def encodeRsa (alg : Int) (n e : Bytes) : Bytes :=
  Cbor.enc (.map [(.uint 1, .uint 3), (.uint 3, cborOfInt alg), (.nint 0, .bytes n), (.nint 1, .bytes e)])

def encodeOkp (x : Bytes) : Bytes :=
  Cbor.enc (.map [(.uint 1, .uint 1), (.uint 3, .nint 7), (.nint 0, .uint 6), (.nint 1, .bytes x)])

def textIs (v : Option Cbor) (s : String) : Bool :=
  match v with
  | some (.text t) => t == utf8 s
  | _ => false

/-- the SAN walk of `verify_tpm`: (manufacturer, model, version), last occurrence wins -/
def tcgAttrs (attrs : List (String × String)) : Option String × Option String × Option String :=
  attrs.foldl (fun (acc : Option String × Option String × Option String) (a : String × String) =>
    if a.1 == "2.23.133.2.1" then (some a.2, acc.2.1, acc.2.2)
    else if a.1 == "2.23.133.2.2" then (acc.1, some a.2, acc.2.2)
    else if a.1 == "2.23.133.2.3" then (acc.1, acc.2.1, some a.2)
    else acc) (none, none, none)

def strTruthy (s : Option String) : Bool :=
  match s with
  | some t => !t.isEmpty
  | none => false

def sanAttrs (san : SanFirst) : Except Err (List (String × String)) :=
  match san with
  | .dirName a => .ok a
  | _ => .error (regErr "tpm.san-no-directory-name")

def tpmEkuCheck (eku : List String) : Except Err Unit :=
  if tpmEkuRuleIsContains then rejectE (!(eku.contains "2.23.133.8.3")) (regErr "tpm.eku")
  else do
    let first ← headOr eku (nonlibErr "IndexError" "tpm.eku-empty")
    rejectE (first != "2.23.133.8.3") (regErr "tpm.eku-first")

/-- the AIK certificate requirements -/
def tpmCertProfile (cert : CertView) : Except Err Unit := do
  rejectE (!cert.versionV3) (regErr "tpm.cert-version")
  rejectE (decide (cert.subjectLen > 0)) (regErr "tpm.cert-subject")
  rejectE (!cert.extsOk) (nonlibErr "ValueError" "tpm.cert-extensions")
  let san ← someOr cert.san (regErr "tpm.san-missing")
  let attrs ← sanAttrs san
  let t := tcgAttrs attrs
  rejectE (!strTruthy t.1 || !strTruthy t.2.1 || !strTruthy t.2.2) (regErr "tpm.san-attrs")
  rejectE (!(tpmManufacturers.contains (t.1.getD ""))) (regErr "tpm.vendor")
  let eku ← someOr cert.eku (regErr "tpm.eku-missing")
  -- "MUST contain tcg-kp-AIKCertificate": membership, or (older code, regenerated flag) only the first purpose is read
  tpmEkuCheck eku
  let ca ← someOr cert.bcCa (regErr "tpm.bc-missing")
  rejectE ca (regErr "tpm.bc-ca")

def rsaMembers : CoseKey → Option (Cbor × Cbor)
  | .rsa _ _ n e => some (n, e)
  | _ => none

def ec2Members : CoseKey → Option (Cbor × Cbor × Cbor)
  | .ec2 _ _ crv x y => some (crv, x, y)
  | _ => none

def bytesNe (v : Cbor) (b : Bytes) : Bool :=
  match v with
  | .bytes c => b != c
  | _ => true

/-- pubArea / credential key agreement -/
def tpmKeyAgreement (pa : TPMPubArea) (key : CoseKey) : Except Err Unit :=
  match pa.parameters with
  | .rsa _ _ _ exponent => do
    let ne ← someOr (rsaMembers key) (regErr "tpm.key-not-rsa")
    rejectE (bytesNe ne.1 pa.unique) (regErr "tpm.unique-modulus")
    let eb ← needBytes ne.2 "tpm.exponent-type"
    rejectE ((if beNat exponent == 0 then 65537 else beNat exponent) != beNat eb) (regErr "tpm.exponent")
  | .ecc _ _ curveId _ => do
    let m ← someOr (ec2Members key) (regErr "tpm.key-not-ecc")
    let xb ← needBytes m.2.1 "tpm.join"
    let yb ← needBytes m.2.2 "tpm.join"
    rejectE (pa.unique != xb ++ yb) (regErr "tpm.unique-xy")
    let paCrv ← someOr (tpmEccCurveCoseCrvMap.lookup curveId) (regErr "tpm.curve-unsupported")
    rejectE (m.1.asInt? != some paCrv) (regErr "tpm.curve")

def verifyTpm (st : AttStmt) (authDataRaw : Cbor) (cdj : Bytes) (credKey : Bytes) (roots : List Root) : M Unit := do
  reject (!cborTruthy st.certInfo) (regErr "tpm.certinfo-missing")
  reject (!cborTruthy st.pubArea) (regErr "tpm.pubarea-missing")
  reject (!cborTruthy st.alg) (regErr "tpm.alg-missing")
  reject (!cborTruthy st.x5c) (regErr "tpm.x5c-missing")
  reject (!cborTruthy st.sig) (regErr "tpm.sig-missing")
  reject (!textIs st.ver "2.0") (regErr "tpm.ver")
  let x5c ← liftE (x5cList st.x5c)
  validateChainReg x5c roots "tpm"
  let pubAreaBytes ← liftE (optBytes st.pubArea "tpm.pubarea-type")
  let pa ← liftE (parsePubArea pubAreaBytes)
  let key ← liftE (decodeCose credKey)
  liftE (tpmKeyAgreement pa key)
  let certInfoBytes ← liftE (optBytes st.certInfo "tpm.certinfo-type")
  let ci ← liftE (parseCertInfo certInfoBytes)
  reject (beNat ci.magic != 0xFF544347) (regErr "tpm.magic")
  let cdHash ← hashByAlgM cdj none
  let attToBeSigned ← liftE (attToBeSigned authDataRaw cdHash "tpm.join")
  let extra ← hashByAlgM attToBeSigned st.alg
  reject (ci.extraData != extra) (regErr "tpm.extra-data")
  let nameCose ← liftE (someOr (tpmAlgCoseAlgMap.lookup pa.nameAlg) (regErr "tpm.name-alg-unsupported"))
  let paHash ← hashByAlgM pubAreaBytes (some (cborOfInt nameCose))
  reject (ci.attested.nameAlg != pa.nameAlg) (regErr "tpm.attested-name-alg")
  reject (ci.attested.nameAlgBytes ++ paHash != ci.attested.name) (regErr "tpm.attested-name")
  let leaf ← liftE (headOr x5c (nonlibErr "IndexError" "tpm.x5c0"))
  let cert ← loadCert leaf "tpm.cert"
  verifySignatureC cert.key (st.alg.getD .null) st.sig certInfoBytes (regErr "tpm.signature")
  liftE (tpmCertProfile cert)

/-! ### apple -/

def verifyApple (st : AttStmt) (authDataRaw : Cbor) (cdj : Bytes) (credKey : Bytes) (roots : List Root) : M Unit := do
  reject (!cborTruthy st.x5c) (regErr "apple.x5c-missing")
  let x5c ← liftE (x5cList st.x5c)
  validateChainReg x5c (roots ++ (builtinRootNames.lookup "apple" |>.getD []).map Root.builtin) "apple"
  let cdHash ← sha256M cdj
  let nonceToHash ← liftE (attToBeSigned authDataRaw cdHash "apple.join")
  let nonce ← sha256M nonceToHash
  let leaf ← liftE (headOr x5c (nonlibErr "IndexError" "apple.x5c0"))
  let cert ← loadCert leaf "apple.cert"
  reject (!cert.extsOk) (nonlibErr "ValueError" "apple.cert-extensions")
  let ext ← liftE (someOr cert.appleNonce (regErr "apple.nonce-ext-missing"))
  reject (ext.drop 6 != nonce) (regErr "apple.nonce")
  let key ← liftE (decodeCose credKey)
  let pk ← loadCoseKey key
  let spki ← spkiM pk
  reject (cert.spki != spki) (regErr "apple.key-mismatch")

/-! ### android-key -/

/-- the PEM constants behind a list of built-in root names -/
def builtinPemsM : List String → M (List Bytes)
  | [] => pure []
  | n :: ns => do
    let p ← builtinPemM n
    let ps ← builtinPemsM ns
    pure (p :: ps)

/-- the certificates among a list of PEM texts, each re-serialised canonically (unreadable entries are skipped) -/
def pemCanonsM : List Bytes → M (List Bytes)
  | [] => pure []
  | p :: ps => do
    let c ← pemCanonM p
    let cs ← pemCanonsM ps
    pure (match c with | some x => x :: cs | none => cs)

def rpPemsOf (roots : List Root) : List Bytes :=
  roots.filterMap (fun r => match r with | .pem b => some b | .builtin _ => none)

def verifyAndroidKey (st : AttStmt) (authDataRaw : Cbor) (cdj : Bytes) (credKey : Bytes) (roots : List Root) : M Unit := do
  reject (!cborTruthy st.sig) (regErr "akey.sig-missing")
  reject (!cborTruthy st.alg) (regErr "akey.alg-missing")
  reject (!cborTruthy st.x5c) (regErr "akey.x5c-missing")
  let x5c ← liftE (x5cList st.x5c)
  let rootDer ← liftE (someOr x5c.getLast? (nonlibErr "IndexError" "akey.x5c-last"))
  let noRoot := x5c.dropLast
  let rootCert ← loadCert rootDer "akey.root-cert"
  validateChainReg noRoot [Root.pem rootCert.pem] "akey"
  -- "Make sure the root cert is one of these"
  let builtin := (builtinRootNames.lookup "android-key").getD []
  let builtinPems ← builtinPemsM builtin
  -- certificates are compared, not the way their PEM files are written
  let known ← pemCanonsM (rpPemsOf roots ++ builtinPems)
  reject (!(known.contains rootCert.pem)) (regErr "akey.root-unknown")
  let cdHash ← sha256M cdj
  let data ← liftE (attToBeSigned authDataRaw cdHash "akey.join")
  let leaf ← liftE (headOr x5c (nonlibErr "IndexError" "akey.x5c0"))
  let cert ← loadCert leaf "akey.cert"
  verifySignatureC cert.key (st.alg.getD .null) st.sig data (regErr "akey.signature")
  let key ← liftE (decodeCose credKey)
  let pk ← loadCoseKey key
  let spki ← spkiM pk
  reject (cert.spki != spki) (regErr "akey.key-mismatch")
  reject (!cert.extsOk) (nonlibErr "ValueError" "akey.cert-extensions")
  let kdDer ← liftE (someOr cert.keyDesc (regErr "akey.keydesc-missing"))
  let kdr ← keyDescriptionM kdDer
  let kd ← liftE (someOr kdr (nonlibErr "ValueError" "akey.keydesc-parse"))
  reject (kd.attestationChallenge != cdHash) (regErr "akey.challenge")
  reject kd.swAllAppsPresent (regErr "akey.allapps-software")
  reject kd.teeAllAppsPresent (regErr "akey.allapps-tee")
  reject (kd.teeOrigin != some 0) (regErr "akey.origin")
  reject (kd.teePurpose != some [2]) (regErr "akey.purpose")

/-! ### android-safetynet -/

def splitOnDot (s : List Char) : List (List Char) :=
  s.foldr (fun c acc => if c == '.' then [] :: acc else
    match acc with
    | h :: t => (c :: h) :: t
    | [] => [[c]]) [[]]

/-- `json.loads(base64url_to_bytes(part))` must be a dict (`.get` is called on it) -/
def jsonObjOf (r : JsonOutcome) (site : String) : Except Err (List (String × JVal)) :=
  match r with
  | .ok (.obj kvs) => .ok kvs
  | .ok _ => .error (nonlibErr "AttributeError" site)
  | .decodeError => .error (nonlibErr "JSONDecodeError" site)
  | .otherError c => if c.startsWith "oom:" then .error (oomErr c) else .error (nonlibErr c site)

def jwsPartJson (part : List Char) (site : String) : M (List (String × JVal)) := do
  let b ← liftE (Base64.decode part)
  let r ← jsonLoadsBytesM b
  liftE (jsonObjOf r site)

def asciiChars (b : Bytes) : Option (List Char) :=
  b.mapM (fun x => if x.toNat < 128 then some (Char.ofNat x.toNat) else none)

def b64Std (b : Bytes) : List Char :=
  -- base64.b64encode: standard alphabet with padding
  let e := (Base64.encode b).map (fun c => if c == '-' then '+' else if c == '_' then '/' else c)
  e ++ List.replicate ((4 - e.length % 4) % 4) '='

def responseBytes (v : Option Cbor) : Except Err Bytes :=
  match v with
  | some (.bytes b) => .ok b
  | _ => .error (nonlibErr "AttributeError" "snet.response-type")

def threeParts (parts : List (List Char)) : Except Err (List Char × List Char × List Char) :=
  match parts with
  | [a, b, c] => .ok (a, b, c)
  | _ => .error (regErr "snet.jws-parts")

def jvalStrIs (v : JVal) (s : List Char) : Bool :=
  match v with
  | .str t => t.toList == s
  | _ => false

def snetX5c (v : JVal) : Except Err (List Bytes) :=
  match v with
  | .arr xs => xs.mapM b64urlOfJVal
  | _ => .error (oomErr "snet-x5c-shape")

def snetTimestamp (v : JVal) : Except Err Int :=
  match v with
  | .int i => .ok i
  | .bool b => .ok (if b then 1 else 0)
  | .real _ =>
    -- a float (NaN included): refused as "not an integer" when the regenerated type guard is there; without it the
    -- comparisons of a float are outside the model
    if safetynetTimestampRequiresInt then .error (regErr "snet.timestamp-not-int") else .error (oomErr "snet-timestamp-float")
  | _ =>
    if safetynetTimestampRequiresInt then .error (regErr "snet.timestamp-not-int")
    else .error (nonlibErr "TypeError" "snet.timestamp-type")

def verifySafetyNet (st : AttStmt) (authDataRaw : Cbor) (cdj : Bytes) (roots : List Root) : M Unit := do
  reject (!cborTruthy st.ver) (regErr "snet.ver-missing")
  reject (!cborTruthy st.response) (regErr "snet.response-missing")
  let resp ← liftE (responseBytes st.response)
  let jws ← liftE (someOr (asciiChars resp) (nonlibErr "UnicodeDecodeError" "snet.response-ascii"))
  let parts ← liftE (threeParts (splitOnDot jws))
  let header ← jwsPartJson parts.1 "snet.header"
  let payload ← jwsPartJson parts.2.1 "snet.payload"
  let cdHash ← sha256M cdj
  let nonceData ← liftE (attToBeSigned authDataRaw cdHash "snet.join")
  let nonceHash ← sha256M nonceData
  reject (!jvalStrIs ((JVal.lookup payload "nonce").getD (.str "")) (b64Std nonceHash)) (regErr "snet.nonce")
  let x5c ← liftE (snetX5c ((JVal.lookup header "x5c").getD (.arr [])))
  reject (!((JVal.lookup payload "basicIntegrity").getD (.bool false)).isTrue) (regErr "snet.basic-integrity")
  let ts ← liftE (snetTimestamp ((JVal.lookup payload "timestampMs").getD (.int 0)))
  let late ← safetynetTimestampFails ts
  reject late (regErr "snet.timestamp")
  let leaf ← liftE (headOr x5c (nonlibErr "IndexError" "snet.x5c0"))
  let cert ← loadCert leaf "snet.cert"
  let cn ← liftE (headOr cert.subjectCNs (regErr "snet.cn-missing"))
  reject (cn != "attest.android.com") (regErr "snet.cn")
  validateChainReg x5c (roots ++ (builtinRootNames.lookup "android-safetynet" |>.getD []).map Root.builtin) "snet"
  let sig ← liftE (Base64.decode parts.2.2)
  reject (!jvalStrIs ((JVal.lookup header "alg").getD (.str "")) "RS256".toList) (regErr "snet.alg")
  verifySignatureC cert.key (.nint 256) (some (.bytes sig))
    (utf8 (String.ofList (parts.1 ++ ['.'] ++ parts.2.1))) (regErr "snet.signature")

end Webauthn
