/-
  The CBOR fragment the library meets, with `cbor2`-faithful decode (`cbor2.loads`, which ignores
  trailing bytes and collapses duplicate map keys the way a Python dict does) and encode
  (`cbor2.dumps`: shortest heads, definite lengths, dict order).

  Outside the fragment (tags, floats, indefinite lengths, other simple values, non-scalar map
  keys) the decoder answers `oom`; such inputs are excluded from the correspondence check and from
  the theorems' hypotheses.
-/
import Model.Basic
namespace Webauthn

inductive Cbor
  | uint (n : Nat)
  | nint (n : Nat)                    -- the integer  -1 - n
  | bytes (b : Bytes)
  | text (utf8 : Bytes)               -- a str, kept as its UTF-8 bytes
  | arr (xs : List Cbor)
  | map (kvs : List (Cbor × Cbor))    -- a Python dict: insertion ordered, keys pairwise distinct
  | bool (b : Bool)
  | null
  | undefined
  deriving Repr, Inhabited

namespace Cbor

/-- the Python integer a value `==`-compares equal to, if any (`True == 1`) -/
def asInt? : Cbor → Option Int
  | .uint n => some n
  | .nint n => some (-1 - (n : Int))
  | .bool b => some (if b then 1 else 0)
  | _ => none

/-- Python `==`/`hash` on the scalars that can be dict keys in the fragment -/
def keyEq : Cbor → Cbor → Bool
  | .bytes a, .bytes b => a == b
  | .text a, .text b => a == b
  | .null, .null => true
  | .undefined, .undefined => true
  | a, b =>
    match a.asInt?, b.asInt? with
    | some x, some y => x == y
    | _, _ => false

def isScalarKey : Cbor → Bool
  | .arr _ => false
  | .map _ => false
  | _ => true

/-- `d[k] = v` on an insertion-ordered dict -/
def dictInsert : List (Cbor × Cbor) → Cbor → Cbor → List (Cbor × Cbor)
  | [], k, v => [(k, v)]
  | (k', v') :: rest, k, v =>
    if keyEq k' k then (k', v) :: rest else (k', v') :: dictInsert rest k v

/-- `d[k]` (none = KeyError) with a Python int key -/
def lookupInt (kvs : List (Cbor × Cbor)) (i : Int) : Option Cbor :=
  match kvs.find? (fun p => p.1.asInt? == some i) with
  | some p => some p.2
  | none => none

/-- `k in d` / `d[k]` with a str key -/
def lookupText (kvs : List (Cbor × Cbor)) (s : String) : Option Cbor :=
  match kvs.find? (fun p => match p.1 with | .text t => t == utf8 s | _ => false) with
  | some p => some p.2
  | none => none

/-- Python truthiness -/
def truthy : Cbor → Bool
  | .uint n => n != 0
  | .nint _ => true
  | .bytes b => !b.isEmpty
  | .text b => !b.isEmpty
  | .arr xs => !xs.isEmpty
  | .map kvs => !kvs.isEmpty
  | .bool b => b
  | .null => false
  | .undefined => true      -- cbor2.undefined is an ordinary object

/-! ### encoder -/

/-- initial byte(s) for major type `m` with argument `n` (shortest form) -/
def head (m : Nat) (n : Nat) : Bytes :=
  if n < 24 then [(m * 32 + n).toUInt8]
  else if n < 256 then [(m * 32 + 24).toUInt8, n.toUInt8]
  else if n < 65536 then (m * 32 + 25).toUInt8 :: beBytes n 2
  else if n < 4294967296 then (m * 32 + 26).toUInt8 :: beBytes n 4
  else (m * 32 + 27).toUInt8 :: beBytes n 8

mutual
  def enc : Cbor → Bytes
    | .uint n => head 0 n
    | .nint n => head 1 n
    | .bytes b => head 2 b.length ++ b
    | .text b => head 3 b.length ++ b
    | .arr xs => head 4 xs.length ++ encList xs
    | .map kvs => head 5 kvs.length ++ encPairs kvs
    | .bool false => [0xf4]
    | .bool true => [0xf5]
    | .null => [0xf6]
    | .undefined => [0xf7]
  def encList : List Cbor → Bytes
    | [] => []
    | x :: xs => enc x ++ encList xs
  def encPairs : List (Cbor × Cbor) → Bytes
    | [] => []
    | (k, v) :: kvs => enc k ++ enc v ++ encPairs kvs
end

/-! ### decoder -/

inductive DecErr
  | bad                 -- cbor2 raises (CBORDecodeError and friends)
  | oom (why : String)  -- outside the modelled fragment
  deriving Repr, DecidableEq

abbrev D := Except DecErr

/-- read the argument of a head whose additional-information field is `ai` -/
def readArg (ai : Nat) (bs : Bytes) : D (Nat × Bytes) :=
  if ai < 24 then .ok (ai, bs)
  else if ai = 24 then
    match bs with
    | a :: rest => .ok (a.toNat, rest)
    | _ => .error .bad
  else if ai = 25 then
    if bs.length < 2 then .error .bad else .ok (beNat (bs.take 2), bs.drop 2)
  else if ai = 26 then
    if bs.length < 4 then .error .bad else .ok (beNat (bs.take 4), bs.drop 4)
  else if ai = 27 then
    if bs.length < 8 then .error .bad else .ok (beNat (bs.take 8), bs.drop 8)
  else if ai = 31 then .error (.oom "indefinite-length")
  else .error .bad

mutual
  def dec : Nat → Bytes → D (Cbor × Bytes)
    | 0, _ => .error (.oom "fuel")
    | _ + 1, [] => .error .bad
    | fuel + 1, b :: bs =>
      let m := b.toNat / 32
      let ai := b.toNat % 32
      if m = 7 then
        if ai = 20 then .ok (.bool false, bs)
        else if ai = 21 then .ok (.bool true, bs)
        else if ai = 22 then .ok (.null, bs)
        else if ai = 23 then .ok (.undefined, bs)
        else .error (.oom "simple-or-float")
      else if m = 6 then .error (.oom "tag")
      else
        match readArg ai bs with
        | .error e => .error e
        | .ok (n, rest) =>
          if m = 0 then .ok (.uint n, rest)
          else if m = 1 then .ok (.nint n, rest)
          else if m = 2 then
            if rest.length < n then .error .bad else .ok (.bytes (rest.take n), rest.drop n)
          else if m = 3 then
            if rest.length < n then .error .bad
            else if validUtf8 (rest.take n) then .ok (.text (rest.take n), rest.drop n)
            else .error .bad
          else if m = 4 then
            match decList fuel n rest with
            | .error e => .error e
            | .ok (xs, rest') => .ok (.arr xs, rest')
          else
            match decPairs fuel n rest [] with
            | .error e => .error e
            | .ok (kvs, rest') => .ok (.map kvs, rest')
  def decList : Nat → Nat → Bytes → D (List Cbor × Bytes)
    | _, 0, bs => .ok ([], bs)
    | 0, _ + 1, _ => .error (.oom "fuel")
    | fuel + 1, n + 1, bs =>
      match dec fuel bs with
      | .error e => .error e
      | .ok (x, rest) =>
        match decList fuel n rest with
        | .error e => .error e
        | .ok (xs, rest') => .ok (x :: xs, rest')
  def decPairs : Nat → Nat → Bytes → List (Cbor × Cbor) → D (List (Cbor × Cbor) × Bytes)
    | _, 0, bs, acc => .ok (acc, bs)
    | 0, _ + 1, _, _ => .error (.oom "fuel")
    | fuel + 1, n + 1, bs, acc =>
      match dec fuel bs with
      | .error e => .error e
      | .ok (k, rest) =>
        if !isScalarKey k then .error (.oom "non-scalar-key") else
        match dec fuel rest with
        | .error e => .error e
        | .ok (v, rest') => decPairs fuel n rest' (dictInsert acc k v)
end

/-- `cbor2.loads(bs)`: first item, trailing bytes ignored -/
def loads (bs : Bytes) : D Cbor :=
  match dec (2 * bs.length + 2) bs with
  | .ok (v, _) => .ok v
  | .error e => .error e

end Cbor

/-- `parse_cbor` -/
def parseCbor (bs : Bytes) : Except Err Cbor :=
  match Cbor.loads bs with
  | .ok v => .ok v
  | .error .bad => .error (libErr .InvalidCBORData "parse_cbor")
  | .error (.oom why) => .error (oomErr why)

/-- `encode_cbor` (total on the fragment) -/
def encodeCbor (v : Cbor) : Bytes := Cbor.enc v

end Webauthn
