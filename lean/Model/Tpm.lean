/-
  webauthn/helpers/tpm: parse_cert_info, parse_pub_area and the struct classes.
  The identifier maps and the object-attribute bit expressions are the regenerated ones.
-/
import Model.Basic
import Generated.Tables
namespace Webauthn
open Generated

/-- `MAP[key]` on one of the bytes-keyed dicts; missing key = KeyError -/
def tpmLookup (m : List (List UInt8 × String)) (k : Bytes) (site : String) : Except Err String :=
  match m.lookup k with
  | some v => .ok v
  | none => .error (nonlibErr "KeyError" site)

structure TPMClockInfo where
  clock : Bytes
  resetCount : Nat
  restartCount : Nat
  safe : Bool
  deriving DecidableEq, Repr, Inhabited

structure TPMAttested where
  nameAlg : String
  nameAlgBytes : Bytes
  name : Bytes
  qualifiedName : Bytes
  deriving DecidableEq, Repr, Inhabited

structure TPMCertInfo where
  magic : Bytes
  type : String
  qualifiedSigner : Bytes
  extraData : Bytes
  clockInfo : TPMClockInfo
  firmwareVersion : Bytes
  attested : TPMAttested
  deriving DecidableEq, Repr, Inhabited

/-- `TPMCertInfoClockInfo.__init__` -/
def parseClockInfo (ci : Bytes) : Except Err TPMClockInfo :=
  match ci.drop 16 with
  | [] => .error (nonlibErr "IndexError" "tpm.clockinfo.safe")
  | s :: _ => .ok { clock := slice ci 0 8, resetCount := beNat (slice ci 8 12),
                    restartCount := beNat (slice ci 12 16), safe := s != 0 }

/-- `TPMCertInfoAttested.__init__` -/
def parseAttestedName (name qname : Bytes) : Except Err TPMAttested := do
  let alg ← tpmLookup tpmAlgMap (slice name 0 2) "tpm.attested.name-alg"
  pure { nameAlg := alg, nameAlgBytes := slice name 0 2, name, qualifiedName := qname }

/-- read a 2-byte big-endian length at `p` then that many bytes; returns the field and the new pointer -/
def lenPrefixed (val : Bytes) (p : Nat) : Bytes × Nat :=
  let n := beNat (slice val p (p + 2))
  (slice val (p + 2) (p + 2 + n), p + 2 + n)

/-- `parse_cert_info` -/
def parseCertInfo (val : Bytes) : Except Err TPMCertInfo := do
  let magic := slice val 0 4
  let ty ← tpmLookup tpmStMap (slice val 4 6) "tpm.certinfo.type"
  let (qualifiedSigner, p1) := lenPrefixed val 6
  let (extraData, p2) := lenPrefixed val p1
  let clockInfoBytes := slice val p2 (p2 + 17)
  let firmware := slice val (p2 + 17) (p2 + 25)
  rejectE (ty != tpmStAttestCertify) (libErr .InvalidTPMCertInfoStructure "tpm.certinfo.not-certify")
  let (name, p3) := lenPrefixed val (p2 + 25)
  let (qname, _) := lenPrefixed val p3
  let attested ← parseAttestedName name qname
  let clockInfo ← parseClockInfo clockInfoBytes
  pure { magic, type := ty, qualifiedSigner, extraData, clockInfo, firmwareVersion := firmware, attested }

inductive TPMParams
  | rsa (symmetric scheme : String) (keyBits exponent : Bytes)
  | ecc (symmetric scheme curveId kdf : String)
  deriving DecidableEq, Repr, Inhabited

structure TPMPubArea where
  type : String
  nameAlg : String
  objectAttributes : List Bool      -- in the order of `Generated.tpmObjectAttributeNames`
  authPolicy : Bytes
  parameters : TPMParams
  unique : Bytes
  deriving DecidableEq, Repr, Inhabited

/-- `TPMPubAreaParametersRSA.__init__` -/
def parseRsaParams (p : Bytes) : Except Err TPMParams := do
  let sym ← tpmLookup tpmAlgMap (slice p 0 2) "tpm.rsa.symmetric"
  let sch ← tpmLookup tpmAlgMap (slice p 2 4) "tpm.rsa.scheme"
  pure (.rsa sym sch (slice p 4 6) (slice p 6 10))

/-- `TPMPubAreaParametersECC.__init__` -/
def parseEccParams (p : Bytes) : Except Err TPMParams := do
  let sym ← tpmLookup tpmAlgMap (slice p 0 2) "tpm.ecc.symmetric"
  let sch ← tpmLookup tpmAlgMap (slice p 2 4) "tpm.ecc.scheme"
  let crv ← tpmLookup tpmEccCurveMap (slice p 4 6) "tpm.ecc.curve"
  let kdf ← tpmLookup tpmAlgMap (slice p 6 8) "tpm.ecc.kdf"
  pure (.ecc sym sch crv kdf)

/-- `TPMPubAreaUnique.__init__` for RSA -/
def uniqueRsa (u : Bytes) : Bytes := (lenPrefixed u 0).1

/-- `TPMPubAreaUnique.__init__` for ECC: x ‖ y -/
def uniqueEcc (u : Bytes) : Bytes :=
  let (x, p) := lenPrefixed u 0
  let (y, _) := lenPrefixed u p
  x ++ y

/-- `parse_pub_area` -/
def parsePubArea (val : Bytes) : Except Err TPMPubArea := do
  let ty ← tpmLookup tpmAlgMap (slice val 0 2) "tpm.pubarea.type"
  let nameAlg ← tpmLookup tpmAlgMap (slice val 2 4) "tpm.pubarea.name-alg"
  let attrs := tpmObjectAttributes (beNat (slice val 4 8))
  let (authPolicy, p) := lenPrefixed val 8
  if ty == tpmAlgRsa then do
    let params ← parseRsaParams (slice val p (p + 10))
    pure { type := ty, nameAlg, objectAttributes := attrs, authPolicy, parameters := params,
           unique := uniqueRsa (val.drop (p + 10)) }
  else if ty == tpmAlgEcc then do
    let params ← parseEccParams (slice val p (p + 8))
    pure { type := ty, nameAlg, objectAttributes := attrs, authPolicy, parameters := params,
           unique := uniqueEcc (val.drop (p + 8)) }
  else throw (libErr .InvalidTPMPubAreaStructure "tpm.pubarea.type-unsupported")

/-! ### the TPM 2.0 Part 2 layouts (spec side of the C12 round-trip theorems; tied to the
simulator's independent encoder by the C12 correspondence check) -/

/-- TPM2B: 2-byte big-endian size, then the bytes -/
def tpm2b (x : Bytes) : Bytes := beBytes x.length 2 ++ x

/-- TPMS_ATTEST for a certify structure -/
def encodeCertInfo (magic tyB qs extra clock : Bytes) (reset restart : Nat) (safe : UInt8) (fw name qname : Bytes) : Bytes :=
  magic ++ tyB ++ tpm2b qs ++ tpm2b extra ++ clock ++ beBytes reset 4 ++ beBytes restart 4 ++ [safe] ++ fw ++
    tpm2b name ++ tpm2b qname

/-- TPMT_PUBLIC, RSA -/
def encodePubAreaRsa (tyB naB : Bytes) (attrs : Nat) (authPolicy symB schB keyBits exponent modulus : Bytes) : Bytes :=
  tyB ++ naB ++ beBytes attrs 4 ++ tpm2b authPolicy ++ symB ++ schB ++ keyBits ++ exponent ++ tpm2b modulus

/-- TPMT_PUBLIC, ECC -/
def encodePubAreaEcc (tyB naB : Bytes) (attrs : Nat) (authPolicy symB schB crvB kdfB x y : Bytes) : Bytes :=
  tyB ++ naB ++ beBytes attrs 4 ++ tpm2b authPolicy ++ symB ++ schB ++ crvB ++ kdfB ++ tpm2b x ++ tpm2b y

end Webauthn
