/-
  The oracle interface: every call the library makes into `hashlib`, `json`, `cryptography`,
  OpenSSL, `asn1crypto`, `secrets` or the clock is a `Query`; a modelled function is an
  interaction tree `Prog`.  `Prog.run W` interprets it against an arbitrary world `W` (theorems
  quantify over all `W`); the driver interprets it in `IO` against the real libraries.
-/
import Model.Types
namespace Webauthn

inductive Query
  | hash (a : HashAlg) (b : Bytes)
  | jsonLoadsBytes (b : Bytes)
  | jsonLoadsStr (s : String)
  | keyLoad (k : PubKey)                                   -- EllipticCurvePublicNumbers(..).public_key() etc.
  | spki (k : PubKey)                                      -- public_bytes(DER, SubjectPublicKeyInfo)
  | sigVerify (k : PubKey) (s : Scheme) (sig data : Bytes) -- public_key.verify(...)
  | x509Load (der : Bytes)                                 -- load_der_x509_certificate + field reads
  | chainVerify (leaf : Bytes) (inter : List Bytes) (roots : List Root) -- OpenSSL path validation, now
  | keyDescription (der : Bytes)                           -- asn1crypto KeyDescription.load
  | nowSeconds                                             -- int(time.time())
  | tokenBytes (k n : Nat)                                 -- k-th secrets.token_bytes(n) of this call
  | builtinPem (name : String)                             -- the PEM constant of known_root_certs.py
  | pemCanon (pem : Bytes)                                 -- load_pem_x509_certificate(pem) re-serialised as PEM, if it loads
  deriving Repr

def Answer : Query → Type
  | .hash _ _ => Bytes
  | .jsonLoadsBytes _ => JsonOutcome
  | .jsonLoadsStr _ => JsonOutcome
  | .keyLoad _ => Bool
  | .spki _ => Bytes
  | .sigVerify _ _ _ _ => SigOutcome
  | .x509Load _ => Option CertView
  | .chainVerify _ _ _ => ChainOutcome
  | .keyDescription _ => Option KeyDescView
  | .nowSeconds => Int
  | .tokenBytes _ _ => Bytes
  | .builtinPem _ => Bytes
  | .pemCanon _ => Option Bytes

abbrev World := (q : Query) → Answer q

namespace World
variable (W : World)
def hash (a : HashAlg) (b : Bytes) : Bytes := W (.hash a b)
def sha256 (b : Bytes) : Bytes := W (.hash .sha256 b)
def jsonLoadsBytes (b : Bytes) : JsonOutcome := W (.jsonLoadsBytes b)
def jsonLoadsStr (s : String) : JsonOutcome := W (.jsonLoadsStr s)
def keyLoad (k : PubKey) : Bool := W (.keyLoad k)
def spki (k : PubKey) : Bytes := W (.spki k)
def sigVerify (k : PubKey) (s : Scheme) (sig data : Bytes) : SigOutcome := W (.sigVerify k s sig data)
def x509Load (der : Bytes) : Option CertView := W (.x509Load der)
def chainVerify (leaf : Bytes) (inter : List Bytes) (roots : List Root) : ChainOutcome :=
  W (.chainVerify leaf inter roots)
def builtinPem (name : String) : Bytes := W (.builtinPem name)
def pemCanon (pem : Bytes) : Option Bytes := W (.pemCanon pem)
def keyDescription (der : Bytes) : Option KeyDescView := W (.keyDescription der)
def nowSeconds : Int := W .nowSeconds
def tokenBytes (k n : Nat) : Bytes := W (.tokenBytes k n)
end World

inductive Prog (α : Type) where
  | ret : α → Prog α
  | ask : (q : Query) → (Answer q → Prog α) → Prog α

namespace Prog

def bind {α β} : Prog α → (α → Prog β) → Prog β
  | .ret a, f => f a
  | .ask q k, f => .ask q (fun a => bind (k a) f)

instance : Monad Prog where
  pure := .ret
  bind := bind

def run {α} (W : World) : Prog α → α
  | .ret a => a
  | .ask q k => run W (k (W q))

/-- The list of queries issued when run against `W`, in order. -/
def trace {α} (W : World) : Prog α → List Query
  | .ret _ => []
  | .ask q k => q :: trace W (k (W q))

@[simp] theorem run_pure {α} (W : World) (a : α) : run W (pure a : Prog α) = a := rfl

@[simp] theorem run_bind {α β} (W : World) (x : Prog α) (f : α → Prog β) :
    run W (x >>= f) = run W (f (run W x)) := by
  induction x with
  | ret a => rfl
  | ask q k ih => exact ih (W q)

theorem trace_bind {α β} (W : World) (x : Prog α) (f : α → Prog β) :
    trace W (x >>= f) = trace W x ++ trace W (f (run W x)) := by
  induction x with
  | ret a => rfl
  | ask q k ih =>
    show q :: trace W (bind (k (W q)) f) = q :: _
    exact congrArg _ (ih (W q))

end Prog

/-- Modelled library functions that consult an external library. -/
abbrev M := ExceptT Err Prog

def runM {α} (W : World) (x : M α) : Except Err α := Prog.run W x.run

def traceM {α} (W : World) (x : M α) : List Query := Prog.trace W x.run

/-- `if cond: raise e` -/
def reject (c : Bool) (e : Err) : M Unit := if c then throw e else pure ()

/-- embed a pure (library-free) computation -/
def liftE {α} (x : Except Err α) : M α := ExceptT.mk (pure x)

@[simp] theorem runM_pure {α} (W : World) (a : α) : runM W (pure a : M α) = .ok a := rfl

@[simp] theorem runM_throw {α} (W : World) (e : Err) : runM W (throw e : M α) = .error e := rfl

theorem runM_bind {α β} (W : World) (x : M α) (f : α → M β) :
    runM W (x >>= f) = (runM W x >>= fun a => runM W (f a)) := by
  unfold runM
  show Prog.run W (ExceptT.run (ExceptT.bind x f)) = _
  unfold ExceptT.bind ExceptT.run ExceptT.mk
  rw [Prog.run_bind]
  cases h : Prog.run W x with
  | error e => simp [ExceptT.bindCont, bind, Except.bind]
  | ok a => simp [ExceptT.bindCont, bind, Except.bind]

@[simp] theorem runM_reject_bind {α} (W : World) (c : Bool) (e : Err) (f : Unit → M α) :
    runM W (reject c e >>= f) = if c then .error e else runM W (f ()) := by
  rw [runM_bind]; unfold reject; cases c <;> rfl

@[simp] theorem runM_liftE_bind {α β} (W : World) (x : Except Err α) (f : α → M β) :
    runM W (liftE x >>= f) = (x >>= fun a => runM W (f a)) := by
  rw [runM_bind]; cases x <;> rfl

@[simp] theorem runM_liftE {α} (W : World) (x : Except Err α) : runM W (liftE x) = x := by
  cases x <;> rfl

/-! One wrapper and one `runM_*_bind` lemma per oracle (a single generic lemma does not unify,
because `Answer q` depends on `q`). -/

def askM (q : Query) : M (Answer q) := ExceptT.lift (Prog.ask q Prog.ret)

theorem runM_askM_bind {β} (W : World) (q : Query) (f : Answer q → M β) :
    runM W (askM q >>= f) = runM W (f (W q)) := by
  rw [runM_bind]; rfl

@[simp] theorem runM_askM (W : World) (q : Query) : runM W (askM q) = .ok (W q) := rfl

def hashM (a : HashAlg) (b : Bytes) : M Bytes := askM (.hash a b)
def sha256M (b : Bytes) : M Bytes := hashM .sha256 b
def jsonLoadsBytesM (b : Bytes) : M JsonOutcome := askM (.jsonLoadsBytes b)
def jsonLoadsStrM (s : String) : M JsonOutcome := askM (.jsonLoadsStr s)
def keyLoadM (k : PubKey) : M Bool := askM (.keyLoad k)
def spkiM (k : PubKey) : M Bytes := askM (.spki k)
def sigVerifyM (k : PubKey) (s : Scheme) (sig data : Bytes) : M SigOutcome := askM (.sigVerify k s sig data)
def x509LoadM (der : Bytes) : M (Option CertView) := askM (.x509Load der)
def chainVerifyM (leaf : Bytes) (inter : List Bytes) (roots : List Root) : M ChainOutcome :=
  askM (.chainVerify leaf inter roots)
def builtinPemM (name : String) : M Bytes := askM (.builtinPem name)
def pemCanonM (pem : Bytes) : M (Option Bytes) := askM (.pemCanon pem)
def keyDescriptionM (der : Bytes) : M (Option KeyDescView) := askM (.keyDescription der)
def nowSecondsM : M Int := askM .nowSeconds
def tokenBytesM (k n : Nat) : M Bytes := askM (.tokenBytes k n)

@[simp] theorem runM_hashM (W : World) (a b) : runM W (hashM a b) = .ok (W.hash a b) := rfl
@[simp] theorem runM_hashM_bind {β} (W : World) (a b) (f : Bytes → M β) :
    runM W (hashM a b >>= f) = runM W (f (W.hash a b)) := runM_askM_bind W (.hash a b) f
@[simp] theorem runM_sha256M_bind {β} (W : World) (b) (f : Bytes → M β) :
    runM W (sha256M b >>= f) = runM W (f (W.sha256 b)) := runM_askM_bind W (.hash .sha256 b) f
@[simp] theorem runM_jsonLoadsBytesM_bind {β} (W : World) (b) (f : JsonOutcome → M β) :
    runM W (jsonLoadsBytesM b >>= f) = runM W (f (W.jsonLoadsBytes b)) := runM_askM_bind W (.jsonLoadsBytes b) f
@[simp] theorem runM_jsonLoadsStrM_bind {β} (W : World) (s) (f : JsonOutcome → M β) :
    runM W (jsonLoadsStrM s >>= f) = runM W (f (W.jsonLoadsStr s)) := runM_askM_bind W (.jsonLoadsStr s) f
@[simp] theorem runM_keyLoadM_bind {β} (W : World) (k) (f : Bool → M β) :
    runM W (keyLoadM k >>= f) = runM W (f (W.keyLoad k)) := runM_askM_bind W (.keyLoad k) f
@[simp] theorem runM_spkiM_bind {β} (W : World) (k) (f : Bytes → M β) :
    runM W (spkiM k >>= f) = runM W (f (W.spki k)) := runM_askM_bind W (.spki k) f
@[simp] theorem runM_sigVerifyM_bind {β} (W : World) (k s sig data) (f : SigOutcome → M β) :
    runM W (sigVerifyM k s sig data >>= f) = runM W (f (W.sigVerify k s sig data)) :=
  runM_askM_bind W (.sigVerify k s sig data) f
@[simp] theorem runM_x509LoadM_bind {β} (W : World) (der) (f : Option CertView → M β) :
    runM W (x509LoadM der >>= f) = runM W (f (W.x509Load der)) := runM_askM_bind W (.x509Load der) f
@[simp] theorem runM_chainVerifyM_bind {β} (W : World) (l i r) (f : ChainOutcome → M β) :
    runM W (chainVerifyM l i r >>= f) = runM W (f (W.chainVerify l i r)) := runM_askM_bind W (.chainVerify l i r) f
@[simp] theorem runM_builtinPemM_bind {β} (W : World) (n) (f : Bytes → M β) :
    runM W (builtinPemM n >>= f) = runM W (f (W.builtinPem n)) := runM_askM_bind W (.builtinPem n) f
@[simp] theorem runM_pemCanonM_bind {β} (W : World) (p) (f : Option Bytes → M β) :
    runM W (pemCanonM p >>= f) = runM W (f (W.pemCanon p)) := runM_askM_bind W (.pemCanon p) f
@[simp] theorem runM_keyDescriptionM_bind {β} (W : World) (der) (f : Option KeyDescView → M β) :
    runM W (keyDescriptionM der >>= f) = runM W (f (W.keyDescription der)) :=
  runM_askM_bind W (.keyDescription der) f
@[simp] theorem runM_nowSecondsM_bind {β} (W : World) (f : Int → M β) :
    runM W (nowSecondsM >>= f) = runM W (f W.nowSeconds) := runM_askM_bind W .nowSeconds f
@[simp] theorem runM_tokenBytesM_bind {β} (W : World) (k n) (f : Bytes → M β) :
    runM W (tokenBytesM k n >>= f) = runM W (f (W.tokenBytes k n)) := runM_askM_bind W (.tokenBytes k n) f

end Webauthn
