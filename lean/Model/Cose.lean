/-
  decode_credential_public_key, decoded_public_key_to_cryptography, verify_signature, hash_by_alg.
  The dispatch / curve / hash tables are the regenerated ones.
-/
import Model.Prog
import Model.Cbor
import Generated.Tables
namespace Webauthn
open Generated

/-- the `Decoded*PublicKey` dataclasses; members keep whatever CBOR value the key carried -/
inductive CoseKey
  | okp (kty alg crv x : Cbor)
  | ec2 (kty alg crv x y : Cbor)
  | rsa (kty alg n e : Cbor)
  deriving Repr, Inhabited

def CoseKey.alg : CoseKey → Cbor
  | .okp _ a _ _ => a
  | .ec2 _ a _ _ _ => a
  | .rsa _ a _ _ => a

def coseMember (kvs : List (Cbor × Cbor)) (i : Int) (site : String) : Except Err Cbor :=
  match Cbor.lookupInt kvs i with
  | some v => .ok v
  | none => .error (nonlibErr "KeyError" site)

def requireTruthy (v : Cbor) (site : String) : Except Err Unit :=
  rejectE (!v.truthy) (libErr .InvalidPublicKeyStructure site)

def decodeCoseMap (kvs : List (Cbor × Cbor)) : Except Err CoseKey := do
  let kty ← coseMember kvs 1 "cose.kty"
  let alg ← coseMember kvs 3 "cose.alg"
  requireTruthy kty "cose.kty-missing"
  requireTruthy alg "cose.alg-missing"
  if kty.asInt? == some 1 then
    let crv ← coseMember kvs (-1) "cose.okp.crv"
    let x ← coseMember kvs (-2) "cose.okp.x"
    requireTruthy crv "cose.okp.crv-missing"
    requireTruthy x "cose.okp.x-missing"
    pure (.okp kty alg crv x)
  else if kty.asInt? == some 2 then
    let crv ← coseMember kvs (-1) "cose.ec2.crv"
    let x ← coseMember kvs (-2) "cose.ec2.x"
    let y ← coseMember kvs (-3) "cose.ec2.y"
    requireTruthy crv "cose.ec2.crv-missing"
    requireTruthy x "cose.ec2.x-missing"
    requireTruthy y "cose.ec2.y-missing"
    pure (.ec2 kty alg crv x y)
  else if kty.asInt? == some 3 then
    let n ← coseMember kvs (-1) "cose.rsa.n"
    let e ← coseMember kvs (-2) "cose.rsa.e"
    requireTruthy n "cose.rsa.n-missing"
    requireTruthy e "cose.rsa.e-missing"
    pure (.rsa kty alg n e)
  else throw (libErr .UnsupportedPublicKeyType "cose.kty-unsupported")

/-- `decode_credential_public_key` -/
def decodeCose (key : Bytes) : Except Err CoseKey :=
  match key with
  | [] => .error (nonlibErr "IndexError" "cose.empty")
  | b :: _ =>
    if b == 0x04 then
      .ok (.ec2 (.uint 2) (.nint 6) (.uint 1) (.bytes (slice key 1 33)) (.bytes (slice key 33 65)))
    else do
      let v ← parseCbor key
      match v with
      | .map kvs => decodeCoseMap kvs
      | .bytes _ => throw (oomErr "cose-indexable")
      | .text _ => throw (oomErr "cose-indexable")
      | .arr _ => throw (oomErr "cose-indexable")
      | _ => throw (nonlibErr "TypeError" "cose.not-subscriptable")

/-- `int(codecs.encode(v, "hex"), 16)` -/
def bytesToInt (v : Cbor) (site : String) : Except Err Nat :=
  match v with
  | .bytes b => .ok (beNat b)
  | _ => .error (nonlibErr "TypeError" site)

def libExcOfName (n : String) : Option LibExc := LibExc.all.find? (fun c => c.name == n)

def errOfExcName (n : String) (site : String) : Err :=
  match libExcOfName n with
  | some c => libErr c site
  | none => oomErr ("unknown-exception:" ++ n)

def curveOfName : String → Curve
  | "secp256r1" => .p256
  | "secp384r1" => .p384
  | "secp521r1" => .p521
  | n => .other n

/-- `get_ec2_curve` -/
def ec2Curve (crv : Cbor) : Except Err Curve :=
  let r := match crv.asInt? with
    | some i => (ec2CurveTable.lookup i).getD ec2CurveDefault
    | none => ec2CurveDefault
  match r with
  | .curve n => .ok (curveOfName n)
  | .libExc c => .error (errOfExcName c "ec2-curve")
  | .otherExc c => .error (nonlibErr c "ec2-curve")

/-- `decoded_public_key_to_cryptography` up to (not including) the library constructor -/
def coseToPubKey (k : CoseKey) : Except Err PubKey :=
  match k with
  | .ec2 _ _ crv x y => do
    let xi ← bytesToInt x "tocrypto.ec2.x"
    let yi ← bytesToInt y "tocrypto.ec2.y"
    let c ← ec2Curve crv
    pure (.ec c xi yi)
  | .rsa _ _ n e => do
    let ei ← bytesToInt e "tocrypto.rsa.e"
    let ni ← bytesToInt n "tocrypto.rsa.n"
    pure (.rsa ni ei)
  | .okp _ alg crv x => do
    rejectE (alg.asInt? != some (-8) || crv.asInt? != some 6) (libErr .UnsupportedPublicKey "tocrypto.okp")
    match x with
    | .bytes b => pure (.ed25519 b)
    | _ => throw (nonlibErr "TypeError" "tocrypto.okp.x")

/-- `decoded_public_key_to_cryptography`: the library constructor may refuse the numbers -/
def loadCoseKey (k : CoseKey) : M PubKey := do
  let pk ← liftE (coseToPubKey k)
  let ok ← keyLoadM pk
  reject (!ok) (nonlibErr "ValueError" "tocrypto.load")
  pure pk

def hashOfName : String → Option HashAlg
  | "sha1" => some .sha1
  | "sha256" => some .sha256
  | "sha384" => some .sha384
  | "sha512" => some .sha512
  | _ => none

def pubKeyKind : PubKey → String
  | .ec _ _ _ => "ec"
  | .rsa _ _ => "rsa"
  | .ed25519 _ => "ed25519"
  | .other _ => "other"

/-- the regenerated dispatch of `verify_signature` -/
def sigDispatch (kind : String) (alg : Cbor) : Disp :=
  let dflt := (sigDispatchDefault.lookup kind).getD (.other "no default")
  match alg.asInt? with
  | some i => (sigDispatchTable.lookup (kind, i)).getD dflt
  | none => dflt

inductive SigPlan
  | verify (s : Scheme)
  | fail (e : Err)
  deriving Repr

def planOfDisp (d : Disp) : SigPlan :=
  match d with
  | .ecdsa h => match hashOfName h with
    | some h => .verify (.ecdsa h)
    | none => .fail (oomErr "hash-name")
  | .pkcs1v15 h => match hashOfName h with
    | some h => .verify (.pkcs1v15 h)
    | none => .fail (oomErr "hash-name")
  | .pss m h salt => match hashOfName m, hashOfName h with
    | some m, some h => .verify (.pss m h salt)
    | _, _ => .fail (oomErr "hash-name")
  | .raw => .verify .ed25519
  | .libExc c => .fail (errOfExcName c "verify_signature.dispatch")
  | .otherExc c => .fail (nonlibErr c "verify_signature.dispatch")
  | .other w => .fail (oomErr ("dispatch:" ++ w))

def sigPlan (k : PubKey) (alg : Cbor) : SigPlan := planOfDisp (sigDispatch (pubKeyKind k) alg)

def Scheme.isPss : Scheme → Bool
  | .pss _ _ _ => true
  | _ => false

/-- what `verify_signature` makes of the primitive's answer: with the regenerated flag, a `ValueError` raised by an RSA-PSS
verification (modulus too small for the digest) is re-raised as `InvalidSignature` -/
def sigSeen (s : Scheme) : SigOutcome → SigOutcome
  | .valid => .valid
  | .invalid => .invalid
  | .raised c => if pssValueErrorIsInvalid && s.isPss && c == "ValueError" then .invalid else .raised c

@[simp] theorem sigSeen_valid (s : Scheme) : sigSeen s .valid = .valid := rfl
@[simp] theorem sigSeen_invalid (s : Scheme) : sigSeen s .invalid = .invalid := rfl
theorem sigSeen_raised_cases (s : Scheme) (c : String) :
    sigSeen s (.raised c) = .invalid ∨ sigSeen s (.raised c) = .raised c := by
  by_cases h : (pssValueErrorIsInvalid && s.isPss && c == "ValueError") = true
  · exact Or.inl (by simp only [sigSeen, h, if_true])
  · exact Or.inr (by simp only [sigSeen, h]; rfl)
theorem sigSeen_eq_valid {s : Scheme} {r : SigOutcome} : sigSeen s r = .valid ↔ r = .valid := by
  cases r with
  | valid => simp
  | invalid => simp
  | raised c => rcases sigSeen_raised_cases s c with h | h <;> simp [h]

/-- `verify_signature(...)` inside `try: … except InvalidSignature: raise onInvalid` -/
def verifySignature (k : PubKey) (alg : Cbor) (sig data : Bytes) (onInvalid : Err) : M Unit :=
  match sigPlan k alg with
  | .fail e => throw e
  | .verify s => do
    let r ← sigVerifyM k s sig data
    match sigSeen s r with
    | .valid => pure ()
    | .invalid => throw onInvalid
    | .raised c => throw (nonlibErr c "verify_signature.raised")

/-- `hash_by_alg` -/
def hashAlgByCose (alg : Option Cbor) : Except Err HashAlg :=
  let name := match alg with
    | some a => match a.asInt? with
      | some i => (hashByAlgTable.lookup i).getD hashByAlgDefault
      | none => hashByAlgDefault
    | none => hashByAlgDefault
  match hashOfName name with
  | some h => .ok h
  | none => .error (oomErr "hash-name")

end Webauthn
