/-
  Basic vocabulary of the model: byte strings, big-endian numbers, the exception vocabulary.
  Core Lean only (the driver executable links this file).
-/
namespace Webauthn

abbrev Bytes := List UInt8

/-- The exception classes of `webauthn/helpers/exceptions.py`.  The list is cross-checked against
the regenerated `Generated.exceptionClasses` by `Props.Bridge.libExc_names`. -/
inductive LibExc
  | WebAuthnException
  | InvalidRegistrationOptions
  | InvalidRegistrationResponse
  | InvalidAuthenticationOptions
  | InvalidAuthenticationResponse
  | InvalidPublicKeyStructure
  | UnsupportedPublicKeyType
  | InvalidJSONStructure
  | InvalidAuthenticatorDataStructure
  | SignatureVerificationException
  | UnsupportedAlgorithm
  | UnsupportedPublicKey
  | UnsupportedEC2Curve
  | InvalidTPMPubAreaStructure
  | InvalidTPMCertInfoStructure
  | InvalidCertificateChain
  | InvalidBackupFlags
  | InvalidCBORData
  deriving DecidableEq, Repr, Inhabited

def LibExc.name : LibExc → String
  | .WebAuthnException => "WebAuthnException"
  | .InvalidRegistrationOptions => "InvalidRegistrationOptions"
  | .InvalidRegistrationResponse => "InvalidRegistrationResponse"
  | .InvalidAuthenticationOptions => "InvalidAuthenticationOptions"
  | .InvalidAuthenticationResponse => "InvalidAuthenticationResponse"
  | .InvalidPublicKeyStructure => "InvalidPublicKeyStructure"
  | .UnsupportedPublicKeyType => "UnsupportedPublicKeyType"
  | .InvalidJSONStructure => "InvalidJSONStructure"
  | .InvalidAuthenticatorDataStructure => "InvalidAuthenticatorDataStructure"
  | .SignatureVerificationException => "SignatureVerificationException"
  | .UnsupportedAlgorithm => "UnsupportedAlgorithm"
  | .UnsupportedPublicKey => "UnsupportedPublicKey"
  | .UnsupportedEC2Curve => "UnsupportedEC2Curve"
  | .InvalidTPMPubAreaStructure => "InvalidTPMPubAreaStructure"
  | .InvalidTPMCertInfoStructure => "InvalidTPMCertInfoStructure"
  | .InvalidCertificateChain => "InvalidCertificateChain"
  | .InvalidBackupFlags => "InvalidBackupFlags"
  | .InvalidCBORData => "InvalidCBORData"

def LibExc.all : List LibExc :=
  [.WebAuthnException, .InvalidRegistrationOptions, .InvalidRegistrationResponse,
   .InvalidAuthenticationOptions, .InvalidAuthenticationResponse, .InvalidPublicKeyStructure,
   .UnsupportedPublicKeyType, .InvalidJSONStructure, .InvalidAuthenticatorDataStructure,
   .SignatureVerificationException, .UnsupportedAlgorithm, .UnsupportedPublicKey,
   .UnsupportedEC2Curve, .InvalidTPMPubAreaStructure, .InvalidTPMCertInfoStructure,
   .InvalidCertificateChain, .InvalidBackupFlags, .InvalidCBORData]

/-- How a modelled call fails: with an exception of the library's own hierarchy, or with some other
Python exception (`KeyError`, `TypeError`, `ValueError`, `binascii.Error`, …).  `site` is the stable
name of the model line that decided; it is reporting data, never compared by theorems. -/
inductive ErrKind
  | lib (c : LibExc)
  | nonlib (pyClass : String)
  | oom (why : String)        -- input outside the modelled fragment: no claim, excluded from the tie
  deriving DecidableEq, Repr

structure Err where
  kind : ErrKind
  site : String
  deriving DecidableEq, Repr

def Err.isLib (e : Err) : Bool := match e.kind with | .lib _ => true | _ => false
def Err.isOom (e : Err) : Bool := match e.kind with | .oom _ => true | _ => false
def oomErr (why : String) : Err := ⟨.oom why, "oom"⟩

def libErr (c : LibExc) (site : String) : Err := ⟨.lib c, site⟩
def nonlibErr (cls : String) (site : String) : Err := ⟨.nonlib cls, site⟩

/-- `if cond: raise e` -/
def rejectE (c : Bool) (e : Err) : Except Err Unit := if c then .error e else .ok ()

@[simp] theorem rejectE_bind {α} (c : Bool) (e : Err) (f : Unit → Except Err α) :
    (rejectE c e >>= f) = if c then .error e else f () := by
  unfold rejectE; cases c <;> rfl

/-- `x` if present, else raise `e` -/
def someOr {α} (o : Option α) (e : Err) : Except Err α :=
  match o with
  | some a => .ok a
  | none => .error e

theorem someOr_ok {α} {o : Option α} {e : Err} {a : α} : someOr o e = .ok a ↔ o = some a := by
  cases o <;> simp [someOr]

/-- `l[0]`, raising `e` on an empty list -/
def headOr {α} (l : List α) (e : Err) : Except Err α := someOr l.head? e

theorem headOr_ok {α} {l : List α} {e : Err} {a : α} : headOr l e = .ok a ↔ l.head? = some a := someOr_ok

/-! ### big-endian numbers -/

/-- `int.from_bytes(b, "big")` -/
def beNat : Bytes → Nat
  | bs => bs.foldl (fun acc b => acc * 256 + b.toNat) 0

/-- `n.to_bytes(k, "big")` truncated to the low `k` bytes (the spec encoders only use it in range). -/
def beBytes (n : Nat) : Nat → Bytes
  | 0 => []
  | k + 1 => beBytes (n / 256) k ++ [(n % 256).toUInt8]

/-- Python slice `b[i:j]` for `0 ≤ i`, clamped. -/
def slice (b : List α) (i j : Nat) : List α := (b.drop i).take (j - i)

/-! ### hex -/

def hexDigit (n : Nat) : Char :=
  if n < 10 then Char.ofNat (48 + n) else Char.ofNat (87 + n)

def hexOfByte (b : UInt8) : List Char := [hexDigit (b.toNat / 16), hexDigit (b.toNat % 16)]

/-- lower-case hex, as `bytes.hex()` -/
def toHex (b : Bytes) : List Char := b.flatMap hexOfByte

def hexVal? (c : Char) : Option Nat :=
  if '0' ≤ c ∧ c ≤ '9' then some (c.toNat - 48)
  else if 'a' ≤ c ∧ c ≤ 'f' then some (c.toNat - 87)
  else if 'A' ≤ c ∧ c ≤ 'F' then some (c.toNat - 55)
  else none

def ofHex? : List Char → Option Bytes
  | [] => some []
  | [_] => none
  | a :: b :: rest => do
    let x ← hexVal? a
    let y ← hexVal? b
    let r ← ofHex? rest
    pure ((x * 16 + y).toUInt8 :: r)

/-- UTF-8 bytes of a string (`str.encode("utf-8")`). -/
def utf8 (s : String) : Bytes := s.toUTF8.toList

/-- strict UTF-8 decoding of a byte string. -/
def fromUtf8? (b : Bytes) : Option String := String.fromUTF8? (ByteArray.mk b.toArray)

def validUtf8 (b : Bytes) : Bool := (fromUtf8? b).isSome

end Webauthn
