/-
  validate_certificate_chain, verify_safetynet_timestamp.
-/
import Model.Prog
import Generated.Tables
namespace Webauthn
open Generated

def chainErr (site : String) : Err := libErr .InvalidCertificateChain site

/-- `validate_certificate_chain(x5c=…, pem_root_certs_bytes=…)`.  Everything OpenSSL and
cryptography do (loading, store, context, verification at the current time) is one oracle. -/
def validateChain (x5c : List Bytes) (roots : List Root) : M Unit :=
  if roots.isEmpty then pure ()
  else match x5c with
    | [] => throw (chainErr "chain.x5c-empty")
    | leaf :: inter => do
      let r ← chainVerifyM leaf inter roots
      match r with
      | .ok => pure ()
      | .invalid => throw (chainErr "chain.invalid")
      | .prepLeaf => throw (chainErr "chain.prep-leaf")
      | .prepInter => throw (chainErr "chain.prep-inter")
      | .prepRoot => throw (chainErr "chain.prep-root")

/-- `verify_safetynet_timestamp`: `none` = passes, `some ()`… expressed as Bool: true = ValueError -/
def safetynetTimestampFails (timestampMs : Int) : M Bool := do
  let now ← nowSecondsM
  pure (safetynetTimestampRejects timestampMs now)

end Webauthn
