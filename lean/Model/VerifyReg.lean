/-
  verify_registration_response (record form).
-/
import Model.VerifyAuth
import Model.Formats
namespace Webauthn
open Generated

structure RegCred where
  id : String
  rawId : Bytes
  type : String
  clientDataJSON : Bytes
  attestationObject : Bytes
  deriving Repr, Inhabited, DecidableEq

structure RegExpect where
  challenge : Bytes
  rpId : String
  origin : Origins
  requireUP : Bool
  requireUV : Bool
  supportedAlgs : List Int
  /-- `pem_root_certs_bytes_by_fmt` (a mapping: keys pairwise distinct) -/
  rootsByFmt : List (String × List Bytes)
  deriving Repr, Inhabited

structure VerifiedReg where
  credentialId : Bytes
  credentialPublicKey : Bytes
  signCount : Nat
  aaguid : String
  fmt : String
  credentialType : String
  userVerified : Bool
  attestationObject : Bytes
  deviceType : String
  backedUp : Bool
  deriving Repr, Inhabited, DecidableEq

def fmtText (fmt : Cbor) : Option String :=
  match fmt with
  | .text t => fromUtf8? t
  | _ => none

/-- "Prepare a list of possible root certificates": a fresh list per call -/
def rootsFor (e : RegExpect) (fmt : Cbor) : Except Err (List Root) :=
  if e.rootsByFmt.isEmpty then .ok []
  else match fmt with
    | .arr _ => .error (nonlibErr "TypeError" "reg.roots-unhashable")
    | .map _ => .error (nonlibErr "TypeError" "reg.roots-unhashable")
    | _ =>
      match fmtText fmt with
      | some f => .ok (((e.rootsByFmt.lookup f).getD []).map Root.pem)
      | none => .ok []

/-- `decoded_credential_public_key.alg in supported_pub_key_algs` -/
def algAllowed (alg : Cbor) (allowed : List Int) : Bool :=
  match alg.asInt? with
  | some i => allowed.contains i
  | none => false

def knownFormats : List String :=
  ["none", "fido-u2f", "packed", "tpm", "apple", "android-safetynet", "android-key"]

/-- the `if … elif …` chain over `attestation_object.fmt` -/
def verifyFormat (fmt : Cbor) (ao : AttObj) (att : AttestedCred) (cdj : Bytes) (roots : List Root) : M Unit :=
  match fmtText fmt with
  | some "none" => reject (ao.attStmt.anySet || cborTruthy ao.attStmtRaw) (regErr "reg.none-with-statement")
  | some "fido-u2f" =>
    verifyFidoU2f ao.attStmt cdj ao.authData.rpIdHash att.credentialId att.publicKey att.aaguid roots
  | some "packed" => verifyPacked ao.attStmt ao.authDataRaw cdj att.publicKey roots
  | some "tpm" => verifyTpm ao.attStmt ao.authDataRaw cdj att.publicKey roots
  | some "apple" => verifyApple ao.attStmt ao.authDataRaw cdj att.publicKey roots
  | some "android-safetynet" => verifySafetyNet ao.attStmt ao.authDataRaw cdj roots
  | some "android-key" => verifyAndroidKey ao.attStmt ao.authDataRaw cdj att.publicKey roots
  | _ => throw (regErr "reg.fmt-unsupported")

def verifyReg (c : RegCred) (e : RegExpect) : M VerifiedReg := do
  reject (Base64.encodeStr c.rawId != c.id) (regErr "reg.id-rawid")
  reject (c.type != "public-key") (regErr "reg.cred-type")
  let cd ← parseClientData c.clientDataJSON
  reject (!jvalIsStr cd.type "webauthn.create") (regErr "reg.cd-type")
  reject (e.challenge != cd.challenge) (regErr "reg.challenge")
  reject (!originOk e.origin cd.origin) (regErr "reg.origin")
  reject (tokenBindingRejects cd.tokenBinding tokenBindingStatusesReg) (regErr "reg.token-binding")
  let ao ← liftE (parseAttObj c.attestationObject)
  let ad := ao.authData
  let rpHash ← sha256M (utf8 e.rpId)
  reject (ad.rpIdHash != rpHash) (regErr "reg.rpid-hash")
  reject (regUpRejects e.requireUP e.requireUV ad.flags.up ad.flags.uv) (regErr "reg.up")
  reject (regUvRejects e.requireUP e.requireUV ad.flags.up ad.flags.uv) (regErr "reg.uv")
  let att ← liftE (someOr ad.attested (regErr "reg.no-attested-data"))
  reject att.credentialId.isEmpty (regErr "reg.credid-empty")
  reject att.publicKey.isEmpty (regErr "reg.key-empty")
  reject att.aaguid.isEmpty (regErr "reg.aaguid-empty")
  let key ← liftE (decodeCose att.publicKey)
  reject (!algAllowed key.alg e.supportedAlgs) (regErr "reg.alg-not-allowed")
  let roots ← liftE (rootsFor e ao.fmt)
  verifyFormat ao.fmt ao att c.clientDataJSON roots
  let bf ← liftE (parseBackupFlags ad.flags)
  let aaguid ← liftE (aaguidToString att.aaguid)
  pure { credentialId := att.credentialId, credentialPublicKey := att.publicKey, signCount := ad.signCount,
         aaguid, fmt := (fmtText ao.fmt).getD "", credentialType := c.type, userVerified := ad.flags.uv,
         attestationObject := c.attestationObject, deviceType := bf.1, backedUp := bf.2 }

end Webauthn
