/-
  parse_client_data_json.  `json.loads` is an oracle; everything the function then does with the
  resulting Python value is modelled, including what happens when that value is not a dict.
-/
import Model.Prog
import Model.Base64
namespace Webauthn

structure TokenBinding where
  status : JVal
  id : Option String
  deriving Repr, Inhabited

structure ClientData where
  type : JVal
  challenge : Bytes
  origin : JVal
  crossOrigin : Option Bool
  tokenBinding : Option TokenBinding
  deriving Repr, Inhabited

/-- Python `f"{v}"` for the JSON values whose rendering the model reproduces -/
def JVal.pyFormat? : JVal → Option String
  | .str s => some s
  | .int i => some (toString i)
  | .bool true => some "True"
  | .bool false => some "False"
  | .null => some "None"
  | _ => none      -- float / list / dict repr: out of model

/-- `v is True` -/
def JVal.isTrue : JVal → Bool
  | .bool true => true
  | _ => false

/-- Python truthiness of a JSON value -/
def JVal.truthy : JVal → Bool
  | .null => false
  | .bool b => b
  | .int i => i != 0
  | .real r => !(r == "0.0" || r == "-0.0")
  | .str s => !s.isEmpty
  | .arr xs => !xs.isEmpty
  | .obj kvs => !kvs.isEmpty

def isSubstr (needle hay : List Char) : Bool :=
  match hay with
  | [] => needle.isEmpty
  | _ :: t => needle.isPrefixOf hay || isSubstr needle t

/-- `key in json_dict`; `none` = TypeError (argument is not iterable) -/
def JVal.pyContains? (j : JVal) (key : String) : Option Bool :=
  match j with
  | .obj kvs => some (kvs.any (fun p => p.1 == key))
  | .arr xs => some (xs.any (fun x => match x with | .str s => s == key | _ => false))
  | .str s => some (isSubstr key.toList s.toList)
  | _ => none

/-- `base64url_to_bytes(v)` on an arbitrary JSON value (`f"{val}==="`) -/
def b64urlOfJVal (v : JVal) : Except Err Bytes :=
  match v.pyFormat? with
  | some s => Base64.decodeStr s
  | none => .error (oomErr "py-format")

def requireMember (j : JVal) (key : String) : Except Err Unit :=
  match j.pyContains? key with
  | none => .error (nonlibErr "TypeError" ("clientdata.in." ++ key))
  | some false => .error (libErr .InvalidJSONStructure ("clientdata.missing." ++ key))
  | some true => .ok ()

def parseTokenBinding (v : JVal) : Except Err (Option TokenBinding) :=
  match v with
  | .obj kvs =>
    match JVal.lookup kvs "status" with
    | none => .error (libErr .InvalidJSONStructure "clientdata.tokenBinding.status")
    | some status =>
      match JVal.lookup kvs "id" with
      | none => .ok (some ⟨status, none⟩)
      | some idv =>
        match idv.pyFormat? with
        | some s => .ok (some ⟨status, some s⟩)
        | none => .error (oomErr "py-format")
  | _ => .ok none

def tokenBindingOf (kvs : List (String × JVal)) : Except Err (Option TokenBinding) :=
  match JVal.lookup kvs "tokenBinding" with
  | none => .ok none
  | some v => parseTokenBinding v

/-- what the function does once `json.loads` has returned `j` -/
def clientDataOfJVal (j : JVal) : Except Err ClientData := do
  requireMember j "type"
  requireMember j "challenge"
  requireMember j "origin"
  match j with
  | .obj kvs =>
    -- the three members exist
    let ty := (JVal.lookup kvs "type").getD .null
    let ch := (JVal.lookup kvs "challenge").getD .null
    let orig := (JVal.lookup kvs "origin").getD .null
    let challenge ← b64urlOfJVal ch
    let crossOrigin := (JVal.lookup kvs "crossOrigin").map JVal.truthy
    let tb ← tokenBindingOf kvs
    pure { type := ty, challenge, origin := orig, crossOrigin, tokenBinding := tb }
  | _ => throw (nonlibErr "TypeError" "clientdata.index")   -- list / str indexed with a str

def parseClientData (val : Bytes) : M ClientData := do
  let r ← jsonLoadsBytesM val
  match r with
  | .decodeError => throw (libErr .InvalidJSONStructure "clientdata.json")
  | .otherError c =>
    if c.startsWith "oom:" then throw (oomErr c)
    else if isValueErrorClass c then throw (libErr .InvalidJSONStructure "clientdata.json")
    else throw (nonlibErr c "clientdata.json")
  | .ok j => liftE (clientDataOfJVal j)

end Webauthn
