/-
  parse_attestation_object / parse_attestation_statement.
-/
import Model.AuthData
namespace Webauthn

/-- the `AttestationStatement` dataclass: a member is `none` when absent *or* CBOR null (Python None) -/
structure AttStmt where
  sig : Option Cbor
  x5c : Option Cbor
  response : Option Cbor
  alg : Option Cbor
  ver : Option Cbor
  certInfo : Option Cbor
  pubArea : Option Cbor
  deriving Repr, Inhabited

def AttStmt.empty : AttStmt := ⟨none, none, none, none, none, none, none⟩

def stmtMember (kvs : List (Cbor × Cbor)) (name : String) : Option Cbor :=
  match Cbor.lookupText kvs name with
  | some .null => none
  | x => x

/-- `any(field is not None for field in asdict(att_stmt).values())` -/
def AttStmt.anySet (s : AttStmt) : Bool :=
  s.sig.isSome || s.x5c.isSome || s.response.isSome || s.alg.isSome || s.ver.isSome ||
  s.certInfo.isSome || s.pubArea.isSome

/-- `parse_attestation_statement(val)` -/
def parseAttStmt (v : Cbor) : Except Err AttStmt :=
  match v with
  | .map kvs => .ok { sig := stmtMember kvs "sig", x5c := stmtMember kvs "x5c",
                      response := stmtMember kvs "response", alg := stmtMember kvs "alg",
                      ver := stmtMember kvs "ver", certInfo := stmtMember kvs "certInfo",
                      pubArea := stmtMember kvs "pubArea" }
  | .arr _ => .error (oomErr "attstmt-shape")
  | .text _ => .error (oomErr "attstmt-shape")
  | _ => .error (nonlibErr "TypeError" "attstmt.not-container")

/-- `byteslike_to_bytes(attestation_dict["authData"])`: `bytes(v)` -/
def authDataBytesOf (v : Cbor) : Except Err Bytes :=
  match v with
  | .bytes b => .ok b
  | .uint n => if n ≤ 4096 then .ok (List.replicate n 0) else .error (oomErr "authdata-coerce")
  | .bool b => .ok (List.replicate (if b then 1 else 0) 0)
  | .nint _ => .error (nonlibErr "ValueError" "attobj.authdata-negative")
  | .text _ => .error (nonlibErr "TypeError" "attobj.authdata-type")
  | .null => .error (nonlibErr "TypeError" "attobj.authdata-type")
  | .undefined => .error (nonlibErr "TypeError" "attobj.authdata-type")
  | _ => .error (oomErr "authdata-coerce")

structure AttObj where
  fmt : Cbor
  authDataRaw : Cbor            -- `attestation_dict["authData"]` as decoded
  authData : AuthData
  attStmt : AttStmt
  attStmtRaw : Option Cbor      -- `parse_cbor(attestation_object).get("attStmt")`
  deriving Repr, Inhabited

def attStmtOf (kvs : List (Cbor × Cbor)) : Except Err AttStmt :=
  match Cbor.lookupText kvs "attStmt" with
  | some s => parseAttStmt s
  | none => .ok AttStmt.empty

def parseAttObjMap (kvs : List (Cbor × Cbor)) : Except Err AttObj := do
  let fmt ← someOr (Cbor.lookupText kvs "fmt") (nonlibErr "KeyError" "attobj.fmt")
  let adRaw ← someOr (Cbor.lookupText kvs "authData") (nonlibErr "KeyError" "attobj.authData")
  let adBytes ← authDataBytesOf adRaw
  let ad ← parseAuthData adBytes
  let stmt ← attStmtOf kvs
  pure { fmt, authDataRaw := adRaw, authData := ad, attStmt := stmt,
         attStmtRaw := Cbor.lookupText kvs "attStmt" }

/-- `parse_attestation_object` -/
def parseAttObj (val : Bytes) : Except Err AttObj := do
  let v ← parseCbor val
  match v with
  | .map kvs => parseAttObjMap kvs
  | _ => throw (nonlibErr "TypeError" "attobj.not-map")

end Webauthn
