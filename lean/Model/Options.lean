/-
  generate_registration_options, generate_authentication_options, options_to_json,
  parse_registration_options_json, parse_authentication_options_json.
-/
import Model.CredJson
namespace Webauthn
open Generated

structure Descriptor where
  id : Bytes
  transports : Option (List String)
  deriving Repr, Inhabited, DecidableEq

structure AuthSel where
  attachment : Option String
  residentKey : Option String
  requireResidentKey : Option Bool
  userVerification : Option String
  deriving Repr, Inhabited, DecidableEq

structure RegOptions where
  rpId : Option String
  rpName : String
  userId : Bytes
  userName : String
  userDisplayName : String
  challenge : Bytes
  params : List (String × Int)
  timeout : Option Int
  excludeCredentials : Option (List Descriptor)
  authenticatorSelection : Option AuthSel
  hints : Option (List String)
  attestation : String
  deriving Repr, Inhabited, DecidableEq

structure AuthOptions where
  challenge : Bytes
  timeout : Option Int
  rpId : Option String
  allowCredentials : Option (List Descriptor)
  userVerification : Option String
  deriving Repr, Inhabited, DecidableEq

/-! ### generation -/

structure GenRegArgs where
  rpId : String
  rpName : String
  userName : String
  userId : Option Bytes := none
  userDisplayName : Option String := none
  challenge : Option Bytes := none
  timeout : Int := 60000
  attestation : String := "none"
  authenticatorSelection : Option AuthSel := none
  excludeCredentials : Option (List Descriptor) := none
  supportedAlgs : Option (List Int) := none
  hints : Option (List String) := none
  deriving Repr, Inhabited

def valErr (site : String) : Err := nonlibErr "ValueError" site

/-- a fresh 64-byte value from the OS source, unless the caller gave a (non-empty) one;
returns the value and the number of draws made so far -/
def bytesOrFresh (given : Option Bytes) (k : Nat) : M (Bytes × Nat) :=
  match given with
  | some b => if b.isEmpty then do let r ← tokenBytesM k 64; pure (r, k + 1) else pure (b, k)
  | none => do let r ← tokenBytesM k 64; pure (r, k + 1)

def strOr (given : Option String) (dflt : String) : String :=
  match given with
  | some s => if s.isEmpty then dflt else s
  | none => dflt

/-- "residentKey = required ⇒ requireResidentKey = true" -/
def fixSelection (s : AuthSel) : AuthSel :=
  if s.residentKey == some "required" then { s with requireResidentKey := some true } else s

def generateRegOptions (a : GenRegArgs) : M RegOptions := do
  reject a.rpId.isEmpty (valErr "gen.rp_id")
  reject a.rpName.isEmpty (valErr "gen.rp_name")
  reject a.userName.isEmpty (valErr "gen.user_name")
  let (userId, k) ← bytesOrFresh a.userId 0
  let params := match a.supportedAlgs with
    | some l => if l.isEmpty then defaultSupportedPubKeyAlgs.map (fun alg => ("public-key", alg))
                else l.map (fun alg => ("public-key", alg))
    | none => defaultSupportedPubKeyAlgs.map (fun alg => ("public-key", alg))
  let (challenge, _) ← bytesOrFresh a.challenge k
  pure { rpId := some a.rpId, rpName := a.rpName, userId, userName := a.userName,
         userDisplayName := strOr a.userDisplayName a.userName, challenge, params,
         timeout := some a.timeout, excludeCredentials := some (a.excludeCredentials.getD []),
         authenticatorSelection := a.authenticatorSelection.map fixSelection, hints := a.hints,
         attestation := a.attestation }

structure GenAuthArgs where
  rpId : String
  challenge : Option Bytes := none
  timeout : Int := 60000
  allowCredentials : Option (List Descriptor) := none
  userVerification : String := "preferred"
  deriving Repr, Inhabited

def generateAuthOptions (a : GenAuthArgs) : M AuthOptions := do
  reject a.rpId.isEmpty (valErr "gen.rp_id")
  let (challenge, _) ← bytesOrFresh a.challenge 0
  pure { challenge, timeout := some a.timeout, rpId := some a.rpId,
         allowCredentials := some (a.allowCredentials.getD []), userVerification := some a.userVerification }

/-! ### options_to_json (as the Python dict handed to json.dumps) -/

abbrev jstr (s : String) : JVal := .str s
abbrev jb64 (b : Bytes) : JVal := .str (Base64.encodeStr b)

def optMember (k : String) (v : Option JVal) : List (String × JVal) :=
  match v with
  | some x => [(k, x)]
  | none => []

def descriptorToJson (d : Descriptor) : JVal :=
  .obj ([("id", jb64 d.id), ("type", jstr "public-key")] ++
    (match d.transports with
     | some ts => if ts.isEmpty then [] else [("transports", .arr (ts.map jstr))]
     | none => []))

def authSelToJson (s : AuthSel) : JVal :=
  .obj (optMember "authenticatorAttachment" (s.attachment.map jstr) ++
        optMember "residentKey" (s.residentKey.map jstr) ++
        optMember "requireResidentKey" (s.requireResidentKey.map JVal.bool) ++
        optMember "userVerification" (s.userVerification.map jstr))

def rpKvs (o : RegOptions) : List (String × JVal) :=
  [("name", jstr o.rpName)] ++
    (match o.rpId with | some i => if i.isEmpty then [] else [("id", jstr i)] | none => [])

def userKvs (o : RegOptions) : List (String × JVal) :=
  [("id", jb64 o.userId), ("name", jstr o.userName), ("displayName", jstr o.userDisplayName)]

def paramsJson (o : RegOptions) : JVal :=
  .arr (o.params.map (fun p => .obj [("type", jstr p.1), ("alg", .int p.2)]))

def regKvs (o : RegOptions) : List (String × JVal) :=
  [("rp", .obj (rpKvs o)), ("user", .obj (userKvs o)), ("challenge", jb64 o.challenge),
   ("pubKeyCredParams", paramsJson o)] ++
  optMember "timeout" (o.timeout.map JVal.int) ++
  optMember "excludeCredentials" (o.excludeCredentials.map (fun l => .arr (l.map descriptorToJson))) ++
  optMember "authenticatorSelection" (o.authenticatorSelection.map authSelToJson) ++
  [("attestation", jstr o.attestation)] ++
  optMember "hints" (o.hints.map (fun l => .arr (l.map jstr)))

def regOptionsToJson (o : RegOptions) : JVal := .obj (regKvs o)

def authOptionsToJson (o : AuthOptions) : JVal :=
  .obj ([("challenge", jb64 o.challenge)] ++
        optMember "timeout" (o.timeout.map JVal.int) ++
        optMember "rpId" (o.rpId.map jstr) ++
        optMember "allowCredentials" (o.allowCredentials.map (fun l => .arr (l.map descriptorToJson))) ++
        (match o.userVerification with | some u => if u.isEmpty then [] else [("userVerification", jstr u)] | none => []))

/-! ### parsing -/

def regOptErr : Err := libErr .InvalidRegistrationOptions "options.decode"
def authOptErr : Err := libErr .InvalidAuthenticationOptions "options.decode"

/-- `Enum(value)` for a JSON value: succeeds exactly on a member value -/
def enumOf (cls : String) (v : JVal) (site : String) : Except Err String :=
  match v with
  | .str s => if (enumValues cls).contains s then .ok s else .error (jsErr site)
  | .real _ => .error (oomErr "enum-of-float")
  | _ => .error (jsErr site)

/-- optional enum member: absent / null ↦ none -/
def optEnum (kvs : List (String × JVal)) (k cls site : String) : Except Err (Option String) :=
  match JVal.lookup kvs k with
  | none => .ok none
  | some .null => .ok none
  | some v => do let s ← enumOf cls v site; pure (some s)

/-- base64url decode that is *not* inside a try block -/
def decodeRaw (s : String) : Except Err Bytes := Base64.decodeStr s

def parseTransports (v : JVal) (site : String) : Except Err (List String) :=
  match v with
  | .arr ts => ts.mapM (fun t => enumOf "AuthenticatorTransport" t (site ++ ".value"))
  | _ => .error (jsErr (site ++ ".not-list"))

def parseDescriptor (v : JVal) : Except Err Descriptor :=
  match v with
  | .obj kvs => do
    let id ← getStr kvs "id" "options.cred.id"
    let idB ← decodeRaw id
    match JVal.lookup kvs "transports" with
    | none => pure { id := idB, transports := none }
    | some .null => pure { id := idB, transports := none }
    | some t => do
      let ts ← parseTransports t "options.cred.transports"
      pure { id := idB, transports := some ts }
  | _ => .error (nonlibErr "AttributeError" "options.cred.not-dict")

/-- excludeCredentials / allowCredentials: a list is mapped, anything else is `None` -/
def parseDescriptors (kvs : List (String × JVal)) (k : String) : Except Err (Option (List Descriptor)) :=
  match JVal.lookup kvs k with
  | some (.arr l) => do let ds ← l.mapM parseDescriptor; pure (some ds)
  | _ => .ok none

def parseTimeout (kvs : List (String × JVal)) : Except Err (Option Int) :=
  match JVal.lookup kvs "timeout" with
  | some (.int i) => .ok (some i)
  | some (.bool _) => .error (oomErr "timeout-bool")
  | _ => .ok none

def selRequireRk (s : List (String × JVal)) : Except Err Bool :=
  match JVal.lookup s "requireResidentKey" with
  | none => .ok false
  | some .null => .ok false
  | some (.bool b) => .ok b
  | some _ => .error (jsErr "options.sel.requireResidentKey")

def selUserVerification (s : List (String × JVal)) : Except Err String :=
  match JVal.lookup s "userVerification" with
  | none => .ok "preferred"
  | some .null => .ok "preferred"
  | some v => enumOf "UserVerificationRequirement" v "options.sel.userVerification"

def parseAuthSelObj (s : List (String × JVal)) : Except Err AuthSel := do
  let att ← optEnum s "authenticatorAttachment" "AuthenticatorAttachment" "options.sel.attachment"
  let rk ← optEnum s "residentKey" "ResidentKeyRequirement" "options.sel.residentKey"
  let rrk ← selRequireRk s
  let uv ← selUserVerification s
  pure { attachment := att, residentKey := rk, requireResidentKey := some rrk, userVerification := some uv }

def parseAuthSel (kvs : List (String × JVal)) : Except Err (Option AuthSel) :=
  match JVal.lookup kvs "authenticatorSelection" with
  | some (.obj s) => do let a ← parseAuthSelObj s; pure (some a)
  | _ => .ok none

def parseParam (v : JVal) : Except Err (String × Int) :=
  match v with
  | .obj kvs =>
    match JVal.lookup kvs "alg" with
    | none => .error (nonlibErr "KeyError" "options.params.alg")
    | some (.int i) => if coseAlgMembers.contains i then .ok ("public-key", i) else .error (jsErr "options.params.alg-value")
    | some (.real _) => .error (oomErr "alg-float")
    | some _ => .error (jsErr "options.params.alg-value")
  | .arr _ => .error (nonlibErr "TypeError" "options.params.not-dict")
  | .str _ => .error (nonlibErr "TypeError" "options.params.not-dict")
  | _ => .error (nonlibErr "TypeError" "options.params.not-dict")

def parseHints (kvs : List (String × JVal)) : Except Err (Option (List String)) :=
  match JVal.lookup kvs "hints" with
  | none => .ok none
  | some .null => .ok none
  | some (.arr hs) => do let l ← hs.mapM (fun h => enumOf "PublicKeyCredentialHint" h "options.hints.value"); pure (some l)
  | some _ => .error (jsErr "options.hints.not-list")

def optStr (kvs : List (String × JVal)) (k site : String) : Except Err (Option String) :=
  match JVal.lookup kvs k with
  | none => .ok none
  | some .null => .ok none
  | some (.str s) => .ok (some s)
  | some _ => .error (jsErr site)

/-- everything `parse_registration_options_json` requires before it looks inside the lists:
the required scalar members, the enumerated members, and that the algorithm list is a list -/
structure RegHeader where
  rpId : Option String
  rpName : String
  userId : String
  userName : String
  userDisplayName : String
  attestation : String
  authenticatorSelection : Option AuthSel
  challenge : String
  paramsJ : List JVal
  deriving Repr, Inhabited

def listMember (kvs : List (String × JVal)) (k site : String) : Except Err (List JVal) :=
  match JVal.lookup kvs k with
  | some (.arr l) => .ok l
  | _ => .error (jsErr site)

def regOptionsHeader (kvs : List (String × JVal)) : Except Err RegHeader := do
  let rp ← getObj kvs "rp" "options.rp"
  let rpId ← optStr rp "id" "options.rp.id"
  let rpName ← getStr rp "name" "options.rp.name"
  let user ← getObj kvs "user" "options.user"
  let userId ← getStr user "id" "options.user.id"
  let userName ← getStr user "name" "options.user.name"
  let display ← getStr user "displayName" "options.user.displayName"
  let attS ← getStr kvs "attestation" "options.attestation"
  let att ← enumOf "AttestationConveyancePreference" (.str attS) "options.attestation.value"
  let sel ← parseAuthSel kvs
  let challenge ← getStr kvs "challenge" "options.challenge"
  let paramsJ ← listMember kvs "pubKeyCredParams" "options.pubKeyCredParams"
  pure { rpId, rpName, userId, userName, userDisplayName := display, attestation := att,
         authenticatorSelection := sel, challenge, paramsJ }

def regOptionsBody (kvs : List (String × JVal)) (h : RegHeader) : Except Err RegOptions := do
  let params ← h.paramsJ.mapM parseParam
  let excl ← parseDescriptors kvs "excludeCredentials"
  let timeout ← parseTimeout kvs
  let hints ← parseHints kvs
  let userIdB ← decodeWrapped h.userId regOptErr
  let challengeB ← decodeWrapped h.challenge regOptErr
  pure { rpId := h.rpId, rpName := h.rpName, userId := userIdB, userName := h.userName,
         userDisplayName := h.userDisplayName, challenge := challengeB, params, timeout,
         excludeCredentials := excl, authenticatorSelection := h.authenticatorSelection, hints,
         attestation := h.attestation }

def parseRegOptionsJson (j : JVal) : Except Err RegOptions :=
  match j with
  | .obj kvs => do
    let h ← regOptionsHeader kvs
    regOptionsBody kvs h
  | _ => .error (jsErr "options.not-object")

def parseAuthOptionsJson (j : JVal) : Except Err AuthOptions :=
  match j with
  | .obj kvs => do
    let challenge ← getStr kvs "challenge" "options.challenge"
    let timeout ← parseTimeout kvs
    let rpId := match JVal.lookup kvs "rpId" with | some (.str s) => some s | _ => none
    let uvS ← getStr kvs "userVerification" "options.userVerification"
    let uv ← enumOf "UserVerificationRequirement" (.str uvS) "options.userVerification.value"
    let allow ← parseDescriptors kvs "allowCredentials"
    let challengeB ← decodeWrapped challenge authOptErr
    pure { challenge := challengeB, timeout, rpId, allowCredentials := allow, userVerification := some uv }
  | _ => .error (jsErr "options.not-object")

end Webauthn
