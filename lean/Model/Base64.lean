/-
  base64url helpers.

  `bytes_to_base64url(b)`  = `urlsafe_b64encode(b).decode("utf-8").rstrip("=")`
  `base64url_to_bytes(s)`  = `urlsafe_b64decode(f"{s}===")`

  The decoder is a transcription of CPython's `binascii.a2b_base64` in non-strict mode (the state
  machine with `quad_pos`, `leftchar`, `pads`), preceded by `str.encode("ascii")` and the
  urlsafe translation; it is therefore *lenient*: characters outside the alphabet are skipped,
  both alphabets are accepted, decoding stops at the first sufficient run of `=`.
-/
import Model.Basic
namespace Webauthn.Base64

/-- the url-safe alphabet -/
def encChar (n : Nat) : Char :=
  if n < 26 then Char.ofNat (65 + n)
  else if n < 52 then Char.ofNat (97 + (n - 26))
  else if n < 62 then Char.ofNat (48 + (n - 52))
  else if n = 62 then '-' else '_'

/-- value of a character in binascii's table after `'-' → '+'`, `'_' → '/'` -/
def charVal (c : Char) : Option Nat :=
  if 'A' ≤ c ∧ c ≤ 'Z' then some (c.toNat - 65)
  else if 'a' ≤ c ∧ c ≤ 'z' then some (c.toNat - 97 + 26)
  else if '0' ≤ c ∧ c ≤ '9' then some (c.toNat - 48 + 52)
  else if c = '+' ∨ c = '-' then some 62
  else if c = '/' ∨ c = '_' then some 63
  else none

/-- `bytes_to_base64url` (as a character list) -/
def encode : Bytes → List Char
  | [] => []
  | [a] => [encChar (a.toNat / 4), encChar (a.toNat % 4 * 16)]
  | [a, b] => [encChar (a.toNat / 4), encChar (a.toNat % 4 * 16 + b.toNat / 16),
               encChar (b.toNat % 16 * 4)]
  | a :: b :: c :: rest =>
      encChar (a.toNat / 4) :: encChar (a.toNat % 4 * 16 + b.toNat / 16) ::
      encChar (b.toNat % 16 * 4 + c.toNat / 64) :: encChar (c.toNat % 64) :: encode rest

structure St where
  quad : Nat
  left : Nat
  pads : Nat
  out : Bytes
  deriving Repr

def St.init : St := ⟨0, 0, 0, []⟩

/-- one iteration of the `for` loop of `a2b_base64`; `none` is `goto done` -/
def step (s : St) (c : Char) : Option St :=
  if c = '=' then
    if 2 ≤ s.quad then
      if 4 ≤ s.quad + (s.pads + 1) then none else some { s with pads := s.pads + 1 }
    else some s
  else
    match charVal c with
    | none => some s
    | some v =>
      if s.quad = 0 then some ⟨1, v, 0, s.out⟩
      else if s.quad = 1 then some ⟨2, v % 16, 0, s.out ++ [(s.left * 4 + v / 16).toUInt8]⟩
      else if s.quad = 2 then some ⟨3, v % 4, 0, s.out ++ [(s.left * 16 + v / 4).toUInt8]⟩
      else some ⟨0, 0, 0, s.out ++ [(s.left * 64 + v).toUInt8]⟩

/-- the loop, then the final `quad_pos != 0` test (skipped after `goto done`).
`none` is `binascii.Error`. -/
def run : St → List Char → Option Bytes
  | s, [] => if s.quad = 0 then some s.out else none
  | s, c :: cs =>
    match step s c with
    | none => some s.out
    | some s' => run s' cs

/-- `base64url_to_bytes` on a `str` argument -/
def decode (s : List Char) : Except Err Bytes :=
  if s.any (fun c => 128 ≤ c.toNat) then
    .error (nonlibErr "ValueError" "b64.non-ascii")
  else
    match run St.init (s ++ ['=', '=', '=']) with
    | some b => .ok b
    | none => .error (nonlibErr "binascii.Error" "b64.bad-length")

def encodeStr (b : Bytes) : String := String.ofList (encode b)
def decodeStr (s : String) : Except Err Bytes := decode s.toList

end Webauthn.Base64
