/-
  parse_authenticator_data, parse_backup_flags, aaguid_to_string.
  Flag bit extraction, the minimum-length guard and the backup-flag table come from the
  regenerated `Generated.Tables`.
-/
import Model.Cbor
import Generated.Tables
namespace Webauthn
open Generated

structure Flags where
  up : Bool
  uv : Bool
  be : Bool
  bs : Bool
  att : Bool
  ed : Bool
  deriving DecidableEq, Repr, Inhabited

/-- the six mask expressions of `parse_authenticator_data`, as regenerated from the source -/
def parseFlags (b : UInt8) : Flags :=
  { up := flag_up b.toNat, uv := flag_uv b.toNat, be := flag_be b.toNat,
    bs := flag_bs b.toNat, att := flag_at b.toNat, ed := flag_ed b.toNat }

structure AttestedCred where
  aaguid : Bytes
  credentialId : Bytes
  publicKey : Bytes
  deriving DecidableEq, Repr, Inhabited

structure AuthData where
  rpIdHash : Bytes
  flags : Flags
  signCount : Nat
  attested : Option AttestedCred
  extensions : Option Bytes
  deriving DecidableEq, Repr, Inhabited

/-- `bytearray.fromhex("a301634f4b500327206745643235353139")` -/
def badEddsaCbor : Bytes :=
  [0xa3, 0x01, 0x63, 0x4f, 0x4b, 0x50, 0x03, 0x27, 0x20, 0x67, 0x45, 0x64, 0x32, 0x35, 0x35, 0x31, 0x39]

/-- `_val[pointer] = 0xA4` -/
def patchAt (val : Bytes) (p : Nat) : Bytes := val.take p ++ [0xA4] ++ val.drop (p + 1)

/-- the `if flags.at is True:` block; returns the attested data, the new pointer and `val`
(possibly patched) -/
def parseAttested (val : Bytes) (p : Nat) : Except Err (AttestedCred × Nat × Bytes) := do
  let aaguid := slice val p (p + 16)
  let idLen := beNat (slice val (p + 16) (p + 18))
  let credId := slice val (p + 18) (p + 18 + idLen)
  let p2 := p + 18 + idLen
  let val' := if slice val p2 (p2 + badEddsaCbor.length) == badEddsaCbor then patchAt val p2 else val
  let key ← parseCbor (val'.drop p2)
  let keyBytes := encodeCbor key
  pure (⟨aaguid, credId, keyBytes⟩, p2 + keyBytes.length, val')

def parseExtensions (val : Bytes) (p : Nat) : Except Err (Bytes × Nat) := do
  let ext ← parseCbor (val.drop p)
  let extBytes := encodeCbor ext
  pure (extBytes, p + extBytes.length)

/-- `ord(val[32:33])` -/
def flagsByteOf (val : Bytes) : Except Err UInt8 :=
  match slice val 32 33 with
  | [b] => .ok b
  | _ => .error (nonlibErr "TypeError" "authdata.ord")

def parseAttestedIf (present : Bool) (val : Bytes) : Except Err (Option AttestedCred × Nat × Bytes) :=
  if present then do
    let (a, p, v) ← parseAttested val 37
    pure (some a, p, v)
  else pure (none, 37, val)

def parseExtensionsIf (present : Bool) (val : Bytes) (p : Nat) : Except Err (Option Bytes × Nat) :=
  if present then do
    let (e, p') ← parseExtensions val p
    pure (some e, p')
  else pure (none, p)

def parseAuthData (val : Bytes) : Except Err AuthData := do
  rejectE (authDataTooShort val.length) (libErr .InvalidAuthenticatorDataStructure "authdata.too-short")
  let flagsByte ← flagsByteOf val
  let r1 ← parseAttestedIf (parseFlags flagsByte).att val
  let r2 ← parseExtensionsIf (parseFlags flagsByte).ed r1.2.2 r1.2.1
  rejectE (decide (r1.2.2.length > r2.2)) (libErr .InvalidAuthenticatorDataStructure "authdata.leftover")
  pure { rpIdHash := slice val 0 32, flags := parseFlags flagsByte, signCount := beNat (slice val 33 37),
         attested := r1.1, extensions := r2.1 }

/-! ### the layout a conformant authenticator emits (spec side of the C11 round-trip theorems;
tied to the simulator's `auth_data` by the C11 correspondence check) -/

/-- the attested-credential-data block -/
def encodeAttested (aaguid credId : Bytes) (key : Cbor) : Bytes :=
  aaguid ++ beBytes credId.length 2 ++ credId ++ Cbor.enc key

def encodeAuthData (rp : Bytes) (fb : UInt8) (ctr : Nat) (att : Option (Bytes × Bytes × Cbor)) (ext : Option Cbor) : Bytes :=
  rp ++ [fb] ++ beBytes ctr 4 ++
    (match att with | none => [] | some (a, i, k) => encodeAttested a i k) ++
    (match ext with | none => [] | some e => Cbor.enc e)

/-- `parse_backup_flags`: (credential_device_type, credential_backed_up) -/
def parseBackupFlags (f : Flags) : Except Err (String × Bool) :=
  match backupTable.lookup (f.be, f.bs) with
  | some (some r) => .ok r
  | _ => .error (libErr .InvalidBackupFlags "backup-flags")

/-- `aaguid_to_string` -/
def aaguidToString (val : Bytes) : Except Err String :=
  if val.length ≠ 16 then .error (nonlibErr "ValueError" "aaguid.length")
  else
    let h := toHex val
    .ok (String.ofList (slice h 0 8 ++ ['-'] ++ slice h 8 12 ++ ['-'] ++ slice h 12 16 ++ ['-'] ++
      slice h 16 20 ++ ['-'] ++ slice h 20 32))

end Webauthn
