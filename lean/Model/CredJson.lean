/-
  parse_registration_credential_json / parse_authentication_credential_json, on the Python value
  `json.loads` produced (dict form) and on text (through the `json.loads` oracle).
-/
import Model.Prog
import Model.Base64
import Generated.Tables
namespace Webauthn
open Generated

def jsErr (site : String) : Err := libErr .InvalidJSONStructure site

/-- the values of a str-Enum class, from the regenerated enum table -/
def enumValues (cls : String) : List String := ((strEnums.lookup cls).getD []).map (·.2)

/-- `d.get(k)` must be a `str` -/
def getStr (kvs : List (String × JVal)) (k : String) (site : String) : Except Err String :=
  match JVal.lookup kvs k with
  | some (.str s) => .ok s
  | _ => .error (jsErr site)

/-- `d.get(k)` must be a `dict` -/
def getObj (kvs : List (String × JVal)) (k : String) (site : String) : Except Err (List (String × JVal)) :=
  match JVal.lookup kvs k with
  | some (.obj o) => .ok o
  | _ => .error (jsErr site)

/-- `PublicKeyCredentialType(cred_type)` succeeds only for a member value -/
def credTypeOk (kvs : List (String × JVal)) : Except Err Unit :=
  match JVal.lookup kvs "type" with
  | some (.str s) => if (enumValues "PublicKeyCredentialType").contains s then .ok () else .error (jsErr "cred.type")
  | _ => .error (jsErr "cred.type")

/-- the recognised members of a transports list, in order -/
def recognisedTransports (xs : List JVal) : List String :=
  xs.filterMap (fun x => match x with
    | .str s => if (enumValues "AuthenticatorTransport").contains s then some s else none
    | _ => none)

/-- transports: a list keeps exactly its recognised members, in order; anything else is `None` -/
def transportsOf (resp : List (String × JVal)) : Option (List String) :=
  match JVal.lookup resp "transports" with
  | some (.arr xs) => some (recognisedTransports xs)
  | _ => none

/-- authenticatorAttachment: a str must be a member value; other types are ignored -/
def attachmentOf (kvs : List (String × JVal)) : Except Err (Option String) :=
  match JVal.lookup kvs "authenticatorAttachment" with
  | some (.str s) =>
    if (enumValues "AuthenticatorAttachment").contains s then .ok (some s) else .error (jsErr "cred.attachment")
  | _ => .ok none

/-- base64url decoding inside `try: … except Exception: raise Invalid…Response` -/
def decodeWrapped (s : String) (onFail : Err) : Except Err Bytes :=
  match Base64.decodeStr s with
  | .ok b => .ok b
  | .error _ => .error onFail

structure RegCredJson where
  id : String
  rawId : Bytes
  clientDataJSON : Bytes
  attestationObject : Bytes
  transports : Option (List String)
  attachment : Option String
  deriving Repr, Inhabited, DecidableEq

def regRespErr : Err := libErr .InvalidRegistrationResponse "cred.decode"
def authRespErr : Err := libErr .InvalidAuthenticationResponse "cred.decode"

/-- `parse_registration_credential_json` on a dict-or-other Python value -/
def parseRegCredJson (j : JVal) : Except Err RegCredJson :=
  match j with
  | .obj kvs => do
    let id ← getStr kvs "id" "cred.id"
    let rawId ← getStr kvs "rawId" "cred.rawId"
    let resp ← getObj kvs "response" "cred.response"
    let cdj ← getStr resp "clientDataJSON" "cred.clientDataJSON"
    let ao ← getStr resp "attestationObject" "cred.attestationObject"
    credTypeOk kvs
    let att ← attachmentOf kvs
    let rawIdB ← decodeWrapped rawId regRespErr
    let cdjB ← decodeWrapped cdj regRespErr
    let aoB ← decodeWrapped ao regRespErr
    pure { id, rawId := rawIdB, clientDataJSON := cdjB, attestationObject := aoB,
           transports := transportsOf resp, attachment := att }
  | _ => .error (jsErr "cred.not-object")

structure AuthCredJson where
  id : String
  rawId : Bytes
  clientDataJSON : Bytes
  authenticatorData : Bytes
  signature : Bytes
  userHandle : Option Bytes
  attachment : Option String
  deriving Repr, Inhabited, DecidableEq

/-- userHandle: a str is decoded (inside its own try block), None stays None, other types refuse -/
def userHandleOf (resp : List (String × JVal)) : Except Err (Option Bytes) :=
  match JVal.lookup resp "userHandle" with
  | none => .ok none
  | some .null => .ok none
  | some (.str s) =>
    match decodeWrapped s authRespErr with
    | .ok b => .ok (some b)
    | .error e => .error e
  | some _ => .error (jsErr "cred.userHandle")

/-- `parse_authentication_credential_json` on a dict-or-other Python value -/
def parseAuthCredJson (j : JVal) : Except Err AuthCredJson :=
  match j with
  | .obj kvs => do
    let id ← getStr kvs "id" "cred.id"
    let rawId ← getStr kvs "rawId" "cred.rawId"
    let resp ← getObj kvs "response" "cred.response"
    let cdj ← getStr resp "clientDataJSON" "cred.clientDataJSON"
    let ad ← getStr resp "authenticatorData" "cred.authenticatorData"
    let sig ← getStr resp "signature" "cred.signature"
    credTypeOk kvs
    let uh ← userHandleOf resp
    let att ← attachmentOf kvs
    let rawIdB ← decodeWrapped rawId authRespErr
    let cdjB ← decodeWrapped cdj authRespErr
    let adB ← decodeWrapped ad authRespErr
    let sigB ← decodeWrapped sig authRespErr
    pure { id, rawId := rawIdB, clientDataJSON := cdjB, authenticatorData := adB, signature := sigB,
           userHandle := uh, attachment := att }
  | _ => .error (jsErr "cred.not-object")

/-- what `json.loads(text)` yields for the credential parsers -/
def credJsonOfText (r : JsonOutcome) : Except Err JVal :=
  match r with
  | .ok j => .ok j
  | .decodeError => .error (jsErr "cred.json")
  | .otherError c =>
    if c.startsWith "oom:" then .error (oomErr c)
    else if isValueErrorClass c then .error (jsErr "cred.json")
    else .error (nonlibErr c "cred.json")

def parseRegCredText (s : String) : M RegCredJson := do
  let r ← jsonLoadsStrM s
  let j ← liftE (credJsonOfText r)
  liftE (parseRegCredJson j)

def parseAuthCredText (s : String) : M AuthCredJson := do
  let r ← jsonLoadsStrM s
  let j ← liftE (credJsonOfText r)
  liftE (parseAuthCredJson j)

end Webauthn
