/-
  Data exchanged with the external libraries (the oracle views).
-/
import Model.Basic
namespace Webauthn

/-- What `json.loads` produced.  `real` keeps Python's `repr` of the float; objects are Python
dicts: insertion ordered, duplicates already collapsed by the library (last value wins). -/
inductive JVal
  | null
  | bool (b : Bool)
  | int (i : Int)
  | real (repr : String)
  | str (s : String)
  | arr (xs : List JVal)
  | obj (kvs : List (String × JVal))
  deriving Repr, Inhabited

/-- `d.get(k)` on a dict -/
def JVal.lookup (kvs : List (String × JVal)) (k : String) : Option JVal :=
  match kvs.find? (fun p => p.1 == k) with
  | some p => some p.2
  | none => none

inductive HashAlg | sha1 | sha256 | sha384 | sha512
  deriving DecidableEq, Repr, Inhabited

inductive Curve
  | p256 | p384 | p521
  | other (name : String)
  deriving DecidableEq, Repr, Inhabited

/-- The public key material handed to / obtained from `cryptography`. -/
inductive PubKey
  | ec (crv : Curve) (x y : Nat)
  | rsa (n e : Nat)
  | ed25519 (x : Bytes)
  | other (cls : String)
  deriving DecidableEq, Repr, Inhabited

/-- Signature scheme selected by `verify_signature`. -/
inductive Scheme
  | ecdsa (h : HashAlg)
  | pkcs1v15 (h : HashAlg)
  | pss (mgf h : HashAlg) (salt : String)  -- MGF1(mgf), salt length "max" | "auto" | "digest" | decimal
  | ed25519
  deriving DecidableEq, Repr, Inhabited

inductive SigOutcome
  | valid
  | invalid                      -- cryptography.exceptions.InvalidSignature
  | raised (pyClass : String)    -- anything else the library raised
  deriving DecidableEq, Repr, Inhabited

/-- The first directoryName of a SubjectAlternativeName extension (`get_values_for_type(DirectoryName)[0]`), as the
TPM verifier reads it; `empty` = the extension carries no directoryName (the remaining constructors are no longer
produced by the oracle since the repair of F10). -/
inductive SanFirst
  | dirName (attrs : List (String × String))   -- (dotted oid, str(value)) in order
  | otherName                                  -- OtherName objects are returned whole
  | text                                       -- rfc822/dns/uri: a str
  | otherKind                                  -- ip address, registered id: not iterable / no `.oid`
  | empty                                      -- extension with no general names
  deriving DecidableEq, Repr, Inhabited

/-- Exactly the certificate fields the library reads, as `cryptography` reports them. -/
structure CertView where
  key : PubKey
  spki : Bytes
  versionV3 : Bool
  subjectLen : Nat
  subjectCNs : List String
  extsOk : Bool
  san : Option SanFirst
  eku : Option (List String)      -- ExtendedKeyUsage present → dotted OIDs in order
  bcCa : Option Bool
  appleNonce : Option Bytes
  keyDesc : Option Bytes
  pem : Bytes
  deriving DecidableEq, Repr, Inhabited

/-- asn1crypto's view of the Android key description, limited to what the verifier reads.
`*.native` values are mirrored: `allApplications…Native` is what `.native` evaluates to
(`none` for Python `None`), `…Present` whether the field is in the DER at all. -/
structure KeyDescView where
  attestationChallenge : Bytes
  swAllAppsPresent : Bool
  swAllAppsNativeIsNone : Bool
  teeAllAppsPresent : Bool
  teeAllAppsNativeIsNone : Bool
  teeOrigin : Option Int
  teePurpose : Option (List Int)
  deriving DecidableEq, Repr, Inhabited

/-- a trust anchor handed to the chain validator: PEM bytes the RP supplied, or one of the
constants of `known_root_certs.py`, referred to by name -/
inductive Root
  | pem (b : Bytes)
  | builtin (name : String)
  deriving DecidableEq, Repr, Inhabited

inductive ChainOutcome
  | ok
  | invalid                 -- X509StoreContextError
  | prepLeaf | prepInter | prepRoot   -- the three "Could not prepare …" wrappers
  deriving DecidableEq, Repr, Inhabited

inductive JsonOutcome
  | ok (v : JVal)
  | decodeError             -- json.JSONDecodeError
  | otherError (cls : String)
  deriving Repr, Inhabited

/-- exception classes of `json.loads` that are `ValueError`s (what the parsers' `except ValueError` catches besides
`JSONDecodeError`): the int digit limit on huge literals, and undecodable bytes -/
def isValueErrorClass (c : String) : Bool :=
  c == "ValueError" || c == "UnicodeDecodeError" || c == "other:ValueError" || c == "other:UnicodeDecodeError"

end Webauthn
