/-
  verify_authentication_response (record form; the text / dict forms go through CredJson first).
-/
import Model.AuthData
import Model.ClientData
import Model.Cose
namespace Webauthn
open Generated

inductive Origins
  | single (s : String)
  | many (ss : List String)
  deriving Repr, Inhabited, DecidableEq

/-- `expected_origin != client_data.origin` / `expected_origin.index(client_data.origin)` -/
def originOk (e : Origins) (o : JVal) : Bool :=
  match o with
  | .str s => match e with
    | .single t => t == s
    | .many ts => ts.contains s
  | _ => false

def jvalIsStr (v : JVal) (s : String) : Bool :=
  match v with
  | .str t => t == s
  | _ => false

/-- `status not in expected_token_binding_statuses` for a present token binding -/
def tokenBindingRejects (tb : Option TokenBinding) (allowed : List String) : Bool :=
  match tb with
  | none => false
  | some t => !(allowed.any (fun a => jvalIsStr t.status a))

structure AuthCred where
  id : String
  rawId : Bytes
  type : String
  clientDataJSON : Bytes
  authenticatorData : Bytes
  signature : Bytes
  userHandle : Option Bytes
  deriving Repr, Inhabited, DecidableEq

structure AuthExpect where
  challenge : Bytes
  rpId : String
  origin : Origins
  publicKey : Bytes
  currentSignCount : Int
  requireUV : Bool
  deriving Repr, Inhabited

structure VerifiedAuth where
  credentialId : Bytes
  newSignCount : Nat
  deviceType : String
  backedUp : Bool
  userVerified : Bool
  deriving Repr, Inhabited, DecidableEq

def authErr (site : String) : Err := libErr .InvalidAuthenticationResponse site

def verifyAuth (c : AuthCred) (e : AuthExpect) : M VerifiedAuth := do
  reject (Base64.encodeStr c.rawId != c.id) (authErr "auth.id-rawid")
  reject (c.type != "public-key") (authErr "auth.cred-type")
  let cd ← parseClientData c.clientDataJSON
  reject (!jvalIsStr cd.type "webauthn.get") (authErr "auth.cd-type")
  reject (e.challenge != cd.challenge) (authErr "auth.challenge")
  reject (!originOk e.origin cd.origin) (authErr "auth.origin")
  reject (tokenBindingRejects cd.tokenBinding tokenBindingStatusesAuth) (authErr "auth.token-binding")
  let ad ← liftE (parseAuthData c.authenticatorData)
  let rpHash ← sha256M (utf8 e.rpId)
  reject (ad.rpIdHash != rpHash) (authErr "auth.rpid-hash")
  reject (authUpRejects e.requireUV ad.flags.up ad.flags.uv) (authErr "auth.up")
  reject (authUvRejects e.requireUV ad.flags.up ad.flags.uv) (authErr "auth.uv")
  reject (signCountRejects ad.signCount e.currentSignCount) (authErr "auth.sign-count")
  let cdHash ← sha256M c.clientDataJSON
  let key ← liftE (decodeCose e.publicKey)
  let pk ← loadCoseKey key
  verifySignature pk key.alg c.signature (c.authenticatorData ++ cdHash) (authErr "auth.signature")
  let bf ← liftE (parseBackupFlags ad.flags)
  pure { credentialId := c.rawId, newSignCount := ad.signCount, deviceType := bf.1,
         backedUp := bf.2, userVerified := ad.flags.uv }

end Webauthn
