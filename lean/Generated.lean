import Generated.Types
import Generated.Fallback
import Generated.Tables
