import Props.C14
import Props.C01
import Props.C07
import Props.C10
import Props.C20
import Props.C02
import Props.C03
