import Props.C14
