import Driver.Codec
import Driver.Ops
