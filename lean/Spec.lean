import Spec.Core
