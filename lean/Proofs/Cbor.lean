/-
  CBOR fragment: decode ∘ encode = id (with trailing bytes), for every well-formed value.
-/
import Model.Cbor
namespace Webauthn
namespace Cbor

/-! ### big-endian numbers -/

theorem beNat_append_singleton (l : Bytes) (b : UInt8) : beNat (l ++ [b]) = beNat l * 256 + b.toNat := by
  simp [beNat, List.foldl_append]

theorem beBytes_length (n k : Nat) : (beBytes n k).length = k := by
  induction k generalizing n with
  | zero => rfl
  | succ k ih => simp [beBytes, ih]

theorem toUInt8_toNat {n : Nat} (h : n < 256) : n.toUInt8.toNat = n := by
  simp [Nat.toUInt8]; omega

theorem beNat_beBytes (k : Nat) : ∀ n, n < 256 ^ k → beNat (beBytes n k) = n := by
  induction k with
  | zero => intro n h; simp at h; subst h; rfl
  | succ k ih =>
    intro n h
    unfold beBytes
    rw [beNat_append_singleton, ih (n / 256) (by rw [Nat.pow_succ] at h; omega), toUInt8_toNat (by omega)]
    omega

/-! ### heads -/

/-- what the decoder computes from the bytes of `head m n`, whatever follows -/
theorem head_cases (m n : Nat) (hm : m < 8) (hn : n < 2 ^ 64) :
    ∃ b tl ai, head m n = b :: tl ∧ b.toNat / 32 = m ∧ b.toNat % 32 = ai ∧
      ∀ rest, readArg ai (tl ++ rest) = .ok (n, rest) := by
  unfold head
  by_cases h1 : n < 24
  · refine ⟨(m * 32 + n).toUInt8, [], n, by rw [if_pos h1], ?_, ?_, ?_⟩
    · rw [toUInt8_toNat (by omega)]; omega
    · rw [toUInt8_toNat (by omega)]; omega
    · intro rest; simp [readArg, h1]
  · by_cases h2 : n < 256
    · refine ⟨(m * 32 + 24).toUInt8, [n.toUInt8], 24, by rw [if_neg h1, if_pos h2], ?_, ?_, ?_⟩
      · rw [toUInt8_toNat (by omega)]; omega
      · rw [toUInt8_toNat (by omega)]; omega
      · intro rest; simp [readArg, toUInt8_toNat h2]
    · by_cases h3 : n < 65536
      · refine ⟨(m * 32 + 25).toUInt8, beBytes n 2, 25, by rw [if_neg h1, if_neg h2, if_pos h3], ?_, ?_, ?_⟩
        · rw [toUInt8_toNat (by omega)]; omega
        · rw [toUInt8_toNat (by omega)]; omega
        · intro rest
          have hl := beBytes_length n 2
          simp only [readArg, show ¬ (25 < 24) from by omega, show ¬ (25 = 24) from by omega, ↓reduceIte,
            List.length_append, hl, show ¬ (2 + rest.length < 2) from by omega]
          rw [List.take_left' hl, List.drop_left' hl, beNat_beBytes 2 n (by omega)]
      · by_cases h4 : n < 4294967296
        · refine ⟨(m * 32 + 26).toUInt8, beBytes n 4, 26, by rw [if_neg h1, if_neg h2, if_neg h3, if_pos h4], ?_, ?_, ?_⟩
          · rw [toUInt8_toNat (by omega)]; omega
          · rw [toUInt8_toNat (by omega)]; omega
          · intro rest
            have hl := beBytes_length n 4
            simp only [readArg, show ¬ (26 < 24) from by omega, show ¬ (26 = 24) from by omega,
              show ¬ (26 = 25) from by omega, ↓reduceIte, List.length_append, hl,
              show ¬ (4 + rest.length < 4) from by omega]
            rw [List.take_left' hl, List.drop_left' hl, beNat_beBytes 4 n (by omega)]
        · refine ⟨(m * 32 + 27).toUInt8, beBytes n 8, 27, by rw [if_neg h1, if_neg h2, if_neg h3, if_neg h4], ?_, ?_, ?_⟩
          · rw [toUInt8_toNat (by omega)]; omega
          · rw [toUInt8_toNat (by omega)]; omega
          · intro rest
            have hl := beBytes_length n 8
            simp only [readArg, show ¬ (27 < 24) from by omega, show ¬ (27 = 24) from by omega,
              show ¬ (27 = 25) from by omega, show ¬ (27 = 26) from by omega, ↓reduceIte, List.length_append, hl,
              show ¬ (8 + rest.length < 8) from by omega]
            rw [List.take_left' hl, List.drop_left' hl, beNat_beBytes 8 n (by omega)]

end Cbor
end Webauthn

namespace Webauthn
namespace Cbor

/-- the decoder on a head of major type `m ≤ 5` with argument `n`: the generic step -/
theorem dec_head (m n fuel : Nat) (hm : m < 6) (hn : n < 2 ^ 64) (payload : Bytes) :
    dec (fuel + 1) (head m n ++ payload) =
      if m = 0 then .ok (.uint n, payload)
      else if m = 1 then .ok (.nint n, payload)
      else if m = 2 then
        if payload.length < n then .error .bad else .ok (.bytes (payload.take n), payload.drop n)
      else if m = 3 then
        if payload.length < n then .error .bad
        else if validUtf8 (payload.take n) then .ok (.text (payload.take n), payload.drop n)
        else .error .bad
      else if m = 4 then
        match decList fuel n payload with
        | .error e => .error e
        | .ok (xs, rest') => .ok (.arr xs, rest')
      else
        match decPairs fuel n payload [] with
        | .error e => .error e
        | .ok (kvs, rest') => .ok (.map kvs, rest') := by
  obtain ⟨b, tl, ai, hh, h1, h2, h3⟩ := head_cases m n (by omega) hn
  rw [hh, List.cons_append, dec]
  simp only [h1, h2, h3 payload, show ¬ (m = 7) from by omega, show ¬ (m = 6) from by omega, ↓reduceIte]
  rfl

end Cbor
end Webauthn

namespace Webauthn
namespace Cbor

mutual
  def size : Cbor → Nat
    | .arr xs => 1 + sizeList xs
    | .map kvs => 1 + sizePairs kvs
    | _ => 1
  def sizeList : List Cbor → Nat
    | [] => 0
    | x :: xs => 1 + size x + sizeList xs
  def sizePairs : List (Cbor × Cbor) → Nat
    | [] => 0
    | (k, v) :: r => 1 + size k + size v + sizePairs r
end

/-- no key of the list is `==` (Python) to an earlier one -/
def keysDistinct : List (Cbor × Cbor) → Bool
  | [] => true
  | (k, _) :: r => r.all (fun p => !keyEq k p.1) && keysDistinct r

mutual
  /-- values `cbor2.dumps` can produce and `cbor2.loads` reads back in the fragment -/
  def WF : Cbor → Prop
    | .uint n => n < 2 ^ 64
    | .nint n => n < 2 ^ 64
    | .bytes b => b.length < 2 ^ 64
    | .text b => b.length < 2 ^ 64 ∧ validUtf8 b = true
    | .arr xs => xs.length < 2 ^ 64 ∧ WFList xs
    | .map kvs => kvs.length < 2 ^ 64 ∧ keysDistinct kvs = true ∧ WFPairs kvs
    | _ => True
  def WFList : List Cbor → Prop
    | [] => True
    | x :: xs => WF x ∧ WFList xs
  def WFPairs : List (Cbor × Cbor) → Prop
    | [] => True
    | (k, v) :: r => isScalarKey k = true ∧ WF k ∧ WF v ∧ WFPairs r
end

theorem size_pos (v : Cbor) : 1 ≤ size v := by
  cases v <;> simp [size]

theorem dictInsert_fresh (acc : List (Cbor × Cbor)) (k v : Cbor)
    (h : ∀ p ∈ acc, keyEq p.1 k = false) : dictInsert acc k v = acc ++ [(k, v)] := by
  induction acc with
  | nil => rfl
  | cons p r ih =>
    obtain ⟨k', v'⟩ := p
    have hk : keyEq k' k = false := h (k', v') List.mem_cons_self
    simp only [dictInsert, hk, Bool.false_eq_true, ↓reduceIte, List.cons_append]
    rw [ih (fun q hq => h q (List.mem_cons_of_mem _ hq))]

theorem take_append_self {α} (a b : List α) : (a ++ b).take a.length = a := by simp
theorem drop_append_self {α} (a b : List α) : (a ++ b).drop a.length = b := by simp

mutual
  theorem dec_enc : ∀ (v : Cbor) (fuel : Nat) (rest : Bytes), WF v → size v ≤ fuel →
      dec fuel (enc v ++ rest) = .ok (v, rest)
    | .uint n, fuel, rest, h, hf => by
      cases fuel with
      | zero => simp [size] at hf
      | succ f => simp only [enc]; rw [dec_head 0 n f (by omega) h]; rfl
    | .nint n, fuel, rest, h, hf => by
      cases fuel with
      | zero => simp [size] at hf
      | succ f => simp only [enc]; rw [dec_head 1 n f (by omega) h]; rfl
    | .bytes b, fuel, rest, h, hf => by
      cases fuel with
      | zero => simp [size] at hf
      | succ f =>
        simp only [enc, List.append_assoc]
        rw [dec_head 2 b.length f (by omega) h]
        simp [take_append_self, drop_append_self]
    | .text b, fuel, rest, h, hf => by
      cases fuel with
      | zero => simp [size] at hf
      | succ f =>
        simp only [enc, List.append_assoc]
        rw [dec_head 3 b.length f (by omega) h.1]
        simp [take_append_self, drop_append_self, h.2]
    | .arr xs, fuel, rest, h, hf => by
      cases fuel with
      | zero => simp [size] at hf
      | succ f =>
        simp only [enc, List.append_assoc]
        rw [dec_head 4 xs.length f (by omega) h.1]
        simp only [show ¬ (4 = 0) from by omega, show ¬ (4 = 1) from by omega, show ¬ (4 = 2) from by omega,
          show ¬ (4 = 3) from by omega, ↓reduceIte]
        rw [decList_enc xs f rest h.2 (by simp [size] at hf; omega)]
    | .map kvs, fuel, rest, h, hf => by
      cases fuel with
      | zero => simp [size] at hf
      | succ f =>
        simp only [enc, List.append_assoc]
        rw [dec_head 5 kvs.length f (by omega) h.1]
        simp only [show ¬ (5 = 0) from by omega, show ¬ (5 = 1) from by omega, show ¬ (5 = 2) from by omega,
          show ¬ (5 = 3) from by omega, show ¬ (5 = 4) from by omega, ↓reduceIte]
        rw [decPairs_enc kvs f rest [] h.2.2 (by simp [size] at hf; omega) (by simp) h.2.1]
        rfl
    | .bool false, fuel, rest, _, hf => by
      cases fuel with
      | zero => simp [size] at hf
      | succ f => simp [enc, dec]
    | .bool true, fuel, rest, _, hf => by
      cases fuel with
      | zero => simp [size] at hf
      | succ f => simp [enc, dec]
    | .null, fuel, rest, _, hf => by
      cases fuel with
      | zero => simp [size] at hf
      | succ f => simp [enc, dec]
    | .undefined, fuel, rest, _, hf => by
      cases fuel with
      | zero => simp [size] at hf
      | succ f => simp [enc, dec]
  theorem decList_enc : ∀ (xs : List Cbor) (fuel : Nat) (rest : Bytes), WFList xs → sizeList xs ≤ fuel →
      decList fuel xs.length (encList xs ++ rest) = .ok (xs, rest)
    | [], fuel, rest, _, _ => by simp [encList, decList]
    | x :: xs, fuel, rest, h, hf => by
      cases fuel with
      | zero => simp [sizeList] at hf
      | succ f =>
        simp only [encList, List.length_cons, List.append_assoc, decList]
        rw [dec_enc x f (encList xs ++ rest) h.1 (by simp [sizeList] at hf; omega)]
        simp only
        rw [decList_enc xs f rest h.2 (by simp [sizeList] at hf; omega)]
  theorem decPairs_enc : ∀ (kvs : List (Cbor × Cbor)) (fuel : Nat) (rest : Bytes) (acc : List (Cbor × Cbor)),
      WFPairs kvs → sizePairs kvs ≤ fuel → (∀ p ∈ acc, ∀ q ∈ kvs, keyEq p.1 q.1 = false) →
      keysDistinct kvs = true →
      decPairs fuel kvs.length (encPairs kvs ++ rest) acc = .ok (acc ++ kvs, rest)
    | [], fuel, rest, acc, _, _, _, _ => by simp [encPairs, decPairs]
    | (k, v) :: r, fuel, rest, acc, h, hf, hacc, hd => by
      cases fuel with
      | zero => simp [sizePairs] at hf
      | succ f =>
        simp only [encPairs, List.length_cons, List.append_assoc, decPairs]
        rw [dec_enc k f (enc v ++ (encPairs r ++ rest)) h.2.1 (by simp [sizePairs] at hf; omega)]
        simp only [h.1, Bool.not_true, Bool.false_eq_true, ↓reduceIte]
        rw [dec_enc v f (encPairs r ++ rest) h.2.2.1 (by simp [sizePairs] at hf; omega)]
        simp only
        rw [dictInsert_fresh acc k v (fun p hp => hacc p hp (k, v) List.mem_cons_self)]
        have hd' : r.all (fun p => !keyEq k p.1) = true ∧ keysDistinct r = true := by
          simpa [keysDistinct] using hd
        rw [decPairs_enc r f rest (acc ++ [(k, v)]) h.2.2.2 (by simp [sizePairs] at hf; omega) ?_ hd'.2]
        · simp
        · intro p hp q hq
          rw [List.mem_append] at hp
          rcases hp with hp | hp
          · exact hacc p hp q (List.mem_cons_of_mem _ hq)
          · have : p = (k, v) := by simpa using hp
            subst this
            have := List.all_eq_true.mp hd'.1 q hq
            simpa using this
end

end Cbor
end Webauthn

namespace Webauthn
namespace Cbor

theorem head_length_pos (m n : Nat) : 1 ≤ (head m n).length := by
  unfold head; split <;> (try split) <;> (try split) <;> (try split) <;> simp

mutual
  theorem size_le_enc : ∀ v : Cbor, size v + 1 ≤ 2 * (enc v).length
    | .uint n => by have := head_length_pos 0 n; simp [size, enc]; omega
    | .nint n => by have := head_length_pos 1 n; simp [size, enc]; omega
    | .bytes b => by have := head_length_pos 2 b.length; simp [size, enc]; omega
    | .text b => by have := head_length_pos 3 b.length; simp [size, enc]; omega
    | .arr xs => by
      have := head_length_pos 4 xs.length; have := sizeList_le_enc xs
      simp [size, enc]; omega
    | .map kvs => by
      have := head_length_pos 5 kvs.length; have := sizePairs_le_enc kvs
      simp [size, enc]; omega
    | .bool false => by simp [size, enc]
    | .bool true => by simp [size, enc]
    | .null => by simp [size, enc]
    | .undefined => by simp [size, enc]
  theorem sizeList_le_enc : ∀ xs : List Cbor, sizeList xs ≤ 2 * (encList xs).length
    | [] => by simp [sizeList, encList]
    | x :: xs => by
      have := size_le_enc x; have := sizeList_le_enc xs
      simp [sizeList, encList]; omega
  theorem sizePairs_le_enc : ∀ kvs : List (Cbor × Cbor), sizePairs kvs ≤ 2 * (encPairs kvs).length
    | [] => by simp [sizePairs, encPairs]
    | (k, v) :: r => by
      have := size_le_enc k; have := size_le_enc v; have := sizePairs_le_enc r
      simp [sizePairs, encPairs]; omega
end

/-- `cbor2.loads(cbor2.dumps(v) + trailing) == v` on the fragment -/
theorem loads_enc (v : Cbor) (rest : Bytes) (h : WF v) : loads (enc v ++ rest) = .ok v := by
  unfold loads
  have := size_le_enc v
  rw [dec_enc v _ rest h (by simp; omega)]

end Cbor

theorem parseCbor_enc (v : Cbor) (rest : Bytes) (h : Cbor.WF v) : parseCbor (Cbor.enc v ++ rest) = .ok v := by
  unfold parseCbor; rw [Cbor.loads_enc v rest h]

end Webauthn
