/-
  Prefix-freeness of the CBOR fragment: a strict prefix of the encoding of a well-formed value is
  refused by the decoder (with `.bad`, i.e. a CBORDecodeError) — truncated input never decodes.
-/
import Proofs.Cbor
import Proofs.CborFuel
namespace Webauthn
namespace Cbor

theorem split_prefix {α} (a b p s : List α) (h : a ++ b = p ++ s) :
    (∃ t, t ≠ [] ∧ a = p ++ t) ∨ (∃ t, p = a ++ t ∧ b = t ++ s) := by
  rcases List.append_eq_append_iff.mp h with ⟨t, hp, hb⟩ | ⟨t, ha, hs⟩
  · exact Or.inr ⟨t, hp, hb⟩
  · by_cases ht : t = []
    · subst ht
      refine Or.inr ⟨[], ?_, ?_⟩
      · simpa using ha.symm
      · simpa using hs.symm
    · exact Or.inl ⟨t, ht, ha⟩

/-- the decoder step on a first byte of major type `m ≤ 5` whose argument cannot be read -/
theorem dec_short_arg (fuel : Nat) (b : UInt8) (q : Bytes) (m ai : Nat) (hm : m < 6)
    (h1 : b.toNat / 32 = m) (h2 : b.toNat % 32 = ai) (hr : readArg ai q = .error .bad) :
    dec (fuel + 1) (b :: q) = .error .bad := by
  simp only [dec, h1, h2, hr, show ¬ (m = 7) from by omega, show ¬ (m = 6) from by omega, ↓reduceIte]

theorem head_short (m n : Nat) (hm : m < 6) (fuel : Nat) (p s : Bytes)
    (h : head m n = p ++ s) (hs : s ≠ []) : dec (fuel + 1) p = .error .bad := by
  cases p with
  | nil => simp [dec]
  | cons b q =>
    unfold head at h
    simp only [List.cons_append] at h
    split at h
    · -- one byte
      have := (List.cons.inj h).2
      have : s = [] := by
        have h' := congrArg List.length this; simp at h'; exact List.eq_nil_of_length_eq_zero (by omega)
      exact absurd this hs
    · split at h
      · -- head byte + 1
        obtain ⟨hb, ht⟩ := List.cons.inj h
        have hq : q = [] := by
          have h' := congrArg List.length ht
          simp at h'
          have : s.length ≠ 0 := fun h0 => hs (List.eq_nil_of_length_eq_zero h0)
          exact List.eq_nil_of_length_eq_zero (by omega)
        subst hq
        have hbn : b.toNat = m * 32 + 24 := by rw [← hb]; exact toUInt8_toNat (by omega)
        exact dec_short_arg fuel b [] m 24 hm (by omega) (by omega) (by simp [readArg])
      · split at h
        · obtain ⟨hb, ht⟩ := List.cons.inj h
          have hl : q.length < 2 := by
            have h' := congrArg List.length ht
            simp [beBytes_length] at h'
            have : s.length ≠ 0 := fun h0 => hs (List.eq_nil_of_length_eq_zero h0)
            omega
          have hbn : b.toNat = m * 32 + 25 := by rw [← hb]; exact toUInt8_toNat (by omega)
          exact dec_short_arg fuel b q m 25 hm (by omega) (by omega) (by simp [readArg, hl])
        · split at h
          · obtain ⟨hb, ht⟩ := List.cons.inj h
            have hl : q.length < 4 := by
              have h' := congrArg List.length ht
              simp [beBytes_length] at h'
              have : s.length ≠ 0 := fun h0 => hs (List.eq_nil_of_length_eq_zero h0)
              omega
            have hbn : b.toNat = m * 32 + 26 := by rw [← hb]; exact toUInt8_toNat (by omega)
            exact dec_short_arg fuel b q m 26 hm (by omega) (by omega) (by simp [readArg, hl])
          · obtain ⟨hb, ht⟩ := List.cons.inj h
            have hl : q.length < 8 := by
              have h' := congrArg List.length ht
              simp [beBytes_length] at h'
              have : s.length ≠ 0 := fun h0 => hs (List.eq_nil_of_length_eq_zero h0)
              omega
            have hbn : b.toNat = m * 32 + 27 := by rw [← hb]; exact toUInt8_toNat (by omega)
            exact dec_short_arg fuel b q m 27 hm (by omega) (by omega) (by simp [readArg, hl])

theorem ne_nil_length {α} {s : List α} (hs : s ≠ []) : 0 < s.length :=
  List.length_pos_iff.mpr hs

mutual
  theorem dec_prefix : ∀ (v : Cbor) (fuel : Nat) (p s : Bytes), WF v → size v ≤ fuel → enc v = p ++ s → s ≠ [] →
      dec fuel p = .error .bad
    | .uint n, fuel, p, s, h, hf, he, hs => by
      cases fuel with
      | zero => simp [size] at hf
      | succ f => exact head_short 0 n (by omega) f p s (by simpa [enc] using he) hs
    | .nint n, fuel, p, s, h, hf, he, hs => by
      cases fuel with
      | zero => simp [size] at hf
      | succ f => exact head_short 1 n (by omega) f p s (by simpa [enc] using he) hs
    | .bytes b, fuel, p, s, h, hf, he, hs => by
      cases fuel with
      | zero => simp [size] at hf
      | succ f =>
        simp only [enc] at he
        rcases split_prefix _ _ _ _ he with ⟨t, ht, hh⟩ | ⟨t, hp, hb⟩
        · exact head_short 2 b.length (by omega) f p t hh ht
        · subst hp
          rw [dec_head 2 b.length f (by omega) h]
          have : t.length < b.length := by
            have := congrArg List.length hb; simp at this; have := ne_nil_length hs; omega
          simp [this]
    | .text b, fuel, p, s, h, hf, he, hs => by
      cases fuel with
      | zero => simp [size] at hf
      | succ f =>
        simp only [enc] at he
        rcases split_prefix _ _ _ _ he with ⟨t, ht, hh⟩ | ⟨t, hp, hb⟩
        · exact head_short 3 b.length (by omega) f p t hh ht
        · subst hp
          rw [dec_head 3 b.length f (by omega) h.1]
          have : t.length < b.length := by
            have := congrArg List.length hb; simp at this; have := ne_nil_length hs; omega
          simp [this]
    | .arr xs, fuel, p, s, h, hf, he, hs => by
      cases fuel with
      | zero => simp [size] at hf
      | succ f =>
        simp only [enc] at he
        rcases split_prefix _ _ _ _ he with ⟨t, ht, hh⟩ | ⟨t, hp, hb⟩
        · exact head_short 4 xs.length (by omega) f p t hh ht
        · subst hp
          rw [dec_head 4 xs.length f (by omega) h.1]
          simp only [show ¬ (4 = 0) from by omega, show ¬ (4 = 1) from by omega, show ¬ (4 = 2) from by omega,
            show ¬ (4 = 3) from by omega, ↓reduceIte]
          rw [decList_prefix xs f t s h.2 (by simp [size] at hf; omega) hb hs]
    | .map kvs, fuel, p, s, h, hf, he, hs => by
      cases fuel with
      | zero => simp [size] at hf
      | succ f =>
        simp only [enc] at he
        rcases split_prefix _ _ _ _ he with ⟨t, ht, hh⟩ | ⟨t, hp, hb⟩
        · exact head_short 5 kvs.length (by omega) f p t hh ht
        · subst hp
          rw [dec_head 5 kvs.length f (by omega) h.1]
          simp only [show ¬ (5 = 0) from by omega, show ¬ (5 = 1) from by omega, show ¬ (5 = 2) from by omega,
            show ¬ (5 = 3) from by omega, show ¬ (5 = 4) from by omega, ↓reduceIte]
          rw [decPairs_prefix kvs f t s [] h.2.2 (by simp [size] at hf; omega) hb hs]
    | .bool false, fuel, p, s, _, hf, he, hs => by
      cases fuel with
      | zero => simp [size] at hf
      | succ f =>
        cases p with
        | nil => simp [dec]
        | cons b q =>
          have hl := congrArg List.length he
          simp only [enc, List.length_cons, List.length_append, List.length_nil] at hl
          have := ne_nil_length hs; omega
    | .bool true, fuel, p, s, _, hf, he, hs => by
      cases fuel with
      | zero => simp [size] at hf
      | succ f =>
        cases p with
        | nil => simp [dec]
        | cons b q =>
          have hl := congrArg List.length he
          simp only [enc, List.length_cons, List.length_append, List.length_nil] at hl
          have := ne_nil_length hs; omega
    | .null, fuel, p, s, _, hf, he, hs => by
      cases fuel with
      | zero => simp [size] at hf
      | succ f =>
        cases p with
        | nil => simp [dec]
        | cons b q =>
          have hl := congrArg List.length he
          simp only [enc, List.length_cons, List.length_append, List.length_nil] at hl
          have := ne_nil_length hs; omega
    | .undefined, fuel, p, s, _, hf, he, hs => by
      cases fuel with
      | zero => simp [size] at hf
      | succ f =>
        cases p with
        | nil => simp [dec]
        | cons b q =>
          have hl := congrArg List.length he
          simp only [enc, List.length_cons, List.length_append, List.length_nil] at hl
          have := ne_nil_length hs; omega
  theorem decList_prefix : ∀ (xs : List Cbor) (fuel : Nat) (p s : Bytes), WFList xs → sizeList xs ≤ fuel →
      encList xs = p ++ s → s ≠ [] → decList fuel xs.length p = .error .bad
    | [], fuel, p, s, _, _, he, hs => by
      have := congrArg List.length he; simp [encList] at this; have := ne_nil_length hs; omega
    | x :: xs, fuel, p, s, h, hf, he, hs => by
      cases fuel with
      | zero => simp [sizeList] at hf
      | succ f =>
        simp only [encList] at he
        simp only [List.length_cons, decList]
        rcases split_prefix _ _ _ _ he with ⟨t, ht, hh⟩ | ⟨t, hp, hb⟩
        · rw [dec_prefix x f p t h.1 (by simp [sizeList] at hf; omega) hh ht]
        · subst hp
          rw [dec_enc x f t h.1 (by simp [sizeList] at hf; omega)]
          simp only
          rw [decList_prefix xs f t s h.2 (by simp [sizeList] at hf; omega) hb hs]
  theorem decPairs_prefix : ∀ (kvs : List (Cbor × Cbor)) (fuel : Nat) (p s : Bytes) (acc : List (Cbor × Cbor)),
      WFPairs kvs → sizePairs kvs ≤ fuel → encPairs kvs = p ++ s → s ≠ [] →
      decPairs fuel kvs.length p acc = .error .bad
    | [], fuel, p, s, acc, _, _, he, hs => by
      have := congrArg List.length he; simp [encPairs] at this; have := ne_nil_length hs; omega
    | (k, v) :: r, fuel, p, s, acc, h, hf, he, hs => by
      cases fuel with
      | zero => simp [sizePairs] at hf
      | succ f =>
        simp only [encPairs, List.append_assoc] at he
        simp only [List.length_cons, decPairs]
        rcases split_prefix _ _ _ _ he with ⟨t, ht, hh⟩ | ⟨t, hp, hb⟩
        · rw [dec_prefix k f p t h.2.1 (by simp [sizePairs] at hf; omega) hh ht]
        · subst hp
          rw [dec_enc k f t h.2.1 (by simp [sizePairs] at hf; omega)]
          simp only [h.1, Bool.not_true, Bool.false_eq_true, ↓reduceIte]
          rcases split_prefix _ _ _ _ hb with ⟨t', ht', hh'⟩ | ⟨t', hp', hb'⟩
          · rw [dec_prefix v f t t' h.2.2.1 (by simp [sizePairs] at hf; omega) hh' ht']
          · subst hp'
            rw [dec_enc v f t' h.2.2.1 (by simp [sizePairs] at hf; omega)]
            simp only
            exact decPairs_prefix r f t' s _ h.2.2.2 (by simp [sizePairs] at hf; omega) hb' hs
end

/-- `cbor2.loads` on a strict prefix of a well-formed value's encoding raises a decode error -/
theorem loads_prefix (v : Cbor) (p s : Bytes) (h : WF v) (he : enc v = p ++ s) (hs : s ≠ []) :
    loads p = .error .bad := by
  have hbig := dec_prefix v (2 * p.length + 2 + size v) p s h (by omega) he hs
  have hne : dec (2 * p.length + 2) p ≠ .error fuelErr := (enough _).1 p (by omega)
  have := dec_mono hne (size v)
  rw [hbig] at this
  unfold loads
  rw [← this]

end Cbor

theorem parseCbor_prefix (v : Cbor) (p s : Bytes) (h : Cbor.WF v) (he : Cbor.enc v = p ++ s) (hs : s ≠ []) :
    parseCbor p = .error (libErr .InvalidCBORData "parse_cbor") := by
  unfold parseCbor; rw [Cbor.loads_prefix v p s h he hs]

end Webauthn
