/-
  Whatever the CBOR decoder returns is a well-formed value (`Cbor.WF`), hence re-encoding and
  decoding it again is the identity: the re-serialisation `parse_authenticator_data` performs on
  the credential public key cannot alter what the key decodes to.
-/
import Proofs.Cbor
namespace Webauthn
namespace Cbor

theorem beNat_lt' (b : Bytes) : beNat b < 256 ^ b.length := by
  unfold beNat
  suffices ∀ (acc : Nat) (k : Nat), acc < 256 ^ k →
      b.foldl (fun acc x => acc * 256 + x.toNat) acc < 256 ^ (k + b.length) from by
    simpa using this 0 0 (by simp)
  induction b with
  | nil => intro acc k h; simpa using h
  | cons x xs ih =>
    intro acc k h
    have hx := x.toNat_lt
    have : acc * 256 + x.toNat < 256 ^ (k + 1) := by
      rw [Nat.pow_succ]; omega
    have := ih _ _ this
    simpa [List.foldl_cons, Nat.add_assoc, Nat.add_comm 1] using this

theorem beNat_take_lt (bs : Bytes) (k : Nat) (hk : k ≤ 8) : beNat (bs.take k) < 2 ^ 64 := by
  have h1 := beNat_lt' (bs.take k)
  have hl : (bs.take k).length ≤ 8 := by simp; omega
  have h2 : 256 ^ (bs.take k).length ≤ 256 ^ 8 := Nat.pow_le_pow_right (by omega) hl
  have h3 : (256 : Nat) ^ 8 = 2 ^ 64 := by decide
  omega

theorem readArg_lt {ai : Nat} {bs : Bytes} {n : Nat} {rest : Bytes} (h : readArg ai bs = .ok (n, rest)) :
    n < 2 ^ 64 := by
  unfold readArg at h
  split at h
  · cases h; omega
  · split at h
    · cases bs with
      | nil => simp at h
      | cons a r => simp at h; have := a.toNat_lt; omega
    · split at h
      · split at h
        · cases h
        · cases h; exact beNat_take_lt bs 2 (by omega)
      · split at h
        · split at h
          · cases h
          · cases h; exact beNat_take_lt bs 4 (by omega)
        · split at h
          · split at h
            · cases h
            · cases h; exact beNat_take_lt bs 8 (by omega)
          · split at h <;> cases h

/-! ### dict insertion keeps the invariants -/

theorem dictInsert_keys (acc : List (Cbor × Cbor)) (k v : Cbor) :
    ∀ p ∈ dictInsert acc k v, p.1 = k ∨ ∃ q ∈ acc, q.1 = p.1 := by
  induction acc with
  | nil => intro p hp; simp [dictInsert] at hp; left; rw [hp]
  | cons a r ih =>
    obtain ⟨k', v'⟩ := a
    intro p hp
    simp only [dictInsert] at hp
    split at hp
    · rcases List.mem_cons.mp hp with rfl | hm
      · right; exact ⟨(k', v'), List.mem_cons_self, rfl⟩
      · right; exact ⟨p, List.mem_cons_of_mem _ hm, rfl⟩
    · rcases List.mem_cons.mp hp with rfl | hm
      · right; exact ⟨(k', v'), List.mem_cons_self, rfl⟩
      · rcases ih p hm with h | ⟨q, hq, h⟩
        · left; exact h
        · right; exact ⟨q, List.mem_cons_of_mem _ hq, h⟩

theorem dictInsert_distinct (acc : List (Cbor × Cbor)) (k v : Cbor) (h : keysDistinct acc = true) :
    keysDistinct (dictInsert acc k v) = true := by
  induction acc with
  | nil => rfl
  | cons a r ih =>
    obtain ⟨k', v'⟩ := a
    simp only [keysDistinct, Bool.and_eq_true] at h
    simp only [dictInsert]
    split
    · simp only [keysDistinct, Bool.and_eq_true]; exact h
    · rename_i hne
      simp only [keysDistinct, Bool.and_eq_true]
      refine ⟨?_, ih h.2⟩
      rw [List.all_eq_true]
      intro p hp
      rcases dictInsert_keys r k v p hp with hk | ⟨q, hq, hk⟩
      · rw [hk]; simpa using hne
      · have := List.all_eq_true.mp h.1 q hq
        rw [← hk]; exact this

theorem dictInsert_wf (acc : List (Cbor × Cbor)) (k v : Cbor) (h : WFPairs acc)
    (hs : isScalarKey k = true) (hk : WF k) (hv : WF v) : WFPairs (dictInsert acc k v) := by
  induction acc with
  | nil => simp only [dictInsert, WFPairs]; exact ⟨hs, hk, hv, trivial⟩
  | cons a r ih =>
    obtain ⟨k', v'⟩ := a
    simp only [WFPairs] at h
    simp only [dictInsert]
    split
    · simp only [WFPairs]; exact ⟨h.1, h.2.1, hv, h.2.2.2⟩
    · simp only [WFPairs]; exact ⟨h.1, h.2.1, h.2.2.1, ih h.2.2.2⟩

theorem dictInsert_length (acc : List (Cbor × Cbor)) (k v : Cbor) :
    (dictInsert acc k v).length ≤ acc.length + 1 := by
  induction acc with
  | nil => simp [dictInsert]
  | cons a r ih =>
    obtain ⟨k', v'⟩ := a
    simp only [dictInsert]
    split <;> simp <;> omega

/-! ### decoder output is well formed -/

def DecWF (fuel : Nat) : Prop :=
  (∀ bs v rest, dec fuel bs = .ok (v, rest) → WF v) ∧
  (∀ n bs xs rest, decList fuel n bs = .ok (xs, rest) → WFList xs ∧ xs.length = n) ∧
  (∀ n bs acc kvs rest, decPairs fuel n bs acc = .ok (kvs, rest) → WFPairs acc → keysDistinct acc = true →
      WFPairs kvs ∧ keysDistinct kvs = true ∧ kvs.length ≤ acc.length + n)

theorem decWF_zero : DecWF 0 := by
  refine ⟨?_, ?_, ?_⟩
  · intro bs v rest h; simp [dec] at h
  · intro n bs xs rest h
    cases n with
    | zero => simp [decList] at h; obtain ⟨rfl, _⟩ := h; exact ⟨trivial, rfl⟩
    | succ n => simp [decList] at h
  · intro n bs acc kvs rest h hw hd
    cases n with
    | zero => simp [decPairs] at h; obtain ⟨rfl, _⟩ := h; exact ⟨hw, hd, by omega⟩
    | succ n => simp [decPairs] at h

theorem decWF_succ (fuel : Nat) (ih : DecWF fuel) : DecWF (fuel + 1) := by
  obtain ⟨ihd, ihl, ihp⟩ := ih
  have hdec : ∀ bs v rest, dec (fuel + 1) bs = .ok (v, rest) → WF v := by
    intro bs v rest h
    cases bs with
    | nil => simp [dec] at h
    | cons b bs =>
      simp only [dec] at h
      split at h
      · -- simple values
        split at h
        · cases h; trivial
        · split at h
          · cases h; trivial
          · split at h
            · cases h; trivial
            · split at h
              · cases h; trivial
              · cases h
      · split at h
        · cases h
        · split at h
          · cases h
          · rename_i n r hra
            have hn := readArg_lt hra
            split at h
            · cases h; exact hn
            · split at h
              · cases h; exact hn
              · split at h
                · split at h
                  · cases h
                  · cases h; simp only [WF, List.length_take]; omega
                · split at h
                  · split at h
                    · cases h
                    · split at h
                      · rename_i hv
                        cases h; simp only [WF, List.length_take]; exact ⟨by omega, hv⟩
                      · cases h
                  · split at h
                    · split at h
                      · cases h
                      · rename_i xs r' hl
                        cases h
                        obtain ⟨hw, hlen⟩ := ihl _ _ _ _ hl
                        simp only [WF]; exact ⟨by omega, hw⟩
                    · split at h
                      · cases h
                      · rename_i kvs r' hp
                        cases h
                        obtain ⟨hw, hd, hlen⟩ := ihp _ _ _ _ _ hp trivial rfl
                        simp only [WF]; exact ⟨by simp at hlen; omega, hd, hw⟩
  refine ⟨hdec, ?_, ?_⟩
  · intro n bs xs rest h
    cases n with
    | zero => simp [decList] at h; obtain ⟨rfl, _⟩ := h; exact ⟨trivial, rfl⟩
    | succ n =>
      simp only [decList] at h
      split at h
      · cases h
      · rename_i x r hx
        split at h
        · cases h
        · rename_i xs' r' hxs
          cases h
          obtain ⟨hw, hlen⟩ := ihl _ _ _ _ hxs
          exact ⟨⟨ihd _ _ _ hx, hw⟩, by simp [hlen]⟩
  · intro n bs acc kvs rest h hw hd
    cases n with
    | zero => simp [decPairs] at h; obtain ⟨rfl, _⟩ := h; exact ⟨hw, hd, by omega⟩
    | succ n =>
      simp only [decPairs] at h
      split at h
      · cases h
      · rename_i k r hk
        split at h
        · cases h
        · rename_i hsc
          split at h
          · cases h
          · rename_i v r' hv
            have hs : isScalarKey k = true := by simpa using hsc
            obtain ⟨a, b, c⟩ := ihp _ _ _ _ _ h (dictInsert_wf acc k v hw hs (ihd _ _ _ hk) (ihd _ _ _ hv))
              (dictInsert_distinct acc k v hd)
            have := dictInsert_length acc k v
            exact ⟨a, b, by omega⟩

theorem decWF : ∀ fuel, DecWF fuel
  | 0 => decWF_zero
  | fuel + 1 => decWF_succ fuel (decWF fuel)

theorem dec_wf {fuel : Nat} {bs : Bytes} {v : Cbor} {rest : Bytes} (h : dec fuel bs = .ok (v, rest)) : WF v :=
  (decWF fuel).1 bs v rest h

theorem loads_wf {bs : Bytes} {v : Cbor} (h : loads bs = .ok v) : WF v := by
  unfold loads at h
  split at h
  · rename_i v' r hd; cases h; exact dec_wf hd
  · cases h

end Cbor

/-- whatever `parse_cbor` returns is a value `encode_cbor` writes canonically -/
theorem parseCbor_wf {bs : Bytes} {v : Cbor} (h : parseCbor bs = .ok v) : Cbor.WF v := by
  unfold parseCbor at h
  split at h
  · rename_i v' hl; cases h; exact Cbor.loads_wf hl
  · cases h
  · cases h

/-- **re-encoding is stable**: decode, re-encode, decode again gives the same value, and re-encoding
that gives the same bytes (the bytes `parse_authenticator_data` returns for the credential public
key are a fixed point) -/
theorem reencode_stable {bs : Bytes} {v : Cbor} (h : parseCbor bs = .ok v) (rest : Bytes) :
    parseCbor (encodeCbor v ++ rest) = .ok v :=
  parseCbor_enc v rest (parseCbor_wf h)

end Webauthn
