/-
  Error-side lemmas: which errors a helper of the attestation-format verifiers can end in.
  `LibOrOom e` = the exception is from the library's hierarchy, or the run left the modelled fragment.
-/
import Proofs.Formats
import Proofs.Cose
namespace Webauthn
open Generated

def LibOrOom (e : Err) : Prop := e.isLib = true ∨ e.isOom = true

def planFine : SigPlan → Bool
  | .verify _ => true
  | .fail e => e.isLib || e.isOom

theorem sigDispatchTable_fine : ∀ p ∈ sigDispatchTable, planFine (planOfDisp p.2) = true := by decide

theorem sigDispatchDefault_fine : ∀ p ∈ sigDispatchDefault, planFine (planOfDisp p.2) = true := by decide

/-- whatever entry of the regenerated dispatch is selected, a refusal is a library exception -/
theorem sigDispatch_fine (kind : String) (alg : Cbor) : planFine (planOfDisp (sigDispatch kind alg)) = true := by
  unfold sigDispatch
  have hd : planFine (planOfDisp ((sigDispatchDefault.lookup kind).getD (.other "no default"))) = true := by
    cases hl : sigDispatchDefault.lookup kind with
    | none => rfl
    | some d => simpa using sigDispatchDefault_fine _ (lookup_mem hl)
  cases ha : alg.asInt? with
  | none => simpa using hd
  | some i =>
    simp only
    cases hl : sigDispatchTable.lookup (kind, i) with
    | none => simpa using hd
    | some d => simpa using sigDispatchTable_fine _ (lookup_mem hl)

theorem sigPlan_fail {k : PubKey} {alg : Cbor} {e : Err} (h : sigPlan k alg = .fail e) : LibOrOom e := by
  have := sigDispatch_fine (pubKeyKind k) alg
  unfold sigPlan at h
  rw [h] at this
  simpa [planFine, LibOrOom] using this

/-- `verify_signature` on a byte-string signature, with a crypto library that answers valid / invalid -/
theorem verifySignatureC_errIn {W : World} {k : PubKey} {alg : Cbor} {sig : Option Cbor} {data : Bytes} {err : Err}
    (herr : LibOrOom err) (hty : ∃ b, sig = some (.bytes b))
    (hsig : ∀ s b d cls, W.sigVerify k s b d ≠ .raised cls) :
    MErrIn LibOrOom W (verifySignatureC k alg sig data err) := by
  intro e he
  unfold verifySignatureC at he
  obtain ⟨b, rfl⟩ := hty
  cases hp : sigPlan k alg with
  | fail e' => rw [hp] at he; simp at he; rw [← he]; exact sigPlan_fail hp
  | verify s =>
    rw [hp] at he
    simp only at he
    rw [runM_sigVerifyM_bind, runM_liftE] at he
    cases hv : W.sigVerify k s b data with
    | valid => rw [hv] at he; simp [sigResult] at he
    | invalid => rw [hv] at he; simp [sigResult] at he; rw [← he]; exact herr
    | raised cls => exact absurd hv (hsig _ _ _ _)

theorem validateChainReg_errIn {W : World} {x5c : List Bytes} {roots : List Root} {site : String} :
    MErrIn LibOrOom W (validateChainReg x5c roots site) := by
  intro e he
  unfold validateChainReg at he
  split at he
  · simp at he
  · split at he
    · simp at he; rw [← he]; exact .inl rfl
    · rw [runM_chainVerifyM_bind, runM_liftE] at he
      unfold chainResult at he
      split at he
      · cases he
      · cases he; exact .inl rfl

theorem mapM_errIn {α β} {S : Err → Prop} {f : α → Except Err β} (hf : ∀ a, ErrIn S (f a)) (l : List α) :
    ErrIn S (l.mapM f) := by
  induction l with
  | nil => intro e he; simp [List.mapM_nil, pure, Except.pure] at he
  | cons x xs ih =>
    rw [List.mapM_cons]
    exact ErrIn_bind (hf x) fun _ _ => ErrIn_bind ih fun _ _ => ErrIn_pure _

theorem mapM_length {α β} {f : α → Except Err β} {l : List α} {r : List β} (h : l.mapM f = .ok r) :
    r.length = l.length := by
  induction l generalizing r with
  | nil => simp [List.mapM_nil, pure, Except.pure] at h; subst h; rfl
  | cons x xs ih =>
    rw [List.mapM_cons, except_bind_ok] at h
    obtain ⟨a, _, h⟩ := h
    rw [except_bind_ok] at h
    obtain ⟨t, ht, h⟩ := h
    have := Except.ok.inj h
    subst this
    simp [ih ht]

theorem x5cList_errIn (v : Option Cbor) : ErrIn LibOrOom (x5cList v) := by
  unfold x5cList
  split
  · refine mapM_errIn (fun a => ?_) _
    intro e he
    split at he
    · cases he
    · cases he; exact .inr rfl
  · intro e he; cases he; exact .inr rfl

/-- a truthy `x5c` that converts is a non-empty list -/
theorem x5cList_truthy {v : Option Cbor} {l : List Bytes} (ht : cborTruthy v = true) (h : x5cList v = .ok l) :
    ∃ leaf rest, l = leaf :: rest := by
  unfold x5cList at h
  split at h
  · rename_i xs
    have hl := mapM_length h
    cases xs with
    | nil => simp [cborTruthy, Cbor.truthy] at ht
    | cons x xs =>
      cases l with
      | nil => simp at hl
      | cons a t => exact ⟨a, t, rfl⟩
  · cases h

theorem loadCert_errIn {W : World} {der : Bytes} {site : String} (h : ∃ c, W.x509Load der = some c) :
    MErrIn LibOrOom W (loadCert der site) := by
  intro e he
  obtain ⟨c, hc⟩ := h
  have : runM W (loadCert der site) = .ok c := loadCert_ok.mpr hc
  rw [this] at he; cases he

theorem loadCoseKey_errIn {W : World} {k : CoseKey} (h : ∃ pk, coseToPubKey k = .ok pk ∧ W.keyLoad pk = true) :
    MErrIn LibOrOom W (loadCoseKey k) := by
  intro e he
  obtain ⟨pk, h⟩ := h
  have : runM W (loadCoseKey k) = .ok pk := loadCoseKey_ok.mpr h
  rw [this] at he; cases he

theorem needBytes_errIn {b : Bytes} {site : String} : ErrIn LibOrOom (needBytes (.bytes b) site) := by
  intro e he; cases he

theorem attToBeSigned_errIn {b cdHash : Bytes} {site : String} : ErrIn LibOrOom (attToBeSigned (.bytes b) cdHash site) := by
  intro e he; simp [attToBeSigned, needBytes, bind, Except.bind, pure, Except.pure] at he

theorem cborNe_errIn (a b : Cbor) : ErrIn LibOrOom (cborNe a b) := by
  intro e he
  unfold cborNe at he
  split at he
  · cases he
  · cases he; exact .inr rfl

theorem hashByAlgM_errIn {W : World} {data : Bytes} {alg : Option Cbor} : MErrIn LibOrOom W (hashByAlgM data alg) := by
  unfold hashByAlgM
  refine MErrIn_bind (MErrIn_liftE ?_) fun _ _ => MErrIn_ask _
  intro e he
  unfold hashAlgByCose at he
  simp only at he
  generalize hashOfName _ = o at he
  cases o with
  | some h => cases he
  | none => cases he; exact .inr rfl

end Webauthn
