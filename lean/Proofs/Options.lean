/-
  Lemmas for the options JSON round trip.
-/
import Model.Options
import Proofs.Monad
import Proofs.Base64
namespace Webauthn
open Generated

theorem lookup_cons (k' : String) (v : JVal) (l : List (String × JVal)) (k : String) :
    JVal.lookup ((k', v) :: l) k = if k' == k then some v else JVal.lookup l k := by
  unfold JVal.lookup
  simp only [List.find?_cons]
  cases h : (k' == k) <;> simp

theorem lookup_nil (k : String) : JVal.lookup [] k = none := rfl

theorem lookup_append (l1 l2 : List (String × JVal)) (k : String) :
    JVal.lookup (l1 ++ l2) k = match JVal.lookup l1 k with
      | some v => some v
      | none => JVal.lookup l2 k := by
  induction l1 with
  | nil => rfl
  | cons p l ih =>
    obtain ⟨k', v⟩ := p
    rw [List.cons_append, lookup_cons, lookup_cons]
    cases h : (k' == k) <;> simp [ih]

theorem lookup_optMember (k' : String) (v : Option JVal) (k : String) :
    JVal.lookup (optMember k' v) k = if k' == k then v else none := by
  unfold optMember
  cases v with
  | none => simp [lookup_nil]
  | some x => simp [lookup_cons, lookup_nil]

theorem decodeStr_encodeStr (b : Bytes) : Base64.decodeStr (Base64.encodeStr b) = .ok b := by
  unfold Base64.decodeStr Base64.encodeStr
  rw [String.toList_ofList]
  simpa using Base64.decode_encode b 0

theorem decodeWrapped_encodeStr (b : Bytes) (e : Err) : decodeWrapped (Base64.encodeStr b) e = .ok b := by
  unfold decodeWrapped; rw [decodeStr_encodeStr]

/-- all strings are values of the enum class -/
def AllIn (cls : String) (l : List String) : Prop := ∀ s ∈ l, (enumValues cls).contains s = true

theorem enumOf_str {cls s site : String} (h : (enumValues cls).contains s = true) :
    enumOf cls (.str s) site = .ok s := by
  unfold enumOf; simp only [h, ↓reduceIte]

theorem mapM_enumOf {cls site : String} (l : List String) (h : AllIn cls l) :
    (l.map jstr).mapM (fun t => enumOf cls t site) = .ok l := by
  induction l with
  | nil => rfl
  | cons s ss ih =>
    rw [List.map_cons, List.mapM_cons]
    have hs : enumOf cls (jstr s) site = .ok s := enumOf_str (h s List.mem_cons_self)
    rw [hs, ih (fun t ht => h t (List.mem_cons_of_mem _ ht))]
    rfl

/-- documented default for a descriptor: an empty transport list reads back as absent -/
def normDescriptor (d : Descriptor) : Descriptor :=
  { d with transports := match d.transports with
      | some [] => none
      | t => t }

def DescriptorWF (d : Descriptor) : Prop :=
  match d.transports with
  | some ts => AllIn "AuthenticatorTransport" ts
  | none => True

theorem parseDescriptor_toJson (d : Descriptor) (h : DescriptorWF d) :
    parseDescriptor (descriptorToJson d) = .ok (normDescriptor d) := by
  obtain ⟨id, tr⟩ := d
  unfold descriptorToJson parseDescriptor
  simp only
  cases tr with
  | none =>
    simp [getStr, lookup_cons, lookup_nil, jb64, jstr, decodeRaw, decodeStr_encodeStr, normDescriptor, bind, Except.bind,
      pure, Except.pure]
  | some ts =>
    cases ts with
    | nil =>
      simp [getStr, lookup_cons, lookup_nil, jb64, jstr, decodeRaw, decodeStr_encodeStr, normDescriptor, bind, Except.bind,
        pure, Except.pure]
    | cons t ts =>
      have hm := mapM_enumOf (cls := "AuthenticatorTransport") (site := "options.cred.transports" ++ ".value") (t :: ts) h
      simp only [List.isEmpty_cons, Bool.false_eq_true, ↓reduceIte, List.cons_append, List.nil_append]
      simp only [getStr, lookup_cons, lookup_nil, jb64,
        show ("id" == "id") = true from by decide, show ("id" == "transports") = false from by decide,
        show ("type" == "transports") = false from by decide, show ("transports" == "transports") = true from by decide,
        ↓reduceIte, Bool.false_eq_true, decodeRaw, decodeStr_encodeStr, parseTransports]
      simp only [bind, Except.bind, pure, Except.pure]
      rw [decodeStr_encodeStr, hm]
      rfl

theorem mapM_parseDescriptor (l : List Descriptor) (h : ∀ d ∈ l, DescriptorWF d) :
    (l.map descriptorToJson).mapM parseDescriptor = .ok (l.map normDescriptor) := by
  induction l with
  | nil => rfl
  | cons d ds ih =>
    rw [List.map_cons, List.mapM_cons, parseDescriptor_toJson d (h d List.mem_cons_self),
      ih (fun x hx => h x (List.mem_cons_of_mem _ hx))]
    rfl

end Webauthn
