import Model.VerifyReg
import Proofs.Monad
import Proofs.AuthData
namespace Webauthn
open Generated

/-- An accepted attestation-object parse: the bytes are a CBOR map whose `fmt`, `authData` and
`attStmt` members are what the record holds, and the authenticator data parses. -/
theorem parseAttObj_ok {val : Bytes} {ao : AttObj} (h : parseAttObj val = .ok ao) :
    ∃ kvs adBytes, parseCbor val = .ok (.map kvs) ∧
      Cbor.lookupText kvs "fmt" = some ao.fmt ∧
      Cbor.lookupText kvs "authData" = some ao.authDataRaw ∧
      authDataBytesOf ao.authDataRaw = .ok adBytes ∧
      parseAuthData adBytes = .ok ao.authData ∧
      ao.attStmtRaw = Cbor.lookupText kvs "attStmt" ∧
      (match Cbor.lookupText kvs "attStmt" with
       | some s => parseAttStmt s = .ok ao.attStmt
       | none => ao.attStmt = AttStmt.empty) := by
  unfold parseAttObj at h
  rw [except_bind_ok] at h; obtain ⟨v, hv, h⟩ := h
  cases v with
  | map kvs =>
    simp only at h
    unfold parseAttObjMap at h
    rw [except_bind_ok] at h; obtain ⟨fmt, hfmt, h⟩ := h
    rw [except_bind_ok] at h; obtain ⟨adRaw, hraw, h⟩ := h
    rw [except_bind_ok] at h; obtain ⟨adBytes, hb, h⟩ := h
    rw [except_bind_ok] at h; obtain ⟨ad, had, h⟩ := h
    rw [except_bind_ok] at h; obtain ⟨stmt, hstmt, h⟩ := h
    have : ao = _ := (Except.ok.inj h).symm
    subst this
    refine ⟨kvs, adBytes, hv, someOr_ok.mp hfmt, someOr_ok.mp hraw, hb, had, rfl, ?_⟩
    unfold attStmtOf at hstmt
    cases hl : Cbor.lookupText kvs "attStmt" with
    | none => rw [hl] at hstmt; cases hstmt; rfl
    | some f => rw [hl] at hstmt; exact hstmt
  | uint _ => cases h
  | nint _ => cases h
  | bytes _ => cases h
  | text _ => cases h
  | arr _ => cases h
  | bool _ => cases h
  | null => cases h
  | undefined => cases h

/-- The format dispatch accepts only the seven known formats, and `none` only without any
recognised statement member. -/
theorem verifyFormat_ok {W : World} {fmt : Cbor} {ao : AttObj} {att : AttestedCred} {cdj : Bytes}
    {roots : List Root} (h : runM W (verifyFormat fmt ao att cdj roots) = .ok ()) :
    ∃ f, fmtText fmt = some f ∧ f ∈ knownFormats ∧
      (f = "none" → ao.attStmt.anySet = false ∧ cborTruthy ao.attStmtRaw = false) := by
  unfold verifyFormat at h
  split at h
  · rename_i hf
    refine ⟨"none", hf, by decide, fun _ => ?_⟩
    unfold reject at h
    cases hs : (ao.attStmt.anySet || cborTruthy ao.attStmtRaw) with
    | false => simpa using hs
    | true => rw [hs] at h; simp at h
  · rename_i hf; exact ⟨_, hf, by decide, fun hn => absurd hn (by decide)⟩
  · rename_i hf; exact ⟨_, hf, by decide, fun hn => absurd hn (by decide)⟩
  · rename_i hf; exact ⟨_, hf, by decide, fun hn => absurd hn (by decide)⟩
  · rename_i hf; exact ⟨_, hf, by decide, fun hn => absurd hn (by decide)⟩
  · rename_i hf; exact ⟨_, hf, by decide, fun hn => absurd hn (by decide)⟩
  · rename_i hf; exact ⟨_, hf, by decide, fun hn => absurd hn (by decide)⟩
  · simp at h

end Webauthn
