/-
  Acceptance normal form of `verifyAuth`: an accepted run is exactly one in which every guard is
  passed and the record is assembled from the parsed authenticator data.  All property theorems
  about authentication are corollaries.
-/
import Model.VerifyAuth
import Proofs.Monad
namespace Webauthn
open Generated

/-- `verifySignature` accepts iff dispatch selects a scheme and the library says `valid` -/
theorem verifySignature_ok {W : World} {pk : PubKey} {alg : Cbor} {sig data : Bytes} {err : Err} :
    runM W (verifySignature pk alg sig data err) = .ok () ↔
      ∃ s, sigPlan pk alg = .verify s ∧ W.sigVerify pk s sig data = .valid := by
  unfold verifySignature
  cases h : sigPlan pk alg with
  | fail e => simp
  | verify s =>
    simp only [SigPlan.verify.injEq, exists_eq_left']
    rw [runM_sigVerifyM_bind]
    cases h2 : W.sigVerify pk s sig data with
    | valid => simp
    | invalid => simp
    | raised c => rcases sigSeen_raised_cases s c with h | h <;> simp [h]

theorem loadCoseKey_ok {W : World} {k : CoseKey} {pk : PubKey} :
    runM W (loadCoseKey k) = .ok pk ↔ coseToPubKey k = .ok pk ∧ W.keyLoad pk = true := by
  unfold loadCoseKey
  rw [runM_liftE_ok]
  constructor
  · rintro ⟨a, ha, h⟩
    rw [runM_keyLoadM_bind, runM_reject_ok] at h
    obtain ⟨h1, h2⟩ := h
    have : a = pk := by simpa using h2
    subst this
    exact ⟨ha, by simpa using h1⟩
  · rintro ⟨h1, h2⟩
    refine ⟨pk, h1, ?_⟩
    rw [runM_keyLoadM_bind, runM_reject_ok]
    simp [h2]

theorem parseClientData_ok {W : World} {b : Bytes} {cd : ClientData} :
    runM W (parseClientData b) = .ok cd ↔
      ∃ j, W.jsonLoadsBytes b = .ok j ∧ clientDataOfJVal j = .ok cd := by
  unfold parseClientData
  rw [runM_jsonLoadsBytesM_bind]
  cases h : W.jsonLoadsBytes b with
  | decodeError => simp
  | otherError c => by_cases hc : c.startsWith "oom:" <;> by_cases hv : isValueErrorClass c <;> simp [hc, hv]
  | ok j =>
    simp only [runM_liftE]
    constructor
    · intro h2; exact ⟨j, rfl, h2⟩
    · rintro ⟨j', hj, h2⟩; cases hj; exact h2

/-- Everything that must hold, and nothing else, for `verifyAuth` to return `r`. -/
structure AuthAccepts (W : World) (c : AuthCred) (e : AuthExpect) (r : VerifiedAuth) where
  cd : ClientData
  ad : AuthData
  key : CoseKey
  pk : PubKey
  scheme : Scheme
  bf : String × Bool
  idOk : Base64.encodeStr c.rawId = c.id
  typeOk : c.type = "public-key"
  cdOk : runM W (parseClientData c.clientDataJSON) = .ok cd
  cdType : jvalIsStr cd.type "webauthn.get" = true
  challengeOk : e.challenge = cd.challenge
  originOk' : originOk e.origin cd.origin = true
  tbOk : tokenBindingRejects cd.tokenBinding tokenBindingStatusesAuth = false
  adOk : parseAuthData c.authenticatorData = .ok ad
  rpOk : ad.rpIdHash = W.sha256 (utf8 e.rpId)
  upOk : authUpRejects e.requireUV ad.flags.up ad.flags.uv = false
  uvOk : authUvRejects e.requireUV ad.flags.up ad.flags.uv = false
  ctrOk : signCountRejects ad.signCount e.currentSignCount = false
  keyOk : decodeCose e.publicKey = .ok key
  pkOk : coseToPubKey key = .ok pk
  loadOk : W.keyLoad pk = true
  planOk : sigPlan pk key.alg = .verify scheme
  sigOk : W.sigVerify pk scheme c.signature
            (c.authenticatorData ++ W.sha256 c.clientDataJSON) = .valid
  bfOk : parseBackupFlags ad.flags = .ok bf
  record : r = { credentialId := c.rawId, newSignCount := ad.signCount, deviceType := bf.1,
                 backedUp := bf.2, userVerified := ad.flags.uv }

theorem verifyAuth_ok_iff {W : World} {c : AuthCred} {e : AuthExpect} {r : VerifiedAuth} :
    runM W (verifyAuth c e) = .ok r ↔ Nonempty (AuthAccepts W c e r) := by
  constructor
  · intro h
    unfold verifyAuth at h
    rw [runM_reject_ok] at h; obtain ⟨h1, h⟩ := h
    rw [runM_reject_ok] at h; obtain ⟨h2, h⟩ := h
    rw [runM_bind_ok] at h; obtain ⟨cd, hcd, h⟩ := h
    rw [runM_reject_ok] at h; obtain ⟨h3, h⟩ := h
    rw [runM_reject_ok] at h; obtain ⟨h4, h⟩ := h
    rw [runM_reject_ok] at h; obtain ⟨h5, h⟩ := h
    rw [runM_reject_ok] at h; obtain ⟨h6, h⟩ := h
    rw [runM_liftE_ok] at h; obtain ⟨ad, had, h⟩ := h
    rw [runM_sha256M_bind] at h
    rw [runM_reject_ok] at h; obtain ⟨h7, h⟩ := h
    rw [runM_reject_ok] at h; obtain ⟨h8, h⟩ := h
    rw [runM_reject_ok] at h; obtain ⟨h9, h⟩ := h
    rw [runM_reject_ok] at h; obtain ⟨h10, h⟩ := h
    rw [runM_sha256M_bind] at h
    rw [runM_liftE_ok] at h; obtain ⟨key, hkey, h⟩ := h
    rw [runM_bind_ok] at h; obtain ⟨pk, hpk, h⟩ := h
    rw [runM_bind_ok] at h; obtain ⟨u, hsig, h⟩ := h
    rw [runM_liftE_ok] at h; obtain ⟨bf, hbf, h⟩ := h
    rw [loadCoseKey_ok] at hpk
    cases u
    rw [verifySignature_ok] at hsig
    obtain ⟨s, hplan, hvalid⟩ := hsig
    exact ⟨{ cd, ad, key, pk, scheme := s, bf,
             idOk := by simpa using h1, typeOk := by simpa using h2, cdOk := hcd,
             cdType := by simpa using h3, challengeOk := by simpa using h4,
             originOk' := by simpa using h5, tbOk := h6, adOk := had,
             rpOk := by simpa using h7, upOk := h8, uvOk := h9, ctrOk := h10,
             keyOk := hkey, pkOk := hpk.1, loadOk := hpk.2, planOk := hplan, sigOk := hvalid,
             bfOk := hbf, record := by simpa using h.symm }⟩
  · rintro ⟨a⟩
    unfold verifyAuth
    rw [runM_reject_ok]; refine ⟨by simp [a.idOk], ?_⟩
    rw [runM_reject_ok]; refine ⟨by simp [a.typeOk], ?_⟩
    rw [runM_bind_ok]; refine ⟨a.cd, a.cdOk, ?_⟩
    rw [runM_reject_ok]; refine ⟨by simp [a.cdType], ?_⟩
    rw [runM_reject_ok]; refine ⟨by simp [a.challengeOk], ?_⟩
    rw [runM_reject_ok]; refine ⟨by simp [a.originOk'], ?_⟩
    rw [runM_reject_ok]; refine ⟨a.tbOk, ?_⟩
    rw [runM_liftE_ok]; refine ⟨a.ad, a.adOk, ?_⟩
    rw [runM_sha256M_bind]
    rw [runM_reject_ok]; refine ⟨by simp [a.rpOk], ?_⟩
    rw [runM_reject_ok]; refine ⟨a.upOk, ?_⟩
    rw [runM_reject_ok]; refine ⟨a.uvOk, ?_⟩
    rw [runM_reject_ok]; refine ⟨a.ctrOk, ?_⟩
    rw [runM_sha256M_bind]
    rw [runM_liftE_ok]; refine ⟨a.key, a.keyOk, ?_⟩
    rw [runM_bind_ok]; refine ⟨a.pk, loadCoseKey_ok.mpr ⟨a.pkOk, a.loadOk⟩, ?_⟩
    rw [runM_bind_ok]; refine ⟨(), verifySignature_ok.mpr ⟨a.scheme, a.planOk, a.sigOk⟩, ?_⟩
    rw [runM_liftE_ok]; refine ⟨a.bf, a.bfOk, ?_⟩
    simp [a.record]

end Webauthn
