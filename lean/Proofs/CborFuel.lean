/-
  Fuel facts about the CBOR decoder: it consumes at least one byte per item (D), fuel
  `2·|bs|+1` always suffices (A), and more fuel never changes a result that was not a fuel
  failure (B).  Together: the `oom "fuel"` outcome of `Cbor.loads` is unreachable.
-/
import Proofs.Cbor
namespace Webauthn
namespace Cbor

def fuelErr : DecErr := .oom "fuel"

theorem readArg_rest_le {ai : Nat} {bs : Bytes} {n : Nat} {rest : Bytes} (h : readArg ai bs = .ok (n, rest)) :
    rest.length ≤ bs.length := by
  unfold readArg at h
  split at h
  · cases h; omega
  · split at h
    · cases bs with
      | nil => simp at h
      | cons a r => simp at h; obtain ⟨_, rfl⟩ := h; simp
    · split at h
      · split at h
        · cases h
        · cases h; simp
      · split at h
        · split at h
          · cases h
          · cases h; simp
        · split at h
          · split at h
            · cases h
            · cases h; simp
          · split at h <;> cases h

/-! ### (D) consumption -/

def Consumes (fuel : Nat) : Prop :=
  (∀ bs v rest, dec fuel bs = .ok (v, rest) → rest.length < bs.length) ∧
  (∀ n bs xs rest, decList fuel n bs = .ok (xs, rest) → rest.length ≤ bs.length) ∧
  (∀ n bs acc kvs rest, decPairs fuel n bs acc = .ok (kvs, rest) → rest.length ≤ bs.length)

theorem consumes_zero : Consumes 0 := by
  refine ⟨?_, ?_, ?_⟩
  · intro bs v rest h; simp [dec] at h
  · intro n bs xs rest h
    cases n with
    | zero => simp [decList] at h; obtain ⟨_, rfl⟩ := h; omega
    | succ n => simp [decList] at h
  · intro n bs acc kvs rest h
    cases n with
    | zero => simp [decPairs] at h; obtain ⟨_, rfl⟩ := h; omega
    | succ n => simp [decPairs] at h

theorem consumes_succ (fuel : Nat) (ih : Consumes fuel) : Consumes (fuel + 1) := by
  obtain ⟨ihd, ihl, ihp⟩ := ih
  refine ⟨?_, ?_, ?_⟩
  · intro bs v rest h
    cases bs with
    | nil => simp [dec] at h
    | cons b bs =>
      simp only [dec] at h
      simp only [List.length_cons]
      split at h
      · split at h
        · cases h; omega
        · split at h
          · cases h; omega
          · split at h
            · cases h; omega
            · split at h
              · cases h; omega
              · cases h
      · split at h
        · cases h
        · split at h
          · cases h
          · rename_i n r hra
            have hr := readArg_rest_le hra
            split at h
            · cases h; omega
            · split at h
              · cases h; omega
              · split at h
                · split at h
                  · cases h
                  · cases h; simp only [List.length_drop]; omega
                · split at h
                  · split at h
                    · cases h
                    · split at h
                      · cases h; simp only [List.length_drop]; omega
                      · cases h
                  · split at h
                    · split at h
                      · cases h
                      · rename_i xs r' hl
                        cases h
                        have := ihl _ _ _ _ hl
                        omega
                    · split at h
                      · cases h
                      · rename_i kvs r' hp
                        cases h
                        have := ihp _ _ _ _ _ hp
                        omega
  · intro n bs xs rest h
    cases n with
    | zero => simp [decList] at h; obtain ⟨_, rfl⟩ := h; omega
    | succ n =>
      simp only [decList] at h
      split at h
      · cases h
      · rename_i x r hx
        split at h
        · cases h
        · rename_i xs' r' hxs
          cases h
          have := ihd _ _ _ hx
          have := ihl _ _ _ _ hxs
          omega
  · intro n bs acc kvs rest h
    cases n with
    | zero => simp [decPairs] at h; obtain ⟨_, rfl⟩ := h; omega
    | succ n =>
      simp only [decPairs] at h
      split at h
      · cases h
      · rename_i k r hk
        split at h
        · cases h
        · split at h
          · cases h
          · rename_i v r' hv
            have := ihd _ _ _ hk
            have := ihd _ _ _ hv
            have := ihp _ _ _ _ _ h
            omega

theorem consumes : ∀ fuel, Consumes fuel
  | 0 => consumes_zero
  | fuel + 1 => consumes_succ fuel (consumes fuel)

/-! ### (A) fuel `2·|bs|+1` suffices -/

theorem readArg_ne_fuel (ai : Nat) (bs : Bytes) : readArg ai bs ≠ .error fuelErr := by
  unfold readArg fuelErr
  intro h
  split at h
  · cases h
  · split at h
    · cases bs <;> simp at h
    · split at h
      · split at h <;> cases h
      · split at h
        · split at h <;> cases h
        · split at h
          · split at h <;> cases h
          · split at h
            · simp at h
            · cases h

def Enough (fuel : Nat) : Prop :=
  (∀ bs, 2 * bs.length + 1 ≤ fuel → dec fuel bs ≠ .error fuelErr) ∧
  (∀ n bs, 2 * bs.length + 2 ≤ fuel → decList fuel n bs ≠ .error fuelErr) ∧
  (∀ n bs acc, 2 * bs.length + 2 ≤ fuel → decPairs fuel n bs acc ≠ .error fuelErr)

theorem enough_zero : Enough 0 := by
  refine ⟨?_, ?_, ?_⟩
  · intro bs h; omega
  · intro n bs h; omega
  · intro n bs acc h; omega

theorem enough_succ (fuel : Nat) (ih : Enough fuel) : Enough (fuel + 1) := by
  obtain ⟨ihd, ihl, ihp⟩ := ih
  obtain ⟨cd, cl, cp⟩ := consumes fuel
  refine ⟨?_, ?_, ?_⟩
  · intro bs hb hc
    cases bs with
    | nil => simp [dec, fuelErr] at hc
    | cons b bs =>
      simp only [List.length_cons] at hb
      simp only [dec] at hc
      split at hc
      · split at hc
        · cases hc
        · split at hc
          · cases hc
          · split at hc
            · cases hc
            · split at hc
              · cases hc
              · simp [fuelErr] at hc
      · split at hc
        · simp [fuelErr] at hc
        · split at hc
          · rename_i e hra
            cases hc
            exact readArg_ne_fuel _ _ hra
          · rename_i n r hra
            have hr := readArg_rest_le hra
            split at hc
            · cases hc
            · split at hc
              · cases hc
              · split at hc
                · split at hc <;> cases hc
                · split at hc
                  · split at hc
                    · cases hc
                    · split at hc <;> cases hc
                  · split at hc
                    · split at hc
                      · rename_i e hl
                        cases hc
                        exact ihl _ _ (by omega) hl
                      · cases hc
                    · split at hc
                      · rename_i e hp
                        cases hc
                        exact ihp _ _ _ (by omega) hp
                      · cases hc
  · intro n bs hb hc
    cases n with
    | zero => simp [decList] at hc
    | succ n =>
      simp only [decList] at hc
      split at hc
      · rename_i e hx
        cases hc
        exact ihd _ (by omega) hx
      · rename_i x r hx
        have := cd _ _ _ hx
        split at hc
        · rename_i e hxs
          cases hc
          exact ihl _ _ (by omega) hxs
        · cases hc
  · intro n bs acc hb hc
    cases n with
    | zero => simp [decPairs] at hc
    | succ n =>
      simp only [decPairs] at hc
      split at hc
      · rename_i e hk
        cases hc
        exact ihd _ (by omega) hk
      · rename_i k r hk
        have := cd _ _ _ hk
        split at hc
        · simp [fuelErr] at hc
        · split at hc
          · rename_i e hv
            cases hc
            exact ihd _ (by omega) hv
          · rename_i v r' hv
            have := cd _ _ _ hv
            exact ihp _ _ _ (by omega) hc

theorem enough : ∀ fuel, Enough fuel
  | 0 => enough_zero
  | fuel + 1 => enough_succ fuel (enough fuel)

/-- `cbor2.loads` as modelled never runs out of fuel: the `oom "fuel"` outcome is unreachable -/
theorem loads_ne_fuel (bs : Bytes) : loads bs ≠ .error fuelErr := by
  unfold loads
  intro h
  split at h
  · cases h
  · rename_i e hd
    cases h
    exact (enough _).1 bs (by omega) hd

/-! ### (B) more fuel never changes a result that was not a fuel failure -/

def Mono (fuel : Nat) : Prop :=
  (∀ bs, dec fuel bs ≠ .error fuelErr → dec (fuel + 1) bs = dec fuel bs) ∧
  (∀ n bs, decList fuel n bs ≠ .error fuelErr → decList (fuel + 1) n bs = decList fuel n bs) ∧
  (∀ n bs acc, decPairs fuel n bs acc ≠ .error fuelErr → decPairs (fuel + 1) n bs acc = decPairs fuel n bs acc)

theorem mono_zero : Mono 0 := by
  refine ⟨?_, ?_, ?_⟩
  · intro bs h; exact absurd (by simp [dec, fuelErr]) h
  · intro n bs h
    cases n with
    | zero => simp [decList]
    | succ n => exact absurd (by simp [decList, fuelErr]) h
  · intro n bs acc h
    cases n with
    | zero => simp [decPairs]
    | succ n => exact absurd (by simp [decPairs, fuelErr]) h

theorem mono_succ (fuel : Nat) (ih : Mono fuel) : Mono (fuel + 1) := by
  obtain ⟨ihd, ihl, ihp⟩ := ih
  refine ⟨?_, ?_, ?_⟩
  · intro bs hne
    cases bs with
    | nil => simp [dec]
    | cons b bs =>
      by_cases h7 : b.toNat / 32 = 7
      · simp only [dec, h7, ↓reduceIte]
      · by_cases h6 : b.toNat / 32 = 6
        · simp only [dec, h7, h6, ↓reduceIte]
        · cases hra : readArg (b.toNat % 32) bs with
          | error e => simp only [dec, h7, h6, hra, ↓reduceIte]
          | ok p =>
            obtain ⟨n, rest⟩ := p
            by_cases h0 : b.toNat / 32 = 0
            · simp only [dec, h7, h6, hra, h0, ↓reduceIte]
            · by_cases h1 : b.toNat / 32 = 1
              · simp only [dec, h7, h6, hra, h0, h1, ↓reduceIte]
              · by_cases h2 : b.toNat / 32 = 2
                · simp only [dec, h7, h6, hra, h0, h1, h2, ↓reduceIte]
                · by_cases h3 : b.toNat / 32 = 3
                  · simp only [dec, h7, h6, hra, h0, h1, h2, h3, ↓reduceIte]
                  · by_cases h4 : b.toNat / 32 = 4
                    · simp only [dec, h7, h6, hra, h0, h1, h2, h3, h4, ↓reduceIte] at hne ⊢
                      have : decList fuel n rest ≠ .error fuelErr := by
                        intro hh; rw [hh] at hne; exact hne rfl
                      rw [ihl _ _ this]
                    · simp only [dec, h7, h6, hra, h0, h1, h2, h3, h4, ↓reduceIte] at hne ⊢
                      have : decPairs fuel n rest [] ≠ .error fuelErr := by
                        intro hh; rw [hh] at hne; exact hne rfl
                      rw [ihp _ _ _ this]
  · intro n bs hne
    cases n with
    | zero => simp [decList]
    | succ n =>
      simp only [decList] at hne ⊢
      have h1 : dec fuel bs ≠ .error fuelErr := by
        intro hh; rw [hh] at hne; exact hne rfl
      rw [ihd _ h1]
      cases hx : dec fuel bs with
      | error e => rfl
      | ok p =>
        obtain ⟨x, r⟩ := p
        rw [hx] at hne
        simp only at hne ⊢
        have h2 : decList fuel n r ≠ .error fuelErr := by
          intro hh; rw [hh] at hne; exact hne rfl
        rw [ihl _ _ h2]
  · intro n bs acc hne
    cases n with
    | zero => simp [decPairs]
    | succ n =>
      simp only [decPairs] at hne ⊢
      have h1 : dec fuel bs ≠ .error fuelErr := by
        intro hh; rw [hh] at hne; exact hne rfl
      rw [ihd _ h1]
      cases hk : dec fuel bs with
      | error e => rfl
      | ok p =>
        obtain ⟨k, r⟩ := p
        rw [hk] at hne
        simp only at hne ⊢
        by_cases hs : (!isScalarKey k) = true
        · simp only [hs, ↓reduceIte]
        · simp only [hs, Bool.false_eq_true, ↓reduceIte] at hne ⊢
          have h2 : dec fuel r ≠ .error fuelErr := by
            intro hh; rw [hh] at hne; exact hne rfl
          rw [ihd _ h2]
          cases hv : dec fuel r with
          | error e => rfl
          | ok q =>
            obtain ⟨v, r'⟩ := q
            rw [hv] at hne
            simp only at hne ⊢
            exact ihp _ _ _ hne

theorem mono : ∀ fuel, Mono fuel
  | 0 => mono_zero
  | fuel + 1 => mono_succ fuel (mono fuel)

theorem dec_mono {fuel : Nat} {bs : Bytes} (h : dec fuel bs ≠ .error fuelErr) (k : Nat) :
    dec (fuel + k) bs = dec fuel bs := by
  induction k with
  | zero => rfl
  | succ k ih =>
    have : dec (fuel + k) bs ≠ .error fuelErr := by rw [ih]; exact h
    rw [← Nat.add_assoc, (mono (fuel + k)).1 bs this, ih]

end Cbor
end Webauthn
