/- Decomposition lemmas for accepted runs of `M` computations. -/
import Model.Prog
namespace Webauthn

theorem runM_bind_ok {α β} {W : World} {x : M α} {f : α → M β} {r : β} :
    runM W (x >>= f) = .ok r ↔ ∃ a, runM W x = .ok a ∧ runM W (f a) = .ok r := by
  rw [runM_bind]
  cases h : runM W x with
  | error e => simp [bind, Except.bind]
  | ok a => simp [bind, Except.bind]

theorem runM_reject_ok {β} {W : World} {c : Bool} {e : Err} {f : Unit → M β} {r : β} :
    runM W (reject c e >>= f) = .ok r ↔ c = false ∧ runM W (f ()) = .ok r := by
  rw [runM_reject_bind]; cases c <;> simp

theorem runM_liftE_ok {α β} {W : World} {x : Except Err α} {f : α → M β} {r : β} :
    runM W (liftE x >>= f) = .ok r ↔ ∃ a, x = .ok a ∧ runM W (f a) = .ok r := by
  rw [runM_liftE_bind]
  cases x with
  | error e => simp [bind, Except.bind]
  | ok a => simp [bind, Except.bind]

theorem except_bind_ok {ε α β} {x : Except ε α} {f : α → Except ε β} {r : β} :
    (x >>= f) = .ok r ↔ ∃ a, x = .ok a ∧ f a = .ok r := by
  cases x with
  | error e => simp [bind, Except.bind]
  | ok a => simp [bind, Except.bind]

theorem rejectE_ok {β} {c : Bool} {e : Err} {f : Unit → Except Err β} {r : β} :
    (rejectE c e >>= f) = .ok r ↔ c = false ∧ f () = .ok r := by
  rw [rejectE_bind]; cases c <;> simp

theorem rejectE_eq_ok {c : Bool} {e : Err} {u : Unit} : rejectE c e = .ok u ↔ c = false := by
  unfold rejectE; cases c <;> simp

/-- errors of a bind come from one of the two parts -/
theorem runM_bind_error {α β} {W : World} {x : M α} {f : α → M β} {e : Err} :
    runM W (x >>= f) = .error e ↔
      runM W x = .error e ∨ ∃ a, runM W x = .ok a ∧ runM W (f a) = .error e := by
  rw [runM_bind]
  cases h : runM W x with
  | error e' => simp [bind, Except.bind]
  | ok a => simp [bind, Except.bind]

end Webauthn
