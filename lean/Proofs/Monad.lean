/- Decomposition lemmas for accepted runs of `M` computations. -/
import Model.Prog
namespace Webauthn

theorem runM_bind_ok {α β} {W : World} {x : M α} {f : α → M β} {r : β} :
    runM W (x >>= f) = .ok r ↔ ∃ a, runM W x = .ok a ∧ runM W (f a) = .ok r := by
  rw [runM_bind]
  cases h : runM W x with
  | error e => simp [bind, Except.bind]
  | ok a => simp [bind, Except.bind]

theorem runM_reject_ok {β} {W : World} {c : Bool} {e : Err} {f : Unit → M β} {r : β} :
    runM W (reject c e >>= f) = .ok r ↔ c = false ∧ runM W (f ()) = .ok r := by
  rw [runM_reject_bind]; cases c <;> simp

theorem runM_liftE_ok {α β} {W : World} {x : Except Err α} {f : α → M β} {r : β} :
    runM W (liftE x >>= f) = .ok r ↔ ∃ a, x = .ok a ∧ runM W (f a) = .ok r := by
  rw [runM_liftE_bind]
  cases x with
  | error e => simp [bind, Except.bind]
  | ok a => simp [bind, Except.bind]

theorem except_bind_ok {ε α β} {x : Except ε α} {f : α → Except ε β} {r : β} :
    (x >>= f) = .ok r ↔ ∃ a, x = .ok a ∧ f a = .ok r := by
  cases x with
  | error e => simp [bind, Except.bind]
  | ok a => simp [bind, Except.bind]

theorem rejectE_ok {β} {c : Bool} {e : Err} {f : Unit → Except Err β} {r : β} :
    (rejectE c e >>= f) = .ok r ↔ c = false ∧ f () = .ok r := by
  rw [rejectE_bind]; cases c <;> simp

theorem rejectE_eq_ok {c : Bool} {e : Err} {u : Unit} : rejectE c e = .ok u ↔ c = false := by
  unfold rejectE; cases c <;> simp

/-- errors of a bind come from one of the two parts -/
theorem runM_bind_error {α β} {W : World} {x : M α} {f : α → M β} {e : Err} :
    runM W (x >>= f) = .error e ↔
      runM W x = .error e ∨ ∃ a, runM W x = .ok a ∧ runM W (f a) = .error e := by
  rw [runM_bind]
  cases h : runM W x with
  | error e' => simp [bind, Except.bind]
  | ok a => simp [bind, Except.bind]

/-! ### "all errors of a computation satisfy S" -/

/-- all errors of `x` satisfy `S` -/
def ErrIn {α} (S : Err → Prop) (x : Except Err α) : Prop := ∀ e, x = .error e → S e

theorem ErrIn_bind {α β} {S : Err → Prop} {x : Except Err α} {f : α → Except Err β}
    (hx : ErrIn S x) (hf : ∀ a, x = .ok a → ErrIn S (f a)) : ErrIn S (x >>= f) := by
  intro e he
  cases hx' : x with
  | error e' => rw [hx'] at he; exact hx e (by rw [hx']; simpa [bind, Except.bind] using he)
  | ok a => rw [hx'] at he; exact hf a hx' e (by simpa [bind, Except.bind] using he)

theorem ErrIn_pure {α} {S : Err → Prop} (a : α) : ErrIn S (pure a : Except Err α) := by
  intro e he; cases he

theorem ErrIn_ok {α} {S : Err → Prop} (a : α) : ErrIn S (.ok a : Except Err α) := by
  intro e he; cases he

theorem ErrIn_rejectE {S : Err → Prop} {c : Bool} {e : Err} (h : S e) : ErrIn S (rejectE c e) := by
  intro e' he; unfold rejectE at he; cases c <;> simp at he; rw [← he]; exact h

theorem ErrIn_someOr {α} {S : Err → Prop} {o : Option α} {e : Err} (h : S e) : ErrIn S (someOr o e) := by
  intro e' he; unfold someOr at he; cases o <;> simp at he; rw [← he]; exact h

/-- the same for computations that consult the libraries -/
def MErrIn {α} (S : Err → Prop) (W : World) (x : M α) : Prop := ∀ e, runM W x = .error e → S e

theorem MErrIn_bind {α β} {S : Err → Prop} {W : World} {x : M α} {f : α → M β}
    (hx : MErrIn S W x) (hf : ∀ a, runM W x = .ok a → MErrIn S W (f a)) : MErrIn S W (x >>= f) := by
  intro e he
  rw [runM_bind_error] at he
  rcases he with he | ⟨a, ha, he⟩
  · exact hx e he
  · exact hf a ha e he

theorem MErrIn_reject {S : Err → Prop} {W : World} {c : Bool} {e : Err} (h : S e) : MErrIn S W (reject c e) := by
  intro e' he; unfold reject at he; cases c <;> simp at he; rw [← he]; exact h

theorem MErrIn_liftE {α} {S : Err → Prop} {W : World} {x : Except Err α} (h : ErrIn S x) : MErrIn S W (liftE x) := by
  intro e he; rw [runM_liftE] at he; exact h e he

theorem MErrIn_pure {α} {S : Err → Prop} {W : World} (a : α) : MErrIn S W (pure a : M α) := by
  intro e he; simp at he

theorem MErrIn_ask {S : Err → Prop} {W : World} (q : Query) : MErrIn S W (askM q) := by
  intro e he; simp at he

end Webauthn
