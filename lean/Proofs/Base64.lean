import Model.Base64
namespace Webauthn.Base64

theorem charVal_encChar_fin : ∀ n : Fin 64,
    charVal (encChar n.val) = some n.val ∧ encChar n.val ≠ '=' ∧ (encChar n.val).toNat < 128 := by
  decide +kernel

theorem charVal_encChar {n : Nat} (h : n < 64) : charVal (encChar n) = some n :=
  (charVal_encChar_fin ⟨n, h⟩).1

theorem encChar_ne_pad {n : Nat} (h : n < 64) : encChar n ≠ '=' :=
  (charVal_encChar_fin ⟨n, h⟩).2.1

theorem encChar_ascii {n : Nat} (h : n < 64) : (encChar n).toNat < 128 :=
  (charVal_encChar_fin ⟨n, h⟩).2.2

/-- the alphabet predicate of C14 -/
def isUrlSafeChar (c : Char) : Bool :=
  ('A' ≤ c ∧ c ≤ 'Z') || ('a' ≤ c ∧ c ≤ 'z') || ('0' ≤ c ∧ c ≤ '9') || c = '-' || c = '_'

theorem encChar_urlsafe_fin : ∀ n : Fin 64, isUrlSafeChar (encChar n.val) = true := by
  decide +kernel

theorem encChar_urlsafe {n : Nat} (h : n < 64) : isUrlSafeChar (encChar n) = true :=
  encChar_urlsafe_fin ⟨n, h⟩

/-- processing one alphabet character -/
theorem step_sextet (s : St) {n : Nat} (h : n < 64) :
    step s (encChar n) =
      if s.quad = 0 then some ⟨1, n, 0, s.out⟩
      else if s.quad = 1 then some ⟨2, n % 16, 0, s.out ++ [(s.left * 4 + n / 16).toUInt8]⟩
      else if s.quad = 2 then some ⟨3, n % 4, 0, s.out ++ [(s.left * 16 + n / 4).toUInt8]⟩
      else some ⟨0, 0, 0, s.out ++ [(s.left * 64 + n).toUInt8]⟩ := by
  unfold step
  rw [if_neg (encChar_ne_pad h), charVal_encChar h]

theorem run_cons_some {s s' : St} {c : Char} {cs : List Char} (h : step s c = some s') :
    run s (c :: cs) = run s' cs := by
  simp [run, h]

/-- state reached after the decoder has consumed `encode l`, starting at a quad boundary -/
def endState : Bytes → Bytes → Nat → St
  | [], o, p => ⟨0, 0, p, o⟩
  | [a], o, _ => ⟨2, 0, 0, o ++ [a]⟩
  | [a, b], o, _ => ⟨3, 0, 0, o ++ [a, b]⟩
  | a :: b :: c :: rest, o, _ => endState rest (o ++ [a, b, c]) 0

private theorem u8 (a : UInt8) : a.toNat < 256 := a.toNat_lt

private theorem toUInt8_eq (a : UInt8) (n : Nat) (h : n = a.toNat) : n.toUInt8 = a := by
  subst h; simp [Nat.toUInt8]

theorem step_q0 (l p : Nat) (o : Bytes) {n : Nat} (h : n < 64) :
    step ⟨0, l, p, o⟩ (encChar n) = some ⟨1, n, 0, o⟩ := by
  rw [step_sextet _ h]; rfl

theorem step_q1 (l p : Nat) (o : Bytes) {n : Nat} (h : n < 64) :
    step ⟨1, l, p, o⟩ (encChar n) = some ⟨2, n % 16, 0, o ++ [(l * 4 + n / 16).toUInt8]⟩ := by
  rw [step_sextet _ h]; rfl

theorem step_q2 (l p : Nat) (o : Bytes) {n : Nat} (h : n < 64) :
    step ⟨2, l, p, o⟩ (encChar n) = some ⟨3, n % 4, 0, o ++ [(l * 16 + n / 4).toUInt8]⟩ := by
  rw [step_sextet _ h]; rfl

theorem step_q3 (l p : Nat) (o : Bytes) {n : Nat} (h : n < 64) :
    step ⟨3, l, p, o⟩ (encChar n) = some ⟨0, 0, 0, o ++ [(l * 64 + n).toUInt8]⟩ := by
  rw [step_sextet _ h]; rfl

private theorem st_eq {q l p : Nat} {o o' : Bytes} (h : o = o') :
    (⟨q, l, p, o⟩ : St) = ⟨q, l, p, o'⟩ := by rw [h]

private theorem app1 (o : Bytes) {x a : UInt8} (hx : x = a) : o ++ [x] = o ++ [a] := by rw [hx]
private theorem app2 (o : Bytes) {x y a b : UInt8} (hx : x = a) (hy : y = b) :
    o ++ [x] ++ [y] = o ++ [a, b] := by subst hx hy; simp
private theorem app3 (o : Bytes) {x y z a b c : UInt8} (hx : x = a) (hy : y = b) (hz : z = c) :
    o ++ [x] ++ [y] ++ [z] = o ++ [a, b, c] := by subst hx hy hz; simp

theorem run_tail1 (a : UInt8) (o : Bytes) (p : Nat) (tail : List Char) :
    run ⟨0, 0, p, o⟩ (encChar (a.toNat / 4) :: encChar (a.toNat % 4 * 16) :: tail) =
      run ⟨2, 0, 0, o ++ [a]⟩ tail := by
  have ha := u8 a
  rw [run_cons_some (step_q0 _ _ _ (by omega)), run_cons_some (step_q1 _ _ _ (by omega))]
  have h0 : a.toNat % 4 * 16 % 16 = 0 := by omega
  rw [h0]
  exact congrArg (fun s => run s tail) (st_eq (app1 o (toUInt8_eq a _ (by omega))))

theorem run_tail2 (a b : UInt8) (o : Bytes) (p : Nat) (tail : List Char) :
    run ⟨0, 0, p, o⟩ (encChar (a.toNat / 4) :: encChar (a.toNat % 4 * 16 + b.toNat / 16) ::
        encChar (b.toNat % 16 * 4) :: tail) =
      run ⟨3, 0, 0, o ++ [a, b]⟩ tail := by
  have ha := u8 a; have hb := u8 b
  rw [run_cons_some (step_q0 _ _ _ (by omega)), run_cons_some (step_q1 _ _ _ (by omega)),
      run_cons_some (step_q2 _ _ _ (by omega))]
  have h0 : b.toNat % 16 * 4 % 4 = 0 := by omega
  rw [h0]
  exact congrArg (fun s => run s tail)
    (st_eq (app2 o (toUInt8_eq a _ (by omega)) (toUInt8_eq b _ (by omega))))

theorem run_quad (a b c : UInt8) (o : Bytes) (p : Nat) (tail : List Char) :
    run ⟨0, 0, p, o⟩ (encChar (a.toNat / 4) :: encChar (a.toNat % 4 * 16 + b.toNat / 16) ::
        encChar (b.toNat % 16 * 4 + c.toNat / 64) :: encChar (c.toNat % 64) :: tail) =
      run ⟨0, 0, 0, o ++ [a, b, c]⟩ tail := by
  have ha := u8 a; have hb := u8 b; have hc := u8 c
  rw [run_cons_some (step_q0 _ _ _ (by omega)), run_cons_some (step_q1 _ _ _ (by omega)),
      run_cons_some (step_q2 _ _ _ (by omega)), run_cons_some (step_q3 _ _ _ (by omega))]
  exact congrArg (fun s => run s tail)
    (st_eq (app3 o (toUInt8_eq a _ (by omega)) (toUInt8_eq b _ (by omega))
      (toUInt8_eq c _ (by omega))))

theorem run_encode (l : Bytes) (o : Bytes) (p : Nat) (tail : List Char) :
    run ⟨0, 0, p, o⟩ (encode l ++ tail) = run (endState l o p) tail := by
  induction l, o, p using endState.induct with
  | case1 o p => simp [encode, endState]
  | case2 a o p => simp only [encode, endState, List.cons_append, List.nil_append]; exact run_tail1 ..
  | case3 a b o p => simp only [encode, endState, List.cons_append, List.nil_append]; exact run_tail2 ..
  | case4 a b c rest o p ih =>
    simp only [encode, endState, List.cons_append]
    rw [run_quad]; exact ih

theorem endState_out (l o : Bytes) (p : Nat) : (endState l o p).out = o ++ l := by
  induction l, o, p using endState.induct with
  | case1 => simp [endState]
  | case2 => simp [endState]
  | case3 => simp [endState]
  | case4 a b c rest o p ih => simp [endState, ih]

theorem endState_shape (l o : Bytes) (p : Nat) :
    ((endState l o p).quad = 0) ∨
    ((endState l o p).quad = 2 ∧ (endState l o p).pads = 0) ∨
    ((endState l o p).quad = 3 ∧ (endState l o p).pads = 0) := by
  induction l, o, p using endState.induct with
  | case1 => simp [endState]
  | case2 => simp [endState]
  | case3 => simp [endState]
  | case4 a b c rest o p ih => simpa [endState] using ih

/-- at a quad boundary any run of `=` is skipped -/
theorem run_pads_quad0 (s : St) (h : s.quad = 0) (k : Nat) :
    run s (List.replicate k '=') = some s.out := by
  induction k with
  | zero => simp [run, h]
  | succ k ih =>
    rw [List.replicate_succ, run_cons_some (s' := s)]
    · exact ih
    · simp [step, h]

theorem run_pads (s : St) (k : Nat)
    (h : s.quad = 0 ∨ (s.quad = 2 ∧ s.pads = 0) ∨ (s.quad = 3 ∧ s.pads = 0)) :
    run s (List.replicate (k + 2) '=') = some s.out := by
  rcases h with h | ⟨h, hp⟩ | ⟨h, hp⟩
  · exact run_pads_quad0 s h _
  · -- two pads needed
    rw [List.replicate_succ, run_cons_some (s' := { s with pads := 1 })]
    · rw [List.replicate_succ]
      simp [run, step, h]
    · simp [step, h, hp]
  · rw [List.replicate_succ]
    simp [run, step, h, hp]

theorem encode_ascii (l : Bytes) : ∀ c ∈ encode l, c.toNat < 128 := by
  induction l using encode.induct with
  | case1 => simp [encode]
  | case2 a =>
    have := u8 a
    intro c hc; simp only [encode, List.mem_cons, List.not_mem_nil, or_false] at hc
    rcases hc with rfl | rfl <;> exact encChar_ascii (by omega)
  | case3 a b =>
    have := u8 a; have := u8 b
    intro c hc; simp only [encode, List.mem_cons, List.not_mem_nil, or_false] at hc
    rcases hc with rfl | rfl | rfl <;> exact encChar_ascii (by omega)
  | case4 a b c rest ih =>
    have := u8 a; have := u8 b; have := u8 c
    intro d hd; simp only [encode, List.mem_cons] at hd
    rcases hd with rfl | rfl | rfl | rfl | hd
    · exact encChar_ascii (by omega)
    · exact encChar_ascii (by omega)
    · exact encChar_ascii (by omega)
    · exact encChar_ascii (by omega)
    · exact ih d hd

theorem encode_urlsafe (l : Bytes) : ∀ c ∈ encode l, isUrlSafeChar c = true := by
  induction l using encode.induct with
  | case1 => simp [encode]
  | case2 a =>
    have := u8 a
    intro c hc; simp only [encode, List.mem_cons, List.not_mem_nil, or_false] at hc
    rcases hc with rfl | rfl <;> exact encChar_urlsafe (by omega)
  | case3 a b =>
    have := u8 a; have := u8 b
    intro c hc; simp only [encode, List.mem_cons, List.not_mem_nil, or_false] at hc
    rcases hc with rfl | rfl | rfl <;> exact encChar_urlsafe (by omega)
  | case4 a b c rest ih =>
    have := u8 a; have := u8 b; have := u8 c
    intro d hd; simp only [encode, List.mem_cons] at hd
    rcases hd with rfl | rfl | rfl | rfl | hd
    · exact encChar_urlsafe (by omega)
    · exact encChar_urlsafe (by omega)
    · exact encChar_urlsafe (by omega)
    · exact encChar_urlsafe (by omega)
    · exact ih d hd

/-- The round trip, with any amount `k` of `=` padding on the encoded text. -/
theorem decode_encode (b : Bytes) (k : Nat) :
    decode (encode b ++ List.replicate k '=') = .ok b := by
  unfold decode
  have hascii : (encode b ++ List.replicate k '=').any (fun c => decide (128 ≤ c.toNat)) = false := by
    rw [List.any_eq_false]
    intro c hc
    rw [List.mem_append] at hc
    rcases hc with hc | hc
    · have := encode_ascii b c hc; simp; omega
    · rw [List.mem_replicate] at hc; rw [hc.2]; decide
  rw [if_neg (by rw [hascii]; decide)]
  have : encode b ++ List.replicate k '=' ++ ['=', '=', '='] =
      encode b ++ List.replicate (k + 1 + 2) '=' := by
    rw [List.append_assoc]; congr 1
    show _ ++ List.replicate 3 '=' = _
    rw [List.replicate_append_replicate]
  rw [this, St.init, run_encode, run_pads _ _ (endState_shape b [] 0), endState_out]
  simp

end Webauthn.Base64
