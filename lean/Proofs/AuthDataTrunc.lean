/-
  Every strict prefix of a canonical authenticator-data layout is refused with a library exception.
-/
import Proofs.AuthDataRT
import Proofs.CborPrefix
namespace Webauthn
open Generated

theorem parseCbor_nil : parseCbor [] = .error (libErr .InvalidCBORData "parse_cbor") := by
  simp [parseCbor, Cbor.loads, Cbor.dec]

theorem slice_len_le {α} (l : List α) (i j : Nat) : (slice l i j).length ≤ j - i := by
  unfold slice; simp; omega

theorem bad_len : badEddsaCbor.length = 17 := rfl

/-- `parse…` of the attested block when the input stops before the credential public key begins -/
theorem parseAttested_short (val : Bytes) (h : val.length ≤ 37 + 18 + beNat (slice val (37 + 16) (37 + 18))) :
    parseAttested val 37 = .error (libErr .InvalidCBORData "parse_cbor") := by
  unfold parseAttested
  have hs : slice val (37 + 18 + beNat (slice val (37 + 16) (37 + 18)))
      (37 + 18 + beNat (slice val (37 + 16) (37 + 18)) + badEddsaCbor.length) = [] := by
    have hd : val.drop (37 + 18 + beNat (slice val (37 + 16) (37 + 18))) = [] := List.drop_eq_nil_of_le h
    show List.take _ (val.drop (37 + 18 + beNat (slice val (37 + 16) (37 + 18)))) = []
    rw [hd]; exact List.take_nil
  have hd : val.drop (37 + 18 + beNat (slice val (37 + 16) (37 + 18))) = [] := List.drop_eq_nil_of_le h
  have hb : (([] : Bytes) == badEddsaCbor) = false := by decide
  simp only [hs, hb, Bool.false_eq_true, ↓reduceIte, hd, parseCbor_nil, bind, Except.bind]

/-- the attested block laid out up to the key, followed by an arbitrary `tail` -/
theorem parseAttested_tail (pre a i tail : Bytes) (hpre : pre.length = 37) (ha : a.length = 16)
    (hi : i.length < 65536) (hbad : slice tail 0 17 ≠ badEddsaCbor) :
    parseAttested (pre ++ a ++ beBytes i.length 2 ++ i ++ tail) 37 =
      (parseCbor tail).bind (fun key => .ok (⟨a, i, Cbor.enc key⟩, 37 + 18 + i.length + (Cbor.enc key).length,
        pre ++ a ++ beBytes i.length 2 ++ i ++ tail)) := by
  have hl2 : (beBytes i.length 2).length = 2 := Cbor.beBytes_length _ _
  have e1 : slice (pre ++ a ++ beBytes i.length 2 ++ i ++ tail) 37 (37 + 16) = a := by
    have := slice_at pre a (beBytes i.length 2 ++ i ++ tail) 37 (37 + 16) (by omega) (by omega)
    simpa [List.append_assoc] using this
  have e2 : slice (pre ++ a ++ beBytes i.length 2 ++ i ++ tail) (37 + 16) (37 + 18) = beBytes i.length 2 := by
    have := slice_at (pre ++ a) (beBytes i.length 2) (i ++ tail) (37 + 16) (37 + 18)
      (by simp; omega) (by simp; omega)
    simpa [List.append_assoc] using this
  have e3 : slice (pre ++ a ++ beBytes i.length 2 ++ i ++ tail) (37 + 18) (37 + 18 + i.length) = i := by
    have := slice_at (pre ++ a ++ beBytes i.length 2) i tail (37 + 18) (37 + 18 + i.length)
      (by simp; omega) (by simp; omega)
    simpa [List.append_assoc] using this
  have e4 : (pre ++ a ++ beBytes i.length 2 ++ i ++ tail).drop (37 + 18 + i.length) = tail := by
    have := drop_at (pre ++ a ++ beBytes i.length 2 ++ i) tail (37 + 18 + i.length) (by simp; omega)
    simpa [List.append_assoc] using this
  have e5 : slice (pre ++ a ++ beBytes i.length 2 ++ i ++ tail) (37 + 18 + i.length)
      (37 + 18 + i.length + badEddsaCbor.length) = slice tail 0 17 := by
    unfold slice
    rw [e4]
    simp [badEddsaCbor]
  have hn : beNat (beBytes i.length 2) = i.length := Cbor.beNat_beBytes 2 _ (by simpa using hi)
  unfold parseAttested
  simp only [e1, e2, hn, e3, e5]
  have hb : (slice tail 0 17 == badEddsaCbor) = false := by
    rw [beq_eq_false_iff_ne]; exact hbad
  simp only [hb, Bool.false_eq_true, ↓reduceIte, e4, bind, Except.bind, pure, Except.pure, encodeCbor]

/-- the credential key is not a 3-entry map (the only shape the parser's Ed25519 patch looks at);
every COSE_Key has 4 (OKP, RSA) or 5 (EC2) members -/
def keyNotMap3 (att : Option (Bytes × Bytes × Cbor)) : Prop :=
  ∀ a i k, att = some (a, i, k) → (Cbor.enc k).head? ≠ some 0xa3

theorem enc_ne_nil (v : Cbor) : Cbor.enc v ≠ [] := by
  intro h
  have := Cbor.size_le_enc v
  rw [h] at this
  simp at this

theorem not_bad_of_notMap3 (k : Cbor) (E t s : Bytes) (hk : (Cbor.enc k).head? ≠ some 0xa3)
    (h : Cbor.enc k ++ E = t ++ s) : slice t 0 17 ≠ badEddsaCbor := by
  intro hb
  cases t with
  | nil => simp [slice, badEddsaCbor] at hb
  | cons b q =>
    have hb0 : b = 0xa3 := by
      simp only [slice, List.drop_zero, Nat.sub_zero, List.take_succ_cons, badEddsaCbor] at hb
      exact (List.cons.inj hb).1
    cases he : Cbor.enc k with
    | nil => exact enc_ne_nil k he
    | cons c r =>
      rw [he] at h hk
      simp only [List.cons_append] at h
      have := (List.cons.inj h).1
      apply hk
      simp [this, hb0]

theorem notPatchedS_of_notMap3 (att : Option (Bytes × Bytes × Cbor)) (ext : Option Cbor) (sfx : Bytes)
    (h : keyNotMap3 att) : notPatchedS att ext sfx := by
  intro a i k hatt
  cases ext with
  | none => exact not_bad_of_notMap3 k ([] ++ sfx) _ [] (h a i k hatt) (by simp)
  | some e => exact not_bad_of_notMap3 k (Cbor.enc e ++ sfx) _ [] (h a i k hatt) (by simp)

theorem parseAuthData_header_form (rp : Bytes) (fb : UInt8) (ctr : Nat) (post : Bytes) (hrp : rp.length = 32)
    (hctr : ctr < 2 ^ 32) :
    parseAuthData (rp ++ [fb] ++ beBytes ctr 4 ++ post) =
      (parseAttestedIf (parseFlags fb).att (rp ++ [fb] ++ beBytes ctr 4 ++ post)).bind fun r1 =>
      (parseExtensionsIf (parseFlags fb).ed r1.2.2 r1.2.1).bind fun r2 =>
      (rejectE (decide (r1.2.2.length > r2.2)) (libErr .InvalidAuthenticatorDataStructure "authdata.leftover")).bind fun _ =>
      .ok { rpIdHash := rp, flags := parseFlags fb, signCount := ctr, attested := r1.1, extensions := r2.1 } := by
  have hshort : authDataTooShort ((rp ++ [fb] ++ beBytes ctr 4 ++ post).length : Int) = false := by
    simp only [authDataTooShort, decide_eq_false_iff_not, List.length_append, hrp, Cbor.beBytes_length,
      List.length_cons, List.length_nil]
    omega
  obtain ⟨h0, h1, h2⟩ := header_slices rp fb ctr post hrp hctr
  unfold parseAuthData
  simp only [hshort, rejectE, Bool.false_eq_true, ↓reduceIte, bind, Except.bind, pure, Except.pure, h0, h1, h2]

theorem parseAuthData_truncated (rp : Bytes) (fb : UInt8) (ctr : Nat) (att : Option (Bytes × Bytes × Cbor))
    (ext : Option Cbor) (t s : Bytes) (he : encodeAuthData rp fb ctr att ext = t ++ s) (hs : s ≠ [])
    (hrp : rp.length = 32) (hctr : ctr < 2 ^ 32)
    (hat : (parseFlags fb).att = att.isSome) (hed : (parseFlags fb).ed = ext.isSome)
    (haw : attWF att) (hew : extWF ext) (hk3 : keyNotMap3 att) :
    parseAuthData t = .error (libErr .InvalidAuthenticatorDataStructure "authdata.too-short") ∨
      parseAuthData t = .error (libErr .InvalidCBORData "parse_cbor") := by
  have hpre : (rp ++ [fb] ++ beBytes ctr 4).length = 37 := by simp [hrp, Cbor.beBytes_length]
  unfold encodeAuthData at he
  rw [List.append_assoc] at he
  rcases Cbor.split_prefix _ _ _ _ he with ⟨u, hu, hh⟩ | ⟨t', ht, hb⟩
  · -- the cut falls inside the 37-byte header
    left
    have hl : t.length < 37 := by
      have := congrArg List.length hh
      rw [hpre] at this
      simp at this
      have := Cbor.ne_nil_length hu
      omega
    unfold parseAuthData
    have : authDataTooShort (t.length : Int) = true := by
      simp only [authDataTooShort, decide_eq_true_eq]; omega
    simp [this, rejectE, bind, Except.bind]
  · right
    subst ht
    rw [parseAuthData_header_form rp fb ctr t' hrp hctr]
    rcases att with _ | ⟨a, i, k⟩
    · -- no attested data: the cut is inside the extensions
      simp only [Option.isSome_none] at hat
      rcases ext with _ | e
      · simp only [List.append_nil] at hb
        have := congrArg List.length hb
        simp at this
        have := Cbor.ne_nil_length hs
        omega
      · simp only [Option.isSome_some] at hed
        simp only [List.nil_append] at hb
        have hd : (rp ++ [fb] ++ beBytes ctr 4 ++ t').drop 37 = t' := drop_at _ _ 37 hpre.symm
        have hp := parseCbor_prefix e t' s (hew e rfl) hb hs
        simp only [hat, hed, parseAttestedIf, parseExtensionsIf, parseExtensions, hd, hp, Bool.false_eq_true, ↓reduceIte,
          bind, Except.bind, pure, Except.pure]
    · obtain ⟨ha, hi, hk⟩ := haw a i k rfl
      simp only [Option.isSome_some] at hat
      simp only [encodeAttested, List.append_assoc] at hb
      -- (a ++ len ++ id) ++ (key ++ E) = t' ++ s
      rw [← List.append_assoc a, ← List.append_assoc (a ++ _)] at hb
      rcases Cbor.split_prefix _ _ _ _ hb with ⟨u, hu, hh⟩ | ⟨t2, ht2, hb2⟩
      · -- the cut falls before the credential public key
        have hshort : parseAttested (rp ++ [fb] ++ beBytes ctr 4 ++ t') 37 =
            .error (libErr .InvalidCBORData "parse_cbor") := by
          apply parseAttested_short
          have hlt : t'.length < 18 + i.length := by
            have := congrArg List.length hh
            simp [ha, Cbor.beBytes_length] at this
            have := Cbor.ne_nil_length hu
            omega
          by_cases h18 : t'.length < 18
          · simp only [List.length_append, hpre]; omega
          · -- the length field is intact
            rcases Cbor.split_prefix _ _ _ _ hh with ⟨u', hu', hh'⟩ | ⟨t3, ht3, _⟩
            · have := congrArg List.length hh'
              simp [ha, Cbor.beBytes_length] at this
              have := Cbor.ne_nil_length hu'
              omega
            · subst ht3
              have e2 : slice (rp ++ [fb] ++ beBytes ctr 4 ++ (a ++ beBytes i.length 2 ++ t3)) (37 + 16) (37 + 18) =
                  beBytes i.length 2 := by
                have := slice_at (rp ++ [fb] ++ beBytes ctr 4 ++ a) (beBytes i.length 2) t3 (37 + 16) (37 + 18)
                  (by simp [hrp, Cbor.beBytes_length, ha]) (by simp [hrp, Cbor.beBytes_length, ha])
                simpa [List.append_assoc] using this
              rw [e2, Cbor.beNat_beBytes 2 _ (by simpa using hi)]
              simp only [List.length_append, hpre, List.length_cons, List.length_nil, hrp, Cbor.beBytes_length] at hlt ⊢
              omega
        simp only [hat, parseAttestedIf, hshort, ↓reduceIte, bind, Except.bind]
      · -- the cut falls inside the key or the extensions
        subst ht2
        have hbad : slice t2 0 17 ≠ badEddsaCbor :=
          not_bad_of_notMap3 k _ t2 s (hk3 a i k rfl) hb2
        have hpa := parseAttested_tail (rp ++ [fb] ++ beBytes ctr 4) a i t2 hpre ha hi hbad
        simp only [← List.append_assoc] at hpa ⊢
        rcases Cbor.split_prefix _ _ _ _ hb2 with ⟨u, hu, hh⟩ | ⟨t3, ht3, hb3⟩
        · have hp := parseCbor_prefix k t2 u hk hh hu
          simp only [hat, parseAttestedIf, hpa, hp, ↓reduceIte, bind, Except.bind]
        · subst ht3
          rcases ext with _ | e
          · have := congrArg List.length hb3
            simp at this
            have := Cbor.ne_nil_length hs
            omega
          · simp only [Option.isSome_some] at hed
            have hp := parseCbor_enc k t3 hk
            have hp3 := parseCbor_prefix e t3 s (hew e rfl) hb3 hs
            have hd : (rp ++ [fb] ++ beBytes ctr 4 ++ a ++ beBytes i.length 2 ++ i ++ (Cbor.enc k ++ t3)).drop
                (37 + 18 + i.length + (Cbor.enc k).length) = t3 := by
              have := drop_at (rp ++ [fb] ++ beBytes ctr 4 ++ a ++ beBytes i.length 2 ++ i ++ Cbor.enc k) t3
                (37 + 18 + i.length + (Cbor.enc k).length) (by simp [hrp, Cbor.beBytes_length, ha]; omega)
              simpa [List.append_assoc] using this
            simp only [hat, hed, parseAttestedIf, parseExtensionsIf, parseExtensions, hpa, hp, hd, hp3, ↓reduceIte,
              bind, Except.bind, pure, Except.pure]

end Webauthn
