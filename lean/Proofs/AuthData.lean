import Model.AuthData
import Spec.Core
import Proofs.Monad
namespace Webauthn
open Generated

/-- The regenerated mask expressions compute the spec's bit table — for all 256 flag bytes. -/
theorem parseFlags_eq_flagRow_fin : ∀ n : Fin 256, parseFlags n.val.toUInt8 = Spec.flagRow n.val.toUInt8 := by
  decide +kernel

theorem parseFlags_eq_flagRow (b : UInt8) : parseFlags b = Spec.flagRow b := by
  have h := parseFlags_eq_flagRow_fin ⟨b.toNat, b.toNat_lt⟩
  simpa [Nat.toUInt8] using h

/-- The regenerated flags graph (256 real parses) agrees with the mask expressions. -/
theorem flagsTable_eq : flagsTable =
    (List.range 256).map (fun n => let f := parseFlags n.toUInt8; (f.up, f.uv, f.be, f.bs, f.att, f.ed)) := by
  decide +kernel

theorem parseBackupFlags_eq (f : Flags) :
    parseBackupFlags f = match Spec.backupRow f with
      | some r => .ok r
      | none => .error (libErr .InvalidBackupFlags "backup-flags") := by
  obtain ⟨up, uv, be, bs, att, ed⟩ := f
  cases be <;> cases bs <;> rfl

theorem authDataTooShort_false {n : Nat} (h : authDataTooShort (n : Int) = false) : 37 ≤ n := by
  unfold authDataTooShort at h
  simp at h
  omega

theorem flagsByteOf_ok {val : Bytes} {b : UInt8} (h : flagsByteOf val = .ok b) : val[32]? = some b := by
  unfold flagsByteOf slice at h
  split at h
  · rename_i b' hb
    have : b' = b := by simpa using h
    subst this
    have h2 : ((val.drop 32).take 1)[0]? = some b' := by rw [hb]; rfl
    simpa [List.getElem?_take, List.getElem?_drop] using h2
  · simp at h

/-- What an accepted parse says about the fixed header. -/
theorem parseAuthData_header {val : Bytes} {ad : AuthData} (h : parseAuthData val = .ok ad) :
    37 ≤ val.length ∧ ad.rpIdHash = val.take 32 ∧
    ∃ b, val[32]? = some b ∧ ad.flags = Spec.flagRow b ∧ ad.signCount = beNat (slice val 33 37) := by
  unfold parseAuthData at h
  rw [rejectE_ok] at h; obtain ⟨h1, h⟩ := h
  rw [except_bind_ok] at h; obtain ⟨b, hb, h⟩ := h
  rw [except_bind_ok] at h; obtain ⟨r1, hr1, h⟩ := h
  rw [except_bind_ok] at h; obtain ⟨r2, hr2, h⟩ := h
  rw [rejectE_ok] at h; obtain ⟨h2, h⟩ := h
  have : ad = _ := (Except.ok.inj h).symm
  subst this
  refine ⟨authDataTooShort_false h1, by simp [slice], b, flagsByteOf_ok hb, parseFlags_eq_flagRow b, rfl⟩

end Webauthn
