/-
  Decomposition lemmas for the helpers used by the attestation-format verifiers, in "bind form":
  `runM W (helper … >>= f) = .ok r ↔ …`, so that one `simp only` turns an accepted run of a verifier
  into the conjunction of everything it checked.
-/
import Model.Formats
import Proofs.Monad
import Proofs.VerifyAuth
namespace Webauthn
open Generated

theorem runM_ok_unit_bind {α} {W : World} {x : M Unit} {f : Unit → M α} {r : α} :
    runM W (x >>= f) = .ok r ↔ runM W x = .ok () ∧ runM W (f ()) = .ok r := by
  rw [runM_bind_ok]
  constructor
  · rintro ⟨⟨⟩, h1, h2⟩; exact ⟨h1, h2⟩
  · rintro ⟨h1, h2⟩; exact ⟨(), h1, h2⟩

theorem runM_reject_ok' {W : World} {c : Bool} {e : Err} :
    runM W (reject c e) = .ok () ↔ c = false := by
  unfold reject; cases c <;> simp

theorem loadCert_ok {W : World} {der : Bytes} {site : String} {cert : CertView} :
    runM W (loadCert der site) = .ok cert ↔ W.x509Load der = some cert := by
  unfold loadCert
  rw [runM_x509LoadM_bind, runM_liftE, someOr_ok]

theorem loadCert_bind_ok {α} {W : World} {der : Bytes} {site : String} {f : CertView → M α} {r : α} :
    runM W (loadCert der site >>= f) = .ok r ↔
      ∃ cert, W.x509Load der = some cert ∧ runM W (f cert) = .ok r := by
  rw [runM_bind_ok]; simp only [loadCert_ok]

/-- the chain is validated against exactly `roots` (trusted) and the tail of `x5c` (untrusted) -/
def ChainChecked (W : World) (x5c : List Bytes) (roots : List Root) : Prop :=
  roots = [] ∨ ∃ leaf inter, x5c = leaf :: inter ∧ W.chainVerify leaf inter roots = .ok

theorem validateChainReg_ok {W : World} {x5c : List Bytes} {roots : List Root} {site : String} :
    runM W (validateChainReg x5c roots site) = .ok () ↔ ChainChecked W x5c roots := by
  unfold validateChainReg ChainChecked
  cases roots with
  | nil => simp
  | cons r rs =>
    simp only [List.isEmpty_cons, Bool.false_eq_true, ↓reduceIte, reduceCtorEq, false_or]
    cases x5c with
    | nil => simp
    | cons leaf inter =>
      rw [runM_chainVerifyM_bind, runM_liftE]
      cases h : W.chainVerify leaf inter (r :: rs) <;> simp [chainResult, h]
      exact ⟨leaf, inter, ⟨rfl, rfl⟩, h⟩

theorem validateChainReg_bind_ok {α} {W : World} {x5c : List Bytes} {roots : List Root} {site : String}
    {f : Unit → M α} {r : α} :
    runM W (validateChainReg x5c roots site >>= f) = .ok r ↔
      ChainChecked W x5c roots ∧ runM W (f ()) = .ok r := by
  rw [runM_ok_unit_bind, validateChainReg_ok]

/-- the signature member is a byte string that verifies with the dispatched scheme -/
def SigChecked (W : World) (k : PubKey) (alg : Cbor) (sig : Option Cbor) (data : Bytes) : Prop :=
  ∃ s b, sigPlan k alg = .verify s ∧ sig = some (.bytes b) ∧ W.sigVerify k s b data = .valid

theorem verifySignatureC_ok {W : World} {k : PubKey} {alg : Cbor} {sig : Option Cbor} {data : Bytes}
    {err : Err} :
    runM W (verifySignatureC k alg sig data err) = .ok () ↔ SigChecked W k alg sig data := by
  unfold verifySignatureC SigChecked
  cases h : sigPlan k alg with
  | fail e => simp
  | verify s =>
    simp only [SigPlan.verify.injEq, exists_and_left, exists_eq_left']
    cases sig with
    | none => simp
    | some c =>
      cases c with
      | bytes b =>
        simp only [Option.some.injEq, Cbor.bytes.injEq, exists_eq_left']
        rw [runM_sigVerifyM_bind, runM_liftE]
        cases h2 : W.sigVerify k s b data with
        | valid => simp [sigResult]
        | invalid => simp [sigResult]
        | raised c => rcases sigSeen_raised_cases s c with h | h <;> simp [sigResult, h]
      | uint _ => simp
      | nint _ => simp
      | text _ => simp
      | arr _ => simp
      | map _ => simp
      | bool _ => simp
      | null => simp
      | undefined => simp

theorem verifySignatureC_bind_ok {α} {W : World} {k : PubKey} {alg : Cbor} {sig : Option Cbor}
    {data : Bytes} {err : Err} {f : Unit → M α} {r : α} :
    runM W (verifySignatureC k alg sig data err >>= f) = .ok r ↔
      SigChecked W k alg sig data ∧ runM W (f ()) = .ok r := by
  rw [runM_ok_unit_bind, verifySignatureC_ok]

theorem loadCoseKey_bind_ok {α} {W : World} {k : CoseKey} {f : PubKey → M α} {r : α} :
    runM W (loadCoseKey k >>= f) = .ok r ↔
      ∃ pk, (coseToPubKey k = .ok pk ∧ W.keyLoad pk = true) ∧ runM W (f pk) = .ok r := by
  rw [runM_bind_ok]; simp only [loadCoseKey_ok]

theorem hashByAlgM_bind_ok {α} {W : World} {data : Bytes} {alg : Option Cbor} {f : Bytes → M α} {r : α} :
    runM W (hashByAlgM data alg >>= f) = .ok r ↔
      ∃ h, hashAlgByCose alg = .ok h ∧ runM W (f (W.hash h data)) = .ok r := by
  rw [runM_bind_ok]
  unfold hashByAlgM
  constructor
  · rintro ⟨a, h1, h2⟩
    rw [runM_liftE_ok] at h1
    obtain ⟨h, hh, h1⟩ := h1
    rw [runM_hashM] at h1
    cases h1
    exact ⟨h, hh, h2⟩
  · rintro ⟨h, hh, h2⟩
    refine ⟨W.hash h data, ?_, h2⟩
    rw [runM_liftE_ok]
    exact ⟨h, hh, runM_hashM W h data⟩

theorem x5c_head {x5c : List Bytes} {leaf : Bytes} {e : Err} :
    headOr x5c e = .ok leaf ↔ ∃ rest, x5c = leaf :: rest := by
  rw [headOr_ok]
  cases x5c with
  | nil => simp
  | cons a t => simp [eq_comm]

end Webauthn

namespace Webauthn
open Generated

theorem builtinPemsM_run (W : World) (l : List String) :
    runM W (builtinPemsM l) = .ok (l.map W.builtinPem) := by
  induction l with
  | nil => rfl
  | cons n ns ih =>
    unfold builtinPemsM
    rw [runM_builtinPemM_bind, runM_bind, ih]
    rfl

theorem pemCanonsM_run (W : World) (l : List Bytes) :
    runM W (pemCanonsM l) = .ok (l.filterMap W.pemCanon) := by
  induction l with
  | nil => rfl
  | cons p ps ih =>
    unfold pemCanonsM
    rw [runM_pemCanonM_bind, runM_bind, ih]
    cases h : W.pemCanon p <;> simp [List.filterMap_cons, h] <;> rfl

theorem pemCanonsM_bind_ok {α} {W : World} {l : List Bytes} {f : List Bytes → M α} {r : α} :
    runM W (pemCanonsM l >>= f) = .ok r ↔ runM W (f (l.filterMap W.pemCanon)) = .ok r := by
  rw [runM_bind, pemCanonsM_run]; rfl

theorem builtinPemsM_bind_ok {α} {W : World} {l : List String} {f : List Bytes → M α} {r : α} :
    runM W (builtinPemsM l >>= f) = .ok r ↔ runM W (f (l.map W.builtinPem)) = .ok r := by
  rw [runM_bind, builtinPemsM_run]; rfl

theorem jwsPartJson_bind_ok {α} {W : World} {part : List Char} {site : String}
    {f : List (String × JVal) → M α} {r : α} :
    runM W (jwsPartJson part site >>= f) = .ok r ↔
      ∃ b kvs, Base64.decode part = .ok b ∧ W.jsonLoadsBytes b = .ok (.obj kvs) ∧ runM W (f kvs) = .ok r := by
  rw [runM_bind_ok]
  unfold jwsPartJson
  constructor
  · rintro ⟨kvs, h1, h2⟩
    rw [runM_liftE_ok] at h1
    obtain ⟨b, hb, h1⟩ := h1
    rw [runM_jsonLoadsBytesM_bind, runM_liftE] at h1
    refine ⟨b, kvs, hb, ?_, h2⟩
    unfold jsonObjOf at h1
    split at h1
    · rename_i heq; cases h1; exact heq
    · cases h1
    · cases h1
    · split at h1 <;> cases h1
  · rintro ⟨b, kvs, hb, hj, h2⟩
    refine ⟨kvs, ?_, h2⟩
    rw [runM_liftE_ok]
    refine ⟨b, hb, ?_⟩
    rw [runM_jsonLoadsBytesM_bind, runM_liftE, hj]
    rfl

theorem safetynetTimestampFails_bind {α} {W : World} {ts : Int} {f : Bool → M α} :
    runM W (safetynetTimestampFails ts >>= f) = runM W (f (safetynetTimestampRejects ts W.nowSeconds)) := by
  unfold safetynetTimestampFails
  rw [runM_bind, runM_nowSecondsM_bind]
  rfl

end Webauthn
