/-
  Closed-form round trips for the TPM parsers: a TPMS_ATTEST / TPMT_PUBLIC laid out per TPM 2.0
  Part 2 decodes to exactly the encoded fields, for every field content and every TPM2B size.
-/
import Model.Tpm
import Proofs.Cbor
import Proofs.AuthDataRT
namespace Webauthn
open Generated

theorem tpm2b_length (x : Bytes) : (tpm2b x).length = 2 + x.length := by
  simp [tpm2b, Cbor.beBytes_length]

/-- reading a TPM2B laid out at offset `p = |pre|` returns exactly its content and the offset after it -/
theorem lenPrefixed_tpm2b (pre x post : Bytes) (p : Nat) (hp : p = pre.length) (hx : x.length < 65536) :
    lenPrefixed (pre ++ tpm2b x ++ post) p = (x, p + 2 + x.length) := by
  subst hp
  unfold lenPrefixed tpm2b
  have hl : (beBytes x.length 2).length = 2 := Cbor.beBytes_length _ _
  have h1 : slice (pre ++ (beBytes x.length 2 ++ x) ++ post) pre.length (pre.length + 2) = beBytes x.length 2 := by
    have := slice_at pre (beBytes x.length 2) (x ++ post) pre.length (pre.length + 2) rfl (by omega)
    simpa [List.append_assoc] using this
  simp only [h1, Cbor.beNat_beBytes 2 _ (by simpa using hx)]
  have h2 : slice (pre ++ (beBytes x.length 2 ++ x) ++ post) (pre.length + 2) (pre.length + 2 + x.length) = x := by
    have := slice_at (pre ++ beBytes x.length 2) x post (pre.length + 2) (pre.length + 2 + x.length)
      (by simp; omega) (by simp; omega)
    simpa [List.append_assoc] using this
  rw [h2]

theorem parseClockInfo_enc (clock : Bytes) (reset restart : Nat) (safe : UInt8) (hc : clock.length = 8)
    (hr : reset < 2 ^ 32) (hs : restart < 2 ^ 32) :
    parseClockInfo (clock ++ beBytes reset 4 ++ beBytes restart 4 ++ [safe]) =
      .ok { clock := clock, resetCount := reset, restartCount := restart, safe := safe != 0 } := by
  have l1 : (beBytes reset 4).length = 4 := Cbor.beBytes_length _ _
  have l2 : (beBytes restart 4).length = 4 := Cbor.beBytes_length _ _
  have hd : (clock ++ beBytes reset 4 ++ beBytes restart 4 ++ [safe]).drop 16 = [safe] :=
    drop_at (clock ++ beBytes reset 4 ++ beBytes restart 4) [safe] 16 (by simp [hc, l1, l2])
  have h1 : slice (clock ++ beBytes reset 4 ++ beBytes restart 4 ++ [safe]) 0 8 = clock := by
    have := slice_at [] clock (beBytes reset 4 ++ beBytes restart 4 ++ [safe]) 0 8 rfl (by simp [hc])
    simpa [List.append_assoc] using this
  have h2 : slice (clock ++ beBytes reset 4 ++ beBytes restart 4 ++ [safe]) 8 12 = beBytes reset 4 := by
    have := slice_at clock (beBytes reset 4) (beBytes restart 4 ++ [safe]) 8 12 hc.symm (by simp [hc, l1])
    simpa [List.append_assoc] using this
  have h3 : slice (clock ++ beBytes reset 4 ++ beBytes restart 4 ++ [safe]) 12 16 = beBytes restart 4 := by
    have := slice_at (clock ++ beBytes reset 4) (beBytes restart 4) [safe] 12 16 (by simp [hc, l1]) (by simp [hc, l1, l2])
    simpa [List.append_assoc] using this
  unfold parseClockInfo
  rw [hd]
  simp only [h1, h2, h3, Cbor.beNat_beBytes 4 _ (by simpa using hr), Cbor.beNat_beBytes 4 _ (by simpa using hs)]

/-- **TPMS_ATTEST**: the certify structure laid out per TPM 2.0 Part 2 §10.12.8 decodes field for field -/
theorem parseCertInfo_encode (magic tyB qs extra clock : Bytes) (reset restart : Nat) (safe : UInt8)
    (fw name qname : Bytes) (ty alg : String)
    (hm : magic.length = 4) (ht : tyB.length = 2) (hty : tpmStMap.lookup tyB = some ty)
    (hcert : ty = tpmStAttestCertify)
    (hqs : qs.length < 65536) (hex : extra.length < 65536) (hc : clock.length = 8)
    (hr : reset < 2 ^ 32) (hs : restart < 2 ^ 32) (hfw : fw.length = 8)
    (hn : name.length < 65536) (hqn : qname.length < 65536)
    (halg : tpmAlgMap.lookup (slice name 0 2) = some alg) :
    parseCertInfo (encodeCertInfo magic tyB qs extra clock reset restart safe fw name qname) =
      .ok { magic := magic, type := ty, qualifiedSigner := qs, extraData := extra,
            clockInfo := { clock := clock, resetCount := reset, restartCount := restart, safe := safe != 0 },
            firmwareVersion := fw,
            attested := { nameAlg := alg, nameAlgBytes := slice name 0 2, name := name, qualifiedName := qname } } := by
  unfold encodeCertInfo
  have l1 : (beBytes reset 4).length = 4 := Cbor.beBytes_length _ _
  have l2 : (beBytes restart 4).length = 4 := Cbor.beBytes_length _ _
  -- name the tail after each field so every slice is `pre ++ x ++ post`
  have e0 : slice (magic ++ tyB ++ tpm2b qs ++ tpm2b extra ++ clock ++ beBytes reset 4 ++ beBytes restart 4 ++ [safe] ++ fw ++
      tpm2b name ++ tpm2b qname) 0 4 = magic := by
    have := slice_at [] magic (tyB ++ tpm2b qs ++ tpm2b extra ++ clock ++ beBytes reset 4 ++ beBytes restart 4 ++ [safe] ++ fw ++
      tpm2b name ++ tpm2b qname) 0 4 rfl (by simp [hm])
    simpa [List.append_assoc] using this
  have e1 : slice (magic ++ tyB ++ tpm2b qs ++ tpm2b extra ++ clock ++ beBytes reset 4 ++ beBytes restart 4 ++ [safe] ++ fw ++
      tpm2b name ++ tpm2b qname) 4 6 = tyB := by
    have := slice_at magic tyB (tpm2b qs ++ tpm2b extra ++ clock ++ beBytes reset 4 ++ beBytes restart 4 ++ [safe] ++ fw ++
      tpm2b name ++ tpm2b qname) 4 6 hm.symm (by simp [hm, ht])
    simpa [List.append_assoc] using this
  have e2 : lenPrefixed (magic ++ tyB ++ tpm2b qs ++ tpm2b extra ++ clock ++ beBytes reset 4 ++ beBytes restart 4 ++ [safe] ++ fw ++
      tpm2b name ++ tpm2b qname) 6 = (qs, 6 + 2 + qs.length) := by
    have := lenPrefixed_tpm2b (magic ++ tyB) qs (tpm2b extra ++ clock ++ beBytes reset 4 ++ beBytes restart 4 ++ [safe] ++ fw ++
      tpm2b name ++ tpm2b qname) 6 (by simp [hm, ht]) hqs
    simpa [List.append_assoc] using this
  have e3 : lenPrefixed (magic ++ tyB ++ tpm2b qs ++ tpm2b extra ++ clock ++ beBytes reset 4 ++ beBytes restart 4 ++ [safe] ++ fw ++
      tpm2b name ++ tpm2b qname) (6 + 2 + qs.length) = (extra, 6 + 2 + qs.length + 2 + extra.length) := by
    have := lenPrefixed_tpm2b (magic ++ tyB ++ tpm2b qs) extra (clock ++ beBytes reset 4 ++ beBytes restart 4 ++ [safe] ++ fw ++
      tpm2b name ++ tpm2b qname) (6 + 2 + qs.length) (by simp [hm, ht, tpm2b_length]; omega) hex
    simpa [List.append_assoc] using this
  have e4 : slice (magic ++ tyB ++ tpm2b qs ++ tpm2b extra ++ clock ++ beBytes reset 4 ++ beBytes restart 4 ++ [safe] ++ fw ++
      tpm2b name ++ tpm2b qname) (6 + 2 + qs.length + 2 + extra.length) (6 + 2 + qs.length + 2 + extra.length + 17) =
      clock ++ beBytes reset 4 ++ beBytes restart 4 ++ [safe] := by
    have := slice_at (magic ++ tyB ++ tpm2b qs ++ tpm2b extra) (clock ++ beBytes reset 4 ++ beBytes restart 4 ++ [safe])
      (fw ++ tpm2b name ++ tpm2b qname) (6 + 2 + qs.length + 2 + extra.length) (6 + 2 + qs.length + 2 + extra.length + 17)
      (by simp [hm, ht, tpm2b_length]; omega) (by simp [hm, ht, tpm2b_length, hc, l1, l2]; omega)
    simpa [List.append_assoc] using this
  have e5 : slice (magic ++ tyB ++ tpm2b qs ++ tpm2b extra ++ clock ++ beBytes reset 4 ++ beBytes restart 4 ++ [safe] ++ fw ++
      tpm2b name ++ tpm2b qname) (6 + 2 + qs.length + 2 + extra.length + 17) (6 + 2 + qs.length + 2 + extra.length + 25) = fw := by
    have := slice_at (magic ++ tyB ++ tpm2b qs ++ tpm2b extra ++ clock ++ beBytes reset 4 ++ beBytes restart 4 ++ [safe]) fw
      (tpm2b name ++ tpm2b qname) (6 + 2 + qs.length + 2 + extra.length + 17) (6 + 2 + qs.length + 2 + extra.length + 25)
      (by simp [hm, ht, tpm2b_length, hc, l1, l2]; omega) (by simp [hm, ht, tpm2b_length, hc, l1, l2, hfw]; omega)
    simpa [List.append_assoc] using this
  have e6 : lenPrefixed (magic ++ tyB ++ tpm2b qs ++ tpm2b extra ++ clock ++ beBytes reset 4 ++ beBytes restart 4 ++ [safe] ++ fw ++
      tpm2b name ++ tpm2b qname) (6 + 2 + qs.length + 2 + extra.length + 25) =
      (name, 6 + 2 + qs.length + 2 + extra.length + 25 + 2 + name.length) := by
    have := lenPrefixed_tpm2b (magic ++ tyB ++ tpm2b qs ++ tpm2b extra ++ clock ++ beBytes reset 4 ++ beBytes restart 4 ++ [safe] ++ fw)
      name (tpm2b qname) (6 + 2 + qs.length + 2 + extra.length + 25)
      (by simp [hm, ht, tpm2b_length, hc, l1, l2, hfw]; omega) hn
    simpa [List.append_assoc] using this
  have e7 : lenPrefixed (magic ++ tyB ++ tpm2b qs ++ tpm2b extra ++ clock ++ beBytes reset 4 ++ beBytes restart 4 ++ [safe] ++ fw ++
      tpm2b name ++ tpm2b qname) (6 + 2 + qs.length + 2 + extra.length + 25 + 2 + name.length) =
      (qname, 6 + 2 + qs.length + 2 + extra.length + 25 + 2 + name.length + 2 + qname.length) := by
    have := lenPrefixed_tpm2b (magic ++ tyB ++ tpm2b qs ++ tpm2b extra ++ clock ++ beBytes reset 4 ++ beBytes restart 4 ++ [safe] ++ fw ++
      tpm2b name) qname [] (6 + 2 + qs.length + 2 + extra.length + 25 + 2 + name.length)
      (by simp [hm, ht, tpm2b_length, hc, l1, l2, hfw]; omega) hqn
    simpa [List.append_assoc] using this
  unfold parseCertInfo
  simp only [e0, e1, tpmLookup, hty, bind, Except.bind, e2, e3, e4, e5, e6, e7, hcert, bne_self_eq_false, rejectE,
    Bool.false_eq_true, ↓reduceIte, parseAttestedName, halg, parseClockInfo_enc clock reset restart safe hc hr hs,
    pure, Except.pure]

/-- **TPMT_PUBLIC (RSA)** decodes field for field; `unique` is the modulus -/
theorem parsePubArea_encode_rsa (tyB naB : Bytes) (attrs : Nat) (authPolicy symB schB keyBits exponent modulus : Bytes)
    (ty nameAlg sym sch : String)
    (ht : tyB.length = 2) (hn : naB.length = 2) (ha : attrs < 2 ^ 32) (hap : authPolicy.length < 65536)
    (hsy : symB.length = 2) (hsc : schB.length = 2) (hkb : keyBits.length = 2) (hex : exponent.length = 4)
    (hmod : modulus.length < 65536)
    (hty : tpmAlgMap.lookup tyB = some ty) (hrsa : ty = tpmAlgRsa) (hna : tpmAlgMap.lookup naB = some nameAlg)
    (hsym : tpmAlgMap.lookup symB = some sym) (hsch : tpmAlgMap.lookup schB = some sch) :
    parsePubArea (encodePubAreaRsa tyB naB attrs authPolicy symB schB keyBits exponent modulus) =
      .ok { type := ty, nameAlg := nameAlg, objectAttributes := tpmObjectAttributes attrs, authPolicy := authPolicy,
            parameters := .rsa sym sch keyBits exponent, unique := modulus } := by
  unfold encodePubAreaRsa
  have l4 : (beBytes attrs 4).length = 4 := Cbor.beBytes_length _ _
  have e0 : slice (tyB ++ naB ++ beBytes attrs 4 ++ tpm2b authPolicy ++ symB ++ schB ++ keyBits ++ exponent ++ tpm2b modulus) 0 2 = tyB := by
    have := slice_at [] tyB (naB ++ beBytes attrs 4 ++ tpm2b authPolicy ++ symB ++ schB ++ keyBits ++ exponent ++ tpm2b modulus) 0 2 rfl (by simp [ht])
    simpa [List.append_assoc] using this
  have e1 : slice (tyB ++ naB ++ beBytes attrs 4 ++ tpm2b authPolicy ++ symB ++ schB ++ keyBits ++ exponent ++ tpm2b modulus) 2 4 = naB := by
    have := slice_at tyB naB (beBytes attrs 4 ++ tpm2b authPolicy ++ symB ++ schB ++ keyBits ++ exponent ++ tpm2b modulus) 2 4 ht.symm (by simp [ht, hn])
    simpa [List.append_assoc] using this
  have e2 : slice (tyB ++ naB ++ beBytes attrs 4 ++ tpm2b authPolicy ++ symB ++ schB ++ keyBits ++ exponent ++ tpm2b modulus) 4 8 = beBytes attrs 4 := by
    have := slice_at (tyB ++ naB) (beBytes attrs 4) (tpm2b authPolicy ++ symB ++ schB ++ keyBits ++ exponent ++ tpm2b modulus) 4 8
      (by simp [ht, hn]) (by simp [ht, hn, l4])
    simpa [List.append_assoc] using this
  have e3 : lenPrefixed (tyB ++ naB ++ beBytes attrs 4 ++ tpm2b authPolicy ++ symB ++ schB ++ keyBits ++ exponent ++ tpm2b modulus) 8 =
      (authPolicy, 8 + 2 + authPolicy.length) := by
    have := lenPrefixed_tpm2b (tyB ++ naB ++ beBytes attrs 4) authPolicy (symB ++ schB ++ keyBits ++ exponent ++ tpm2b modulus) 8
      (by simp [ht, hn, l4]) hap
    simpa [List.append_assoc] using this
  have e4 : slice (tyB ++ naB ++ beBytes attrs 4 ++ tpm2b authPolicy ++ symB ++ schB ++ keyBits ++ exponent ++ tpm2b modulus)
      (8 + 2 + authPolicy.length) (8 + 2 + authPolicy.length + 10) = symB ++ schB ++ keyBits ++ exponent := by
    have := slice_at (tyB ++ naB ++ beBytes attrs 4 ++ tpm2b authPolicy) (symB ++ schB ++ keyBits ++ exponent) (tpm2b modulus)
      (8 + 2 + authPolicy.length) (8 + 2 + authPolicy.length + 10) (by simp [ht, hn, l4, tpm2b_length]; omega)
      (by simp [ht, hn, l4, tpm2b_length, hsy, hsc, hkb, hex]; omega)
    simpa [List.append_assoc] using this
  have e5 : (tyB ++ naB ++ beBytes attrs 4 ++ tpm2b authPolicy ++ symB ++ schB ++ keyBits ++ exponent ++ tpm2b modulus).drop
      (8 + 2 + authPolicy.length + 10) = tpm2b modulus :=
    drop_at _ _ _ (by simp [ht, hn, l4, tpm2b_length, hsy, hsc, hkb, hex]; omega)
  have p0 : slice (symB ++ schB ++ keyBits ++ exponent) 0 2 = symB := by
    have := slice_at [] symB (schB ++ keyBits ++ exponent) 0 2 rfl (by simp [hsy])
    simpa [List.append_assoc] using this
  have p1 : slice (symB ++ schB ++ keyBits ++ exponent) 2 4 = schB := by
    have := slice_at symB schB (keyBits ++ exponent) 2 4 hsy.symm (by simp [hsy, hsc])
    simpa [List.append_assoc] using this
  have p2 : slice (symB ++ schB ++ keyBits ++ exponent) 4 6 = keyBits := by
    have := slice_at (symB ++ schB) keyBits exponent 4 6 (by simp [hsy, hsc]) (by simp [hsy, hsc, hkb])
    simpa [List.append_assoc] using this
  have p3 : slice (symB ++ schB ++ keyBits ++ exponent) 6 10 = exponent := by
    have := slice_at (symB ++ schB ++ keyBits) exponent [] 6 10 (by simp [hsy, hsc, hkb]) (by simp [hsy, hsc, hkb, hex])
    simpa [List.append_assoc] using this
  have hu : uniqueRsa (tpm2b modulus) = modulus := by
    unfold uniqueRsa
    have := lenPrefixed_tpm2b [] modulus [] 0 rfl hmod
    simp only [List.nil_append, List.append_nil] at this
    rw [this]
  unfold parsePubArea
  simp only [e0, e1, e2, tpmLookup, hty, hna, bind, Except.bind, e3, hrsa, beq_self_eq_true, ↓reduceIte, e4, e5,
    parseRsaParams, p0, p1, p2, p3, hsym, hsch, hu, Cbor.beNat_beBytes 4 _ (by simpa using ha), pure, Except.pure]

/-- **TPMT_PUBLIC (ECC)** decodes field for field; `unique` is x ‖ y, for coordinates of any (even different) sizes -/
theorem parsePubArea_encode_ecc (tyB naB : Bytes) (attrs : Nat) (authPolicy symB schB crvB kdfB x y : Bytes)
    (ty nameAlg sym sch crv kdf : String)
    (ht : tyB.length = 2) (hn : naB.length = 2) (ha : attrs < 2 ^ 32) (hap : authPolicy.length < 65536)
    (hsy : symB.length = 2) (hsc : schB.length = 2) (hcr : crvB.length = 2) (hkd : kdfB.length = 2)
    (hx : x.length < 65536) (hy : y.length < 65536)
    (hty : tpmAlgMap.lookup tyB = some ty) (hecc : ty = tpmAlgEcc)
    (hna : tpmAlgMap.lookup naB = some nameAlg)
    (hsym : tpmAlgMap.lookup symB = some sym) (hsch : tpmAlgMap.lookup schB = some sch)
    (hcrv : tpmEccCurveMap.lookup crvB = some crv) (hkdf : tpmAlgMap.lookup kdfB = some kdf) :
    parsePubArea (encodePubAreaEcc tyB naB attrs authPolicy symB schB crvB kdfB x y) =
      .ok { type := ty, nameAlg := nameAlg, objectAttributes := tpmObjectAttributes attrs, authPolicy := authPolicy,
            parameters := .ecc sym sch crv kdf, unique := x ++ y } := by
  unfold encodePubAreaEcc
  have l4 : (beBytes attrs 4).length = 4 := Cbor.beBytes_length _ _
  have e0 : slice (tyB ++ naB ++ beBytes attrs 4 ++ tpm2b authPolicy ++ symB ++ schB ++ crvB ++ kdfB ++ tpm2b x ++ tpm2b y) 0 2 = tyB := by
    have := slice_at [] tyB (naB ++ beBytes attrs 4 ++ tpm2b authPolicy ++ symB ++ schB ++ crvB ++ kdfB ++ tpm2b x ++ tpm2b y) 0 2 rfl (by simp [ht])
    simpa [List.append_assoc] using this
  have e1 : slice (tyB ++ naB ++ beBytes attrs 4 ++ tpm2b authPolicy ++ symB ++ schB ++ crvB ++ kdfB ++ tpm2b x ++ tpm2b y) 2 4 = naB := by
    have := slice_at tyB naB (beBytes attrs 4 ++ tpm2b authPolicy ++ symB ++ schB ++ crvB ++ kdfB ++ tpm2b x ++ tpm2b y) 2 4 ht.symm (by simp [ht, hn])
    simpa [List.append_assoc] using this
  have e2 : slice (tyB ++ naB ++ beBytes attrs 4 ++ tpm2b authPolicy ++ symB ++ schB ++ crvB ++ kdfB ++ tpm2b x ++ tpm2b y) 4 8 = beBytes attrs 4 := by
    have := slice_at (tyB ++ naB) (beBytes attrs 4) (tpm2b authPolicy ++ symB ++ schB ++ crvB ++ kdfB ++ tpm2b x ++ tpm2b y) 4 8
      (by simp [ht, hn]) (by simp [ht, hn, l4])
    simpa [List.append_assoc] using this
  have e3 : lenPrefixed (tyB ++ naB ++ beBytes attrs 4 ++ tpm2b authPolicy ++ symB ++ schB ++ crvB ++ kdfB ++ tpm2b x ++ tpm2b y) 8 =
      (authPolicy, 8 + 2 + authPolicy.length) := by
    have := lenPrefixed_tpm2b (tyB ++ naB ++ beBytes attrs 4) authPolicy (symB ++ schB ++ crvB ++ kdfB ++ tpm2b x ++ tpm2b y) 8
      (by simp [ht, hn, l4]) hap
    simpa [List.append_assoc] using this
  have e4 : slice (tyB ++ naB ++ beBytes attrs 4 ++ tpm2b authPolicy ++ symB ++ schB ++ crvB ++ kdfB ++ tpm2b x ++ tpm2b y)
      (8 + 2 + authPolicy.length) (8 + 2 + authPolicy.length + 8) = symB ++ schB ++ crvB ++ kdfB := by
    have := slice_at (tyB ++ naB ++ beBytes attrs 4 ++ tpm2b authPolicy) (symB ++ schB ++ crvB ++ kdfB) (tpm2b x ++ tpm2b y)
      (8 + 2 + authPolicy.length) (8 + 2 + authPolicy.length + 8) (by simp [ht, hn, l4, tpm2b_length]; omega)
      (by simp [ht, hn, l4, tpm2b_length, hsy, hsc, hcr, hkd]; omega)
    simpa [List.append_assoc] using this
  have e5 : (tyB ++ naB ++ beBytes attrs 4 ++ tpm2b authPolicy ++ symB ++ schB ++ crvB ++ kdfB ++ tpm2b x ++ tpm2b y).drop
      (8 + 2 + authPolicy.length + 8) = tpm2b x ++ tpm2b y := by
    have := drop_at (tyB ++ naB ++ beBytes attrs 4 ++ tpm2b authPolicy ++ symB ++ schB ++ crvB ++ kdfB) (tpm2b x ++ tpm2b y)
      (8 + 2 + authPolicy.length + 8) (by simp [ht, hn, l4, tpm2b_length, hsy, hsc, hcr, hkd]; omega)
    simpa [List.append_assoc] using this
  have p0 : slice (symB ++ schB ++ crvB ++ kdfB) 0 2 = symB := by
    have := slice_at [] symB (schB ++ crvB ++ kdfB) 0 2 rfl (by simp [hsy])
    simpa [List.append_assoc] using this
  have p1 : slice (symB ++ schB ++ crvB ++ kdfB) 2 4 = schB := by
    have := slice_at symB schB (crvB ++ kdfB) 2 4 hsy.symm (by simp [hsy, hsc])
    simpa [List.append_assoc] using this
  have p2 : slice (symB ++ schB ++ crvB ++ kdfB) 4 6 = crvB := by
    have := slice_at (symB ++ schB) crvB kdfB 4 6 (by simp [hsy, hsc]) (by simp [hsy, hsc, hcr])
    simpa [List.append_assoc] using this
  have p3 : slice (symB ++ schB ++ crvB ++ kdfB) 6 8 = kdfB := by
    have := slice_at (symB ++ schB ++ crvB) kdfB [] 6 8 (by simp [hsy, hsc, hcr]) (by simp [hsy, hsc, hcr, hkd])
    simpa [List.append_assoc] using this
  have hu : uniqueEcc (tpm2b x ++ tpm2b y) = x ++ y := by
    unfold uniqueEcc
    have h1 := lenPrefixed_tpm2b [] x (tpm2b y) 0 rfl hx
    simp only [List.nil_append] at h1
    have h2 := lenPrefixed_tpm2b (tpm2b x) y [] (0 + 2 + x.length) (by simp [tpm2b_length]) hy
    simp only [List.append_nil] at h2
    simp only [h1, h2]
  subst hecc
  have hne : (tpmAlgEcc == tpmAlgRsa) = false := by decide
  unfold parsePubArea
  simp only [e0, e1, e2, tpmLookup, hty, hna, bind, Except.bind, e3, hne, Bool.false_eq_true, ↓reduceIte,
    beq_self_eq_true, e4, e5, parseEccParams, p0, p1, p2, p3, hsym, hsch, hcrv, hkdf, hu,
    Cbor.beNat_beBytes 4 _ (by simpa using ha), pure, Except.pure]

end Webauthn
