import Model.Cose
import Model.ClientData
import Spec.Core
import Proofs.Monad
namespace Webauthn
open Generated

theorem lookup_mem {α β} [BEq α] [LawfulBEq α] {l : List (α × β)} {k : α} {v : β}
    (h : l.lookup k = some v) : (k, v) ∈ l := by
  induction l with
  | nil => simp [List.lookup] at h
  | cons p l ih =>
    obtain ⟨k', v'⟩ := p
    unfold List.lookup at h
    split at h
    · rename_i heq
      have : k = k' := by simpa using heq
      subst this
      have : v' = v := by simpa using h
      subst this
      exact List.mem_cons_self
    · exact List.mem_cons_of_mem _ (ih h)

/-- a dispatch entry agrees with the table in C09's statement -/
def entryOk (kind : String) (alg : Option Int) (d : Disp) : Bool :=
  match planOfDisp d with
  | .verify s =>
    (kind == "ed25519" && s == .ed25519) ||
    (match alg with
     | some i => Spec.dispatch kind i == some (Spec.classOf s)
     | none => false)
  | .fail _ => true

/-- The complete regenerated dispatch table never selects a scheme other than the one the
declared algorithm denotes. -/
theorem sigDispatchTable_ok : ∀ p ∈ sigDispatchTable, entryOk p.1.1 (some p.1.2) p.2 = true := by
  decide

theorem sigDispatchDefault_ok : ∀ p ∈ sigDispatchDefault, entryOk p.1 none p.2 = true := by
  decide

theorem entryOk_weaken {kind : String} {i : Int} {d : Disp} (h : entryOk kind none d = true) :
    entryOk kind (some i) d = true := by
  unfold entryOk at *
  split <;> simp_all

theorem sigDispatch_ok (kind : String) (alg : Cbor) :
    entryOk kind alg.asInt? (sigDispatch kind alg) = true := by
  unfold sigDispatch
  have hd : ∀ a, entryOk kind a ((sigDispatchDefault.lookup kind).getD (.other "no default")) = true := by
    intro a
    cases hl : sigDispatchDefault.lookup kind with
    | none => simp [entryOk, planOfDisp]
    | some d =>
      have := sigDispatchDefault_ok _ (lookup_mem hl)
      cases a with
      | none => simpa using this
      | some i => simpa using entryOk_weaken this
  cases ha : alg.asInt? with
  | none => simpa using hd none
  | some i =>
    simp only
    cases hl : sigDispatchTable.lookup (kind, i) with
    | none => simpa using hd (some i)
    | some d => simpa using sigDispatchTable_ok _ (lookup_mem hl)

/-- C09 core: whenever `verify_signature` goes on to verify, the scheme is the one the declared
algorithm denotes for this key type (Ed25519 keys are always verified as Ed25519). -/
theorem sigPlan_sound {pk : PubKey} {alg : Cbor} {s : Scheme} (h : sigPlan pk alg = .verify s) :
    (pubKeyKind pk = "ed25519" ∧ s = .ed25519) ∨
    ∃ i, alg.asInt? = some i ∧ Spec.dispatch (pubKeyKind pk) i = some (Spec.classOf s) := by
  have := sigDispatch_ok (pubKeyKind pk) alg
  unfold sigPlan at h
  unfold entryOk at this
  rw [h] at this
  simp only [Bool.or_eq_true, Bool.and_eq_true, beq_iff_eq] at this
  rcases this with ⟨h1, h2⟩ | h2
  · exact .inl ⟨h1, h2⟩
  · cases ha : alg.asInt? with
    | none => rw [ha] at h2; simp at h2
    | some i => rw [ha] at h2; exact .inr ⟨i, rfl, by simpa using h2⟩

/-- For a COSE key, an Ed25519 key object only arises from `alg = -8` (EdDSA), `crv = 6`. -/
theorem coseToPubKey_ed25519 {k : CoseKey} {x : Bytes} (h : coseToPubKey k = .ok (.ed25519 x)) :
    k.alg.asInt? = some (-8) := by
  cases k with
  | ec2 kty alg crv x' y =>
    simp only [coseToPubKey] at h
    rw [except_bind_ok] at h; obtain ⟨_, _, h⟩ := h
    rw [except_bind_ok] at h; obtain ⟨_, _, h⟩ := h
    rw [except_bind_ok] at h; obtain ⟨_, _, h⟩ := h
    simp [pure, Except.pure] at h
  | rsa kty alg n e =>
    simp only [coseToPubKey] at h
    rw [except_bind_ok] at h; obtain ⟨_, _, h⟩ := h
    rw [except_bind_ok] at h; obtain ⟨_, _, h⟩ := h
    simp [pure, Except.pure] at h
  | okp kty alg crv x' =>
    simp only [coseToPubKey] at h
    rw [rejectE_ok] at h; obtain ⟨h1, _⟩ := h
    simp only [Bool.or_eq_false_iff, bne_eq_false_iff_eq] at h1
    simpa [CoseKey.alg] using h1.1

theorem coseToPubKey_kind {k : CoseKey} {pk : PubKey} (h : coseToPubKey k = .ok pk) :
    pubKeyKind pk ≠ "other" := by
  cases k with
  | ec2 kty alg crv x' y =>
    simp only [coseToPubKey] at h
    rw [except_bind_ok] at h; obtain ⟨_, _, h⟩ := h
    rw [except_bind_ok] at h; obtain ⟨_, _, h⟩ := h
    rw [except_bind_ok] at h; obtain ⟨_, _, h⟩ := h
    cases h; simp [pubKeyKind]
  | rsa kty alg n e =>
    simp only [coseToPubKey] at h
    rw [except_bind_ok] at h; obtain ⟨_, _, h⟩ := h
    rw [except_bind_ok] at h; obtain ⟨_, _, h⟩ := h
    cases h; simp [pubKeyKind]
  | okp kty alg crv x' =>
    simp only [coseToPubKey] at h
    rw [rejectE_ok] at h; obtain ⟨_, h⟩ := h
    split at h
    · cases h; simp [pubKeyKind]
    · cases h

/-- C09 for COSE keys: the scheme used is exactly the one the key's declared algorithm denotes. -/
theorem cose_sigPlan_sound {k : CoseKey} {pk : PubKey} {s : Scheme}
    (hk : coseToPubKey k = .ok pk) (h : sigPlan pk k.alg = .verify s) :
    ∃ i, k.alg.asInt? = some i ∧ Spec.dispatch (pubKeyKind pk) i = some (Spec.classOf s) := by
  rcases sigPlan_sound h with ⟨hkind, hs⟩ | h'
  · cases pk with
    | ed25519 x =>
      refine ⟨-8, coseToPubKey_ed25519 hk, ?_⟩
      subst hs; rfl
    | ec _ _ _ => simp [pubKeyKind] at hkind
    | rsa _ _ => simp [pubKeyKind] at hkind
    | other _ => simp [pubKeyKind] at hkind
  · exact h'

/-! ### client data -/

theorem lookup_of_any {kvs : List (String × JVal)} {key : String}
    (h : kvs.any (fun p => p.1 == key) = true) : ∃ v, JVal.lookup kvs key = some v := by
  unfold JVal.lookup
  cases hf : kvs.find? (fun p => p.1 == key) with
  | some p => exact ⟨p.2, rfl⟩
  | none =>
    rw [List.find?_eq_none] at hf
    rw [List.any_eq_true] at h
    obtain ⟨p, hp, hq⟩ := h
    exact absurd hq (hf p hp)

theorem requireMember_obj {kvs : List (String × JVal)} {key : String}
    (h : requireMember (.obj kvs) key = .ok ()) : ∃ v, JVal.lookup kvs key = some v := by
  unfold requireMember JVal.pyContains? at h
  simp only at h
  split at h
  · cases h
  · cases h
  · rename_i hc; exact lookup_of_any (by simpa using hc)

/-- An accepted client data parse: the JSON value is an object and the three members are read
from it (challenge through the base64url helper). -/
theorem clientDataOfJVal_ok {j : JVal} {cd : ClientData} (h : clientDataOfJVal j = .ok cd) :
    ∃ kvs, j = .obj kvs ∧
      JVal.lookup kvs "type" = some cd.type ∧
      (∃ ch, JVal.lookup kvs "challenge" = some ch ∧ b64urlOfJVal ch = .ok cd.challenge) ∧
      JVal.lookup kvs "origin" = some cd.origin := by
  unfold clientDataOfJVal at h
  rw [except_bind_ok] at h; obtain ⟨_, h1, h⟩ := h
  rw [except_bind_ok] at h; obtain ⟨_, h2, h⟩ := h
  rw [except_bind_ok] at h; obtain ⟨_, h3, h⟩ := h
  cases j with
  | obj kvs =>
    refine ⟨kvs, rfl, ?_⟩
    obtain ⟨t, ht⟩ := requireMember_obj h1
    obtain ⟨ch, hch⟩ := requireMember_obj h2
    obtain ⟨o, ho⟩ := requireMember_obj h3
    simp only at h
    rw [except_bind_ok] at h; obtain ⟨chal, hchal, h⟩ := h
    rw [except_bind_ok] at h; obtain ⟨tb, _, h⟩ := h
    have : cd = _ := (Except.ok.inj h).symm
    subst this
    simp only [ht, hch, ho, Option.getD_some] at hchal ⊢
    exact ⟨trivial, ⟨ch, rfl, hchal⟩, trivial⟩
  | null => simp at h
  | bool _ => simp at h
  | int _ => simp at h
  | real _ => simp at h
  | str _ => simp at h
  | arr _ => simp at h

end Webauthn
