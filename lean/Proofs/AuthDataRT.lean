/-
  Closed-form round trip for `parse_authenticator_data`: the bytes a conformant authenticator
  lays out (rpIdHash ‖ flags ‖ counter ‖ [aaguid ‖ len ‖ id ‖ COSE key] ‖ [extensions]) parse to
  exactly those fields, for every field content and length.
-/
import Model.AuthData
import Proofs.Cbor
namespace Webauthn
open Generated

theorem slice_at {α} (pre x post : List α) (i j : Nat) (hi : i = pre.length) (hj : j = pre.length + x.length) :
    slice (pre ++ x ++ post) i j = x := by
  subst hi hj; unfold slice; simp

theorem drop_at {α} (pre post : List α) (i : Nat) (hi : i = pre.length) : (pre ++ post).drop i = post := by
  subst hi; simp

def attestedOf (att : Option (Bytes × Bytes × Cbor)) : Option AttestedCred :=
  att.map (fun t => ⟨t.1, t.2.1, Cbor.enc t.2.2⟩)

/-- the authenticator did not emit the known-bad 3-entry Ed25519 map that the parser patches -/
def notPatched (att : Option (Bytes × Bytes × Cbor)) (ext : Option Cbor) : Prop :=
  ∀ a i k, att = some (a, i, k) →
    slice (Cbor.enc k ++ (match ext with | none => [] | some e => Cbor.enc e)) 0 17 ≠ badEddsaCbor

def attWF (att : Option (Bytes × Bytes × Cbor)) : Prop :=
  ∀ a i k, att = some (a, i, k) → a.length = 16 ∧ i.length < 65536 ∧ Cbor.WF k

def extWF (ext : Option Cbor) : Prop := ∀ e, ext = some e → Cbor.WF e

theorem parseAttested_enc (pre a i : Bytes) (k : Cbor) (post : Bytes) (hpre : pre.length = 37)
    (ha : a.length = 16) (hi : i.length < 65536) (hk : Cbor.WF k)
    (hbad : slice (Cbor.enc k ++ post) 0 17 ≠ badEddsaCbor) :
    parseAttested (pre ++ encodeAttested a i k ++ post) 37 =
      .ok (⟨a, i, Cbor.enc k⟩, 37 + 18 + i.length + (Cbor.enc k).length, pre ++ encodeAttested a i k ++ post) := by
  have hl2 : (beBytes i.length 2).length = 2 := Cbor.beBytes_length _ _
  have e1 : slice (pre ++ encodeAttested a i k ++ post) 37 (37 + 16) = a := by
    have := slice_at pre a (beBytes i.length 2 ++ i ++ Cbor.enc k ++ post) 37 (37 + 16) (by omega) (by omega)
    simpa [encodeAttested, List.append_assoc] using this
  have e2 : slice (pre ++ encodeAttested a i k ++ post) (37 + 16) (37 + 18) = beBytes i.length 2 := by
    have := slice_at (pre ++ a) (beBytes i.length 2) (i ++ Cbor.enc k ++ post) (37 + 16) (37 + 18)
      (by simp; omega) (by simp; omega)
    simpa [encodeAttested, List.append_assoc] using this
  have e3 : slice (pre ++ encodeAttested a i k ++ post) (37 + 18) (37 + 18 + i.length) = i := by
    have := slice_at (pre ++ a ++ beBytes i.length 2) i (Cbor.enc k ++ post) (37 + 18) (37 + 18 + i.length)
      (by simp; omega) (by simp; omega)
    simpa [encodeAttested, List.append_assoc] using this
  have e4 : (pre ++ encodeAttested a i k ++ post).drop (37 + 18 + i.length) = Cbor.enc k ++ post := by
    have := drop_at (pre ++ a ++ beBytes i.length 2 ++ i) (Cbor.enc k ++ post) (37 + 18 + i.length) (by simp; omega)
    simpa [encodeAttested, List.append_assoc] using this
  have e5 : slice (pre ++ encodeAttested a i k ++ post) (37 + 18 + i.length) (37 + 18 + i.length + badEddsaCbor.length)
      = slice (Cbor.enc k ++ post) 0 17 := by
    unfold slice
    rw [e4]
    simp [badEddsaCbor]
  have hn : beNat (beBytes i.length 2) = i.length := Cbor.beNat_beBytes 2 _ (by simpa using hi)
  unfold parseAttested
  simp only [e1, e2, hn, e3, e5]
  have hb : (slice (Cbor.enc k ++ post) 0 17 == badEddsaCbor) = false := by
    rw [beq_eq_false_iff_ne]; exact hbad
  simp only [hb, Bool.false_eq_true, ↓reduceIte, e4, parseCbor_enc k post hk, bind, Except.bind, pure, Except.pure,
    encodeCbor]

theorem encodeAuthData_length_ge (rp : Bytes) (fb : UInt8) (ctr : Nat) (att ext) (hrp : rp.length = 32) :
    37 ≤ (encodeAuthData rp fb ctr att ext).length := by
  simp [encodeAuthData, Cbor.beBytes_length, hrp]; omega

theorem header_slices (rp : Bytes) (fb : UInt8) (ctr : Nat) (post : Bytes) (hrp : rp.length = 32) (hctr : ctr < 2 ^ 32) :
    slice (rp ++ [fb] ++ beBytes ctr 4 ++ post) 0 32 = rp ∧
    flagsByteOf (rp ++ [fb] ++ beBytes ctr 4 ++ post) = .ok fb ∧
    beNat (slice (rp ++ [fb] ++ beBytes ctr 4 ++ post) 33 37) = ctr := by
  have hl : (beBytes ctr 4).length = 4 := Cbor.beBytes_length _ _
  refine ⟨?_, ?_, ?_⟩
  · have := slice_at [] rp ([fb] ++ beBytes ctr 4 ++ post) 0 32 rfl (by simp [hrp])
    simpa [List.append_assoc] using this
  · have := slice_at rp [fb] (beBytes ctr 4 ++ post) 32 33 hrp.symm (by simp [hrp])
    unfold flagsByteOf
    simp only [List.append_assoc] at this ⊢
    rw [this]
  · have := slice_at (rp ++ [fb]) (beBytes ctr 4) post 33 37 (by simp [hrp]) (by simp [hrp, hl])
    rw [this]
    exact Cbor.beNat_beBytes 4 _ (by simpa using hctr)

def notPatchedS (att : Option (Bytes × Bytes × Cbor)) (ext : Option Cbor) (sfx : Bytes) : Prop :=
  ∀ a i k, att = some (a, i, k) →
    slice (Cbor.enc k ++ ((match ext with | none => [] | some e => Cbor.enc e) ++ sfx)) 0 17 ≠ badEddsaCbor

theorem leftover_if {α} (n m : Nat) (sfx : Bytes) (r : α) (e : Err) (h : n = m + sfx.length) :
    Except.bind (if decide (n > m) = true then (Except.error e : Except Err Unit) else Except.ok ())
      (fun _ => Except.ok r) = if sfx = [] then Except.ok r else Except.error e := by
  cases sfx with
  | nil => simp at h; subst h; simp [Except.bind]
  | cons b t => simp at h; subst h; simp [Except.bind]

/-- the canonical layout followed by `sfx`: parses to exactly the fields when `sfx` is empty and is
refused as leftover bytes otherwise -/
theorem parseAuthData_encode_sfx (rp : Bytes) (fb : UInt8) (ctr : Nat) (att : Option (Bytes × Bytes × Cbor))
    (ext : Option Cbor) (sfx : Bytes) (hrp : rp.length = 32) (hctr : ctr < 2 ^ 32)
    (hat : (parseFlags fb).att = att.isSome) (hed : (parseFlags fb).ed = ext.isSome)
    (haw : attWF att) (hew : extWF ext) (hnp : notPatchedS att ext sfx) :
    parseAuthData (encodeAuthData rp fb ctr att ext ++ sfx) =
      if sfx = [] then
        .ok { rpIdHash := rp, flags := parseFlags fb, signCount := ctr, attested := attestedOf att,
              extensions := ext.map Cbor.enc }
      else .error (libErr .InvalidAuthenticatorDataStructure "authdata.leftover") := by
  have hlen := encodeAuthData_length_ge rp fb ctr att ext hrp
  have hshort : authDataTooShort ((encodeAuthData rp fb ctr att ext ++ sfx).length : Int) = false := by
    simp only [authDataTooShort, decide_eq_false_iff_not, List.length_append]; omega
  have hpre : (rp ++ [fb] ++ beBytes ctr 4).length = 37 := by simp [hrp, Cbor.beBytes_length]
  unfold parseAuthData
  simp only [hshort, rejectE, Bool.false_eq_true, ↓reduceIte, bind, Except.bind, pure, Except.pure]
  unfold encodeAuthData
  rcases att with _ | ⟨a, i, k⟩
  · -- no attested data
    simp only [Option.isSome_none] at hat
    rcases ext with _ | e
    · simp only [Option.isSome_none] at hed
      obtain ⟨h0, h1, h2⟩ := header_slices rp fb ctr ([] ++ [] ++ sfx) hrp hctr
      simp only [← List.append_assoc] at h0 h1 h2
      simp only [h1, h0, h2, hat, hed, parseAttestedIf, parseExtensionsIf, attestedOf, Bool.false_eq_true, ↓reduceIte,
        pure, Except.pure, Option.map]
      refine leftover_if _ _ sfx _ _ ?_
      simp [hrp, Cbor.beBytes_length]
      omega
    · simp only [Option.isSome_some] at hed
      obtain ⟨h0, h1, h2⟩ := header_slices rp fb ctr ([] ++ Cbor.enc e ++ sfx) hrp hctr
      simp only [← List.append_assoc] at h0 h1 h2
      have hd : (rp ++ [fb] ++ beBytes ctr 4 ++ [] ++ Cbor.enc e ++ sfx).drop 37 = Cbor.enc e ++ sfx := by
        have := drop_at (rp ++ [fb] ++ beBytes ctr 4) (Cbor.enc e ++ sfx) 37 hpre.symm
        simpa [List.append_assoc] using this
      have hp := parseCbor_enc e sfx (hew e rfl)
      simp only [h1, h0, h2, hat, hed, parseAttestedIf, parseExtensionsIf, parseExtensions, hd, hp, encodeCbor, attestedOf,
        Bool.false_eq_true, ↓reduceIte, bind, Except.bind, pure, Except.pure, Option.map]
      refine leftover_if _ _ sfx _ _ ?_
      simp [hrp, Cbor.beBytes_length]
      omega
  · -- attested credential data present
    obtain ⟨ha, hi, hk⟩ := haw a i k rfl
    simp only [Option.isSome_some] at hat
    have hbad := hnp a i k rfl
    rcases ext with _ | e
    · simp only [Option.isSome_none] at hed
      obtain ⟨h0, h1, h2⟩ := header_slices rp fb ctr (encodeAttested a i k ++ [] ++ sfx) hrp hctr
      simp only [← List.append_assoc] at h0 h1 h2
      have hpa := parseAttested_enc (rp ++ [fb] ++ beBytes ctr 4) a i k ([] ++ sfx) hpre ha hi hk hbad
      simp only [← List.append_assoc] at hpa
      simp only [h1, h0, h2, hat, hed, parseAttestedIf, parseExtensionsIf, hpa, attestedOf,
        Bool.false_eq_true, ↓reduceIte, bind, Except.bind, pure, Except.pure, Option.map]
      refine leftover_if _ _ sfx _ _ ?_
      simp [hrp, Cbor.beBytes_length, encodeAttested, ha]
      omega
    · simp only [Option.isSome_some] at hed
      obtain ⟨h0, h1, h2⟩ := header_slices rp fb ctr (encodeAttested a i k ++ Cbor.enc e ++ sfx) hrp hctr
      simp only [← List.append_assoc] at h0 h1 h2
      have hpa := parseAttested_enc (rp ++ [fb] ++ beBytes ctr 4) a i k (Cbor.enc e ++ sfx) hpre ha hi hk hbad
      simp only [← List.append_assoc] at hpa
      have hd : (rp ++ [fb] ++ beBytes ctr 4 ++ encodeAttested a i k ++ Cbor.enc e ++ sfx).drop
          (37 + 18 + i.length + (Cbor.enc k).length) = Cbor.enc e ++ sfx := by
        have := drop_at (rp ++ [fb] ++ beBytes ctr 4 ++ encodeAttested a i k) (Cbor.enc e ++ sfx)
          (37 + 18 + i.length + (Cbor.enc k).length)
          (by simp [hrp, Cbor.beBytes_length, encodeAttested, ha]; omega)
        simpa [List.append_assoc] using this
      have hp := parseCbor_enc e sfx (hew e rfl)
      simp only [h1, h0, h2, hat, hed, parseAttestedIf, parseExtensionsIf, parseExtensions, hpa, hd, hp, encodeCbor,
        attestedOf, Bool.false_eq_true, ↓reduceIte, bind, Except.bind, pure, Except.pure, Option.map]
      refine leftover_if _ _ sfx _ _ ?_
      simp [hrp, Cbor.beBytes_length, encodeAttested, ha]
      omega

theorem parseAuthData_encode (rp : Bytes) (fb : UInt8) (ctr : Nat) (att : Option (Bytes × Bytes × Cbor))
    (ext : Option Cbor) (hrp : rp.length = 32) (hctr : ctr < 2 ^ 32)
    (hat : (parseFlags fb).att = att.isSome) (hed : (parseFlags fb).ed = ext.isSome)
    (haw : attWF att) (hew : extWF ext) (hnp : notPatched att ext) :
    parseAuthData (encodeAuthData rp fb ctr att ext) =
      .ok { rpIdHash := rp, flags := parseFlags fb, signCount := ctr, attested := attestedOf att,
            extensions := ext.map Cbor.enc } := by
  have := parseAuthData_encode_sfx rp fb ctr att ext [] hrp hctr hat hed haw hew
    (by intro a i k h; simpa using hnp a i k h)
  simpa using this

end Webauthn
