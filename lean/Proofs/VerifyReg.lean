/-
  Acceptance normal form of `verifyReg`.
-/
import Model.VerifyReg
import Proofs.VerifyAuth
namespace Webauthn
open Generated

/-- Everything that must hold, and nothing else, for `verifyReg` to return `r`. -/
structure RegAccepts (W : World) (c : RegCred) (e : RegExpect) (r : VerifiedReg) where
  cd : ClientData
  ao : AttObj
  att : AttestedCred
  key : CoseKey
  roots : List Root
  bf : String × Bool
  aaguid : String
  idOk : Base64.encodeStr c.rawId = c.id
  typeOk : c.type = "public-key"
  cdOk : runM W (parseClientData c.clientDataJSON) = .ok cd
  cdType : jvalIsStr cd.type "webauthn.create" = true
  challengeOk : e.challenge = cd.challenge
  originOk' : originOk e.origin cd.origin = true
  tbOk : tokenBindingRejects cd.tokenBinding tokenBindingStatusesReg = false
  aoOk : parseAttObj c.attestationObject = .ok ao
  rpOk : ao.authData.rpIdHash = W.sha256 (utf8 e.rpId)
  upOk : regUpRejects e.requireUP e.requireUV ao.authData.flags.up ao.authData.flags.uv = false
  uvOk : regUvRejects e.requireUP e.requireUV ao.authData.flags.up ao.authData.flags.uv = false
  attOk : ao.authData.attested = some att
  credIdOk : att.credentialId.isEmpty = false
  keyBytesOk : att.publicKey.isEmpty = false
  aaguidNonempty : att.aaguid.isEmpty = false
  keyOk : decodeCose att.publicKey = .ok key
  algOk : algAllowed key.alg e.supportedAlgs = true
  rootsOk : rootsFor e ao.fmt = .ok roots
  fmtOk : runM W (verifyFormat ao.fmt ao att c.clientDataJSON roots) = .ok ()
  bfOk : parseBackupFlags ao.authData.flags = .ok bf
  aaguidOk : aaguidToString att.aaguid = .ok aaguid
  record : r = { credentialId := att.credentialId, credentialPublicKey := att.publicKey,
                 signCount := ao.authData.signCount, aaguid, fmt := (fmtText ao.fmt).getD "",
                 credentialType := c.type, userVerified := ao.authData.flags.uv,
                 attestationObject := c.attestationObject, deviceType := bf.1, backedUp := bf.2 }

theorem verifyReg_ok_iff {W : World} {c : RegCred} {e : RegExpect} {r : VerifiedReg} :
    runM W (verifyReg c e) = .ok r ↔ Nonempty (RegAccepts W c e r) := by
  constructor
  · intro h
    unfold verifyReg at h
    rw [runM_reject_ok] at h; obtain ⟨h1, h⟩ := h
    rw [runM_reject_ok] at h; obtain ⟨h2, h⟩ := h
    rw [runM_bind_ok] at h; obtain ⟨cd, hcd, h⟩ := h
    rw [runM_reject_ok] at h; obtain ⟨h3, h⟩ := h
    rw [runM_reject_ok] at h; obtain ⟨h4, h⟩ := h
    rw [runM_reject_ok] at h; obtain ⟨h5, h⟩ := h
    rw [runM_reject_ok] at h; obtain ⟨h6, h⟩ := h
    rw [runM_liftE_ok] at h; obtain ⟨ao, hao, h⟩ := h
    simp only at h
    rw [runM_sha256M_bind] at h
    rw [runM_reject_ok] at h; obtain ⟨h7, h⟩ := h
    rw [runM_reject_ok] at h; obtain ⟨h8, h⟩ := h
    rw [runM_reject_ok] at h; obtain ⟨h9, h⟩ := h
    rw [runM_liftE_ok] at h; obtain ⟨att, hatt, h⟩ := h
    rw [runM_reject_ok] at h; obtain ⟨h10, h⟩ := h
    rw [runM_reject_ok] at h; obtain ⟨h11, h⟩ := h
    rw [runM_reject_ok] at h; obtain ⟨h12, h⟩ := h
    rw [runM_liftE_ok] at h; obtain ⟨key, hkey, h⟩ := h
    rw [runM_reject_ok] at h; obtain ⟨h13, h⟩ := h
    rw [runM_liftE_ok] at h; obtain ⟨roots, hroots, h⟩ := h
    rw [runM_bind_ok] at h; obtain ⟨u, hfmt, h⟩ := h
    rw [runM_liftE_ok] at h; obtain ⟨bf, hbf, h⟩ := h
    rw [runM_liftE_ok] at h; obtain ⟨aaguid, haaguid, h⟩ := h
    cases u
    exact ⟨{ cd, ao, att, key, roots, bf, aaguid,
             idOk := by simpa using h1, typeOk := by simpa using h2, cdOk := hcd,
             cdType := by simpa using h3, challengeOk := by simpa using h4,
             originOk' := by simpa using h5, tbOk := h6, aoOk := hao,
             rpOk := by simpa using h7, upOk := h8, uvOk := h9, attOk := someOr_ok.mp hatt,
             credIdOk := h10, keyBytesOk := h11, aaguidNonempty := h12,
             keyOk := hkey, algOk := by simpa using h13, rootsOk := hroots, fmtOk := hfmt,
             bfOk := hbf, aaguidOk := haaguid, record := by simpa using h.symm }⟩
  · rintro ⟨a⟩
    unfold verifyReg
    rw [runM_reject_ok]; refine ⟨by simp [a.idOk], ?_⟩
    rw [runM_reject_ok]; refine ⟨by simp [a.typeOk], ?_⟩
    rw [runM_bind_ok]; refine ⟨a.cd, a.cdOk, ?_⟩
    rw [runM_reject_ok]; refine ⟨by simp [a.cdType], ?_⟩
    rw [runM_reject_ok]; refine ⟨by simp [a.challengeOk], ?_⟩
    rw [runM_reject_ok]; refine ⟨by simp [a.originOk'], ?_⟩
    rw [runM_reject_ok]; refine ⟨a.tbOk, ?_⟩
    rw [runM_liftE_ok]; refine ⟨a.ao, a.aoOk, ?_⟩
    simp only
    rw [runM_sha256M_bind]
    rw [runM_reject_ok]; refine ⟨by simp [a.rpOk], ?_⟩
    rw [runM_reject_ok]; refine ⟨a.upOk, ?_⟩
    rw [runM_reject_ok]; refine ⟨a.uvOk, ?_⟩
    rw [runM_liftE_ok]; refine ⟨a.att, someOr_ok.mpr a.attOk, ?_⟩
    rw [runM_reject_ok]; refine ⟨a.credIdOk, ?_⟩
    rw [runM_reject_ok]; refine ⟨a.keyBytesOk, ?_⟩
    rw [runM_reject_ok]; refine ⟨a.aaguidNonempty, ?_⟩
    rw [runM_liftE_ok]; refine ⟨a.key, a.keyOk, ?_⟩
    rw [runM_reject_ok]; refine ⟨by simp [a.algOk], ?_⟩
    rw [runM_liftE_ok]; refine ⟨a.roots, a.rootsOk, ?_⟩
    rw [runM_bind_ok]; refine ⟨(), a.fmtOk, ?_⟩
    rw [runM_liftE_ok]; refine ⟨a.bf, a.bfOk, ?_⟩
    rw [runM_liftE_ok]; refine ⟨a.aaguid, a.aaguidOk, ?_⟩
    simp [a.record]

end Webauthn
