import Props.C07
#print axioms Webauthn.Props.C07.guard_iff
#print axioms Webauthn.Props.C07.rule
#print axioms Webauthn.Props.C07.monotone
#print axioms Webauthn.Props.C07.no_replay
#print axioms Webauthn.Props.C07.ctr_lt
#print axioms Webauthn.Props.C07.rpStep_mono
#print axioms Webauthn.Props.C07.accepted_gt_start
#print axioms Webauthn.Props.C07.accepted_strictly_increasing
#print axioms Webauthn.Props.C07.final_state
