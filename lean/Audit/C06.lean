import Props.C06
#print axioms Webauthn.Props.C06.binding_auth
#print axioms Webauthn.Props.C06.bitflip_auth
#print axioms Webauthn.Props.C06.binding_registration
#print axioms Webauthn.Props.C06.append_inj_right_len
