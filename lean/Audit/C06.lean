import Props.C06
#print axioms Webauthn.Props.C06.binding_auth
#print axioms Webauthn.Props.C06.bitflip_auth
#print axioms Webauthn.Props.C06.binding_registration
#print axioms Webauthn.Props.C06.append_inj_right_len
#print axioms Webauthn.Props.C06.bitflip_reg_packed_self
#print axioms Webauthn.Props.C06.authData_of_raw
#print axioms Webauthn.Props.C06.sig_same_data_same
#print axioms Webauthn.Props.C06.bitflip_reg_direct_signature
#print axioms Webauthn.Props.C06.bitflip_reg_tpm
#print axioms Webauthn.Props.C06.bitflip_reg_apple
#print axioms Webauthn.Props.C06.bitflip_reg_u2f
#print axioms Webauthn.Props.C06.bitflip_reg_safetynet
#print axioms Webauthn.Props.C06.b64Std_injective
