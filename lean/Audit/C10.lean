import Props.C10
import Props.C02
import Props.C05
#print axioms Webauthn.Props.C10.bits
#print axioms Webauthn.Props.C10.graph
#print axioms Webauthn.Props.C10.reserved_ignored
#print axioms Webauthn.Props.C10.backup
#print axioms Webauthn.Props.C10.auth_gate
#print axioms Webauthn.Props.C10.layout
#print axioms Webauthn.Props.C10.reg_gate
#print axioms Webauthn.Props.C02.sound
#print axioms Webauthn.Props.C05.reg_fidelity
