import Props.C20
#print axioms Webauthn.Props.C20.auth_mono
#print axioms Webauthn.Props.C20.reg_mono
#print axioms Webauthn.Props.C20.algAllowed_mono
#print axioms Webauthn.Props.C20.origins_superset
#print axioms Webauthn.Props.C20.single_as_list
#print axioms Webauthn.Props.C20.single_into_list
