import Props.C15
#print axioms Webauthn.Props.C15.fresh_draw_reg
#print axioms Webauthn.Props.C15.fresh_draw_auth
#print axioms Webauthn.Props.C15.no_draw_when_given
#print axioms Webauthn.Props.C15.distinct
#print axioms Webauthn.Props.C15.passthrough_reg
#print axioms Webauthn.Props.C15.passthrough_auth
#print axioms Webauthn.Props.C15.resident_key
#print axioms Webauthn.Props.C15.refuses_empty
#print axioms Webauthn.Props.C15.defaults
