import Props.C01
import Props.Examples
#print axioms Webauthn.Props.C01.sound
#print axioms Webauthn.Props.C01.reject_any_deviation
#print axioms Webauthn.verifyAuth_ok_iff
#print axioms Webauthn.cose_sigPlan_sound
#print axioms Webauthn.sigDispatchTable_ok
#print axioms Webauthn.parseFlags_eq_flagRow
#print axioms Webauthn.parseAuthData_header
#print axioms Webauthn.clientDataOfJVal_ok
#print axioms Webauthn.Props.Examples.auth_accepts
#print axioms Webauthn.Props.Examples.auth_rejects
