import Props.C09
#print axioms Webauthn.Props.C09.scheme_is_declared
#print axioms Webauthn.Props.C09.dispatch_complete
#print axioms Webauthn.Props.C09.no_other_scheme
#print axioms Webauthn.Props.C09.accepted_means_valid
#print axioms Webauthn.Props.C09.raw_u2f
#print axioms Webauthn.Props.C09.to_keyspec_ec2
#print axioms Webauthn.Props.C09.to_keyspec_rsa
#print axioms Webauthn.Props.C09.to_keyspec_okp
#print axioms Webauthn.Props.C09.decode_encode_ec2
#print axioms Webauthn.Props.C09.decode_encode_rsa
#print axioms Webauthn.Props.C09.decode_encode_okp
#print axioms Webauthn.Props.C09.beNat_leading_zero
#print axioms Webauthn.Props.C09.okp_only_eddsa
#print axioms Webauthn.sigDispatchTable_ok
#print axioms Webauthn.sigDispatchDefault_ok
#print axioms Webauthn.sigPlan_sound
