import Props.C14
#print axioms Webauthn.Props.C14.alphabet
#print axioms Webauthn.Props.C14.no_padding
#print axioms Webauthn.Props.C14.roundtrip
#print axioms Webauthn.Props.C14.roundtrip_unpadded
#print axioms Webauthn.Props.C14.injective
#print axioms Webauthn.Props.C14.roundtrip_str
#print axioms Webauthn.Props.C14.length
