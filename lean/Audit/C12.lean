import Props.C12
#print axioms Webauthn.Props.C12.tables
#print axioms Webauthn.Props.C12.attribute_names
#print axioms Webauthn.Props.C12.attributes
#print axioms Webauthn.Props.C12.not_certify
#print axioms Webauthn.Props.C12.lenPrefixed_spec
#print axioms Webauthn.Props.C12.beNat_len2
#print axioms Webauthn.Props.C12.certinfo_exact
#print axioms Webauthn.Props.C12.pubarea_rsa_exact
#print axioms Webauthn.Props.C12.pubarea_ecc_exact
