import Props.C18
#print axioms Webauthn.Props.C18.module_cells_reviewed
#print axioms Webauthn.Props.C18.history_independent
#print axioms Webauthn.Props.C18.same_call_same_outcome
#print axioms Webauthn.Props.C18.interleaving
#print axioms Webauthn.Props.C18.schedules_agree
#print axioms Webauthn.Props.C18.roots_built_per_call
