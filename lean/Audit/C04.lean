import Props.C04
#print axioms Webauthn.Props.C04.enforced
#print axioms Webauthn.Props.C04.anchors_require_valid_chain
#print axioms Webauthn.Props.C04.isolation
#print axioms Webauthn.Props.C04.unchecked_when_no_anchor
#print axioms Webauthn.Props.C04.rootsFor_text
#print axioms Webauthn.Props.C04.no_builtin_roots
#print axioms Webauthn.Props.C04.signer_is_validated_leaf
#print axioms Webauthn.Props.C04.android_key_root_is_anchor
#print axioms Webauthn.validateChainReg_ok
