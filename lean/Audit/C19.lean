import Props.C19
import Props.C19Formats
#print axioms Webauthn.Props.C19.hierarchy
#print axioms Webauthn.Props.C19.vocabulary
#print axioms Webauthn.Props.C19.parsers_reg
#print axioms Webauthn.Props.C19.parsers_auth
#print axioms Webauthn.Props.C19.parsers_authdata
#print axioms Webauthn.Props.C19.parsers_cbor
#print axioms Webauthn.Props.C19.semantic_auth
#print axioms Webauthn.Props.C19.never_returns_unverified
#print axioms Webauthn.Props.C19.semantic_reg
#print axioms Webauthn.Props.C19.fmt_none_in_hierarchy
#print axioms Webauthn.Props.C19.fmt_unknown_in_hierarchy
#print axioms Webauthn.Props.C19.fmt_packed_in_hierarchy
#print axioms Webauthn.Props.C19.fmt_apple_in_hierarchy
#print axioms Webauthn.Props.C19.fmt_u2f_in_hierarchy
#print axioms Webauthn.Props.C19.fmt_android_key_in_hierarchy
#print axioms Webauthn.Props.C19.fmt_tpm_in_hierarchy
#print axioms Webauthn.Props.C19.fmt_safetynet_in_hierarchy
#print axioms Webauthn.Props.C19.semantic_reg_closed
#print axioms Webauthn.sigPlan_fail
