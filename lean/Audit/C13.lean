import Props.C13
#print axioms Webauthn.Props.C13.faithful_reg
#print axioms Webauthn.Props.C13.faithful_auth
#print axioms Webauthn.Props.C13.transports
#print axioms Webauthn.Props.C13.text_eq_dict_reg
#print axioms Webauthn.Props.C13.text_eq_dict_auth
#print axioms Webauthn.Props.C13.rejects_reg
#print axioms Webauthn.Props.C13.rejects_auth
#print axioms Webauthn.Props.C13.client_data
#print axioms Webauthn.Props.C13.attachment_values
#print axioms Webauthn.Props.C13.credential_type_values
#print axioms Webauthn.Props.C13.attachment_exact
#print axioms Webauthn.Props.C13.type_exact
