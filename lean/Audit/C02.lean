import Props.C02
#print axioms Webauthn.Props.C02.sound
#print axioms Webauthn.Props.C02.reject_any_deviation
#print axioms Webauthn.verifyReg_ok_iff
#print axioms Webauthn.parseAttObj_ok
#print axioms Webauthn.verifyFormat_ok
#print axioms Webauthn.Props.C10.layout
