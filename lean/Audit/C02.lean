import Props.C02
import Props.Examples
#print axioms Webauthn.Props.C02.sound
#print axioms Webauthn.Props.C02.reject_any_deviation
#print axioms Webauthn.verifyReg_ok_iff
#print axioms Webauthn.parseAttObj_ok
#print axioms Webauthn.verifyFormat_ok
#print axioms Webauthn.Props.C10.layout
#print axioms Webauthn.Props.Examples.reg_accepts
