import Props.C08
#print axioms Webauthn.Props.C08.returned_key_decodes
#print axioms Webauthn.Props.C08.chain
#print axioms Webauthn.Props.C08.cross
