import Props.C08
import Props.Examples
#print axioms Webauthn.Props.C08.returned_key_decodes
#print axioms Webauthn.Props.C08.chain
#print axioms Webauthn.Props.C08.cross
#print axioms Webauthn.Props.C08.returned_key_is_sent_key
#print axioms Webauthn.Props.C08.returned_key_fixed_point
#print axioms Webauthn.reencode_stable
#print axioms Webauthn.Cbor.dec_wf
#print axioms Webauthn.Cbor.dec_enc
#print axioms Webauthn.Props.Examples.chain_example
#print axioms Webauthn.Props.Examples.reg_accepts
