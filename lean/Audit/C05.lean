import Props.C05
#print axioms Webauthn.Props.C05.auth_complete
#print axioms Webauthn.Props.C05.reg_complete
#print axioms Webauthn.Props.C05.dispatch_complete
#print axioms Webauthn.Props.C05.vendor_ids
#print axioms Webauthn.Props.C05.curves_complete
