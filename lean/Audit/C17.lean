import Props.C17
#print axioms Webauthn.Props.C17.window
#print axioms Webauthn.Props.C17.window_real_time
#print axioms Webauthn.Props.C17.wired
#print axioms Webauthn.Props.C17.clock_per_call
#print axioms Webauthn.Props.C17.timestamp_must_be_integer
