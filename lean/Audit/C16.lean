import Props.C16
#print axioms Webauthn.Props.C16.no_null_reg
#print axioms Webauthn.Props.C16.no_null_auth
#print axioms Webauthn.Props.C16.members_reg
#print axioms Webauthn.Props.C16.members_auth
#print axioms Webauthn.Props.C16.roundtrip_auth
#print axioms Webauthn.Props.C16.roundtrip_descriptors
#print axioms Webauthn.Props.C16.roundtrip_reg
#print axioms Webauthn.Props.C16.header_refuses
#print axioms Webauthn.Props.C16.required_missing_refused
#print axioms Webauthn.Props.C16.auth_refuses
