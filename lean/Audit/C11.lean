import Props.C11
#print axioms Webauthn.Props.C11.total
#print axioms Webauthn.Props.C11.too_short
#print axioms Webauthn.Props.C11.header
#print axioms Webauthn.Props.C11.leftover_plain
#print axioms Webauthn.Props.C11.parseCbor_err
#print axioms Webauthn.Props.C11.flagsByteOf_total
#print axioms Webauthn.Props.C11.exact
#print axioms Webauthn.Props.C11.suffix_rejected
#print axioms Webauthn.Props.C10.layout
#print axioms Webauthn.Cbor.dec_enc
#print axioms Webauthn.parseCbor_enc
#print axioms Webauthn.parseAuthData_encode_sfx
