import Props.C03
#print axioms Webauthn.Props.C03.packed
#print axioms Webauthn.Props.C03.fido_u2f
#print axioms Webauthn.Props.C03.fido_u2f_scheme
#print axioms Webauthn.Props.C03.tpm
#print axioms Webauthn.Props.C03.tpmKeyAgreement_ok
#print axioms Webauthn.Props.C03.tpmCertProfile_ok
#print axioms Webauthn.Props.C03.apple
#print axioms Webauthn.Props.C03.android_key
#print axioms Webauthn.Props.C03.safetynet
#print axioms Webauthn.Props.C03.registration
#print axioms Webauthn.sigPlan_sound
#print axioms Webauthn.validateChainReg_ok
#print axioms Webauthn.verifySignatureC_ok
