/-
  Line-protocol driver: one JSON case per input line; while a case is evaluated the driver may
  print `Q <query>` lines and reads one answer line for each; it ends the case with `R <result>`.
-/
import Driver.Ops
namespace Webauthn.Driver
open Lean (Json)

partial def loop (hin hout : IO.FS.Stream) : IO Unit := do
  let line ← hin.getLine
  if line.isEmpty then return ()
  let trimmed := line.trimAscii.toString
  if trimmed.isEmpty then loop hin hout else
  let res ← (do
    match Json.parse trimmed with
    | .error e => pure (Json.mkObj [("k", "driver-error"), ("why", s!"parse: {e}")])
    | .ok j =>
      try
        runOp hin hout j
      catch e => pure (Json.mkObj [("k", "driver-error"), ("why", toString e)]))
  hout.putStrLn ("R " ++ res.compress)
  hout.flush
  loop hin hout

end Webauthn.Driver

def main : IO Unit := do
  let hin ← IO.getStdin
  let hout ← IO.getStdout
  Webauthn.Driver.loop hin hout
