/-
  Operations the driver can evaluate, and the `IO` interpreter of `Prog`.
-/
import Driver.Codec
namespace Webauthn.Driver
open Lean (Json)

/-- Interpret an interaction tree against the harness: print the query, read the answer. -/
partial def runIO {α} (hin hout : IO.FS.Stream) : Prog α → IO α
  | .ret a => pure a
  | .ask q k => do
    hout.putStrLn ("Q " ++ (queryToJson q).compress)
    hout.flush
    let line ← hin.getLine
    match Json.parse line with
    | .error e => throw (IO.userError s!"answer parse: {e}")
    | .ok j =>
      match answerOfJson q j with
      | .error e => throw (IO.userError s!"answer decode: {e} in {line}")
      | .ok a => runIO hin hout (k a)

def runMIO {α} (hin hout : IO.FS.Stream) (x : M α) : IO (Except Err α) := runIO hin hout x.run

def liftP {α} (x : P α) : IO α :=
  match x with
  | .ok a => pure a
  | .error e => throw (IO.userError e)

def flagsToJson (f : Flags) : Json :=
  Json.mkObj [("up", f.up), ("uv", f.uv), ("be", f.be), ("bs", f.bs), ("at", f.att), ("ed", f.ed)]

def optBytesToJson : Option Bytes → Json
  | none => Json.null
  | some b => bytesToJson b

def authDataToJson (a : AuthData) : Json :=
  Json.mkObj [("rp_id_hash", bytesToJson a.rpIdHash), ("flags", flagsToJson a.flags),
    ("sign_count", natToJson a.signCount),
    ("attested", match a.attested with
      | none => Json.null
      | some c => Json.mkObj [("aaguid", bytesToJson c.aaguid), ("credential_id", bytesToJson c.credentialId),
          ("public_key", bytesToJson c.publicKey)]),
    ("extensions", optBytesToJson a.extensions)]

def clientDataToJson (c : ClientData) : Json :=
  Json.mkObj [("type", jvalToJson c.type), ("challenge", bytesToJson c.challenge),
    ("origin", jvalToJson c.origin),
    ("cross_origin", match c.crossOrigin with | none => Json.null | some b => Json.bool b),
    ("token_binding", match c.tokenBinding with
      | none => Json.null
      | some t => Json.mkObj [("status", jvalToJson t.status),
          ("id", match t.id with | none => Json.null | some s => Json.str s)])]

def cborToJson (v : Cbor) : Json := bytesToJson (Cbor.enc v)

def coseKeyToJson : CoseKey → Json
  | .okp kty alg crv x => Json.mkObj [("kind", "okp"), ("kty", cborToJson kty), ("alg", cborToJson alg),
      ("crv", cborToJson crv), ("x", cborToJson x)]
  | .ec2 kty alg crv x y => Json.mkObj [("kind", "ec2"), ("kty", cborToJson kty), ("alg", cborToJson alg),
      ("crv", cborToJson crv), ("x", cborToJson x), ("y", cborToJson y)]
  | .rsa kty alg n e => Json.mkObj [("kind", "rsa"), ("kty", cborToJson kty), ("alg", cborToJson alg),
      ("n", cborToJson n), ("e", cborToJson e)]

def originsOfJson (j : Json) : P Origins :=
  match j with
  | .str s => pure (.single s)
  | .arr xs => do pure (.many (← xs.toList.mapM (·.getStr?)))
  | _ => throw "bad origin"

def authCredOfJson (j : Json) : P AuthCred := do
  pure { id := ← strField j "id", rawId := ← bytesField j "raw_id", type := ← strField j "type",
         clientDataJSON := ← bytesField j "cdj", authenticatorData := ← bytesField j "auth_data",
         signature := ← bytesField j "sig", userHandle := ← optField bytesOfJson j "user_handle" }

def authExpectOfJson (j : Json) : P AuthExpect := do
  pure { challenge := ← bytesField j "challenge", rpId := ← strField j "rp_id",
         origin := ← originsOfJson (← field j "origin"), publicKey := ← bytesField j "public_key",
         currentSignCount := ← intField j "stored_count", requireUV := ← boolField j "require_uv" }

def verifiedAuthToJson (r : VerifiedAuth) : Json :=
  Json.mkObj [("credential_id", bytesToJson r.credentialId), ("new_sign_count", natToJson r.newSignCount),
    ("credential_device_type", r.deviceType), ("credential_backed_up", r.backedUp),
    ("user_verified", r.userVerified)]

def dispToJson : Generated.Disp → Json
  | .ecdsa h => Json.str s!"ecdsa:{h}"
  | .pkcs1v15 h => Json.str s!"pkcs1v15:{h}"
  | .pss m h s => Json.str s!"pss:{m}:{h}:{s}"
  | .raw => Json.str "raw"
  | .libExc c => Json.str s!"lib:{c}"
  | .otherExc c => Json.str s!"nonlib:{c}"
  | .other w => Json.str s!"other:{w}"

partial def runOp (hin hout : IO.FS.Stream) (j : Json) : IO Json := do
  let op ← liftP (strField j "op")
  match op with
  | "ping" => pure (Json.mkObj [("k", "pong")])
  | "batch" => do
    let cs ← liftP (arrField j "cases")
    let rs ← cs.mapM (fun c => do
      try runOp hin hout c
      catch e => pure (Json.mkObj [("k", "driver-error"), ("why", toString e)]))
    pure (Json.mkObj [("k", "batch"), ("results", Json.arr rs)])
  | "b64_encode" => do
    let b ← liftP (bytesField j "b")
    pure (Json.mkObj [("k", "accept"), ("record", Json.str (Base64.encodeStr b))])
  | "b64_decode" => do
    let s ← liftP (strField j "s")
    pure (outcomeToJson bytesToJson (Base64.decodeStr s))
  | "cbor_roundtrip" => do
    let b ← liftP (bytesField j "b")
    pure (outcomeToJson bytesToJson (do let v ← parseCbor b; pure (encodeCbor v)))
  | "parse_auth_data" => do
    let b ← liftP (bytesField j "b")
    pure (outcomeToJson authDataToJson (parseAuthData b))
  | "parse_backup_flags" => do
    let f ← liftP (natField j "flags")
    pure (outcomeToJson (fun (r : String × Bool) => Json.mkObj [("device_type", r.1), ("backed_up", r.2)])
      (parseBackupFlags (parseFlags f.toUInt8)))
  | "aaguid_to_string" => do
    let b ← liftP (bytesField j "b")
    pure (outcomeToJson Json.str (aaguidToString b))
  | "parse_client_data" => do
    let b ← liftP (bytesField j "b")
    let r ← runMIO hin hout (parseClientData b)
    pure (outcomeToJson clientDataToJson r)
  | "decode_cose" => do
    let b ← liftP (bytesField j "b")
    pure (outcomeToJson coseKeyToJson (decodeCose b))
  | "cose_to_pubkey" => do
    let b ← liftP (bytesField j "b")
    let r ← runMIO hin hout (do let k ← liftE (decodeCose b); loadCoseKey k)
    pure (outcomeToJson pubKeyToJson r)
  | "sig_dispatch" => do
    let kind ← liftP (strField j "kind")
    let alg ← liftP (intField j "alg")
    let a : Cbor := if alg ≥ 0 then .uint alg.toNat else .nint (-1 - alg).toNat
    pure (Json.mkObj [("k", "accept"), ("record", dispToJson (sigDispatch kind a))])
  | "verify_auth" => do
    let c ← liftP (do authCredOfJson (← field j "cred"))
    let e ← liftP (do authExpectOfJson (← field j "expect"))
    let r ← runMIO hin hout (verifyAuth c e)
    pure (outcomeToJson verifiedAuthToJson r)
  | _ => pure (Json.mkObj [("k", "driver-error"), ("why", s!"unknown op {op}")])

end Webauthn.Driver
