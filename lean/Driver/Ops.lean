/-
  Operations the driver can evaluate, and the `IO` interpreter of `Prog`.
-/
import Driver.Codec
namespace Webauthn.Driver
open Lean (Json)

/-- Interpret an interaction tree against the harness: print the query, read the answer. -/
partial def runIO {α} (hin hout : IO.FS.Stream) : Prog α → IO α
  | .ret a => pure a
  | .ask q k => do
    hout.putStrLn ("Q " ++ (queryToJson q).compress)
    hout.flush
    let line ← hin.getLine
    match Json.parse line with
    | .error e => throw (IO.userError s!"answer parse: {e}")
    | .ok j =>
      match answerOfJson q j with
      | .error e => throw (IO.userError s!"answer decode: {e} in {line}")
      | .ok a => runIO hin hout (k a)

def runMIO {α} (hin hout : IO.FS.Stream) (x : M α) : IO (Except Err α) := runIO hin hout x.run

def liftP {α} (x : P α) : IO α :=
  match x with
  | .ok a => pure a
  | .error e => throw (IO.userError e)

partial def runOp (hin hout : IO.FS.Stream) (j : Json) : IO Json := do
  let op ← liftP (strField j "op")
  match op with
  | "ping" => pure (Json.mkObj [("k", "pong")])
  | "batch" => do
    let cs ← liftP (arrField j "cases")
    let rs ← cs.mapM (fun c => do
      try runOp hin hout c
      catch e => pure (Json.mkObj [("k", "driver-error"), ("why", toString e)]))
    pure (Json.mkObj [("k", "batch"), ("results", Json.arr rs)])
  | "b64_encode" => do
    let b ← liftP (bytesField j "b")
    pure (Json.mkObj [("k", "accept"), ("record", Json.str (Base64.encodeStr b))])
  | "b64_decode" => do
    let s ← liftP (strField j "s")
    pure (outcomeToJson bytesToJson (Base64.decodeStr s))
  | _ => pure (Json.mkObj [("k", "driver-error"), ("why", s!"unknown op {op}")])

end Webauthn.Driver
