/-
  Operations the driver can evaluate, and the `IO` interpreter of `Prog`.
-/
import Driver.Codec
namespace Webauthn.Driver
open Lean (Json)

/-- Interpret an interaction tree against the harness: print the query, read the answer. -/
partial def runIO {α} (hin hout : IO.FS.Stream) : Prog α → IO α
  | .ret a => pure a
  | .ask q k => do
    hout.putStrLn ("Q " ++ (queryToJson q).compress)
    hout.flush
    let line ← hin.getLine
    match Json.parse line with
    | .error e => throw (IO.userError s!"answer parse: {e}")
    | .ok j =>
      match answerOfJson q j with
      | .error e => throw (IO.userError s!"answer decode: {e} in {line}")
      | .ok a => runIO hin hout (k a)

def runMIO {α} (hin hout : IO.FS.Stream) (x : M α) : IO (Except Err α) := runIO hin hout x.run

def liftP {α} (x : P α) : IO α :=
  match x with
  | .ok a => pure a
  | .error e => throw (IO.userError e)

def flagsToJson (f : Flags) : Json :=
  Json.mkObj [("up", f.up), ("uv", f.uv), ("be", f.be), ("bs", f.bs), ("at", f.att), ("ed", f.ed)]

def optBytesToJson : Option Bytes → Json
  | none => Json.null
  | some b => bytesToJson b

def authDataToJson (a : AuthData) : Json :=
  Json.mkObj [("rp_id_hash", bytesToJson a.rpIdHash), ("flags", flagsToJson a.flags),
    ("sign_count", natToJson a.signCount),
    ("attested", match a.attested with
      | none => Json.null
      | some c => Json.mkObj [("aaguid", bytesToJson c.aaguid), ("credential_id", bytesToJson c.credentialId),
          ("public_key", bytesToJson c.publicKey)]),
    ("extensions", optBytesToJson a.extensions)]

def clientDataToJson (c : ClientData) : Json :=
  Json.mkObj [("type", jvalToJson c.type), ("challenge", bytesToJson c.challenge),
    ("origin", jvalToJson c.origin),
    ("cross_origin", match c.crossOrigin with | none => Json.null | some b => Json.bool b),
    ("token_binding", match c.tokenBinding with
      | none => Json.null
      | some t => Json.mkObj [("status", jvalToJson t.status),
          ("id", match t.id with | none => Json.null | some s => Json.str s)])]

def cborToJson (v : Cbor) : Json := bytesToJson (Cbor.enc v)

def coseKeyToJson : CoseKey → Json
  | .okp kty alg crv x => Json.mkObj [("kind", "okp"), ("kty", cborToJson kty), ("alg", cborToJson alg),
      ("crv", cborToJson crv), ("x", cborToJson x)]
  | .ec2 kty alg crv x y => Json.mkObj [("kind", "ec2"), ("kty", cborToJson kty), ("alg", cborToJson alg),
      ("crv", cborToJson crv), ("x", cborToJson x), ("y", cborToJson y)]
  | .rsa kty alg n e => Json.mkObj [("kind", "rsa"), ("kty", cborToJson kty), ("alg", cborToJson alg),
      ("n", cborToJson n), ("e", cborToJson e)]

def originsOfJson (j : Json) : P Origins :=
  match j with
  | .str s => pure (.single s)
  | .arr xs => do pure (.many (← xs.toList.mapM (·.getStr?)))
  | _ => throw "bad origin"

def authCredOfJson (j : Json) : P AuthCred := do
  pure { id := ← strField j "id", rawId := ← bytesField j "raw_id", type := ← strField j "type",
         clientDataJSON := ← bytesField j "cdj", authenticatorData := ← bytesField j "auth_data",
         signature := ← bytesField j "sig", userHandle := ← optField bytesOfJson j "user_handle" }

def authExpectOfJson (j : Json) : P AuthExpect := do
  pure { challenge := ← bytesField j "challenge", rpId := ← strField j "rp_id",
         origin := ← originsOfJson (← field j "origin"), publicKey := ← bytesField j "public_key",
         currentSignCount := ← intField j "stored_count", requireUV := ← boolField j "require_uv" }

def verifiedAuthToJson (r : VerifiedAuth) : Json :=
  Json.mkObj [("credential_id", bytesToJson r.credentialId), ("new_sign_count", natToJson r.newSignCount),
    ("credential_device_type", r.deviceType), ("credential_backed_up", r.backedUp),
    ("user_verified", r.userVerified)]

def dispToJson : Generated.Disp → Json
  | .ecdsa h => Json.str s!"ecdsa:{h}"
  | .pkcs1v15 h => Json.str s!"pkcs1v15:{h}"
  | .pss m h s => Json.str s!"pss:{m}:{h}:{s}"
  | .raw => Json.str "raw"
  | .libExc c => Json.str s!"lib:{c}"
  | .otherExc c => Json.str s!"nonlib:{c}"
  | .other w => Json.str s!"other:{w}"

def certInfoToJson (c : TPMCertInfo) : Json :=
  Json.mkObj [("magic", bytesToJson c.magic), ("type", c.type), ("qualified_signer", bytesToJson c.qualifiedSigner),
    ("extra_data", bytesToJson c.extraData), ("clock", bytesToJson c.clockInfo.clock),
    ("reset_count", natToJson c.clockInfo.resetCount), ("restart_count", natToJson c.clockInfo.restartCount),
    ("safe", c.clockInfo.safe), ("firmware_version", bytesToJson c.firmwareVersion),
    ("name_alg", c.attested.nameAlg), ("name_alg_bytes", bytesToJson c.attested.nameAlgBytes),
    ("name", bytesToJson c.attested.name), ("qualified_name", bytesToJson c.attested.qualifiedName)]

def pubAreaToJson (p : TPMPubArea) : Json :=
  Json.mkObj [("type", p.type), ("name_alg", p.nameAlg),
    ("object_attributes", Json.arr (p.objectAttributes.map Json.bool).toArray),
    ("auth_policy", bytesToJson p.authPolicy),
    ("parameters", match p.parameters with
      | .rsa sym sch kb ex => Json.mkObj [("kind", "rsa"), ("symmetric", sym), ("scheme", sch),
          ("key_bits", bytesToJson kb), ("exponent", bytesToJson ex)]
      | .ecc sym sch crv kdf => Json.mkObj [("kind", "ecc"), ("symmetric", sym), ("scheme", sch),
          ("curve_id", crv), ("kdf", kdf)]),
    ("unique", bytesToJson p.unique)]

def regCredOfJson (j : Json) : P RegCred := do
  pure { id := ← strField j "id", rawId := ← bytesField j "raw_id", type := ← strField j "type",
         clientDataJSON := ← bytesField j "cdj", attestationObject := ← bytesField j "att_obj" }

def regExpectOfJson (j : Json) : P RegExpect := do
  let algs ← arrField j "algs"
  let roots ← arrField j "roots"
  pure { challenge := ← bytesField j "challenge", rpId := ← strField j "rp_id",
         origin := ← originsOfJson (← field j "origin"), requireUP := ← boolField j "require_up",
         requireUV := ← boolField j "require_uv", supportedAlgs := ← algs.toList.mapM intOfJson,
         rootsByFmt := ← roots.toList.mapM (fun p => do
           let a ← p.getArr?
           if h : a.size = 2 then
             pure ((← a[0].getStr?), (← (← a[1].getArr?).toList.mapM bytesOfJson))
           else throw "bad roots pair") }

def verifiedRegToJson (r : VerifiedReg) : Json :=
  Json.mkObj [("credential_id", bytesToJson r.credentialId), ("credential_public_key", bytesToJson r.credentialPublicKey),
    ("sign_count", natToJson r.signCount), ("aaguid", r.aaguid), ("fmt", r.fmt), ("credential_type", r.credentialType),
    ("user_verified", r.userVerified), ("attestation_object", bytesToJson r.attestationObject),
    ("credential_device_type", r.deviceType), ("credential_backed_up", r.backedUp)]

def optStrToJson : Option String → Json
  | none => Json.null
  | some s => Json.str s

def regCredJsonToJson (c : RegCredJson) : Json :=
  Json.mkObj [("id", c.id), ("raw_id", bytesToJson c.rawId), ("client_data_json", bytesToJson c.clientDataJSON),
    ("attestation_object", bytesToJson c.attestationObject),
    ("transports", match c.transports with | none => Json.null | some ts => Json.arr (ts.map Json.str).toArray),
    ("authenticator_attachment", optStrToJson c.attachment), ("type", "public-key")]

def authCredJsonToJson (c : AuthCredJson) : Json :=
  Json.mkObj [("id", c.id), ("raw_id", bytesToJson c.rawId), ("client_data_json", bytesToJson c.clientDataJSON),
    ("authenticator_data", bytesToJson c.authenticatorData), ("signature", bytesToJson c.signature),
    ("user_handle", optBytesToJson c.userHandle), ("authenticator_attachment", optStrToJson c.attachment),
    ("type", "public-key")]

def optJ {α} (f : α → Json) : Option α → Json
  | none => Json.null
  | some a => f a

def descriptorToJ (d : Descriptor) : Json :=
  Json.mkObj [("id", bytesToJson d.id), ("transports", optJ (fun l => Json.arr (l.map Json.str).toArray) d.transports)]

def authSelToJ (s : AuthSel) : Json :=
  Json.mkObj [("authenticator_attachment", optJ Json.str s.attachment), ("resident_key", optJ Json.str s.residentKey),
    ("require_resident_key", optJ Json.bool s.requireResidentKey), ("user_verification", optJ Json.str s.userVerification)]

def regOptionsToJ (o : RegOptions) : Json :=
  Json.mkObj [("rp_id", optJ Json.str o.rpId), ("rp_name", o.rpName), ("user_id", bytesToJson o.userId),
    ("user_name", o.userName), ("user_display_name", o.userDisplayName), ("challenge", bytesToJson o.challenge),
    ("params", Json.arr (o.params.map (fun p => Json.arr #[Json.str p.1, intToJson p.2])).toArray),
    ("timeout", optJ intToJson o.timeout),
    ("exclude_credentials", optJ (fun l => Json.arr (l.map descriptorToJ).toArray) o.excludeCredentials),
    ("authenticator_selection", optJ authSelToJ o.authenticatorSelection),
    ("hints", optJ (fun l => Json.arr (l.map Json.str).toArray) o.hints), ("attestation", o.attestation)]

def authOptionsToJ (o : AuthOptions) : Json :=
  Json.mkObj [("challenge", bytesToJson o.challenge), ("timeout", optJ intToJson o.timeout), ("rp_id", optJ Json.str o.rpId),
    ("allow_credentials", optJ (fun l => Json.arr (l.map descriptorToJ).toArray) o.allowCredentials),
    ("user_verification", optJ Json.str o.userVerification)]

def strListOfJson (j : Json) : P (List String) := do (← j.getArr?).toList.mapM (·.getStr?)

def descriptorOfJ (j : Json) : P Descriptor := do
  pure { id := ← bytesField j "id", transports := ← optField strListOfJson j "transports" }

def authSelOfJ (j : Json) : P AuthSel := do
  pure { attachment := ← optField (·.getStr?) j "authenticator_attachment",
         residentKey := ← optField (·.getStr?) j "resident_key",
         requireResidentKey := ← optField (·.getBool?) j "require_resident_key",
         userVerification := ← optField (·.getStr?) j "user_verification" }

def descListOfJ (j : Json) : P (List Descriptor) := do (← j.getArr?).toList.mapM descriptorOfJ

def regOptionsOfJ (j : Json) : P RegOptions := do
  let ps ← arrField j "params"
  pure { rpId := ← optField (·.getStr?) j "rp_id", rpName := ← strField j "rp_name", userId := ← bytesField j "user_id",
         userName := ← strField j "user_name", userDisplayName := ← strField j "user_display_name",
         challenge := ← bytesField j "challenge",
         params := ← ps.toList.mapM (fun p => do
           let a ← p.getArr?
           if h : a.size = 2 then pure ((← a[0].getStr?), (← intOfJson a[1])) else throw "bad param"),
         timeout := ← optField intOfJson j "timeout",
         excludeCredentials := ← optField descListOfJ j "exclude_credentials",
         authenticatorSelection := ← optField authSelOfJ j "authenticator_selection",
         hints := ← optField strListOfJson j "hints", attestation := ← strField j "attestation" }

def authOptionsOfJ (j : Json) : P AuthOptions := do
  pure { challenge := ← bytesField j "challenge", timeout := ← optField intOfJson j "timeout",
         rpId := ← optField (·.getStr?) j "rp_id", allowCredentials := ← optField descListOfJ j "allow_credentials",
         userVerification := ← optField (·.getStr?) j "user_verification" }

def genRegArgsOfJ (j : Json) : P GenRegArgs := do
  pure { rpId := ← strField j "rp_id", rpName := ← strField j "rp_name", userName := ← strField j "user_name",
         userId := ← optField bytesOfJson j "user_id", userDisplayName := ← optField (·.getStr?) j "user_display_name",
         challenge := ← optField bytesOfJson j "challenge", timeout := ← intField j "timeout",
         attestation := ← strField j "attestation",
         authenticatorSelection := ← optField authSelOfJ j "authenticator_selection",
         excludeCredentials := ← optField descListOfJ j "exclude_credentials",
         supportedAlgs := ← optField (fun v => do (← v.getArr?).toList.mapM intOfJson) j "supported_algs",
         hints := ← optField strListOfJson j "hints" }

def genAuthArgsOfJ (j : Json) : P GenAuthArgs := do
  pure { rpId := ← strField j "rp_id", challenge := ← optField bytesOfJson j "challenge", timeout := ← intField j "timeout",
         allowCredentials := ← optField descListOfJ j "allow_credentials",
         userVerification := ← strField j "user_verification" }

partial def runOp (hin hout : IO.FS.Stream) (j : Json) : IO Json := do
  let op ← liftP (strField j "op")
  match op with
  | "ping" => pure (Json.mkObj [("k", "pong")])
  | "batch" => do
    let cs ← liftP (arrField j "cases")
    let rs ← cs.mapM (fun c => do
      try runOp hin hout c
      catch e => pure (Json.mkObj [("k", "driver-error"), ("why", toString e)]))
    pure (Json.mkObj [("k", "batch"), ("results", Json.arr rs)])
  | "b64_encode" => do
    let b ← liftP (bytesField j "b")
    pure (Json.mkObj [("k", "accept"), ("record", Json.str (Base64.encodeStr b))])
  | "b64_decode" => do
    let s ← liftP (strField j "s")
    pure (outcomeToJson bytesToJson (Base64.decodeStr s))
  | "cbor_roundtrip" => do
    let b ← liftP (bytesField j "b")
    pure (outcomeToJson bytesToJson (do let v ← parseCbor b; pure (encodeCbor v)))
  | "parse_auth_data" => do
    let b ← liftP (bytesField j "b")
    pure (outcomeToJson authDataToJson (parseAuthData b))
  | "encode_auth_data" => do
    let rp ← liftP (bytesField j "rp")
    let fb ← liftP (natField j "flags")
    let ctr ← liftP (natField j "counter")
    let aaguid ← liftP (optField bytesOfJson j "aaguid")
    let cid ← liftP (optField bytesOfJson j "cred_id")
    let key ← liftP (optField bytesOfJson j "key")
    let ext ← liftP (optField bytesOfJson j "ext")
    let att : Except Err (Option (Bytes × Bytes × Cbor)) := match aaguid, cid, key with
      | some a, some i, some k => (parseCbor k).map (fun v => some (a, i, v))
      | _, _, _ => .ok none
    let extv : Except Err (Option Cbor) := match ext with
      | some e => (parseCbor e).map some
      | none => .ok none
    let out : Except Err Bytes := do
      let a ← att
      let e ← extv
      pure (encodeAuthData rp fb.toUInt8 ctr a e)
    pure (outcomeToJson (fun b => Json.str (hexStr b)) out)
  | "parse_backup_flags" => do
    let f ← liftP (natField j "flags")
    pure (outcomeToJson (fun (r : String × Bool) => Json.mkObj [("device_type", r.1), ("backed_up", r.2)])
      (parseBackupFlags (parseFlags f.toUInt8)))
  | "aaguid_to_string" => do
    let b ← liftP (bytesField j "b")
    pure (outcomeToJson Json.str (aaguidToString b))
  | "parse_client_data" => do
    let b ← liftP (bytesField j "b")
    let r ← runMIO hin hout (parseClientData b)
    pure (outcomeToJson clientDataToJson r)
  | "decode_cose" => do
    let b ← liftP (bytesField j "b")
    pure (outcomeToJson coseKeyToJson (decodeCose b))
  | "encode_cose" => do
    let kind ← liftP (strField j "kind")
    let alg ← liftP (intField j "alg")
    let a ← liftP (bytesField j "a")
    let b ← liftP (bytesField j "b")
    let crv ← liftP (intField j "crv")
    let out := match kind with
      | "ec2" => encodeEc2 alg crv.toNat a b
      | "rsa" => encodeRsa alg a b
      | _ => encodeOkp a
    pure (Json.mkObj [("k", "accept"), ("record", Json.str (hexStr out))])
  | "cose_to_pubkey" => do
    let b ← liftP (bytesField j "b")
    let r ← runMIO hin hout (do let k ← liftE (decodeCose b); loadCoseKey k)
    pure (outcomeToJson pubKeyToJson r)
  | "sig_dispatch" => do
    let kind ← liftP (strField j "kind")
    let alg ← liftP (intField j "alg")
    let a : Cbor := if alg ≥ 0 then .uint alg.toNat else .nint (-1 - alg).toNat
    pure (Json.mkObj [("k", "accept"), ("record", dispToJson (sigDispatch kind a))])
  | "encode_cert_info" => do
    let g := fun k => liftP (bytesField j k)
    let out := encodeCertInfo (← g "magic") (← g "type") (← g "qs") (← g "extra") (← g "clock")
      (← liftP (natField j "reset")) (← liftP (natField j "restart")) (← liftP (natField j "safe")).toUInt8
      (← g "fw") (← g "name") (← g "qname")
    pure (Json.mkObj [("k", "accept"), ("record", Json.str (hexStr out))])
  | "encode_pub_area" => do
    let g := fun k => liftP (bytesField j k)
    let kind ← liftP (strField j "kind")
    let attrs ← liftP (natField j "attrs")
    let out ← if kind == "rsa" then
        pure (encodePubAreaRsa (← g "type") (← g "name_alg") attrs (← g "policy") (← g "sym") (← g "sch") (← g "key_bits")
          (← g "exponent") (← g "modulus"))
      else
        pure (encodePubAreaEcc (← g "type") (← g "name_alg") attrs (← g "policy") (← g "sym") (← g "sch") (← g "crv")
          (← g "kdf") (← g "x") (← g "y"))
    pure (Json.mkObj [("k", "accept"), ("record", Json.str (hexStr out))])
  | "parse_cert_info" => do
    let b ← liftP (bytesField j "b")
    pure (outcomeToJson certInfoToJson (parseCertInfo b))
  | "parse_pub_area" => do
    let b ← liftP (bytesField j "b")
    pure (outcomeToJson pubAreaToJson (parsePubArea b))
  | "validate_chain" => do
    let x5c ← liftP (do (← arrField j "x5c").toList.mapM bytesOfJson)
    let roots ← liftP (do (← arrField j "roots").toList.mapM bytesOfJson)
    let r ← runMIO hin hout (validateChain x5c (roots.map Root.pem))
    pure (outcomeToJson (fun _ => Json.bool true) r)
  | "safetynet_timestamp" => do
    let ts ← liftP (intField j "ts")
    let r ← runMIO hin hout (do
      let bad ← safetynetTimestampFails ts
      reject bad (nonlibErr "ValueError" "snet.timestamp"))
    pure (outcomeToJson (fun _ => Json.null) r)
  | "verify_reg" => do
    let c ← liftP (do regCredOfJson (← field j "cred"))
    let e ← liftP (do regExpectOfJson (← field j "expect"))
    let r ← runMIO hin hout (verifyReg c e)
    pure (outcomeToJson verifiedRegToJson r)
  | "parse_cred_json" => do
    let kind ← liftP (strField j "kind")
    match fieldOpt j "text" with
    | some t => do
      let s ← liftP t.getStr?
      if kind == "reg" then
        pure (outcomeToJson regCredJsonToJson (← runMIO hin hout (parseRegCredText s)))
      else
        pure (outcomeToJson authCredJsonToJson (← runMIO hin hout (parseAuthCredText s)))
    | none => do
      let v ← liftP (do jvalOfJson (← field j "value"))
      if kind == "reg" then pure (outcomeToJson regCredJsonToJson (parseRegCredJson v))
      else pure (outcomeToJson authCredJsonToJson (parseAuthCredJson v))
  | "gen_reg_options" => do
    let a ← liftP (do genRegArgsOfJ (← field j "args"))
    pure (outcomeToJson regOptionsToJ (← runMIO hin hout (generateRegOptions a)))
  | "gen_auth_options" => do
    let a ← liftP (do genAuthArgsOfJ (← field j "args"))
    pure (outcomeToJson authOptionsToJ (← runMIO hin hout (generateAuthOptions a)))
  | "options_to_json" => do
    let kind ← liftP (strField j "kind")
    if kind == "reg" then do
      let o ← liftP (do regOptionsOfJ (← field j "options"))
      pure (Json.mkObj [("k", "accept"), ("record", jvalToJson (regOptionsToJson o))])
    else do
      let o ← liftP (do authOptionsOfJ (← field j "options"))
      pure (Json.mkObj [("k", "accept"), ("record", jvalToJson (authOptionsToJson o))])
  | "parse_options_json" => do
    let kind ← liftP (strField j "kind")
    let v ← liftP (do jvalOfJson (← field j "value"))
    if kind == "reg" then pure (outcomeToJson regOptionsToJ (parseRegOptionsJson v))
    else pure (outcomeToJson authOptionsToJ (parseAuthOptionsJson v))
  | "verify_auth" => do
    let c ← liftP (do authCredOfJson (← field j "cred"))
    let e ← liftP (do authExpectOfJson (← field j "expect"))
    let r ← runMIO hin hout (verifyAuth c e)
    pure (outcomeToJson verifiedAuthToJson r)
  | _ => pure (Json.mkObj [("k", "driver-error"), ("why", s!"unknown op {op}")])

end Webauthn.Driver
