/-
  JSON encoding of model values for the line protocol (see DESIGN.md, Appendix C).
-/
import Lean.Data.Json
import Model
namespace Webauthn.Driver
open Lean (Json)

abbrev P := Except String

def hexStr (b : Bytes) : String := String.ofList (toHex b)

def bytesToJson (b : Bytes) : Json := Json.str (hexStr b)

def bytesOfJson (j : Json) : P Bytes := do
  let s ← j.getStr?
  match ofHex? s.toList with
  | some b => pure b
  | none => throw s!"bad hex: {s}"

def field (j : Json) (k : String) : P Json := j.getObjVal? k

def fieldOpt (j : Json) (k : String) : Option Json :=
  match j.getObjVal? k with
  | .ok .null => none
  | .ok v => some v
  | .error _ => none

def strField (j : Json) (k : String) : P String := do (← field j k).getStr?
def bytesField (j : Json) (k : String) : P Bytes := do bytesOfJson (← field j k)
def boolField (j : Json) (k : String) : P Bool := do (← field j k).getBool?
def intOfJson (j : Json) : P Int := do
  -- integers travel as decimal strings (they can exceed 2^64)
  match j with
  | .str s => match s.toInt? with
    | some i => pure i
    | none => throw s!"bad int {s}"
  | _ => j.getInt?
def intField (j : Json) (k : String) : P Int := do intOfJson (← field j k)
def natField (j : Json) (k : String) : P Nat := do
  let i ← intField j k
  if i < 0 then throw "negative nat" else pure i.toNat
def arrField (j : Json) (k : String) : P (Array Json) := do (← field j k).getArr?

def intToJson (i : Int) : Json := Json.str (toString i)
def natToJson (n : Nat) : Json := Json.str (toString n)

/-! JVal: tagged so that Python's and Lean's JSON libraries cannot disagree -/

partial def jvalOfJson (j : Json) : P JVal := do
  let t ← strField j "t"
  match t with
  | "null" => pure .null
  | "bool" => pure (.bool (← boolField j "v"))
  | "int" => pure (.int (← intField j "v"))
  | "real" => pure (.real (← strField j "v"))
  | "str" => pure (.str (← strField j "v"))
  | "arr" => do
    let xs ← arrField j "v"
    pure (.arr (← xs.toList.mapM jvalOfJson))
  | "obj" => do
    let xs ← arrField j "v"
    let kvs ← xs.toList.mapM (fun p => do
      let a ← p.getArr?
      if h : a.size = 2 then
        let k ← a[0].getStr?
        let v ← jvalOfJson a[1]
        pure (k, v)
      else throw "bad pair")
    pure (.obj kvs)
  | _ => throw s!"bad jval tag {t}"

partial def jvalToJson : JVal → Json
  | .null => Json.mkObj [("t", "null")]
  | .bool b => Json.mkObj [("t", "bool"), ("v", Json.bool b)]
  | .int i => Json.mkObj [("t", "int"), ("v", intToJson i)]
  | .real r => Json.mkObj [("t", "real"), ("v", Json.str r)]
  | .str s => Json.mkObj [("t", "str"), ("v", Json.str s)]
  | .arr xs => Json.mkObj [("t", "arr"), ("v", Json.arr (xs.map jvalToJson).toArray)]
  | .obj kvs => Json.mkObj [("t", "obj"),
      ("v", Json.arr (kvs.map (fun (k, v) => Json.arr #[Json.str k, jvalToJson v])).toArray)]

def hashAlgName : HashAlg → String
  | .sha1 => "sha1" | .sha256 => "sha256" | .sha384 => "sha384" | .sha512 => "sha512"

def hashAlgOfName : String → P HashAlg
  | "sha1" => pure .sha1 | "sha256" => pure .sha256 | "sha384" => pure .sha384
  | "sha512" => pure .sha512 | s => throw s!"bad hash {s}"

def curveName : Curve → String
  | .p256 => "secp256r1" | .p384 => "secp384r1" | .p521 => "secp521r1" | .other n => n

def curveOfName : String → Curve
  | "secp256r1" => .p256 | "secp384r1" => .p384 | "secp521r1" => .p521 | n => .other n

def pubKeyToJson : PubKey → Json
  | .ec c x y => Json.mkObj [("kind", "ec"), ("crv", curveName c), ("x", natToJson x), ("y", natToJson y)]
  | .rsa n e => Json.mkObj [("kind", "rsa"), ("n", natToJson n), ("e", natToJson e)]
  | .ed25519 x => Json.mkObj [("kind", "ed25519"), ("x", bytesToJson x)]
  | .other c => Json.mkObj [("kind", "other"), ("cls", c)]

def pubKeyOfJson (j : Json) : P PubKey := do
  match ← strField j "kind" with
  | "ec" => pure (.ec (curveOfName (← strField j "crv")) (← natField j "x") (← natField j "y"))
  | "rsa" => pure (.rsa (← natField j "n") (← natField j "e"))
  | "ed25519" => pure (.ed25519 (← bytesField j "x"))
  | "other" => pure (.other (← strField j "cls"))
  | k => throw s!"bad key kind {k}"

def schemeToJson : Scheme → Json
  | .ecdsa h => Json.mkObj [("kind", "ecdsa"), ("hash", hashAlgName h)]
  | .pkcs1v15 h => Json.mkObj [("kind", "pkcs1v15"), ("hash", hashAlgName h)]
  | .pss m h salt => Json.mkObj [("kind", "pss"), ("mgf", hashAlgName m), ("hash", hashAlgName h), ("salt", salt)]
  | .ed25519 => Json.mkObj [("kind", "ed25519")]

def optOfJson {α} (f : Json → P α) (j : Json) : P (Option α) :=
  match j with
  | .null => pure none
  | v => do pure (some (← f v))

def optField {α} (f : Json → P α) (j : Json) (k : String) : P (Option α) :=
  match fieldOpt j k with
  | none => pure none
  | some v => do pure (some (← f v))

def sanOfJson (j : Json) : P SanFirst := do
  match ← strField j "kind" with
  | "dirName" => do
    let xs ← arrField j "attrs"
    let attrs ← xs.toList.mapM (fun p => do
      let a ← p.getArr?
      if h : a.size = 2 then pure ((← a[0].getStr?), (← a[1].getStr?)) else throw "bad attr")
    pure (.dirName attrs)
  | "otherName" => pure .otherName
  | "text" => pure .text
  | "otherKind" => pure .otherKind
  | "empty" => pure .empty
  | k => throw s!"bad san kind {k}"

def certViewOfJson (j : Json) : P CertView := do
  let cns ← arrField j "subject_cns"
  pure {
    key := ← pubKeyOfJson (← field j "key")
    spki := ← bytesField j "spki"
    versionV3 := ← boolField j "version_v3"
    subjectLen := ← natField j "subject_len"
    subjectCNs := ← cns.toList.mapM (·.getStr?)
    extsOk := ← boolField j "exts_ok"
    san := ← optField sanOfJson j "san"
    eku := ← optField (fun v => do (← v.getArr?).toList.mapM (·.getStr?)) j "eku"
    bcCa := ← optField (·.getBool?) j "bc_ca"
    appleNonce := ← optField bytesOfJson j "apple_nonce"
    keyDesc := ← optField bytesOfJson j "key_desc"
    pem := ← bytesField j "pem" }

def keyDescViewOfJson (j : Json) : P KeyDescView := do
  pure {
    attestationChallenge := ← bytesField j "attestation_challenge"
    swAllAppsPresent := ← boolField j "sw_allapps_present"
    swAllAppsNativeIsNone := ← boolField j "sw_allapps_native_is_none"
    teeAllAppsPresent := ← boolField j "tee_allapps_present"
    teeAllAppsNativeIsNone := ← boolField j "tee_allapps_native_is_none"
    teeOrigin := ← optField intOfJson j "tee_origin"
    teePurpose := ← optField (fun v => do (← v.getArr?).toList.mapM intOfJson) j "tee_purpose" }

def rootToJson : Root → Json
  | .pem b => Json.mkObj [("pem", bytesToJson b)]
  | .builtin n => Json.mkObj [("builtin", Json.str n)]

def queryToJson : Query → Json
  | .hash a b => Json.mkObj [("q", "hash"), ("alg", hashAlgName a), ("b", bytesToJson b)]
  | .jsonLoadsBytes b => Json.mkObj [("q", "json_loads_bytes"), ("b", bytesToJson b)]
  | .jsonLoadsStr s => Json.mkObj [("q", "json_loads_str"), ("s", Json.str s)]
  | .keyLoad k => Json.mkObj [("q", "key_load"), ("key", pubKeyToJson k)]
  | .spki k => Json.mkObj [("q", "spki"), ("key", pubKeyToJson k)]
  | .sigVerify k s sig data => Json.mkObj [("q", "sig_verify"), ("key", pubKeyToJson k),
      ("scheme", schemeToJson s), ("sig", bytesToJson sig), ("data", bytesToJson data)]
  | .x509Load der => Json.mkObj [("q", "x509_load"), ("der", bytesToJson der)]
  | .chainVerify l i r => Json.mkObj [("q", "chain_verify"), ("leaf", bytesToJson l),
      ("inter", Json.arr (i.map bytesToJson).toArray), ("roots", Json.arr (r.map rootToJson).toArray)]
  | .keyDescription der => Json.mkObj [("q", "key_description"), ("der", bytesToJson der)]
  | .nowSeconds => Json.mkObj [("q", "now_seconds")]
  | .tokenBytes k n => Json.mkObj [("q", "token_bytes"), ("k", Json.num k), ("n", Json.num n)]
  | .builtinPem n => Json.mkObj [("q", "builtin_pem"), ("name", Json.str n)]
  | .pemCanon p => Json.mkObj [("q", "pem_canon"), ("pem", bytesToJson p)]

def jsonOutcomeOfJson (j : Json) : P JsonOutcome := do
  match fieldOpt j "ok" with
  | some v => pure (.ok (← jvalOfJson v))
  | none =>
    match ← strField j "err" with
    | "JSONDecodeError" => pure .decodeError
    | c => pure (.otherError c)

def answerOfJson : (q : Query) → Json → P (Answer q)
  | .hash _ _, j => bytesField j "b"
  | .jsonLoadsBytes _, j => jsonOutcomeOfJson j
  | .jsonLoadsStr _, j => jsonOutcomeOfJson j
  | .keyLoad _, j => boolField j "ok"
  | .spki _, j => bytesField j "b"
  | .sigVerify _ _ _ _, j => do
    match ← strField j "r" with
    | "valid" => pure SigOutcome.valid
    | "invalid" => pure SigOutcome.invalid
    | c => pure (SigOutcome.raised (if c.startsWith "raised:" then (c.drop 7).toString else c))   -- the Python class name
  | .x509Load _, j => optField certViewOfJson j "view"
  | .chainVerify _ _ _, j => do
    match ← strField j "r" with
    | "ok" => pure ChainOutcome.ok
    | "invalid" => pure ChainOutcome.invalid
    | "prep:leaf" => pure ChainOutcome.prepLeaf
    | "prep:intermediate" => pure ChainOutcome.prepInter
    | "prep:root" => pure ChainOutcome.prepRoot
    | c => throw s!"bad chain outcome {c}"
  | .keyDescription _, j => optField keyDescViewOfJson j "view"
  | .nowSeconds, j => intField j "t"
  | .tokenBytes _ _, j => bytesField j "b"
  | .builtinPem _, j => bytesField j "b"
  | .pemCanon _, j => optField (fun v => bytesOfJson v) j "b"

def errToJson (e : Err) : Json :=
  match e.kind with
  | .lib c => Json.mkObj [("k", "reject"), ("lib", c.name), ("site", e.site)]
  | .nonlib c => Json.mkObj [("k", "reject"), ("nonlib", c), ("site", e.site)]
  | .oom why => Json.mkObj [("k", "oom"), ("why", why)]

def outcomeToJson {α} (f : α → Json) : Except Err α → Json
  | .ok a => Json.mkObj [("k", "accept"), ("record", f a)]
  | .error e => errToJson e

end Webauthn.Driver
