import Model.Basic
import Model.Types
import Model.Prog
import Model.Base64
