import Proofs.Base64
import Proofs.Monad
import Proofs.VerifyAuth
import Proofs.AuthData
import Proofs.Cose
import Proofs.VerifyReg
import Proofs.Attestation
import Proofs.Formats
