import Proofs.Base64
