/-
  C16 — Options serialise to the WebAuthn JSON wire format and parse back unchanged.
  `regOptionsToJson` / `authOptionsToJson` model the dict handed to `json.dumps`; rendering and
  re-parsing the text is the standard library's (oracle), so the theorems are about the dict.
-/
import Proofs.Options
import Props.C13
namespace Webauthn.Props.C16
open Webauthn Generated

/-! ### wire shape: optional members are omitted rather than null -/

mutual
  def noNull : JVal → Bool
    | .null => false
    | .arr xs => noNullList xs
    | .obj kvs => noNullPairs kvs
    | _ => true
  def noNullList : List JVal → Bool
    | [] => true
    | x :: xs => noNull x && noNullList xs
  def noNullPairs : List (String × JVal) → Bool
    | [] => true
    | (_, v) :: r => noNull v && noNullPairs r
end

theorem noNullPairs_append (a b : List (String × JVal)) : noNullPairs (a ++ b) = (noNullPairs a && noNullPairs b) := by
  induction a with
  | nil => simp [noNullPairs]
  | cons p r ih => obtain ⟨k, v⟩ := p; simp [noNullPairs, ih, Bool.and_assoc]

theorem noNullList_map_str (l : List String) : noNullList (l.map JVal.str) = true := by
  induction l with
  | nil => rfl
  | cons s ss ih => simp [noNullList, noNull, ih]

theorem noNullPairs_optMember (k : String) (v : Option JVal) (h : ∀ x, v = some x → noNull x = true) :
    noNullPairs (optMember k v) = true := by
  cases v with
  | none => rfl
  | some x => simp [optMember, noNullPairs, h x rfl]

theorem noNull_descriptor (d : Descriptor) : noNull (descriptorToJson d) = true := by
  unfold descriptorToJson
  cases d.transports with
  | none => simp [noNull, noNullPairs, jb64, jstr]
  | some ts =>
    cases ts with
    | nil => simp [noNull, noNullPairs, jb64, jstr]
    | cons t r =>
      have := noNullList_map_str (t :: r)
      simp only [List.map_cons] at this
      simp [noNull, noNullPairs, this]

theorem noNullList_descriptors (l : List Descriptor) : noNullList (l.map descriptorToJson) = true := by
  induction l with
  | nil => rfl
  | cons d ds ih => simp [noNullList, noNull_descriptor, ih]

theorem noNull_authSel (s : AuthSel) : noNull (authSelToJson s) = true := by
  unfold authSelToJson
  simp only [noNull, noNullPairs_append, Bool.and_eq_true]
  refine ⟨⟨⟨?_, ?_⟩, ?_⟩, ?_⟩ <;> apply noNullPairs_optMember <;> intro x hx
  · cases h : s.attachment <;> simp [h] at hx; subst hx; rfl
  · cases h : s.residentKey <;> simp [h] at hx; subst hx; rfl
  · cases h : s.requireResidentKey <;> simp [h] at hx; subst hx; rfl
  · cases h : s.userVerification <;> simp [h] at hx; subst hx; rfl

theorem noNullList_params (l : List (String × Int)) :
    noNullList (l.map (fun p => JVal.obj [("type", jstr p.1), ("alg", .int p.2)])) = true := by
  induction l with
  | nil => rfl
  | cons p ps ih => simp only [List.map_cons, noNullList, noNull, noNullPairs, Bool.and_true, Bool.true_and]; exact ih

/-- no member of the registration options JSON is null: optional members are omitted -/
theorem no_null_reg (o : RegOptions) : noNull (regOptionsToJson o) = true := by
  unfold regOptionsToJson regKvs rpKvs userKvs paramsJson
  simp only [noNull, noNullPairs_append, Bool.and_eq_true]
  refine ⟨⟨⟨⟨⟨?_, ?_⟩, ?_⟩, ?_⟩, ?_⟩, ?_⟩
  · have hp := noNullList_params o.params
    simp only [noNullPairs, noNull, noNullPairs_append, Bool.and_eq_true, and_true, true_and]
    refine ⟨?_, hp⟩
    cases o.rpId with
    | none => rfl
    | some i => by_cases hi : i.isEmpty = true <;> simp [hi, noNullPairs, noNull]
  · apply noNullPairs_optMember; intro x hx
    cases h : o.timeout <;> simp [h] at hx; subst hx; rfl
  · apply noNullPairs_optMember; intro x hx
    cases h : o.excludeCredentials <;> simp [h] at hx; subst hx; simp [noNull, noNullList_descriptors]
  · apply noNullPairs_optMember; intro x hx
    cases h : o.authenticatorSelection <;> simp [h] at hx; subst hx; exact noNull_authSel _
  · simp [noNullPairs, noNull, jstr]
  · apply noNullPairs_optMember; intro x hx
    cases h : o.hints <;> simp [h] at hx; subst hx; simp [noNull, noNullList_map_str]

theorem no_null_auth (o : AuthOptions) : noNull (authOptionsToJson o) = true := by
  unfold authOptionsToJson
  simp only [noNull, noNullPairs_append, Bool.and_eq_true]
  refine ⟨⟨⟨⟨?_, ?_⟩, ?_⟩, ?_⟩, ?_⟩
  · simp [noNullPairs, noNull, jb64]
  · apply noNullPairs_optMember; intro x hx
    cases h : o.timeout <;> simp [h] at hx; subst hx; rfl
  · apply noNullPairs_optMember; intro x hx
    cases h : o.rpId <;> simp [h] at hx; subst hx; rfl
  · apply noNullPairs_optMember; intro x hx
    cases h : o.allowCredentials <;> simp [h] at hx; subst hx; simp [noNull, noNullList_descriptors]
  · cases o.userVerification with
    | none => rfl
    | some u => by_cases hu : u.isEmpty = true <;> simp [hu, noNullPairs, noNull]

/-! ### spec member names, binary members as unpadded base64url of the original bytes -/

theorem members_reg (o : RegOptions) : ∃ kvs, regOptionsToJson o = .obj kvs ∧
    JVal.lookup kvs "challenge" = some (.str (Base64.encodeStr o.challenge)) ∧
    JVal.lookup kvs "user" = some (.obj [("id", .str (Base64.encodeStr o.userId)), ("name", .str o.userName),
                                          ("displayName", .str o.userDisplayName)]) ∧
    JVal.lookup kvs "pubKeyCredParams" =
      some (.arr (o.params.map (fun p => .obj [("type", .str p.1), ("alg", .int p.2)]))) ∧
    JVal.lookup kvs "attestation" = some (.str o.attestation) := by
  refine ⟨_, rfl, ?_, ?_, ?_, ?_⟩ <;> unfold regKvs
  · simp [lookup_cons, lookup_append]
  · simp [lookup_cons, lookup_append, userKvs]
  · simp [lookup_cons, lookup_append, paramsJson]
  · simp [lookup_cons, lookup_append, lookup_optMember, lookup_nil]

theorem members_auth (o : AuthOptions) : ∃ kvs, authOptionsToJson o = .obj kvs ∧
    JVal.lookup kvs "challenge" = some (.str (Base64.encodeStr o.challenge)) := by
  refine ⟨_, rfl, ?_⟩
  simp [lookup_cons, lookup_append]

/-! ### round trip -/

/-- descriptors read back with the documented default (empty transport list ↦ absent) -/
theorem roundtrip_descriptors (l : List Descriptor) (h : ∀ d ∈ l, DescriptorWF d) :
    (l.map descriptorToJson).mapM parseDescriptor = .ok (l.map normDescriptor) := mapM_parseDescriptor l h

/-- request options the generator can return: userVerification is a member value -/
structure AuthOptionsWF (o : AuthOptions) : Prop where
  uv : ∃ u, o.userVerification = some u ∧ u.isEmpty = false ∧ (enumValues "UserVerificationRequirement").contains u = true
  descriptors : ∀ l, o.allowCredentials = some l → ∀ d ∈ l, DescriptorWF d

def normAuth (o : AuthOptions) : AuthOptions :=
  { o with allowCredentials := o.allowCredentials.map (·.map normDescriptor) }

theorem roundtrip_auth (o : AuthOptions) (h : AuthOptionsWF o) :
    parseAuthOptionsJson (authOptionsToJson o) = .ok (normAuth o) := by
  obtain ⟨challenge, timeout, rpId, allow, uv⟩ := o
  obtain ⟨⟨u, hu, hne, hmem⟩, hd⟩ := h
  simp only at hu hd
  subst hu
  unfold authOptionsToJson parseAuthOptionsJson
  simp only [hne, Bool.false_eq_true, ↓reduceIte]
  have key : ∀ k, JVal.lookup ([("challenge", jb64 challenge)] ++ optMember "timeout" (timeout.map JVal.int) ++
      optMember "rpId" (rpId.map jstr) ++
      optMember "allowCredentials" (allow.map (fun l => JVal.arr (l.map descriptorToJson))) ++
      [("userVerification", jstr u)]) k =
      if k = "challenge" then some (jb64 challenge)
      else if k = "timeout" then timeout.map JVal.int
      else if k = "rpId" then rpId.map jstr
      else if k = "allowCredentials" then allow.map (fun l => JVal.arr (l.map descriptorToJson))
      else if k = "userVerification" then some (jstr u) else none := by
    intro k
    simp only [lookup_append, lookup_cons, lookup_optMember, lookup_nil, beq_iff_eq]
    by_cases h1 : "challenge" = k
    · subst h1; simp
    · have h1' : ¬ k = "challenge" := fun e => h1 e.symm
      simp only [h1, h1', ↓reduceIte]
      by_cases h2 : "timeout" = k
      · subst h2; cases timeout <;> simp <;> cases rpId <;> simp <;> cases allow <;> simp
      · have h2' : ¬ k = "timeout" := fun e => h2 e.symm
        simp only [h2, h2', ↓reduceIte]
        by_cases h3 : "rpId" = k
        · subst h3; cases rpId <;> simp <;> cases allow <;> simp
        · have h3' : ¬ k = "rpId" := fun e => h3 e.symm
          simp only [h3, h3', ↓reduceIte]
          by_cases h4 : "allowCredentials" = k
          · subst h4; cases allow <;> simp
          · have h4' : ¬ k = "allowCredentials" := fun e => h4 e.symm
            simp only [h4, h4', ↓reduceIte]
            by_cases h5 : "userVerification" = k
            · subst h5; simp
            · have h5' : ¬ k = "userVerification" := fun e => h5 e.symm
              simp [h5, h5']
  simp only [getStr, parseTimeout, parseDescriptors, key]
  simp only [show ("challenge" = "challenge") from rfl, ↓reduceIte,
    show ¬ ("timeout" = "challenge") from by decide, show ¬ ("rpId" = "challenge") from by decide,
    show ¬ ("rpId" = "timeout") from by decide, show ¬ ("userVerification" = "challenge") from by decide,
    show ¬ ("userVerification" = "timeout") from by decide, show ¬ ("userVerification" = "rpId") from by decide,
    show ¬ ("userVerification" = "allowCredentials") from by decide,
    show ¬ ("allowCredentials" = "challenge") from by decide, show ¬ ("allowCredentials" = "timeout") from by decide,
    show ¬ ("allowCredentials" = "rpId") from by decide, jb64, jstr]
  have hen : enumOf "UserVerificationRequirement" (.str u) "options.userVerification.value" = .ok u := enumOf_str hmem
  simp only [bind, Except.bind, pure, Except.pure, hen, decodeWrapped_encodeStr, normAuth]
  cases timeout with
  | none =>
    cases allow with
    | none => cases rpId <;> simp
    | some l =>
      simp only [Option.map_some]
      rw [mapM_parseDescriptor l (hd l rfl)]
      cases rpId <;> simp
  | some t =>
    cases allow with
    | none => cases rpId <;> simp
    | some l =>
      simp only [Option.map_some]
      rw [mapM_parseDescriptor l (hd l rfl)]
      cases rpId <;> simp

/-! #### registration options -/

def normSel (s : AuthSel) : AuthSel :=
  { s with requireResidentKey := some (s.requireResidentKey.getD false),
           userVerification := some (s.userVerification.getD "preferred") }

def normReg (o : RegOptions) : RegOptions :=
  { o with excludeCredentials := o.excludeCredentials.map (·.map normDescriptor),
           authenticatorSelection := o.authenticatorSelection.map normSel }

def OptIn (cls : String) (v : Option String) : Prop := ∀ s, v = some s → (enumValues cls).contains s = true

structure SelWF (s : AuthSel) : Prop where
  att : OptIn "AuthenticatorAttachment" s.attachment
  rk : OptIn "ResidentKeyRequirement" s.residentKey
  uv : OptIn "UserVerificationRequirement" s.userVerification

/-- creation options the generator can return -/
structure RegOptionsWF (o : RegOptions) : Prop where
  rp : ∀ i, o.rpId = some i → i.isEmpty = false
  att : (enumValues "AttestationConveyancePreference").contains o.attestation = true
  params : ∀ p ∈ o.params, p.1 = "public-key" ∧ coseAlgMembers.contains p.2 = true
  descriptors : ∀ l, o.excludeCredentials = some l → ∀ d ∈ l, DescriptorWF d
  sel : ∀ s, o.authenticatorSelection = some s → SelWF s
  hints : ∀ l, o.hints = some l → AllIn "PublicKeyCredentialHint" l

theorem sel_lookup (s : AuthSel) (k : String) :
    JVal.lookup (optMember "authenticatorAttachment" (s.attachment.map jstr) ++
        optMember "residentKey" (s.residentKey.map jstr) ++
        optMember "requireResidentKey" (s.requireResidentKey.map JVal.bool) ++
        optMember "userVerification" (s.userVerification.map jstr)) k =
      if k = "authenticatorAttachment" then s.attachment.map jstr
      else if k = "residentKey" then s.residentKey.map jstr
      else if k = "requireResidentKey" then s.requireResidentKey.map JVal.bool
      else if k = "userVerification" then s.userVerification.map jstr else none := by
  obtain ⟨a, r, rr, uv⟩ := s
  simp only [lookup_append, lookup_optMember, beq_iff_eq]
  by_cases h1 : "authenticatorAttachment" = k
  · subst h1; cases a <;> simp <;> cases r <;> simp <;> cases rr <;> simp <;> cases uv <;> simp
  · have h1' : ¬ k = "authenticatorAttachment" := fun e => h1 e.symm
    simp only [h1, h1', ↓reduceIte]
    by_cases h2 : "residentKey" = k
    · subst h2; cases r <;> simp <;> cases rr <;> simp <;> cases uv <;> simp
    · have h2' : ¬ k = "residentKey" := fun e => h2 e.symm
      simp only [h2, h2', ↓reduceIte]
      by_cases h3 : "requireResidentKey" = k
      · subst h3; cases rr <;> simp <;> cases uv <;> simp
      · have h3' : ¬ k = "requireResidentKey" := fun e => h3 e.symm
        simp only [h3, h3', ↓reduceIte]
        by_cases h4 : "userVerification" = k
        · subst h4; cases uv <;> simp
        · have h4' : ¬ k = "userVerification" := fun e => h4 e.symm
          simp [h4, h4']

theorem optEnum_of_lookup {kvs : List (String × JVal)} {k cls site : String} {v : Option String}
    (hl : JVal.lookup kvs k = v.map jstr) (h : OptIn cls v) : optEnum kvs k cls site = .ok v := by
  unfold optEnum
  rw [hl]
  cases v with
  | none => rfl
  | some s => simp only [Option.map_some]; rw [enumOf_str (h s rfl)]; rfl

theorem parseAuthSel_toJson {kvs : List (String × JVal)} {s : AuthSel} (hs : SelWF s)
    (hl : JVal.lookup kvs "authenticatorSelection" = some (authSelToJson s)) :
    parseAuthSel kvs = .ok (some (normSel s)) := by
  unfold parseAuthSel
  rw [hl]
  unfold authSelToJson
  simp only
  unfold parseAuthSelObj
  have e1 : optEnum (optMember "authenticatorAttachment" (s.attachment.map jstr) ++
        optMember "residentKey" (s.residentKey.map jstr) ++
        optMember "requireResidentKey" (s.requireResidentKey.map JVal.bool) ++
        optMember "userVerification" (s.userVerification.map jstr)) "authenticatorAttachment" "AuthenticatorAttachment"
        "options.sel.attachment" = .ok s.attachment :=
    optEnum_of_lookup (by rw [sel_lookup]; simp) hs.att
  have e2 : optEnum (optMember "authenticatorAttachment" (s.attachment.map jstr) ++
        optMember "residentKey" (s.residentKey.map jstr) ++
        optMember "requireResidentKey" (s.requireResidentKey.map JVal.bool) ++
        optMember "userVerification" (s.userVerification.map jstr)) "residentKey" "ResidentKeyRequirement"
        "options.sel.residentKey" = .ok s.residentKey :=
    optEnum_of_lookup (by rw [sel_lookup]; simp) hs.rk
  have e3 : selRequireRk (optMember "authenticatorAttachment" (s.attachment.map jstr) ++
        optMember "residentKey" (s.residentKey.map jstr) ++
        optMember "requireResidentKey" (s.requireResidentKey.map JVal.bool) ++
        optMember "userVerification" (s.userVerification.map jstr)) = .ok (s.requireResidentKey.getD false) := by
    unfold selRequireRk; rw [sel_lookup]
    cases s.requireResidentKey <;> simp
  have e4 : selUserVerification (optMember "authenticatorAttachment" (s.attachment.map jstr) ++
        optMember "residentKey" (s.residentKey.map jstr) ++
        optMember "requireResidentKey" (s.requireResidentKey.map JVal.bool) ++
        optMember "userVerification" (s.userVerification.map jstr)) = .ok (s.userVerification.getD "preferred") := by
    unfold selUserVerification; rw [sel_lookup]
    cases hu : s.userVerification with
    | none => simp
    | some u => simp [enumOf_str (hs.uv u hu)]
  rw [e1]; simp only [bind, Except.bind]
  rw [e2]; simp only
  rw [e3]; simp only
  rw [e4]; rfl

theorem mapM_parseParam (l : List (String × Int))
    (h : ∀ p ∈ l, p.1 = "public-key" ∧ coseAlgMembers.contains p.2 = true) :
    (l.map (fun p => JVal.obj [("type", jstr p.1), ("alg", .int p.2)])).mapM parseParam = .ok l := by
  induction l with
  | nil => rfl
  | cons p ps ih =>
    obtain ⟨t, a⟩ := p
    obtain ⟨ht, ha⟩ := h (t, a) List.mem_cons_self
    simp only at ht ha
    subst ht
    rw [List.map_cons, List.mapM_cons]
    have : parseParam (JVal.obj [("type", jstr "public-key"), ("alg", .int a)]) = .ok ("public-key", a) := by
      have ha' : a ∈ coseAlgMembers := by simpa using ha
      simp [parseParam, lookup_cons, lookup_nil, ha']
    rw [this, ih (fun q hq => h q (List.mem_cons_of_mem _ hq))]
    rfl

theorem reg_lookup (RP U C P A : JVal) (T E S H : Option JVal) (k : String) :
    JVal.lookup ([("rp", RP), ("user", U), ("challenge", C), ("pubKeyCredParams", P)] ++ optMember "timeout" T ++
        optMember "excludeCredentials" E ++ optMember "authenticatorSelection" S ++ [("attestation", A)] ++
        optMember "hints" H) k =
      if k = "rp" then some RP else if k = "user" then some U else if k = "challenge" then some C
      else if k = "pubKeyCredParams" then some P else if k = "timeout" then T
      else if k = "excludeCredentials" then E else if k = "authenticatorSelection" then S
      else if k = "attestation" then some A else if k = "hints" then H else none := by
  simp only [lookup_append, lookup_cons, lookup_optMember, lookup_nil, beq_iff_eq]
  by_cases h1 : "rp" = k
  · subst h1; simp
  · have h1' : ¬ k = "rp" := fun e => h1 e.symm
    simp only [h1, h1', ↓reduceIte]
    by_cases h2 : "user" = k
    · subst h2; simp
    · have h2' : ¬ k = "user" := fun e => h2 e.symm
      simp only [h2, h2', ↓reduceIte]
      by_cases h3 : "challenge" = k
      · subst h3; simp
      · have h3' : ¬ k = "challenge" := fun e => h3 e.symm
        simp only [h3, h3', ↓reduceIte]
        by_cases h4 : "pubKeyCredParams" = k
        · subst h4; simp
        · have h4' : ¬ k = "pubKeyCredParams" := fun e => h4 e.symm
          simp only [h4, h4', ↓reduceIte]
          by_cases h5 : "timeout" = k
          · subst h5; cases T <;> simp <;> cases E <;> simp <;> cases S <;> simp <;> cases H <;> simp
          · have h5' : ¬ k = "timeout" := fun e => h5 e.symm
            simp only [h5, h5', ↓reduceIte]
            by_cases h6 : "excludeCredentials" = k
            · subst h6; cases E <;> simp <;> cases S <;> simp <;> cases H <;> simp
            · have h6' : ¬ k = "excludeCredentials" := fun e => h6 e.symm
              simp only [h6, h6', ↓reduceIte]
              by_cases h7 : "authenticatorSelection" = k
              · subst h7; cases S <;> simp <;> cases H <;> simp
              · have h7' : ¬ k = "authenticatorSelection" := fun e => h7 e.symm
                simp only [h7, h7', ↓reduceIte]
                by_cases h8 : "attestation" = k
                · subst h8; simp
                · have h8' : ¬ k = "attestation" := fun e => h8 e.symm
                  simp only [h8, h8', ↓reduceIte]
                  by_cases h9 : "hints" = k
                  · subst h9; cases H <;> simp
                  · have h9' : ¬ k = "hints" := fun e => h9 e.symm
                    simp [h9, h9']

theorem regKvs_lookup (o : RegOptions) (k : String) :
    JVal.lookup (regKvs o) k =
      if k = "rp" then some (.obj (rpKvs o)) else if k = "user" then some (.obj (userKvs o))
      else if k = "challenge" then some (jb64 o.challenge)
      else if k = "pubKeyCredParams" then some (paramsJson o) else if k = "timeout" then o.timeout.map JVal.int
      else if k = "excludeCredentials" then o.excludeCredentials.map (fun l => .arr (l.map descriptorToJson))
      else if k = "authenticatorSelection" then o.authenticatorSelection.map authSelToJson
      else if k = "attestation" then some (jstr o.attestation)
      else if k = "hints" then o.hints.map (fun l => .arr (l.map jstr)) else none := by
  unfold regKvs; exact reg_lookup ..

/-- the header the parser extracts from the JSON of `o` -/
def headerOf (o : RegOptions) : RegHeader where
  rpId := o.rpId
  rpName := o.rpName
  userId := Base64.encodeStr o.userId
  userName := o.userName
  userDisplayName := o.userDisplayName
  attestation := o.attestation
  authenticatorSelection := o.authenticatorSelection.map normSel
  challenge := Base64.encodeStr o.challenge
  paramsJ := o.params.map (fun p => .obj [("type", jstr p.1), ("alg", .int p.2)])

theorem header_of_toJson (o : RegOptions) (h : RegOptionsWF o) :
    regOptionsHeader (regKvs o) = .ok (headerOf o) := by
  have hrpid : optStr (rpKvs o) "id" "options.rp.id" = .ok o.rpId := by
    unfold rpKvs
    cases hr : o.rpId with
    | none => simp [optStr, lookup_cons, lookup_nil]
    | some i => simp [optStr, lookup_cons, lookup_nil, h.rp i hr]
  have hrpname : getStr (rpKvs o) "name" "options.rp.name" = .ok o.rpName := by
    unfold rpKvs getStr; simp [lookup_cons, lookup_append]
  have hu1 : getStr (userKvs o) "id" "options.user.id" = .ok (Base64.encodeStr o.userId) := by
    unfold userKvs getStr; simp [lookup_cons]
  have hu2 : getStr (userKvs o) "name" "options.user.name" = .ok o.userName := by
    unfold userKvs getStr; simp [lookup_cons]
  have hu3 : getStr (userKvs o) "displayName" "options.user.displayName" = .ok o.userDisplayName := by
    unfold userKvs getStr; simp [lookup_cons]
  have hrp : getObj (regKvs o) "rp" "options.rp" = .ok (rpKvs o) := by unfold getObj; rw [regKvs_lookup]; simp
  have huser : getObj (regKvs o) "user" "options.user" = .ok (userKvs o) := by unfold getObj; rw [regKvs_lookup]; simp
  have hatt : getStr (regKvs o) "attestation" "options.attestation" = .ok o.attestation := by
    unfold getStr; rw [regKvs_lookup]; simp
  have hch : getStr (regKvs o) "challenge" "options.challenge" = .ok (Base64.encodeStr o.challenge) := by
    unfold getStr; rw [regKvs_lookup]; simp
  have hpar : listMember (regKvs o) "pubKeyCredParams" "options.pubKeyCredParams" =
      .ok (o.params.map (fun p => .obj [("type", jstr p.1), ("alg", .int p.2)])) := by
    unfold listMember; rw [regKvs_lookup]; simp [paramsJson]
  have hsel : parseAuthSel (regKvs o) = .ok (o.authenticatorSelection.map normSel) := by
    cases hs : o.authenticatorSelection with
    | none => unfold parseAuthSel; rw [regKvs_lookup]; simp [hs]
    | some s => exact parseAuthSel_toJson (h.sel s hs) (by rw [regKvs_lookup]; simp [hs])
  unfold regOptionsHeader
  rw [hrp]; simp only [bind, Except.bind]
  rw [hrpid]; simp only
  rw [hrpname]; simp only
  rw [huser]; simp only
  rw [hu1]; simp only
  rw [hu2]; simp only
  rw [hu3]; simp only
  rw [hatt]; simp only
  rw [enumOf_str h.att]; simp only
  rw [hsel]; simp only
  rw [hch]; simp only
  rw [hpar]; rfl

theorem body_of_toJson (o : RegOptions) (h : RegOptionsWF o) :
    regOptionsBody (regKvs o) (headerOf o) = .ok (normReg o) := by
  have hex : parseDescriptors (regKvs o) "excludeCredentials" = .ok (o.excludeCredentials.map (·.map normDescriptor)) := by
    unfold parseDescriptors; rw [regKvs_lookup]
    cases he : o.excludeCredentials with
    | none => simp
    | some l => simp [mapM_parseDescriptor l (h.descriptors l he), bind, Except.bind, pure, Except.pure]
  have hto : parseTimeout (regKvs o) = .ok o.timeout := by
    unfold parseTimeout; rw [regKvs_lookup]
    cases o.timeout <;> simp
  have hhi : parseHints (regKvs o) = .ok o.hints := by
    unfold parseHints; rw [regKvs_lookup]
    cases hh : o.hints with
    | none => simp
    | some l => simp [mapM_enumOf l (h.hints l hh), bind, Except.bind, pure, Except.pure]
  unfold regOptionsBody headerOf
  simp only
  rw [mapM_parseParam o.params h.params]; simp only [bind, Except.bind]
  rw [hex]; simp only
  rw [hto]; simp only
  rw [hhi]; simp only
  rw [decodeWrapped_encodeStr, decodeWrapped_encodeStr]
  rfl

/-- Parsing the JSON of an options object the generator can return gives back the original
(unset optional sub-members read back as their documented defaults). -/
theorem roundtrip_reg (o : RegOptions) (h : RegOptionsWF o) :
    parseRegOptionsJson (regOptionsToJson o) = .ok (normReg o) := by
  unfold parseRegOptionsJson regOptionsToJson
  simp only
  rw [header_of_toJson o h]
  exact body_of_toJson o h

/-! ### refusals -/

def StructureRefusal (e : Err) : Prop := e.kind = .lib .InvalidJSONStructure ∨ e.isOom = true

theorem getStr_ref (kvs k site) : ErrIn StructureRefusal (getStr kvs k site) := by
  intro e he; unfold getStr at he; split at he <;> cases he; exact .inl rfl

theorem getObj_ref (kvs k site) : ErrIn StructureRefusal (getObj kvs k site) := by
  intro e he; unfold getObj at he; split at he <;> cases he; exact .inl rfl

theorem optStr_ref (kvs k site) : ErrIn StructureRefusal (optStr kvs k site) := by
  intro e he; unfold optStr at he; split at he <;> cases he; exact .inl rfl

theorem listMember_ref (kvs k site) : ErrIn StructureRefusal (listMember kvs k site) := by
  intro e he; unfold listMember at he; split at he <;> cases he; exact .inl rfl

theorem enumOf_ref (cls v site) : ErrIn StructureRefusal (enumOf cls v site) := by
  intro e he; unfold enumOf at he
  split at he
  · split at he <;> cases he; exact .inl rfl
  · cases he; exact .inr rfl
  · cases he; exact .inl rfl

theorem optEnum_ref (kvs k cls site) : ErrIn StructureRefusal (optEnum kvs k cls site) := by
  intro e he; unfold optEnum at he
  split at he
  · cases he
  · cases he
  · exact ErrIn_bind (enumOf_ref _ _ _) (fun _ _ => ErrIn_pure _) e he

theorem parseAuthSel_ref (kvs) : ErrIn StructureRefusal (parseAuthSel kvs) := by
  unfold parseAuthSel
  split
  · refine ErrIn_bind ?_ fun _ _ => ErrIn_pure _
    unfold parseAuthSelObj
    refine ErrIn_bind (optEnum_ref _ _ _ _) fun _ _ => ErrIn_bind (optEnum_ref _ _ _ _) fun _ _ => ErrIn_bind ?_ fun _ _ =>
      ErrIn_bind ?_ fun _ _ => ErrIn_pure _
    · intro e he; unfold selRequireRk at he; split at he <;> first | (cases he; exact .inl rfl) | cases he
    · intro e he; unfold selUserVerification at he; split at he
      · cases he
      · cases he
      · exact enumOf_ref _ _ _ e he
  · exact ErrIn_ok _

/-- Everything the parser checks about the required scalar members and the enumerated members is
refused with the structure exception (a float where an enum string is expected is out of model). -/
theorem header_refuses (kvs : List (String × JVal)) : ErrIn StructureRefusal (regOptionsHeader kvs) := by
  unfold regOptionsHeader
  exact ErrIn_bind (getObj_ref _ _ _) fun _ _ => ErrIn_bind (optStr_ref _ _ _) fun _ _ => ErrIn_bind (getStr_ref _ _ _) fun _ _ =>
    ErrIn_bind (getObj_ref _ _ _) fun _ _ => ErrIn_bind (getStr_ref _ _ _) fun _ _ => ErrIn_bind (getStr_ref _ _ _) fun _ _ =>
    ErrIn_bind (getStr_ref _ _ _) fun _ _ => ErrIn_bind (getStr_ref _ _ _) fun _ _ => ErrIn_bind (enumOf_ref _ _ _) fun _ _ =>
    ErrIn_bind (parseAuthSel_ref _) fun _ _ => ErrIn_bind (getStr_ref _ _ _) fun _ _ => ErrIn_bind (listMember_ref _ _ _) fun _ _ =>
    ErrIn_pure _

/-- what the header demands: the required scalar members with their JSON types -/
structure RequiredPresent (kvs : List (String × JVal)) : Prop where
  rp : ∃ rp n, JVal.lookup kvs "rp" = some (.obj rp) ∧ JVal.lookup rp "name" = some (.str n)
  user : ∃ u i n d, JVal.lookup kvs "user" = some (.obj u) ∧ JVal.lookup u "id" = some (.str i) ∧
      JVal.lookup u "name" = some (.str n) ∧ JVal.lookup u "displayName" = some (.str d)
  challenge : ∃ c, JVal.lookup kvs "challenge" = some (.str c)
  attestation : ∃ a, JVal.lookup kvs "attestation" = some (.str a) ∧
      (enumValues "AttestationConveyancePreference").contains a = true
  params : ∃ l, JVal.lookup kvs "pubKeyCredParams" = some (.arr l)

theorem getStr_ok {kvs k site s} (h : getStr kvs k site = .ok s) : JVal.lookup kvs k = some (.str s) := by
  unfold getStr at h; split at h
  · rename_i t ht; cases h; exact ht
  · cases h

theorem getObj_ok {kvs k site o} (h : getObj kvs k site = .ok o) : JVal.lookup kvs k = some (.obj o) := by
  unfold getObj at h; split at h
  · rename_i t ht; cases h; exact ht
  · cases h

theorem header_ok_required {kvs : List (String × JVal)} {h : RegHeader} (hh : regOptionsHeader kvs = .ok h) :
    RequiredPresent kvs := by
  unfold regOptionsHeader at hh
  simp only [except_bind_ok] at hh
  obtain ⟨rp, hrp, _, _, n, hn, u, hu, i, hi, un, hun, d, hd, a, ha, a', hae, _, _, c, hc, l, hl, _⟩ := hh
  refine ⟨⟨rp, n, getObj_ok hrp, getStr_ok hn⟩, ⟨u, i, un, d, getObj_ok hu, getStr_ok hi, getStr_ok hun, getStr_ok hd⟩,
    ⟨c, getStr_ok hc⟩, ⟨a, getStr_ok ha, ?_⟩, ⟨l, ?_⟩⟩
  · unfold enumOf at hae
    simp only at hae
    split at hae
    · rename_i hm; exact hm
    · cases hae
  · unfold listMember at hl; split at hl
    · rename_i t ht; cases hl; exact ht
    · cases hl

/-- JSON in which a required scalar member is missing or of the wrong JSON type, or the
attestation preference holds an unknown value, is refused with the library's structure exception. -/
theorem required_missing_refused (kvs : List (String × JVal)) (h : ¬ RequiredPresent kvs) :
    ∃ e, parseRegOptionsJson (.obj kvs) = .error e ∧ StructureRefusal e := by
  unfold parseRegOptionsJson
  simp only
  cases hh : regOptionsHeader kvs with
  | ok hd => exact absurd (header_ok_required hh) h
  | error e => exact ⟨e, rfl, header_refuses kvs e hh⟩

/-- request options: a missing / ill-typed challenge or userVerification, or an unknown
userVerification value, is refused with the structure exception -/
theorem auth_refuses (kvs : List (String × JVal))
    (h : ¬ ((∃ c, JVal.lookup kvs "challenge" = some (.str c)) ∧
            ∃ u, JVal.lookup kvs "userVerification" = some (.str u) ∧
              (enumValues "UserVerificationRequirement").contains u = true)) :
    ∃ e, parseAuthOptionsJson (.obj kvs) = .error e ∧ (StructureRefusal e) := by
  unfold parseAuthOptionsJson
  simp only
  cases hc : getStr kvs "challenge" "options.challenge" with
  | error e => exact ⟨e, by simp [bind, Except.bind], getStr_ref _ _ _ e hc⟩
  | ok c =>
    cases ht : parseTimeout kvs with
    | error e =>
      refine ⟨e, by simp [bind, Except.bind, ht], ?_⟩
      unfold parseTimeout at ht; split at ht <;> first | (cases ht; exact .inr rfl) | cases ht
    | ok t =>
      cases hu : getStr kvs "userVerification" "options.userVerification" with
      | error e => exact ⟨e, by simp [bind, Except.bind, ht], getStr_ref _ _ _ e hu⟩
      | ok u =>
        cases he : enumOf "UserVerificationRequirement" (.str u) "options.userVerification.value" with
        | error e => exact ⟨e, by simp [bind, Except.bind, ht, he], enumOf_ref _ _ _ e he⟩
        | ok u' =>
          exfalso; apply h
          refine ⟨⟨c, getStr_ok hc⟩, u, getStr_ok hu, ?_⟩
          unfold enumOf at he; simp only at he
          split at he
          · rename_i hm; exact hm
          · cases he

end Webauthn.Props.C16
