/-
  C03 — Attestation statements bind credential, ceremony data and format rules.
  One theorem per signed format: an accepted statement satisfies every rule the verifier declares.
  Each rule is a conjunct, so "a statement failing any one rule is rejected" is the contrapositive.
-/
import Proofs.Formats
import Proofs.Cose
import Proofs.VerifyReg
import Proofs.Attestation
namespace Webauthn.Props.C03
open Webauthn Generated

/-! ### packed -/

/-- packed with a certificate: chain checked against the roots in force, signature over
authenticatorData ‖ SHA-256(clientDataJSON) by the leaf certificate's key under the declared alg -/
structure PackedX5cRules (W : World) (st : AttStmt) (authDataRaw : Cbor) (cdj : Bytes) (roots : List Root) : Prop where
  rules : ∃ ad x5c leaf rest cert alg,
    authDataRaw = .bytes ad ∧ st.alg = some alg ∧ alg.truthy = true ∧
    x5cList st.x5c = .ok x5c ∧ x5c = leaf :: rest ∧ ChainChecked W x5c roots ∧
    W.x509Load leaf = some cert ∧
    SigChecked W cert.key alg st.sig (ad ++ W.sha256 cdj)

/-- packed self attestation: statement alg equals the credential key's alg; signature by the
credential key itself with the scheme that alg denotes -/
structure PackedSelfRules (W : World) (st : AttStmt) (authDataRaw : Cbor) (cdj : Bytes) (credKey : Bytes) : Prop where
  rules : ∃ ad key pk alg,
    authDataRaw = .bytes ad ∧ st.alg = some alg ∧ alg.truthy = true ∧
    decodeCose credKey = .ok key ∧ cborNe key.alg alg = .ok false ∧
    coseToPubKey key = .ok pk ∧ W.keyLoad pk = true ∧
    SigChecked W pk alg st.sig (ad ++ W.sha256 cdj)

theorem attToBeSigned_ok {raw : Cbor} {h : Bytes} {site : String} {d : Bytes}
    (hh : attToBeSigned raw h site = .ok d) : ∃ ad, raw = .bytes ad ∧ d = ad ++ h := by
  unfold attToBeSigned at hh
  rw [except_bind_ok] at hh
  obtain ⟨ad, h1, h2⟩ := hh
  unfold needBytes at h1
  split at h1
  · cases h1; exact ⟨_, rfl, (Except.ok.inj h2).symm⟩
  · cases h1

theorem cborTruthy_some {v : Option Cbor} (h : cborTruthy v = true) : ∃ c, v = some c ∧ c.truthy = true := by
  unfold cborTruthy at h
  split at h
  · exact ⟨_, rfl, h⟩
  · cases h

theorem packed {W : World} {st : AttStmt} {adRaw : Cbor} {cdj credKey : Bytes} {roots : List Root}
    (h : runM W (verifyPacked st adRaw cdj credKey roots) = .ok ()) :
    (cborTruthy st.x5c = true → PackedX5cRules W st adRaw cdj roots) ∧
    (cborTruthy st.x5c = false → PackedSelfRules W st adRaw cdj credKey) := by
  unfold verifyPacked at h
  simp only [runM_reject_ok, runM_sha256M_bind, runM_liftE_ok] at h
  obtain ⟨hsig, halg, data, hdata, h⟩ := h
  obtain ⟨ad, hraw, hd⟩ := attToBeSigned_ok hdata
  obtain ⟨alg, halg', htr⟩ := cborTruthy_some (by simpa using halg)
  subst hd
  have hgetD : st.alg.getD .null = alg := by rw [halg']; rfl
  rw [hgetD] at h
  constructor
  · intro hx
    rw [if_pos hx] at h
    simp only [runM_liftE_ok, validateChainReg_bind_ok, loadCert_bind_ok, verifySignatureC_ok, x5c_head] at h
    obtain ⟨x5c, hx5c, hchain, leaf, ⟨rest, hrest⟩, cert, hcert, hs⟩ := h
    exact ⟨ad, x5c, leaf, rest, cert, alg, hraw, halg', htr, hx5c, hrest, hchain, hcert, hs⟩
  · intro hx
    rw [if_neg (by simp [hx])] at h
    simp only [runM_liftE_ok, runM_reject_ok, loadCoseKey_bind_ok, verifySignatureC_ok] at h
    obtain ⟨key, hkey, ne, hne, hfalse, pk, ⟨hpk, hload⟩, hs⟩ := h
    subst hfalse
    exact ⟨ad, key, pk, alg, hraw, halg', htr, hkey, hne, hpk, hload, hs⟩

/-! ### fido-u2f -/

structure U2fRules (W : World) (st : AttStmt) (cdj rpIdHash credId credKey aaguid : Bytes) (roots : List Root) : Prop where
  rules : ∃ leaf cert key xb yb,
    x5cList st.x5c = .ok [leaf] ∧                                  -- a single certificate
    ChainChecked W [leaf] roots ∧
    aaguidToString aaguid = .ok zeroAaguid ∧                        -- zero AAGUID
    W.x509Load leaf = some cert ∧ ecCurveOf cert.key = some .p256 ∧ -- P-256 leaf
    decodeCose credKey = .ok key ∧                                  -- EC2 credential key
    ec2Coords key = some (.bytes xb, .bytes yb) ∧
    SigChecked W cert.key (.nint 6) st.sig
      ([0x00] ++ rpIdHash ++ W.sha256 cdj ++ credId ++ ([0x04] ++ xb ++ yb))

theorem x5cLen_list {v : Option Cbor} {n : Nat} {l : List Bytes}
    (h1 : x5cLen v = .ok n) (h2 : x5cList v = .ok l) : l.length = n := by
  unfold x5cLen at h1
  unfold x5cList at h2
  split at h1
  · rename_i xs
    cases h1
    simp only at h2
    have : ∀ (xs : List Cbor) (l : List Bytes),
        xs.mapM (fun x => match x with | Cbor.bytes b => Except.ok b | _ => Except.error (oomErr "x5c-element")) = .ok l →
        l.length = xs.length := by
      intro xs
      induction xs with
      | nil => intro l h; simp [List.mapM_nil, pure, Except.pure] at h; subst h; rfl
      | cons x xs ih =>
        intro l h
        rw [List.mapM_cons] at h
        rw [except_bind_ok] at h; obtain ⟨a, _, h⟩ := h
        rw [except_bind_ok] at h; obtain ⟨as, has, h⟩ := h
        cases h
        simp [ih as has]
    exact this xs l h2
  · cases h1

theorem needBytes_ok {v : Cbor} {site : String} {b : Bytes} (h : needBytes v site = .ok b) : v = .bytes b := by
  unfold needBytes at h
  split at h
  · cases h; rfl
  · cases h

theorem fido_u2f {W : World} {st : AttStmt} {cdj rpIdHash credId credKey aaguid : Bytes} {roots : List Root}
    (h : runM W (verifyFidoU2f st cdj rpIdHash credId credKey aaguid roots) = .ok ()) :
    U2fRules W st cdj rpIdHash credId credKey aaguid roots := by
  unfold verifyFidoU2f at h
  simp only [runM_reject_ok, runM_sha256M_bind, runM_liftE_ok, validateChainReg_bind_ok, loadCert_bind_ok,
    verifySignatureC_ok, x5c_head, someOr_ok] at h
  obtain ⟨_, _, n, hn, hle, x5c, hx5c, hchain, aa, haa, hzero, leaf, ⟨rest, hrest⟩, cert, hcert, crv, hcrv,
    hp256, key, hkey, xy, hxy, xb, hxb, yb, hyb, hs⟩ := h
  have hlen := x5cLen_list hn hx5c
  subst hrest
  have hrest : rest = [] := by
    simp only [List.length_cons] at hlen
    have : n ≤ 1 := by simpa using hle
    cases rest with
    | nil => rfl
    | cons _ _ => simp at hlen; omega
  subst hrest
  have hz : aa = zeroAaguid := by simpa using hzero
  have hc : crv = .p256 := by simpa using hp256
  subst hz hc
  have := needBytes_ok hxb
  have := needBytes_ok hyb
  refine ⟨leaf, cert, key, xb, yb, hx5c, hchain, haa, hcert, hcrv, hkey, ?_, hs⟩
  rw [hxy]; congr 1; ext <;> assumption

/-- the U2F signature is verified as ECDSA with SHA-256 -/
theorem fido_u2f_scheme {W : World} {k : PubKey} {sig : Option Cbor} {data : Bytes}
    (hk : ecCurveOf k = some .p256) (h : SigChecked W k (.nint 6) sig data) :
    ∃ s b, Spec.classOf s = .ecdsa .sha256 ∧ sig = some (.bytes b) ∧ W.sigVerify k s b data = .valid := by
  obtain ⟨s, b, hplan, hsig, hv⟩ := h
  refine ⟨s, b, ?_, hsig, hv⟩
  cases k with
  | ec c x y =>
    rcases sigPlan_sound hplan with ⟨hkind, _⟩ | ⟨i, hi, hd⟩
    · simp [pubKeyKind] at hkind
    · have : i = -7 := by simpa [Cbor.asInt?] using hi.symm
      subst this
      simpa [pubKeyKind, Spec.dispatch] using hd.symm
  | rsa _ _ => simp [ecCurveOf] at hk
  | ed25519 _ => simp [ecCurveOf] at hk
  | other _ => simp [ecCurveOf] at hk

/-! ### tpm -/

/-- TPM key agreement: pubArea describes exactly the credential public key -/
def TpmKeyAgrees (pa : TPMPubArea) (key : CoseKey) : Prop :=
  match pa.parameters with
  | .rsa _ _ _ exponent =>
    ∃ kty alg e, key = .rsa kty alg (.bytes pa.unique) (.bytes e) ∧
      (if beNat exponent = 0 then 65537 else beNat exponent) = beNat e
  | .ecc _ _ curveId _ =>
    ∃ kty alg crv x y c, key = .ec2 kty alg crv (.bytes x) (.bytes y) ∧ pa.unique = x ++ y ∧
      tpmEccCurveCoseCrvMap.lookup curveId = some c ∧ crv.asInt? = some c

theorem tpmKeyAgreement_ok {pa : TPMPubArea} {key : CoseKey} (h : tpmKeyAgreement pa key = .ok ()) :
    TpmKeyAgrees pa key := by
  unfold tpmKeyAgreement at h
  unfold TpmKeyAgrees
  split at h
  · rename_i sym sch kb exponent hp
    rw [hp]
    simp only [except_bind_ok, rejectE_eq_ok, exists_const, someOr_ok] at h
    obtain ⟨ne, hne, hu, eb, heb, hexp⟩ := h
    cases key with
    | rsa kty alg n e =>
      simp only [rsaMembers, Option.some.injEq] at hne
      subst hne
      have he := needBytes_ok heb
      simp only at he hu
      cases n with
      | bytes nb =>
        simp only [bytesNe, bne_eq_false_iff_eq] at hu
        subst hu he
        refine ⟨kty, alg, eb, rfl, ?_⟩
        simpa using hexp
      | uint _ => simp [bytesNe] at hu
      | nint _ => simp [bytesNe] at hu
      | text _ => simp [bytesNe] at hu
      | arr _ => simp [bytesNe] at hu
      | map _ => simp [bytesNe] at hu
      | bool _ => simp [bytesNe] at hu
      | null => simp [bytesNe] at hu
      | undefined => simp [bytesNe] at hu
    | okp _ _ _ _ => simp [rsaMembers] at hne
    | ec2 _ _ _ _ _ => simp [rsaMembers] at hne
  · rename_i sym sch curveId kdf hp
    rw [hp]
    simp only [except_bind_ok, rejectE_eq_ok, exists_const, someOr_ok] at h
    obtain ⟨m, hm, xb, hxb, yb, hyb, hu, c, hc, hcrv⟩ := h
    cases key with
    | ec2 kty alg crv x y =>
      simp only [ec2Members, Option.some.injEq] at hm
      subst hm
      have hx := needBytes_ok hxb
      have hy := needBytes_ok hyb
      simp only at hx hy hu hcrv
      subst hx hy
      exact ⟨kty, alg, crv, xb, yb, c, rfl, by simpa using hu, hc, by simpa using hcrv⟩
    | okp _ _ _ _ => simp [ec2Members] at hm
    | rsa _ _ _ _ => simp [ec2Members] at hm

/-- the AIK certificate profile -/
structure AikProfile (cert : CertView) : Prop where
  v3 : cert.versionV3 = true
  subject_empty : cert.subjectLen = 0
  san : ∃ attrs m mo ve, cert.san = some (.dirName attrs) ∧ tcgAttrs attrs = (some m, some mo, some ve) ∧
    m ≠ "" ∧ mo ≠ "" ∧ ve ≠ "" ∧ m ∈ tpmManufacturers
  eku_contains : ∃ l, cert.eku = some l ∧ "2.23.133.8.3" ∈ l
  not_ca : cert.bcCa = some false

theorem strTruthy_some {s : Option String} (h : strTruthy s = true) : ∃ t, s = some t ∧ t ≠ "" := by
  unfold strTruthy at h
  split at h
  · rename_i t; exact ⟨t, rfl, by intro ht; subst ht; simp at h⟩
  · cases h

theorem tpmCertProfile_ok {cert : CertView} (h : tpmCertProfile cert = .ok ()) : AikProfile cert := by
  unfold tpmCertProfile at h
  have hflag : tpmEkuRuleIsContains = true := by decide
  simp only [tpmEkuCheck, hflag, ↓reduceIte, except_bind_ok, rejectE_eq_ok, exists_const, someOr_ok, headOr_ok] at h
  obtain ⟨hv, hs, _, san, hsan, attrs, hattrs, htr, hvend, eku, heku, hoid, ca, hca, hcaf⟩ := h
  have hdir : san = .dirName attrs := by
    unfold sanAttrs at hattrs
    split at hattrs <;> first | (cases hattrs; rfl) | cases hattrs
  simp only [Bool.or_eq_false_iff, Bool.not_eq_false'] at htr
  obtain ⟨⟨h1, h2⟩, h3⟩ := htr
  obtain ⟨m, hm, hm0⟩ := strTruthy_some h1
  obtain ⟨mo, hmo, hmo0⟩ := strTruthy_some h2
  obtain ⟨ve, hve, hve0⟩ := strTruthy_some h3
  refine ⟨by simpa using hv, by simpa using hs, ⟨attrs, m, mo, ve, by rw [hsan, hdir], ?_, hm0, hmo0, hve0, ?_⟩, ?_, ?_⟩
  · ext <;> simp [hm, hmo, hve]
  · rw [hm] at hvend; simpa using hvend
  · exact ⟨eku, heku, by simpa using hoid⟩
  · subst hcaf; exact hca

structure TpmRules (W : World) (st : AttStmt) (authDataRaw : Cbor) (cdj credKey : Bytes) (roots : List Root) : Prop where
  rules : ∃ ad x5c leaf rest cert alg pubArea certInfo pa ci key h0 h hnCose hn,
    authDataRaw = .bytes ad ∧ st.alg = some alg ∧
    textIs st.ver "2.0" = true ∧                                                -- version
    x5cList st.x5c = .ok x5c ∧ x5c = leaf :: rest ∧ ChainChecked W x5c roots ∧
    st.pubArea = some (.bytes pubArea) ∧ parsePubArea pubArea = .ok pa ∧
    decodeCose credKey = .ok key ∧ TpmKeyAgrees pa key ∧                        -- pubArea / key equality
    st.certInfo = some (.bytes certInfo) ∧ parseCertInfo certInfo = .ok ci ∧
    beNat ci.magic = 0xFF544347 ∧ ci.type = tpmStAttestCertify ∧                -- magic, certify type
    hashAlgByCose none = .ok h0 ∧ hashAlgByCose (some alg) = .ok h ∧
    ci.extraData = W.hash h (ad ++ W.hash h0 cdj) ∧                             -- extraData hash
    tpmAlgCoseAlgMap.lookup pa.nameAlg = some hnCose ∧ hashAlgByCose (some (cborOfInt hnCose)) = .ok hn ∧
    ci.attested.nameAlg = pa.nameAlg ∧                                          -- Name algorithm = pubArea.nameAlg
    ci.attested.name = ci.attested.nameAlgBytes ++ W.hash hn pubArea ∧          -- attested Name digest
    W.x509Load leaf = some cert ∧
    SigChecked W cert.key alg st.sig certInfo ∧                                 -- signature over certInfo
    AikProfile cert

theorem optBytes_ok {v : Option Cbor} {site : String} {b : Bytes} (h : optBytes v site = .ok b) :
    v = some (.bytes b) := by
  unfold optBytes at h
  split at h
  · rw [needBytes_ok h]
  · cases h

theorem parseCertInfo_type {val : Bytes} {ci : TPMCertInfo} (h : parseCertInfo val = .ok ci) :
    ci.type = tpmStAttestCertify := by
  unfold parseCertInfo at h
  simp only [except_bind_ok, rejectE_eq_ok, exists_const] at h
  obtain ⟨ty, _, hty, att, _, clk, _, h⟩ := h
  have : ci = _ := (Except.ok.inj h).symm
  subst this
  simpa using hty

theorem tpm {W : World} {st : AttStmt} {adRaw : Cbor} {cdj credKey : Bytes} {roots : List Root}
    (h : runM W (verifyTpm st adRaw cdj credKey roots) = .ok ()) : TpmRules W st adRaw cdj credKey roots := by
  unfold verifyTpm at h
  simp only [runM_reject_ok, runM_liftE_ok, validateChainReg_bind_ok, loadCert_bind_ok, hashByAlgM_bind_ok,
    verifySignatureC_bind_ok, x5c_head, someOr_ok, runM_liftE] at h
  obtain ⟨_, _, halg, _, _, hver, x5c, hx5c, hchain, pab, hpab, pa, hpa, key, hkey, u, hagree, cib, hcib, ci, hci,
    hmagic, h0, hh0, data, hdata, hh, hhh, hextra, nc, hnc, hn, hhn, hnamealg, hname, leaf, ⟨rest, hrest⟩, cert, hcert, hs, hprof⟩ := h
  cases u
  obtain ⟨alg, halg', _⟩ := cborTruthy_some (by simpa using halg)
  obtain ⟨ad, hraw, hd⟩ := attToBeSigned_ok hdata
  subst hd
  have hgetD : st.alg.getD .null = alg := by rw [halg']; rfl
  rw [hgetD] at hs
  rw [halg'] at hhh
  exact ⟨ad, x5c, leaf, rest, cert, alg, pab, cib, pa, ci, key, h0, hh, nc, hn,
    hraw, halg', by simpa using hver, hx5c, hrest, hchain, optBytes_ok hpab, hpa, hkey, tpmKeyAgreement_ok hagree,
    optBytes_ok hcib, hci, by simpa using hmagic, parseCertInfo_type hci, hh0, hhh, by simpa using hextra,
    hnc, hhn, by simpa using hnamealg, by simpa using (by simpa using hname : _ = ci.attested.name).symm, hcert, hs,
    tpmCertProfile_ok hprof⟩

/-- the regenerated TPM_ALG_ID table is injective: an algorithm name determines its 2-byte id -/
theorem tpmAlgMap_injective : ∀ p ∈ tpmAlgMap, ∀ q ∈ tpmAlgMap, p.2 = q.2 → p.1 = q.1 := by
  decide +kernel

theorem parseCertInfo_name {val : Bytes} {ci : TPMCertInfo} (h : parseCertInfo val = .ok ci) :
    ci.attested.nameAlgBytes = slice ci.attested.name 0 2 ∧
    tpmAlgMap.lookup ci.attested.nameAlgBytes = some ci.attested.nameAlg := by
  unfold parseCertInfo at h
  simp only [except_bind_ok, rejectE_eq_ok, exists_const] at h
  obtain ⟨ty, _, hty, att, hatt, clk, _, h⟩ := h
  have : ci = _ := (Except.ok.inj h).symm
  subst this
  unfold parseAttestedName at hatt
  rw [except_bind_ok] at hatt
  obtain ⟨alg, halg, hatt⟩ := hatt
  have : att = _ := (Except.ok.inj hatt).symm
  subst this
  unfold tpmLookup at halg
  split at halg
  · rename_i v hv; cases halg; exact ⟨rfl, hv⟩
  · cases halg

theorem parsePubArea_nameAlg {val : Bytes} {pa : TPMPubArea} (h : parsePubArea val = .ok pa) :
    tpmAlgMap.lookup (slice val 2 4) = some pa.nameAlg := by
  unfold parsePubArea at h
  rw [except_bind_ok] at h; obtain ⟨ty, _, h⟩ := h
  rw [except_bind_ok] at h; obtain ⟨na, hna, h⟩ := h
  have hl : tpmAlgMap.lookup (slice val 2 4) = some na := by
    unfold tpmLookup at hna
    split at hna
    · rename_i v hv; cases hna; exact hv
    · cases hna
  simp only at h
  split at h
  · rw [except_bind_ok] at h; obtain ⟨_, _, h⟩ := h
    have : pa = _ := (Except.ok.inj h).symm
    subst this; exact hl
  · split at h
    · rw [except_bind_ok] at h; obtain ⟨_, _, h⟩ := h
      have : pa = _ := (Except.ok.inj h).symm
      subst this; exact hl
    · cases h

/-- TPM, full strength (after the F4 repair): the attested Name is pubArea's own nameAlg id
followed by the digest of pubArea under that algorithm. -/
theorem tpm_name_is_name_of_pubarea {pubArea certInfo : Bytes} {pa : TPMPubArea} {ci : TPMCertInfo}
    (hpa : parsePubArea pubArea = .ok pa) (hci : parseCertInfo certInfo = .ok ci)
    (halg : ci.attested.nameAlg = pa.nameAlg) :
    ci.attested.nameAlgBytes = slice pubArea 2 4 := by
  obtain ⟨_, h1⟩ := parseCertInfo_name hci
  have h2 := parsePubArea_nameAlg hpa
  rw [halg] at h1
  exact tpmAlgMap_injective _ (lookup_mem h1) _ (lookup_mem h2) rfl

/-! ### apple -/

structure AppleRules (W : World) (st : AttStmt) (authDataRaw : Cbor) (cdj credKey : Bytes) (roots : List Root) : Prop where
  rules : ∃ ad x5c leaf rest cert ext key pk,
    authDataRaw = .bytes ad ∧ x5cList st.x5c = .ok x5c ∧ x5c = leaf :: rest ∧
    -- chain to the RP's roots for this format plus the built-in Apple root
    ChainChecked W x5c (roots ++ ((builtinRootNames.lookup "apple").getD []).map Root.builtin) ∧
    W.x509Load leaf = some cert ∧
    -- nonce extension = SHA-256(authenticatorData ‖ SHA-256(clientDataJSON)) after the 6 ASN.1 bytes
    cert.appleNonce = some ext ∧ ext.drop 6 = W.sha256 (ad ++ W.sha256 cdj) ∧
    -- certificate key = credential key (SubjectPublicKeyInfo equality)
    decodeCose credKey = .ok key ∧ coseToPubKey key = .ok pk ∧ W.keyLoad pk = true ∧ cert.spki = W.spki pk

theorem apple {W : World} {st : AttStmt} {adRaw : Cbor} {cdj credKey : Bytes} {roots : List Root}
    (h : runM W (verifyApple st adRaw cdj credKey roots) = .ok ()) : AppleRules W st adRaw cdj credKey roots := by
  unfold verifyApple at h
  simp only [runM_reject_ok, runM_reject_ok', runM_liftE_ok, validateChainReg_bind_ok, loadCert_bind_ok, runM_sha256M_bind,
    loadCoseKey_bind_ok, runM_spkiM_bind, x5c_head, someOr_ok] at h
  obtain ⟨_, x5c, hx5c, hchain, data, hdata, leaf, ⟨rest, hrest⟩, cert, hcert, _, ext, hext, hnonce, key, hkey, pk,
    ⟨hpk, hload⟩, hspki⟩ := h
  obtain ⟨ad, hraw, hd⟩ := attToBeSigned_ok hdata
  subst hd
  exact ⟨ad, x5c, leaf, rest, cert, ext, key, pk, hraw, hx5c, hrest, hchain, hcert, hext, by simpa using hnonce,
    hkey, hpk, hload, by simpa using hspki⟩

/-! ### android-key -/

structure AndroidKeyRules (W : World) (st : AttStmt) (authDataRaw : Cbor) (cdj credKey : Bytes) (roots : List Root) : Prop where
  rules : ∃ ad x5c rootDer rootCert leaf rest cert alg key pk kdDer kd,
    authDataRaw = .bytes ad ∧ st.alg = some alg ∧ x5cList st.x5c = .ok x5c ∧
    -- x5c carries its own root last; the rest must chain to it, and it must be a trusted root
    x5c.getLast? = some rootDer ∧ W.x509Load rootDer = some rootCert ∧
    ChainChecked W x5c.dropLast [Root.pem rootCert.pem] ∧
    rootCert.pem ∈ (rpPemsOf roots ++ ((builtinRootNames.lookup "android-key").getD []).map W.builtinPem).filterMap W.pemCanon ∧
    x5c = leaf :: rest ∧ W.x509Load leaf = some cert ∧
    SigChecked W cert.key alg st.sig (ad ++ W.sha256 cdj) ∧
    decodeCose credKey = .ok key ∧ coseToPubKey key = .ok pk ∧ W.keyLoad pk = true ∧ cert.spki = W.spki pk ∧
    cert.keyDesc = some kdDer ∧ W.keyDescription kdDer = some kd ∧
    kd.attestationChallenge = W.sha256 cdj ∧
    kd.swAllAppsPresent = false ∧ kd.teeAllAppsPresent = false ∧           -- allApplications absent
    kd.teeOrigin = some 0 ∧ kd.teePurpose = some [2]

theorem android_key {W : World} {st : AttStmt} {adRaw : Cbor} {cdj credKey : Bytes} {roots : List Root}
    (h : runM W (verifyAndroidKey st adRaw cdj credKey roots) = .ok ()) :
    AndroidKeyRules W st adRaw cdj credKey roots := by
  unfold verifyAndroidKey at h
  simp only [runM_reject_ok, runM_reject_ok', runM_liftE_ok, validateChainReg_bind_ok, loadCert_bind_ok, runM_sha256M_bind,
    loadCoseKey_bind_ok, runM_spkiM_bind, x5c_head, someOr_ok, verifySignatureC_bind_ok, runM_keyDescriptionM_bind,
    builtinPemsM_bind_ok, pemCanonsM_bind_ok] at h
  obtain ⟨_, halg, _, x5c, hx5c, rootDer, hlast, rootCert, hrootCert, hchain, hmem, data, hdata, leaf, ⟨rest, hrest⟩,
    cert, hcert, hs, key, hkey, pk, ⟨hpk, hload⟩, hspki, _, kdDer, hkd, kd, hkdv, hchal, hsw, htee, horigin, hpurpose⟩ := h
  obtain ⟨alg, halg', _⟩ := cborTruthy_some (by simpa using halg)
  obtain ⟨ad, hraw, hd⟩ := attToBeSigned_ok hdata
  subst hd
  have hgetD : st.alg.getD .null = alg := by rw [halg']; rfl
  rw [hgetD] at hs
  exact ⟨ad, x5c, rootDer, rootCert, leaf, rest, cert, alg, key, pk, kdDer, kd, hraw, halg', hx5c, hlast, hrootCert,
    hchain, List.contains_iff_mem.mp (by simpa only [Bool.not_eq_false'] using hmem), hrest, hcert, hs, hkey, hpk, hload, by simpa using hspki, hkd, hkdv,
    by simpa using hchal, by simpa using hsw, by simpa using htee, by simpa using horigin, by simpa using hpurpose⟩

/-! ### android-safetynet -/

structure SafetyNetRules (W : World) (st : AttStmt) (authDataRaw : Cbor) (cdj : Bytes) (roots : List Root) : Prop where
  rules : ∃ ad resp jws parts hb header pb payload x5c ts leaf cert sig,
    authDataRaw = .bytes ad ∧ st.response = some (.bytes resp) ∧ asciiChars resp = some jws ∧
    threeParts (splitOnDot jws) = .ok parts ∧
    Base64.decode parts.1 = .ok hb ∧ W.jsonLoadsBytes hb = .ok (.obj header) ∧
    Base64.decode parts.2.1 = .ok pb ∧ W.jsonLoadsBytes pb = .ok (.obj payload) ∧
    -- nonce = base64(SHA-256(authenticatorData ‖ SHA-256(clientDataJSON)))
    (∃ n, (JVal.lookup payload "nonce").getD (.str "") = .str n ∧
          n.toList = b64Std (W.sha256 (ad ++ W.sha256 cdj))) ∧
    -- basicIntegrity is the JSON value true itself (not merely something truthy: finding F13)
    (JVal.lookup payload "basicIntegrity").getD (.bool false) = .bool true ∧
    snetTimestamp ((JVal.lookup payload "timestampMs").getD (.int 0)) = .ok ts ∧
    safetynetTimestampRejects ts W.nowSeconds = false ∧
    snetX5c ((JVal.lookup header "x5c").getD (.arr [])) = .ok x5c ∧ x5c.head? = some leaf ∧
    W.x509Load leaf = some cert ∧ cert.subjectCNs.head? = some "attest.android.com" ∧
    ChainChecked W x5c (roots ++ ((builtinRootNames.lookup "android-safetynet").getD []).map Root.builtin) ∧
    JVal.lookup header "alg" = some (.str "RS256") ∧
    Base64.decode parts.2.2 = .ok sig ∧
    SigChecked W cert.key (.nint 256) (some (.bytes sig)) (utf8 (String.ofList (parts.1 ++ ['.'] ++ parts.2.1)))

theorem isTrue_eq {v : JVal} (h : v.isTrue = true) : v = .bool true := by
  cases v with
  | bool b => cases b <;> simp [JVal.isTrue] at h ⊢
  | _ => simp [JVal.isTrue] at h

theorem jvalStrIs_lookup {kvs : List (String × JVal)} {k : String} {d : String} {s : List Char}
    (hd : d.toList ≠ s) (h : jvalStrIs ((JVal.lookup kvs k).getD (.str d)) s = true) :
    JVal.lookup kvs k = some (.str (String.ofList s)) := by
  cases hl : JVal.lookup kvs k with
  | none => rw [hl] at h; simp [jvalStrIs] at h; exact absurd h hd
  | some v =>
    rw [hl] at h
    simp only [Option.getD_some, jvalStrIs] at h
    split at h
    · rename_i t
      have : t.toList = s := by simpa using h
      rw [← this, String.ofList_toList]
    · cases h

theorem jvalStrIs_eq {v : JVal} {s : List Char} (h : jvalStrIs v s = true) : ∃ t, v = .str t ∧ t.toList = s := by
  unfold jvalStrIs at h
  split at h
  · rename_i t; exact ⟨t, rfl, by simpa using h⟩
  · cases h

theorem responseBytes_ok {v : Option Cbor} {b : Bytes} (h : responseBytes v = .ok b) : v = some (.bytes b) := by
  unfold responseBytes at h
  split at h
  · cases h; rfl
  · cases h

theorem safetynet {W : World} {st : AttStmt} {adRaw : Cbor} {cdj : Bytes} {roots : List Root}
    (h : runM W (verifySafetyNet st adRaw cdj roots) = .ok ()) : SafetyNetRules W st adRaw cdj roots := by
  unfold verifySafetyNet at h
  simp only [runM_reject_ok, runM_reject_ok', runM_liftE_ok, validateChainReg_bind_ok, loadCert_bind_ok, runM_sha256M_bind,
    x5c_head, someOr_ok, headOr_ok, verifySignatureC_ok, jwsPartJson_bind_ok, safetynetTimestampFails_bind] at h
  obtain ⟨_, _, resp, hresp, jws, hjws, parts, hparts, hb, header, hhb, hheader, pb, payload, hpb, hpayload, data, hdata,
    hnonce, x5c, hx5c, hint, ts, hts, hlate, leaf, hleaf, cert, hcert, cn, hcn, hcnv, hchain, sig, hsig, halg, hs⟩ := h
  obtain ⟨ad, hraw, hd⟩ := attToBeSigned_ok hdata
  subst hd
  have hcn' : cn = "attest.android.com" := by simpa using hcnv
  subst hcn'
  refine ⟨ad, resp, jws, parts, hb, header, pb, payload, x5c, ts, leaf, cert, sig, hraw, responseBytes_ok hresp, hjws,
    hparts, hhb, hheader, hpb, hpayload, ?_, isTrue_eq (by simpa using hint), hts, hlate, hx5c, hleaf, hcert, hcn, hchain, ?_, hsig, hs⟩
  · exact jvalStrIs_eq (by simpa using hnonce)
  · exact jvalStrIs_lookup (d := "") (by decide) (by simpa using halg)

/-! ### wiring: an accepted registration with format `f` satisfies the rules of `f`, stated
about the credential key and credential id that are *returned* -/

structure RegFormatRules (W : World) (c : RegCred) (e : RegExpect) (r : VerifiedReg) : Prop where
  rules : ∃ ao att roots,
    parseAttObj c.attestationObject = .ok ao ∧ ao.authData.attested = some att ∧
    rootsFor e ao.fmt = .ok roots ∧
    r.credentialPublicKey = att.publicKey ∧ r.credentialId = att.credentialId ∧
    fmtText ao.fmt = some r.fmt ∧
    (r.fmt = "packed" →
      (cborTruthy ao.attStmt.x5c = true → PackedX5cRules W ao.attStmt ao.authDataRaw c.clientDataJSON roots) ∧
      (cborTruthy ao.attStmt.x5c = false →
        PackedSelfRules W ao.attStmt ao.authDataRaw c.clientDataJSON r.credentialPublicKey)) ∧
    (r.fmt = "fido-u2f" → U2fRules W ao.attStmt c.clientDataJSON ao.authData.rpIdHash r.credentialId
        r.credentialPublicKey att.aaguid roots) ∧
    (r.fmt = "tpm" → TpmRules W ao.attStmt ao.authDataRaw c.clientDataJSON r.credentialPublicKey roots) ∧
    (r.fmt = "apple" → AppleRules W ao.attStmt ao.authDataRaw c.clientDataJSON r.credentialPublicKey roots) ∧
    (r.fmt = "android-key" →
      AndroidKeyRules W ao.attStmt ao.authDataRaw c.clientDataJSON r.credentialPublicKey roots) ∧
    (r.fmt = "android-safetynet" → SafetyNetRules W ao.attStmt ao.authDataRaw c.clientDataJSON roots)

theorem registration {W : World} {c : RegCred} {e : RegExpect} {r : VerifiedReg}
    (h : runM W (verifyReg c e) = .ok r) : RegFormatRules W c e r := by
  obtain ⟨a⟩ := verifyReg_ok_iff.mp h
  obtain ⟨f, hf, _, _⟩ := verifyFormat_ok a.fmtOk
  have hrec := a.record
  have hrf : r.fmt = f := by
    have := congrArg VerifiedReg.fmt hrec; simpa [hf] using this
  have hk : r.credentialPublicKey = a.att.publicKey := congrArg VerifiedReg.credentialPublicKey hrec
  have hi : r.credentialId = a.att.credentialId := congrArg VerifiedReg.credentialId hrec
  have hfmt := a.fmtOk
  unfold verifyFormat at hfmt
  rw [hf] at hfmt
  refine ⟨a.ao, a.att, a.roots, a.aoOk, a.attOk, a.rootsOk, hk, hi, by rw [hrf, hf], ?_, ?_, ?_, ?_, ?_, ?_⟩
  all_goals (intro hfx; rw [hrf] at hfx; subst hfx; simp only at hfmt; (try rw [hk]); try rw [hi])
  · exact packed hfmt
  · exact fido_u2f hfmt
  · exact tpm hfmt
  · exact apple hfmt
  · exact android_key hfmt
  · exact safetynet hfmt

end Webauthn.Props.C03
