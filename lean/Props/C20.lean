/-
  C20 — Loosening RP policy never rejects (authentication part; registration below once modelled).
-/
import Proofs.VerifyAuth
import Proofs.VerifyReg
namespace Webauthn.Props.C20
open Webauthn Generated

/-- `e'` is at least as loose as `e`: same challenge / RP ID / key / stored counter, user
verification required by `e'` only if `e` requires it, and every origin `e` accepts is accepted by
`e'` (superset of the list; a one-element list instead of the bare string). -/
structure AuthLooser (e e' : AuthExpect) : Prop where
  challenge : e'.challenge = e.challenge
  rpId : e'.rpId = e.rpId
  publicKey : e'.publicKey = e.publicKey
  count : e'.currentSignCount = e.currentSignCount
  uv : e'.requireUV = true → e.requireUV = true
  origins : ∀ o, originOk e.origin o = true → originOk e'.origin o = true

/-- If a response is accepted under `e` it is accepted, with an equal result, under every looser
`e'` — for every response whatsoever and every behaviour of the external libraries. -/
theorem auth_mono {W : World} {c : AuthCred} {e e' : AuthExpect} {r : VerifiedAuth}
    (hl : AuthLooser e e') (h : runM W (verifyAuth c e) = .ok r) :
    runM W (verifyAuth c e') = .ok r := by
  obtain ⟨a⟩ := verifyAuth_ok_iff.mp h
  refine verifyAuth_ok_iff.mpr ⟨{ a with
    challengeOk := by rw [hl.challenge]; exact a.challengeOk
    originOk' := hl.origins _ a.originOk'
    rpOk := by rw [hl.rpId]; exact a.rpOk
    upOk := ?_
    uvOk := ?_
    ctrOk := by rw [hl.count]; exact a.ctrOk
    keyOk := by rw [hl.publicKey]; exact a.keyOk }⟩
  · have h1 := a.upOk; have h0 := a.uvOk; have h2 := hl.uv
    revert h0 h1 h2
    unfold authUpRejects authUvRejects
    cases e.requireUV <;> cases e'.requireUV <;> cases a.ad.flags.uv <;> cases a.ad.flags.up <;> simp
  · have h1 := a.uvOk; have h0 := a.upOk; have h2 := hl.uv
    revert h0 h1 h2
    unfold authUpRejects authUvRejects
    cases e.requireUV <;> cases e'.requireUV <;> cases a.ad.flags.uv <;> cases a.ad.flags.up <;> simp

/-- a superset of the expected origins is looser -/
theorem origins_superset {ss ss' : List String} (h : ∀ s ∈ ss, s ∈ ss') (o : JVal)
    (ho : originOk (.many ss) o = true) : originOk (.many ss') o = true := by
  unfold originOk at *
  split at ho
  · rename_i s; simp only [List.contains_eq_mem, decide_eq_true_eq] at ho ⊢; exact h s ho
  · cases ho

/-- a one-element list instead of the bare string (and back) -/
theorem single_as_list (s : String) (o : JVal) :
    originOk (.single s) o = originOk (.many [s]) o := by
  unfold originOk
  split
  · rename_i t
    simp only [List.contains_eq_mem, List.mem_singleton]
    by_cases h : s = t
    · subst h; simp
    · have h' : ¬ t = s := fun e => h e.symm
      simp [h, h']
  · rfl

/-- adding the string to a list that lacks it -/
theorem single_into_list {s : String} {ss : List String} (h : s ∈ ss) (o : JVal)
    (ho : originOk (.single s) o = true) : originOk (.many ss) o = true := by
  rw [single_as_list] at ho
  exact origins_superset (by intro t ht; simp at ht; rw [ht]; exact h) o ho

/-! ### registration -/

/-- `e'` is at least as loose as `e` for registration: additionally user presence may be waived
and the allowed algorithms may grow -/
structure RegLooser (e e' : RegExpect) : Prop where
  challenge : e'.challenge = e.challenge
  rpId : e'.rpId = e.rpId
  roots : e'.rootsByFmt = e.rootsByFmt
  up : e'.requireUP = true → e.requireUP = true
  uv : e'.requireUV = true → e.requireUV = true
  origins : ∀ o, originOk e.origin o = true → originOk e'.origin o = true
  algs : ∀ i ∈ e.supportedAlgs, i ∈ e'.supportedAlgs

theorem algAllowed_mono {alg : Cbor} {l l' : List Int} (h : ∀ i ∈ l, i ∈ l')
    (ha : algAllowed alg l = true) : algAllowed alg l' = true := by
  unfold algAllowed at *
  split at ha
  · rename_i i hi
    simp only [List.contains_eq_mem, decide_eq_true_eq] at ha ⊢
    exact h i ha
  · cases ha

theorem reg_mono {W : World} {c : RegCred} {e e' : RegExpect} {r : VerifiedReg}
    (hl : RegLooser e e') (h : runM W (verifyReg c e) = .ok r) :
    runM W (verifyReg c e') = .ok r := by
  obtain ⟨a⟩ := verifyReg_ok_iff.mp h
  have hroots : rootsFor e' a.ao.fmt = rootsFor e a.ao.fmt := by unfold rootsFor; rw [hl.roots]
  refine verifyReg_ok_iff.mpr ⟨{ a with
    challengeOk := by rw [hl.challenge]; exact a.challengeOk
    originOk' := hl.origins _ a.originOk'
    rpOk := by rw [hl.rpId]; exact a.rpOk
    upOk := ?_
    uvOk := ?_
    algOk := algAllowed_mono hl.algs a.algOk
    rootsOk := by rw [hroots]; exact a.rootsOk }⟩
  · have h1 := a.upOk; have h2 := hl.up; have h3 := hl.uv
    revert h1 h2 h3
    unfold regUpRejects
    cases e.requireUP <;> cases e'.requireUP <;> cases e.requireUV <;> cases e'.requireUV <;>
      cases a.ao.authData.flags.up <;> cases a.ao.authData.flags.uv <;> simp
  · have h1 := a.uvOk; have h2 := hl.up; have h3 := hl.uv
    revert h1 h2 h3
    unfold regUvRejects
    cases e.requireUP <;> cases e'.requireUP <;> cases e.requireUV <;> cases e'.requireUV <;>
      cases a.ao.authData.flags.up <;> cases a.ao.authData.flags.uv <;> simp

end Webauthn.Props.C20
