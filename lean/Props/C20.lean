/-
  C20 — Loosening RP policy never rejects (authentication part; registration below once modelled).
-/
import Proofs.VerifyAuth
namespace Webauthn.Props.C20
open Webauthn Generated

/-- `e'` is at least as loose as `e`: same challenge / RP ID / key / stored counter, user
verification required by `e'` only if `e` requires it, and every origin `e` accepts is accepted by
`e'` (superset of the list; a one-element list instead of the bare string). -/
structure AuthLooser (e e' : AuthExpect) : Prop where
  challenge : e'.challenge = e.challenge
  rpId : e'.rpId = e.rpId
  publicKey : e'.publicKey = e.publicKey
  count : e'.currentSignCount = e.currentSignCount
  uv : e'.requireUV = true → e.requireUV = true
  origins : ∀ o, originOk e.origin o = true → originOk e'.origin o = true

/-- If a response is accepted under `e` it is accepted, with an equal result, under every looser
`e'` — for every response whatsoever and every behaviour of the external libraries. -/
theorem auth_mono {W : World} {c : AuthCred} {e e' : AuthExpect} {r : VerifiedAuth}
    (hl : AuthLooser e e') (h : runM W (verifyAuth c e) = .ok r) :
    runM W (verifyAuth c e') = .ok r := by
  obtain ⟨a⟩ := verifyAuth_ok_iff.mp h
  refine verifyAuth_ok_iff.mpr ⟨{ a with
    challengeOk := by rw [hl.challenge]; exact a.challengeOk
    originOk' := hl.origins _ a.originOk'
    rpOk := by rw [hl.rpId]; exact a.rpOk
    uvOk := ?_
    ctrOk := by rw [hl.count]; exact a.ctrOk
    keyOk := by rw [hl.publicKey]; exact a.keyOk }⟩
  have h1 := a.uvOk
  have h2 := hl.uv
  revert h1 h2
  unfold authUvRejects
  cases e.requireUV <;> cases e'.requireUV <;> cases a.ad.flags.uv <;> simp

/-- a superset of the expected origins is looser -/
theorem origins_superset {ss ss' : List String} (h : ∀ s ∈ ss, s ∈ ss') (o : JVal)
    (ho : originOk (.many ss) o = true) : originOk (.many ss') o = true := by
  unfold originOk at *
  split at ho
  · rename_i s; simp only [List.contains_eq_mem, decide_eq_true_eq] at ho ⊢; exact h s ho
  · cases ho

/-- a one-element list instead of the bare string (and back) -/
theorem single_as_list (s : String) (o : JVal) :
    originOk (.single s) o = originOk (.many [s]) o := by
  unfold originOk
  split
  · rename_i t
    simp only [List.contains_eq_mem, List.mem_singleton]
    by_cases h : s = t
    · subst h; simp
    · have h' : ¬ t = s := fun e => h e.symm
      simp [h, h']
  · rfl

/-- adding the string to a list that lacks it -/
theorem single_into_list {s : String} {ss : List String} (h : s ∈ ss) (o : JVal)
    (ho : originOk (.single s) o = true) : originOk (.many ss) o = true := by
  rw [single_as_list] at ho
  exact origins_superset (by intro t ht; simp at ht; rw [ht]; exact h) o ho

end Webauthn.Props.C20
