/-
  C07 — Signature-counter rule over every history.
  The counter guard is the one regenerated from the source (`Generated.signCountRejects`).
-/
import Proofs.VerifyAuth
import Proofs.AuthData
namespace Webauthn.Props.C07
open Webauthn Generated

/-- the counter carried by authenticator data: big-endian value of bytes 33..36 -/
def ctr (c : AuthCred) : Nat := beNat (slice c.authenticatorData 33 37)

/-- the regenerated guard is the rule of the property, for all integers -/
theorem guard_iff (c : Nat) (s : Int) : signCountRejects c s = false ↔ Spec.counterOk c s := by
  unfold signCountRejects Spec.counterOk
  simp only [Bool.and_eq_false_iff, Bool.or_eq_false_iff, decide_eq_false_iff_not]
  omega

theorem beNat_lt (b : Bytes) : beNat b < 256 ^ b.length := by
  unfold beNat
  suffices ∀ (acc : Nat) (k : Nat), acc < 256 ^ k →
      b.foldl (fun acc x => acc * 256 + x.toNat) acc < 256 ^ (k + b.length) from by
    simpa using this 0 0 (by simp)
  induction b with
  | nil => intro acc k h; simpa using h
  | cons x xs ih =>
    intro acc k h
    have hx := x.toNat_lt
    have : acc * 256 + x.toNat < 256 ^ (k + 1) := by
      rw [Nat.pow_succ]; omega
    have := ih _ _ this
    simpa [List.foldl_cons, Nat.add_assoc, Nat.add_comm 1] using this

theorem ctr_lt (c : AuthCred) : ctr c < 2 ^ 32 := by
  have h := beNat_lt (slice c.authenticatorData 33 37)
  have hl : (slice c.authenticatorData 33 37).length ≤ 4 := by simp [slice]; omega
  have : 256 ^ (slice c.authenticatorData 33 37).length ≤ 256 ^ 4 := Nat.pow_le_pow_right (by omega) hl
  unfold ctr; omega

/-- Accepted ⇒ c > s or c = s = 0; the reported new counter equals c; c < 2^32. -/
theorem rule {W : World} {c : AuthCred} {e : AuthExpect} {r : VerifiedAuth}
    (h : runM W (verifyAuth c e) = .ok r) :
    Spec.counterOk (ctr c) e.currentSignCount ∧ r.newSignCount = ctr c ∧ ctr c < 2 ^ 32 := by
  obtain ⟨a⟩ := verifyAuth_ok_iff.mp h
  obtain ⟨_, _, _, _, _, hsc⟩ := parseAuthData_header a.adOk
  have hr : r.newSignCount = ctr c := by rw [a.record]; exact hsc
  refine ⟨?_, hr, ctr_lt c⟩
  have := (guard_iff a.ad.signCount e.currentSignCount).mp a.ctrOk
  rwa [hsc] at this

/-! ### histories: an RP that stores the reported counter after each success -/

/-- one presentation: the assertion and everything the RP expects apart from the stored counter -/
structure Presentation where
  cred : AuthCred
  expect : AuthExpect   -- its `currentSignCount` is ignored: the RP uses its stored value

def withCount (e : AuthExpect) (s : Int) : AuthExpect := { e with currentSignCount := s }

/-- RP step under world `W`: verify against the stored counter, store the reported one on success.
Returns the new stored counter and whether the presentation was accepted. -/
def rpStep (W : World) (s : Int) (p : Presentation) : Int × Bool :=
  match runM W (verifyAuth p.cred (withCount p.expect s)) with
  | .ok r => (r.newSignCount, true)
  | .error _ => (s, false)

/-- a history: each presentation comes with the world (library behaviour, clock) at that time -/
def rpRun (s : Int) : List (World × Presentation) → Int
  | [] => s
  | (W, p) :: rest => rpRun (rpStep W s p).1 rest

theorem rpStep_mono (W : World) (s : Int) (p : Presentation) : s ≤ (rpStep W s p).1 := by
  unfold rpStep
  cases h : runM W (verifyAuth p.cred (withCount p.expect s)) with
  | error _ => simp
  | ok r =>
    obtain ⟨hc, hr, _⟩ := rule h
    simp only [withCount] at hc
    unfold Spec.counterOk at hc
    simp only
    rw [hr]; omega

/-- In any sequence of presented assertions the stored counter never decreases. -/
theorem monotone (s : Int) (hist : List (World × Presentation)) : s ≤ rpRun s hist := by
  induction hist generalizing s with
  | nil => simp [rpRun]
  | cons wp rest ih =>
    obtain ⟨W, p⟩ := wp
    exact Int.le_trans (rpStep_mono W s p) (ih _)

/-- After an assertion with a non-zero counter has been accepted, the stored counter is at least
that counter — so … -/
theorem accepted_bounds_state (W : World) (s : Int) (p : Presentation)
    (h : (rpStep W s p).2 = true) : (ctr p.cred : Int) = (rpStep W s p).1 ∧
      Spec.counterOk (ctr p.cred) s := by
  unfold rpStep at *
  cases hr : runM W (verifyAuth p.cred (withCount p.expect s)) with
  | error _ => rw [hr] at h; simp at h
  | ok r =>
    obtain ⟨hc, hrr, _⟩ := rule hr
    exact ⟨by simp [hrr], hc⟩

/-- … no assertion with a non-zero counter is accepted twice: whatever happens in between
(any presentations, any library behaviour), a second presentation of it is rejected. -/
theorem no_replay (W W' : World) (s : Int) (p : Presentation) (mid : List (World × Presentation))
    (e' : AuthExpect) (hnz : ctr p.cred ≠ 0) (h1 : (rpStep W s p).2 = true) :
    (rpStep W' (rpRun (rpStep W s p).1 mid) ⟨p.cred, e'⟩).2 = false := by
  obtain ⟨hst, _⟩ := accepted_bounds_state W s p h1
  have hmono := monotone (rpStep W s p).1 mid
  cases h2 : (rpStep W' (rpRun (rpStep W s p).1 mid) ⟨p.cred, e'⟩).2 with
  | false => rfl
  | true =>
    obtain ⟨_, hc⟩ := accepted_bounds_state W' _ ⟨p.cred, e'⟩ h2
    unfold Spec.counterOk at hc
    simp only at hc
    omega

/-! ### the whole history at once: accepted non-zero counters are strictly increasing -/

/-- counters of the accepted presentations of a history, in order of acceptance -/
def acceptedCtrs (s : Int) : List (World × Presentation) → List Nat
  | [] => []
  | (W, p) :: rest =>
    if (rpStep W s p).2 then ctr p.cred :: acceptedCtrs (rpStep W s p).1 rest
    else acceptedCtrs (rpStep W s p).1 rest

/-- every non-zero counter accepted anywhere in a history exceeds the counter stored at its start -/
theorem accepted_gt_start (s : Int) (hist : List (World × Presentation)) :
    ∀ c ∈ acceptedCtrs s hist, c ≠ 0 → s < (c : Int) := by
  induction hist generalizing s with
  | nil => intro c hc; simp [acceptedCtrs] at hc
  | cons wp rest ih =>
    obtain ⟨W, p⟩ := wp
    intro c hc hnz
    have hm := rpStep_mono W s p
    unfold acceptedCtrs at hc
    split at hc
    · rename_i hacc
      obtain ⟨hst, hok⟩ := accepted_bounds_state W s p hacc
      rcases List.mem_cons.mp hc with rfl | hc'
      · unfold Spec.counterOk at hok; omega
      · have := ih _ c hc' hnz; omega
    · have := ih _ c hc hnz; omega

/-- In any history (replays, reordering, any library behaviour at each step) the non-zero counters of
the accepted assertions form a strictly increasing sequence: in particular no two accepted
assertions carry the same non-zero counter. -/
theorem accepted_strictly_increasing (s : Int) (hist : List (World × Presentation)) :
    ((acceptedCtrs s hist).filter (· ≠ 0)).Pairwise (· < ·) := by
  induction hist generalizing s with
  | nil => simp [acceptedCtrs]
  | cons wp rest ih =>
    obtain ⟨W, p⟩ := wp
    unfold acceptedCtrs
    split
    · rename_i hacc
      obtain ⟨hst, _⟩ := accepted_bounds_state W s p hacc
      by_cases hz : ctr p.cred = 0
      · simpa [List.filter_cons, hz] using ih _
      · rw [List.filter_cons_of_pos (by simpa using hz)]
        refine List.Pairwise.cons ?_ (ih _)
        intro c hc
        obtain ⟨hc1, hc2⟩ := List.mem_filter.mp hc
        have := accepted_gt_start _ rest c hc1 (by simpa using hc2)
        omega
    · exact ih _

/-- … and the stored counter at the end is the last accepted counter (or the initial one). -/
theorem final_state (s : Int) (hist : List (World × Presentation)) :
    rpRun s hist = ((acceptedCtrs s hist).getLast?.map Int.ofNat).getD s := by
  induction hist generalizing s with
  | nil => simp [rpRun, acceptedCtrs]
  | cons wp rest ih =>
    obtain ⟨W, p⟩ := wp
    unfold acceptedCtrs rpRun
    split
    · rename_i hacc
      obtain ⟨hst, _⟩ := accepted_bounds_state W s p hacc
      rw [ih]
      cases hl : acceptedCtrs (rpStep W s p).1 rest with
      | nil => simp [hst]
      | cons x xs => simp [List.getLast?_cons]
    · rename_i hrej
      have : (rpStep W s p).1 = s := by
        unfold rpStep at hrej ⊢
        split <;> simp_all
      rw [ih, this]

/-! non-vacuity -/
example : Spec.counterOk 5 4 ∧ Spec.counterOk 0 0 ∧ ¬ Spec.counterOk 4 4 ∧ ¬ Spec.counterOk 0 3 := by
  unfold Spec.counterOk; omega

end Webauthn.Props.C07
