/-
  C10 — Authenticator flag semantics for all 256 flag bytes.
  The mask expressions are regenerated from the source (`Generated.flag_*`), the 256-row graph
  `Generated.flagsTable` comes from 256 real parses; both are proved equal to the spec's bit table.
-/
import Proofs.VerifyAuth
import Proofs.AuthData
import Proofs.VerifyReg
import Proofs.Attestation
namespace Webauthn.Props.C10
open Webauthn Generated

/-- bit extraction matches the spec table for every flag byte -/
theorem bits (b : UInt8) : parseFlags b = Spec.flagRow b := parseFlags_eq_flagRow b

/-- the graph obtained from 256 real parses is the graph of the (regenerated) mask expressions -/
theorem graph : flagsTable =
    (List.range 256).map (fun n => let f := parseFlags n.toUInt8; (f.up, f.uv, f.be, f.bs, f.att, f.ed)) :=
  flagsTable_eq

/-- reserved bits 1 and 5 are ignored -/
theorem reserved_ignored_fin : ∀ n : Fin 256,
    parseFlags (n.val.toUInt8 ^^^ 0x02) = parseFlags n.val.toUInt8 ∧
    parseFlags (n.val.toUInt8 ^^^ 0x20) = parseFlags n.val.toUInt8 := by
  decide +kernel

theorem reserved_ignored (b : UInt8) :
    parseFlags (b ^^^ 0x02) = parseFlags b ∧ parseFlags (b ^^^ 0x20) = parseFlags b := by
  have h := reserved_ignored_fin ⟨b.toNat, b.toNat_lt⟩
  simpa [Nat.toUInt8] using h

/-- backup flags: BE ↦ multi/single device, BS reported, BS without BE rejected with
`InvalidBackupFlags` -/
theorem backup (f : Flags) :
    parseBackupFlags f =
      if f.bs && !f.be then .error (libErr .InvalidBackupFlags "backup-flags")
      else .ok (if f.be then "multi_device" else "single_device", f.bs) := by
  obtain ⟨up, uv, be, bs, att, ed⟩ := f
  cases be <;> cases bs <;> rfl

/-- Authentication: acceptance and the reported fields follow the table, for every flag byte and
both policies. -/
theorem auth_gate {W : World} {c : AuthCred} {e : AuthExpect} {r : VerifiedAuth}
    (h : runM W (verifyAuth c e) = .ok r) :
    ∃ b, c.authenticatorData[32]? = some b ∧
      Spec.bit b 0 = true ∧ (e.requireUV = true → Spec.bit b 2 = true) ∧
      ¬ (Spec.bit b 4 = true ∧ Spec.bit b 3 = false) ∧
      r.userVerified = Spec.bit b 2 ∧
      r.deviceType = (if Spec.bit b 3 then "multi_device" else "single_device") ∧
      r.backedUp = Spec.bit b 4 := by
  obtain ⟨a⟩ := verifyAuth_ok_iff.mp h
  obtain ⟨_, _, b, hb, hflags, _⟩ := parseAuthData_header a.adOk
  have e_up : a.ad.flags.up = Spec.bit b 0 := by rw [hflags]; rfl
  have e_uv : a.ad.flags.uv = Spec.bit b 2 := by rw [hflags]; rfl
  have e_be : a.ad.flags.be = Spec.bit b 3 := by rw [hflags]; rfl
  have e_bs : a.ad.flags.bs = Spec.bit b 4 := by rw [hflags]; rfl
  have hbf := a.bfOk
  have hup := a.upOk; have huv := a.uvOk
  rw [backup] at hbf
  simp only [e_be, e_bs] at hbf
  simp only [e_up, e_uv, authUpRejects, authUvRejects] at hup huv
  have hrec := a.record
  simp only [e_uv] at hrec
  refine ⟨b, hb, by simpa using hup, ?_, ?_, ?_, ?_, ?_⟩
  · intro hreq; rw [hreq] at huv; simpa using huv
  · intro ⟨h4, h3⟩; rw [h4, h3] at hbf; simp at hbf
  · rw [hrec]
  · split at hbf
    · cases hbf
    · have := Except.ok.inj hbf; rw [hrec, ← this]
  · split at hbf
    · cases hbf
    · have := Except.ok.inj hbf; rw [hrec, ← this]

/-- AT (bit 6) ⇔ attested credential data parsed, ED (bit 7) ⇔ extensions parsed -/
theorem layout {val : Bytes} {ad : AuthData} (h : parseAuthData val = .ok ad) :
    ∃ b, val[32]? = some b ∧ (ad.attested.isSome = Spec.bit b 6) ∧ (ad.extensions.isSome = Spec.bit b 7) := by
  unfold parseAuthData at h
  rw [rejectE_ok] at h; obtain ⟨_, h⟩ := h
  rw [except_bind_ok] at h; obtain ⟨b, hb, h⟩ := h
  rw [except_bind_ok] at h; obtain ⟨r1, hr1, h⟩ := h
  rw [except_bind_ok] at h; obtain ⟨r2, hr2, h⟩ := h
  rw [rejectE_ok] at h; obtain ⟨_, h⟩ := h
  have : ad = _ := (Except.ok.inj h).symm
  subst this
  refine ⟨b, flagsByteOf_ok hb, ?_, ?_⟩
  · rw [bits] at hr1
    simp only [Spec.flagRow] at hr1
    unfold parseAttestedIf at hr1
    split at hr1
    · rename_i hp
      rw [except_bind_ok] at hr1; obtain ⟨x, _, hr1⟩ := hr1
      have := Except.ok.inj hr1; rw [← this, hp]; rfl
    · rename_i hp
      have := Except.ok.inj hr1; rw [← this]; simpa using hp
  · rw [bits] at hr2
    simp only [Spec.flagRow] at hr2
    unfold parseExtensionsIf at hr2
    split at hr2
    · rename_i hp
      rw [except_bind_ok] at hr2; obtain ⟨x, _, hr2⟩ := hr2
      have := Except.ok.inj hr2; rw [← this, hp]; rfl
    · rename_i hp
      have := Except.ok.inj hr2; rw [← this]; simpa using hp

/-- Registration, every format: acceptance and the reported fields follow the table for the flags byte of the
authenticator data inside the attestation object — UP unless waived, UV when required, AT (attested data present),
BS only with BE; user_verified / device type / backed-up are those bits. Whatever the format's own verifier does, these
come from the one flags byte. -/
theorem reg_gate {W : World} {c : RegCred} {e : RegExpect} {r : VerifiedReg}
    (h : runM W (verifyReg c e) = .ok r) :
    ∃ ao ad b, parseAttObj c.attestationObject = .ok ao ∧ authDataBytesOf ao.authDataRaw = .ok ad ∧ ad[32]? = some b ∧
      (e.requireUP = true → Spec.bit b 0 = true) ∧ (e.requireUV = true → Spec.bit b 2 = true) ∧
      Spec.bit b 6 = true ∧
      ¬ (Spec.bit b 4 = true ∧ Spec.bit b 3 = false) ∧
      r.userVerified = Spec.bit b 2 ∧
      r.deviceType = (if Spec.bit b 3 then "multi_device" else "single_device") ∧
      r.backedUp = Spec.bit b 4 := by
  obtain ⟨a⟩ := verifyReg_ok_iff.mp h
  obtain ⟨kvs, adBytes, _, _, _, hb, hp, _⟩ := parseAttObj_ok a.aoOk
  obtain ⟨_, _, b, hb32, hflags, _⟩ := parseAuthData_header hp
  obtain ⟨b', hb', hat, _⟩ := layout hp
  have hbb : b' = b := by rw [hb32] at hb'; exact (Option.some.inj hb').symm
  subst hbb
  have e_up : a.ao.authData.flags.up = Spec.bit b' 0 := by rw [hflags]; rfl
  have e_uv : a.ao.authData.flags.uv = Spec.bit b' 2 := by rw [hflags]; rfl
  have e_be : a.ao.authData.flags.be = Spec.bit b' 3 := by rw [hflags]; rfl
  have e_bs : a.ao.authData.flags.bs = Spec.bit b' 4 := by rw [hflags]; rfl
  have hbf := a.bfOk
  have hup := a.upOk; have huv := a.uvOk
  rw [backup] at hbf
  simp only [e_be, e_bs] at hbf
  simp only [e_up, e_uv, regUpRejects, regUvRejects] at hup huv
  have hrec := a.record
  simp only [e_uv] at hrec
  have hatt : Spec.bit b' 6 = true := by rw [← hat, a.attOk]; rfl
  refine ⟨a.ao, adBytes, b', a.aoOk, hb, hb32, ?_, ?_, hatt, ?_, ?_, ?_, ?_⟩
  · intro hreq; rw [hreq] at hup; simpa using hup
  · intro hreq; rw [hreq] at huv; simpa using huv
  · intro ⟨h4, h3⟩; rw [h4, h3] at hbf; simp at hbf
  · rw [hrec]
  · split at hbf
    · cases hbf
    · have := Except.ok.inj hbf; rw [hrec, ← this]
  · split at hbf
    · cases hbf
    · have := Except.ok.inj hbf; rw [hrec, ← this]

end Webauthn.Props.C10
