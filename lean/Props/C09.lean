/-
  C09 — Signatures are verified with exactly the algorithm the COSE key declares.
-/
import Proofs.Cose
import Proofs.Cbor
import Props.C05
namespace Webauthn.Props.C09
open Webauthn Generated

/-- whenever verification goes ahead, the scheme is the one the declared algorithm denotes for the
key type (complete regenerated dispatch matrix, by `decide`; see `sigDispatchTable_ok`) -/
theorem scheme_is_declared {k : CoseKey} {pk : PubKey} {s : Scheme}
    (hk : coseToPubKey k = .ok pk) (h : sigPlan pk k.alg = .verify s) :
    ∃ i, k.alg.asInt? = some i ∧ Spec.dispatch (pubKeyKind pk) i = some (Spec.classOf s) :=
  cose_sigPlan_sound hk h

/-- every algorithm of the spec table is dispatched to its scheme (none refused) -/
theorem dispatch_complete : ∀ p ∈ C05.specTable,
    (match planOfDisp (sigDispatch p.1 (cborOfInt p.2.1)) with
     | .verify s => Spec.classOf s == p.2.2
     | .fail _ => false) = true := C05.dispatch_complete

/-- Never silently verified under a different scheme: `verify_signature` either refuses without
consulting the crypto library at all, or issues exactly one verification query, with the scheme
of the dispatch table. -/
theorem no_other_scheme (W : World) (pk : PubKey) (alg : Cbor) (sig data : Bytes) (err : Err) :
    traceM W (verifySignature pk alg sig data err) =
      match sigPlan pk alg with
      | .verify s => [.sigVerify pk s sig data]
      | .fail _ => [] := by
  unfold verifySignature
  cases hp : sigPlan pk alg with
  | fail e => rfl
  | verify s =>
    simp only
    show Prog.trace W _ = _
    cases hv : W (.sigVerify pk s sig data) with
    | valid =>
      simp [sigVerifyM, askM, ExceptT.lift, ExceptT.run, ExceptT.mk, bind, ExceptT.bind, ExceptT.bindCont,
        Prog.bind, Prog.trace, hv, Functor.map, throw, throwThe, MonadExceptOf.throw, pure, ExceptT.pure]
    | invalid =>
      simp [sigVerifyM, askM, ExceptT.lift, ExceptT.run, ExceptT.mk, bind, ExceptT.bind, ExceptT.bindCont,
        Prog.bind, Prog.trace, hv, Functor.map, throw, throwThe, MonadExceptOf.throw, pure, ExceptT.pure]
    | raised c =>
      rcases sigSeen_raised_cases s c with h | h <;>
      simp [sigVerifyM, askM, ExceptT.lift, ExceptT.run, ExceptT.mk, bind, ExceptT.bind, ExceptT.bindCont,
        Prog.bind, Prog.trace, hv, h, Functor.map, throw, throwThe, MonadExceptOf.throw, pure, ExceptT.pure]

/-- an accepted signature check means the library said `valid` for that one query -/
theorem accepted_means_valid {W : World} {pk : PubKey} {alg : Cbor} {sig data : Bytes} {err : Err}
    (h : runM W (verifySignature pk alg sig data err) = .ok ()) :
    ∃ s, sigPlan pk alg = .verify s ∧ W.sigVerify pk s sig data = .valid := verifySignature_ok.mp h

/-! ### decoding a COSE key yields precisely that key -/

/-- the raw 65-byte uncompressed P-256 form -/
theorem raw_u2f (x y : Bytes) (hx : x.length = 32) (hy : y.length = 32) :
    decodeCose ([0x04] ++ x ++ y) = .ok (.ec2 (.uint 2) (.nint 6) (.uint 1) (.bytes x) (.bytes y)) := by
  unfold decodeCose
  simp only [List.cons_append, List.nil_append, beq_self_eq_true, ↓reduceIte]
  have h1 : slice (0x04 :: (x ++ y)) 1 33 = x := by
    simp [slice, List.take_append, hx]
  have h2 : slice (0x04 :: (x ++ y)) 33 65 = y := by
    simp [slice, List.drop_append, hx]
    exact List.take_of_length_le (by omega)
  rw [h1, h2]

/-- the integers handed to the crypto library are the big-endian values of the byte strings
(so leading zero bytes do not matter), on the curve the key names -/
theorem to_keyspec_ec2 (kty alg : Cbor) (x y : Bytes) :
    coseToPubKey (.ec2 kty alg (.uint 1) (.bytes x) (.bytes y)) = .ok (.ec .p256 (beNat x) (beNat y)) ∧
    coseToPubKey (.ec2 kty alg (.uint 2) (.bytes x) (.bytes y)) = .ok (.ec .p384 (beNat x) (beNat y)) ∧
    coseToPubKey (.ec2 kty alg (.uint 3) (.bytes x) (.bytes y)) = .ok (.ec .p521 (beNat x) (beNat y)) := by
  refine ⟨rfl, rfl, rfl⟩

theorem to_keyspec_rsa (kty alg : Cbor) (n e : Bytes) :
    coseToPubKey (.rsa kty alg (.bytes n) (.bytes e)) = .ok (.rsa (beNat n) (beNat e)) := rfl

theorem to_keyspec_okp (kty : Cbor) (x : Bytes) :
    coseToPubKey (.okp kty (.nint 7) (.uint 6) (.bytes x)) = .ok (.ed25519 x) := rfl

theorem beNat_leading_zero (b : Bytes) : beNat (0 :: b) = beNat b := by
  simp [beNat]

/-- an OKP key is only usable as Ed25519 with EdDSA: any other alg or curve is refused -/
theorem okp_only_eddsa {kty alg crv x : Cbor} {pk : PubKey}
    (h : coseToPubKey (.okp kty alg crv x) = .ok pk) : alg.asInt? = some (-8) ∧ crv.asInt? = some 6 := by
  simp only [coseToPubKey] at h
  rw [rejectE_ok] at h; obtain ⟨h1, _⟩ := h
  simpa using h1

/-! ### COSE_Key encode → decode yields precisely that key (closed form, any coordinates) -/

theorem cborOfInt_wf {alg : Int} (h1 : -(2 ^ 64 : Int) ≤ alg) (h2 : alg < 2 ^ 64) : Cbor.WF (cborOfInt alg) := by
  unfold cborOfInt
  split
  · simp only [Cbor.WF]; omega
  · simp only [Cbor.WF]; omega

theorem cborOfInt_truthy {alg : Int} (h : alg ≠ 0) : (cborOfInt alg).truthy = true := by
  unfold cborOfInt
  split
  · simp only [Cbor.truthy, bne_iff_ne]; omega
  · rfl

theorem cborOfInt_asInt (alg : Int) : (cborOfInt alg).asInt? = some alg := by
  unfold cborOfInt
  split
  · simp only [Cbor.asInt?]; congr 1; omega
  · simp only [Cbor.asInt?]; congr 1; omega

theorem map_head_ne_04 (kvs : List (Cbor × Cbor)) (h : kvs.length < 24) :
    ∃ b tl, Cbor.enc (.map kvs) = b :: tl ∧ (b == 0x04) = false := by
  refine ⟨(5 * 32 + kvs.length).toUInt8, Cbor.encPairs kvs, ?_, ?_⟩
  · simp [Cbor.enc, Cbor.head, h]
  · have : (5 * 32 + kvs.length).toUInt8.toNat = 5 * 32 + kvs.length := Cbor.toUInt8_toNat (by omega)
    rw [beq_eq_false_iff_ne]
    intro hb
    have h2 := congrArg UInt8.toNat hb
    rw [this] at h2
    have h4 : (4 : UInt8).toNat = 4 := rfl
    omega

/-- EC2 keys on any of the three curves, any declared algorithm, coordinates of any length
(leading zero bytes included) decode to exactly the members that were encoded. -/
theorem decode_encode_ec2 (alg : Int) (crv : Nat) (x y : Bytes)
    (ha : alg ≠ 0) (ha1 : -(2 ^ 64 : Int) ≤ alg) (ha2 : alg < 2 ^ 64) (hc : 0 < crv) (hc2 : crv < 2 ^ 64)
    (hx : x ≠ []) (hy : y ≠ []) (hxl : x.length < 2 ^ 64) (hyl : y.length < 2 ^ 64) :
    decodeCose (encodeEc2 alg crv x y) = .ok (.ec2 (.uint 2) (cborOfInt alg) (.uint crv) (.bytes x) (.bytes y)) := by
  unfold encodeEc2
  obtain ⟨b, tl, hb, hne⟩ := map_head_ne_04
    [(.uint 1, .uint 2), (.uint 3, cborOfInt alg), (.nint 0, .uint crv), (.nint 1, .bytes x), (.nint 2, .bytes y)] (by simp)
  have hwf : Cbor.WF (.map [(.uint 1, .uint 2), (.uint 3, cborOfInt alg), (.nint 0, .uint crv), (.nint 1, .bytes x),
      (.nint 2, .bytes y)]) := by
    simp only [Cbor.WF, Cbor.WFPairs, Cbor.isScalarKey, cborOfInt_wf ha1 ha2, and_true, true_and]
    refine ⟨by simp, by rfl, by omega, by omega, by omega, by omega, hc2, by omega, hxl,
      by omega, hyl⟩
  have hp := parseCbor_enc _ [] hwf
  rw [List.append_nil] at hp
  unfold decodeCose
  rw [hb] at hp ⊢
  simp only [hne, Bool.false_eq_true, ↓reduceIte, hp, bind, Except.bind]
  have hxt : (Cbor.bytes x).truthy = true := by cases x <;> simp_all [Cbor.truthy]
  have hyt : (Cbor.bytes y).truthy = true := by cases y <;> simp_all [Cbor.truthy]
  have hct : (Cbor.uint crv).truthy = true := by simp [Cbor.truthy]; omega
  have hkt : (Cbor.uint 2).truthy = true := rfl
  have hat := cborOfInt_truthy ha
  simp [decodeCoseMap, coseMember, Cbor.lookupInt, Cbor.asInt?, requireTruthy, hat, hxt, hyt,
    hct, hkt, rejectE, bind, Except.bind, pure, Except.pure]

theorem decode_encode_rsa (alg : Int) (n e : Bytes)
    (ha : alg ≠ 0) (ha1 : -(2 ^ 64 : Int) ≤ alg) (ha2 : alg < 2 ^ 64)
    (hn : n ≠ []) (he : e ≠ []) (hnl : n.length < 2 ^ 64) (hel : e.length < 2 ^ 64) :
    decodeCose (encodeRsa alg n e) = .ok (.rsa (.uint 3) (cborOfInt alg) (.bytes n) (.bytes e)) := by
  unfold encodeRsa
  obtain ⟨b, tl, hb, hne⟩ := map_head_ne_04
    [(.uint 1, .uint 3), (.uint 3, cborOfInt alg), (.nint 0, .bytes n), (.nint 1, .bytes e)] (by simp)
  have hwf : Cbor.WF (.map [(.uint 1, .uint 3), (.uint 3, cborOfInt alg), (.nint 0, .bytes n), (.nint 1, .bytes e)]) := by
    simp only [Cbor.WF, Cbor.WFPairs, Cbor.isScalarKey, cborOfInt_wf ha1 ha2, and_true, true_and]
    refine ⟨by simp, by rfl, by omega, by omega, by omega, by omega, hnl, by omega, hel⟩
  have hp := parseCbor_enc _ [] hwf
  rw [List.append_nil] at hp
  unfold decodeCose
  rw [hb] at hp ⊢
  simp only [hne, Bool.false_eq_true, ↓reduceIte, hp, bind, Except.bind]
  have hnt : (Cbor.bytes n).truthy = true := by cases n <;> simp_all [Cbor.truthy]
  have het : (Cbor.bytes e).truthy = true := by cases e <;> simp_all [Cbor.truthy]
  have hkt : (Cbor.uint 3).truthy = true := rfl
  have hat := cborOfInt_truthy ha
  simp [decodeCoseMap, coseMember, Cbor.lookupInt, Cbor.asInt?, requireTruthy, hat, hnt, het,
    hkt, rejectE, bind, Except.bind, pure, Except.pure]

theorem decode_encode_okp (x : Bytes) (hx : x ≠ []) (hxl : x.length < 2 ^ 64) :
    decodeCose (encodeOkp x) = .ok (.okp (.uint 1) (.nint 7) (.uint 6) (.bytes x)) := by
  unfold encodeOkp
  obtain ⟨b, tl, hb, hne⟩ := map_head_ne_04
    [(.uint 1, .uint 1), (.uint 3, .nint 7), (.nint 0, .uint 6), (.nint 1, .bytes x)] (by simp)
  have hwf : Cbor.WF (.map [(.uint 1, .uint 1), (.uint 3, .nint 7), (.nint 0, .uint 6), (.nint 1, .bytes x)]) := by
    simp only [Cbor.WF, Cbor.WFPairs, Cbor.isScalarKey, and_true, true_and]
    refine ⟨by simp, by rfl, by omega, by omega, by omega, by omega, by omega, by omega, by omega, hxl⟩
  have hp := parseCbor_enc _ [] hwf
  rw [List.append_nil] at hp
  unfold decodeCose
  rw [hb] at hp ⊢
  simp only [hne, Bool.false_eq_true, ↓reduceIte, hp, bind, Except.bind]
  have hxt : (Cbor.bytes x).truthy = true := by cases x <;> simp_all [Cbor.truthy]
  have h1 : (Cbor.uint 1).truthy = true := rfl
  have h2 : (Cbor.nint 7).truthy = true := rfl
  have h3 : (Cbor.uint 6).truthy = true := rfl
  simp [decodeCoseMap, coseMember, Cbor.lookupInt, Cbor.asInt?, requireTruthy, hxt, h1, h2, h3,
    rejectE, bind, Except.bind, pure, Except.pure]

end Webauthn.Props.C09
