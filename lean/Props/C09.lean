/-
  C09 — Signatures are verified with exactly the algorithm the COSE key declares.
-/
import Proofs.Cose
import Props.C05
namespace Webauthn.Props.C09
open Webauthn Generated

/-- whenever verification goes ahead, the scheme is the one the declared algorithm denotes for the
key type (complete regenerated dispatch matrix, by `decide`; see `sigDispatchTable_ok`) -/
theorem scheme_is_declared {k : CoseKey} {pk : PubKey} {s : Scheme}
    (hk : coseToPubKey k = .ok pk) (h : sigPlan pk k.alg = .verify s) :
    ∃ i, k.alg.asInt? = some i ∧ Spec.dispatch (pubKeyKind pk) i = some (Spec.classOf s) :=
  cose_sigPlan_sound hk h

/-- every algorithm of the spec table is dispatched to its scheme (none refused) -/
theorem dispatch_complete : ∀ p ∈ C05.specTable,
    (match planOfDisp (sigDispatch p.1 (cborOfInt p.2.1)) with
     | .verify s => Spec.classOf s == p.2.2
     | .fail _ => false) = true := C05.dispatch_complete

/-- Never silently verified under a different scheme: `verify_signature` either refuses without
consulting the crypto library at all, or issues exactly one verification query, with the scheme
of the dispatch table. -/
theorem no_other_scheme (W : World) (pk : PubKey) (alg : Cbor) (sig data : Bytes) (err : Err) :
    traceM W (verifySignature pk alg sig data err) =
      match sigPlan pk alg with
      | .verify s => [.sigVerify pk s sig data]
      | .fail _ => [] := by
  unfold verifySignature
  cases hp : sigPlan pk alg with
  | fail e => rfl
  | verify s =>
    simp only
    show Prog.trace W _ = _
    cases hv : W (.sigVerify pk s sig data) <;>
      simp [sigVerifyM, askM, ExceptT.lift, ExceptT.run, ExceptT.mk, bind, ExceptT.bind, ExceptT.bindCont,
        Prog.bind, Prog.trace, hv, Functor.map, throw, throwThe, MonadExceptOf.throw, pure, ExceptT.pure]

/-- an accepted signature check means the library said `valid` for that one query -/
theorem accepted_means_valid {W : World} {pk : PubKey} {alg : Cbor} {sig data : Bytes} {err : Err}
    (h : runM W (verifySignature pk alg sig data err) = .ok ()) :
    ∃ s, sigPlan pk alg = .verify s ∧ W.sigVerify pk s sig data = .valid := verifySignature_ok.mp h

/-! ### decoding a COSE key yields precisely that key -/

/-- the raw 65-byte uncompressed P-256 form -/
theorem raw_u2f (x y : Bytes) (hx : x.length = 32) (hy : y.length = 32) :
    decodeCose ([0x04] ++ x ++ y) = .ok (.ec2 (.uint 2) (.nint 6) (.uint 1) (.bytes x) (.bytes y)) := by
  unfold decodeCose
  simp only [List.cons_append, List.nil_append, beq_self_eq_true, ↓reduceIte]
  have h1 : slice (0x04 :: (x ++ y)) 1 33 = x := by
    simp [slice, List.take_append, hx]
  have h2 : slice (0x04 :: (x ++ y)) 33 65 = y := by
    simp [slice, List.drop_append, hx]
    exact List.take_of_length_le (by omega)
  rw [h1, h2]

/-- the integers handed to the crypto library are the big-endian values of the byte strings
(so leading zero bytes do not matter), on the curve the key names -/
theorem to_keyspec_ec2 (kty alg : Cbor) (x y : Bytes) :
    coseToPubKey (.ec2 kty alg (.uint 1) (.bytes x) (.bytes y)) = .ok (.ec .p256 (beNat x) (beNat y)) ∧
    coseToPubKey (.ec2 kty alg (.uint 2) (.bytes x) (.bytes y)) = .ok (.ec .p384 (beNat x) (beNat y)) ∧
    coseToPubKey (.ec2 kty alg (.uint 3) (.bytes x) (.bytes y)) = .ok (.ec .p521 (beNat x) (beNat y)) := by
  refine ⟨rfl, rfl, rfl⟩

theorem to_keyspec_rsa (kty alg : Cbor) (n e : Bytes) :
    coseToPubKey (.rsa kty alg (.bytes n) (.bytes e)) = .ok (.rsa (beNat n) (beNat e)) := rfl

theorem to_keyspec_okp (kty : Cbor) (x : Bytes) :
    coseToPubKey (.okp kty (.nint 7) (.uint 6) (.bytes x)) = .ok (.ed25519 x) := rfl

theorem beNat_leading_zero (b : Bytes) : beNat (0 :: b) = beNat b := by
  simp [beNat]

/-- an OKP key is only usable as Ed25519 with EdDSA: any other alg or curve is refused -/
theorem okp_only_eddsa {kty alg crv x : Cbor} {pk : PubKey}
    (h : coseToPubKey (.okp kty alg crv x) = .ok pk) : alg.asInt? = some (-8) ∧ crv.asInt? = some 6 := by
  simp only [coseToPubKey] at h
  rw [rejectE_ok] at h; obtain ⟨h1, _⟩ := h
  simpa using h1

end Webauthn.Props.C09
