/-
  C05 — Completeness and fidelity.
-/
import Proofs.VerifyReg
import Proofs.Attestation
import Proofs.Cose
import Props.C07
import Props.C10
namespace Webauthn.Props.C05
open Webauthn Generated

/-- the table in C09's statement, as data -/
def specTable : List (String × Int × Spec.SchemeClass) :=
  [("ec", -7, .ecdsa .sha256), ("ec", -36, .ecdsa .sha512), ("ed25519", -8, .eddsa),
   ("rsa", -257, .pkcs1 .sha256), ("rsa", -258, .pkcs1 .sha384), ("rsa", -259, .pkcs1 .sha512),
   ("rsa", -65535, .pkcs1 .sha1), ("rsa", -37, .pss .sha256), ("rsa", -38, .pss .sha384), ("rsa", -39, .pss .sha512)]

/-- every supported algorithm is dispatched (by the regenerated table) to a verification with the
scheme it denotes — none is refused -/
theorem dispatch_complete : ∀ p ∈ specTable,
    (match planOfDisp (sigDispatch p.1 (cborOfInt p.2.1)) with
     | .verify s => Spec.classOf s == p.2.2
     | .fail _ => false) = true := by
  decide

/-- the three curves are supported -/
theorem curves_complete :
    ec2Curve (.uint 1) = .ok .p256 ∧ ec2Curve (.uint 2) = .ok .p384 ∧ ec2Curve (.uint 3) = .ok .p521 := by
  refine ⟨rfl, rfl, rfl⟩

/-- every id of the TCG vendor registry is accepted by the (regenerated) manufacturer table -/
theorem vendor_ids : ∀ v ∈ Spec.tcgVendorIds, ("id:" ++ v) ∈ tpmManufacturers := by
  decide

/-- The registration record reports exactly what the authenticator data says. -/
theorem reg_fidelity {W : World} {c : RegCred} {e : RegExpect} {r : VerifiedReg}
    (h : runM W (verifyReg c e) = .ok r) :
    ∃ ao adBytes att b, parseAttObj c.attestationObject = .ok ao ∧
      authDataBytesOf ao.authDataRaw = .ok adBytes ∧ parseAuthData adBytes = .ok ao.authData ∧
      ao.authData.attested = some att ∧ adBytes[32]? = some b ∧
      r.credentialId = att.credentialId ∧ r.credentialPublicKey = att.publicKey ∧
      r.signCount = beNat (slice adBytes 33 37) ∧
      aaguidToString att.aaguid = .ok r.aaguid ∧ fmtText ao.fmt = some r.fmt ∧
      r.userVerified = Spec.bit b 2 ∧
      r.deviceType = (if Spec.bit b 3 then "multi_device" else "single_device") ∧
      r.backedUp = Spec.bit b 4 ∧ r.attestationObject = c.attestationObject := by
  obtain ⟨a⟩ := verifyReg_ok_iff.mp h
  obtain ⟨kvs, adBytes, _, _, _, hb, had, _, _⟩ := parseAttObj_ok a.aoOk
  obtain ⟨_, _, b, hbyte, hflags, hsc⟩ := parseAuthData_header had
  obtain ⟨f, hf, _, _⟩ := verifyFormat_ok a.fmtOk
  have hrec := a.record
  have hbf := a.bfOk
  rw [C10.backup] at hbf
  have e_uv : a.ao.authData.flags.uv = Spec.bit b 2 := by rw [hflags]; rfl
  have e_be : a.ao.authData.flags.be = Spec.bit b 3 := by rw [hflags]; rfl
  have e_bs : a.ao.authData.flags.bs = Spec.bit b 4 := by rw [hflags]; rfl
  simp only [e_be, e_bs] at hbf
  refine ⟨a.ao, adBytes, a.att, b, a.aoOk, hb, had, a.attOk, hbyte,
    congrArg VerifiedReg.credentialId hrec, congrArg VerifiedReg.credentialPublicKey hrec, ?_, ?_, ?_, ?_, ?_, ?_,
    congrArg VerifiedReg.attestationObject hrec⟩
  · rw [congrArg VerifiedReg.signCount hrec]; exact hsc
  · rw [congrArg VerifiedReg.aaguid hrec]; exact a.aaguidOk
  · rw [congrArg VerifiedReg.fmt hrec, hf]; rfl
  · rw [congrArg VerifiedReg.userVerified hrec]; exact e_uv
  · split at hbf
    · cases hbf
    · have := Except.ok.inj hbf; rw [congrArg VerifiedReg.deviceType hrec, ← this]
  · split at hbf
    · cases hbf
    · have := Except.ok.inj hbf; rw [congrArg VerifiedReg.backedUp hrec, ← this]

/-- Completeness of authentication, as an equivalence: a response is accepted **iff** it passes
every check of the acceptance normal form — so nothing beyond those checks can reject a conformant
assertion — and the record is the one the authenticator data dictates. -/
theorem auth_complete {W : World} {c : AuthCred} {e : AuthExpect} (a : AuthAccepts W c e r) :
    runM W (verifyAuth c e) = .ok r ∧ r.credentialId = c.rawId ∧ r.newSignCount = C07.ctr c := by
  have h := verifyAuth_ok_iff.mpr ⟨a⟩
  obtain ⟨_, hr, _⟩ := C07.rule h
  exact ⟨h, by rw [a.record], hr⟩

theorem reg_complete {W : World} {c : RegCred} {e : RegExpect} (a : RegAccepts W c e r) :
    runM W (verifyReg c e) = .ok r := verifyReg_ok_iff.mpr ⟨a⟩

end Webauthn.Props.C05
