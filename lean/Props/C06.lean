/-
  C06 — Integrity of signed material (partial: the cryptographic residue is stated as hypotheses).
-/
import Props.C03
import Proofs.Attestation
import Props.C11
import Props.C14
namespace Webauthn.Props.C06
open Webauthn Generated Webauthn.Props.C03 Webauthn.Base64

/-- Authentication: the one signature query of an accepting run is over exactly
authenticatorData ‖ SHA-256(clientDataJSON) — raw bytes of both — and it answered `valid`. -/
theorem binding_auth {W : World} {c : AuthCred} {e : AuthExpect} {r : VerifiedAuth}
    (h : runM W (verifyAuth c e) = .ok r) :
    ∃ key pk s, decodeCose e.publicKey = .ok key ∧ coseToPubKey key = .ok pk ∧ sigPlan pk key.alg = .verify s ∧
      W.sigVerify pk s c.signature (c.authenticatorData ++ W.sha256 c.clientDataJSON) = .valid := by
  obtain ⟨a⟩ := verifyAuth_ok_iff.mp h
  exact ⟨a.key, a.pk, a.scheme, a.keyOk, a.pkOk, a.planOk, a.sigOk⟩

/-- cryptographic idealisations (hypotheses, never axioms) -/
def UniqueSig (W : World) (pk : PubKey) (s : Scheme) : Prop :=
  ∀ sig data sig' data', W.sigVerify pk s sig data = .valid → W.sigVerify pk s sig' data' = .valid →
    sig = sig' ∧ data = data'

def HashLen32 (W : World) : Prop := ∀ b, (W.sha256 b).length = 32

def NoCollision (W : World) (m m' : Bytes) : Prop := W.sha256 m = W.sha256 m' → m = m'

theorem append_inj_right_len {a b c d : Bytes} (h : a ++ b = c ++ d) (hl : b.length = d.length) : a = c ∧ b = d := by
  have : a.length = c.length := by
    have := congrArg List.length h
    simp at this; omega
  exact List.append_inj h this

/-- Any change to authenticator data, client data JSON or signature of an accepted assertion —
a single bit or more — makes it be rejected, under the three idealisations. -/
theorem bitflip_auth {W : World} {c c' : AuthCred} {e : AuthExpect} {r : VerifiedAuth}
    (h : runM W (verifyAuth c e) = .ok r)
    (huniq : ∀ pk s, UniqueSig W pk s) (hlen : HashLen32 W)
    (hcol : NoCollision W c.clientDataJSON c'.clientDataJSON)
    (hdiff : c'.authenticatorData ≠ c.authenticatorData ∨ c'.clientDataJSON ≠ c.clientDataJSON ∨
             c'.signature ≠ c.signature) :
    ∀ r', runM W (verifyAuth c' e) ≠ .ok r' := by
  intro r' h'
  obtain ⟨key, pk, s, hk, hpk, hplan, hv⟩ := binding_auth h
  obtain ⟨key', pk', s', hk', hpk', hplan', hv'⟩ := binding_auth h'
  rw [hk] at hk'; cases hk'
  rw [hpk] at hpk'; cases hpk'
  rw [hplan] at hplan'; cases hplan'
  obtain ⟨hsig, hdata⟩ := huniq pk s _ _ _ _ hv hv'
  obtain ⟨had, hhash⟩ := append_inj_right_len hdata (by rw [hlen, hlen])
  have hcdj := hcol hhash
  rcases hdiff with hd | hd | hd
  · exact hd had.symm
  · exact hd hcdj.symm
  · exact hd hsig.symm

/-- Registration: every signed format's signature / nonce / extraData / challenge is computed
over the raw authenticator data bytes of the attestation object and the hash of the raw client
data bytes (packed, android-key: signature; tpm: extraData; apple, safetynet: nonce;
fido-u2f: rpIdHash, credential id and key taken from authenticator data). -/
theorem binding_registration {W : World} {c : RegCred} {e : RegExpect} {r : VerifiedReg}
    (h : runM W (verifyReg c e) = .ok r) : RegFormatRules W c e r := registration h

/-- a signature value is valid for at most one message, whatever the key and scheme (no key-substitution:
idealisation, hypothesis) -/
def SigBinds (W : World) : Prop :=
  ∀ pk s pk' s' sig data data', W.sigVerify pk s sig data = .valid → W.sigVerify pk' s' sig data' = .valid → data = data'

theorem authData_of_raw {val : Bytes} {ao : AttObj} {ad : Bytes} (h : parseAttObj val = .ok ao)
    (hraw : ao.authDataRaw = .bytes ad) : parseAuthData ad = .ok ao.authData := by
  obtain ⟨kvs, adBytes, _, _, _, hb, hp, _⟩ := parseAttObj_ok h
  rw [hraw] at hb
  have : adBytes = ad := by
    simp [authDataBytesOf] at hb
    exact hb.symm
  rw [← this]; exact hp

/-- packed self-attestation: of two accepted registrations under the same expectations, (i) if the signature
member is the same, authenticator data and client data are the same; (ii) if authenticator data, client data and
the statement's alg are the same, the signature is the same. Hence changing one bit of exactly one of them
makes the response be rejected. Under the named idealisations. -/
theorem bitflip_reg_packed_self {W : World} {c c' : RegCred} {e : RegExpect} {r r' : VerifiedReg} {ao ao' : AttObj}
    (h : runM W (verifyReg c e) = .ok r) (h' : runM W (verifyReg c' e) = .ok r')
    (hf : r.fmt = "packed") (hf' : r'.fmt = "packed")
    (hao : parseAttObj c.attestationObject = .ok ao) (hao' : parseAttObj c'.attestationObject = .ok ao')
    (hs : cborTruthy ao.attStmt.x5c = false) (hs' : cborTruthy ao'.attStmt.x5c = false)
    (hbind : SigBinds W) (huniq : ∀ pk s, UniqueSig W pk s) (hlen : HashLen32 W)
    (hcol : NoCollision W c.clientDataJSON c'.clientDataJSON) :
    (ao'.attStmt.sig = ao.attStmt.sig → ao'.authDataRaw = ao.authDataRaw ∧ c'.clientDataJSON = c.clientDataJSON) ∧
    (ao'.authDataRaw = ao.authDataRaw → c'.clientDataJSON = c.clientDataJSON → ao'.attStmt.alg = ao.attStmt.alg →
      ao'.attStmt.sig = ao.attStmt.sig) := by
  obtain ⟨ao1, att, roots, hao1, hatt, _, hk, _, _, hp, _⟩ := (registration h).rules
  obtain ⟨ao2, att', roots', hao2, hatt', _, hk', _, _, hp', _⟩ := (registration h').rules
  rw [hao] at hao1; cases hao1
  rw [hao'] at hao2; cases hao2
  obtain ⟨ad, key, pk, alg, hraw, halg, _, hkey, _, hpk, _, s, b, hplan, hsig, hv⟩ := ((hp hf).2 hs).rules
  obtain ⟨ad', key', pk', alg', hraw', halg', _, hkey', _, hpk', _, s', b', hplan', hsig', hv'⟩ := ((hp' hf').2 hs').rules
  constructor
  · intro hsame
    rw [hsig, hsig'] at hsame
    have hb : b' = b := by cases hsame; rfl
    subst hb
    have hdata := hbind _ _ _ _ _ _ _ hv hv'
    obtain ⟨had, hhash⟩ := append_inj_right_len hdata (by rw [hlen, hlen])
    exact ⟨by rw [hraw, hraw', had], (hcol hhash).symm⟩
  · intro hadEq hcdj halgEq
    rw [hraw, hraw'] at hadEq
    have had : ad' = ad := by cases hadEq; rfl
    subst had
    -- same authenticator data, so the same attested key
    have e1 := authData_of_raw hao hraw
    have e2 := authData_of_raw hao' hraw'
    rw [e1] at e2
    have hadEq2 : ao.authData = ao'.authData := Except.ok.inj e2
    have hattEq : att = att' := by
      rw [hadEq2, hatt'] at hatt; exact (Option.some.inj hatt).symm
    subst hattEq
    rw [hk] at hkey; rw [hk'] at hkey'
    rw [hkey] at hkey'; cases hkey'
    rw [hpk] at hpk'; cases hpk'
    rw [halg, halg'] at halgEq
    have : alg' = alg := by cases halgEq; rfl
    subst this
    rw [hplan] at hplan'; cases hplan'
    rw [hcdj] at hv'
    obtain ⟨hbb, _⟩ := huniq pk s _ _ _ _ hv hv'
    rw [hsig, hsig', hbb]

/-- two checked signatures with the same signature member are over the same authenticator data and client data -/
theorem sig_same_data_same {W : World} {sig sig' : Option Cbor} {ad ad' cdj cdj' : Bytes} {k k' : PubKey} {alg alg' : Cbor}
    (h : SigChecked W k alg sig (ad ++ W.sha256 cdj)) (h' : SigChecked W k' alg' sig' (ad' ++ W.sha256 cdj'))
    (hs : sig' = sig) (hbind : SigBinds W) (hlen : HashLen32 W) (hcol : NoCollision W cdj cdj') :
    ad' = ad ∧ cdj' = cdj := by
  obtain ⟨s, b, _, hsig, hv⟩ := h
  obtain ⟨s', b', _, hsig', hv'⟩ := h'
  rw [hsig, hsig'] at hs
  have hb : b' = b := by cases hs; rfl
  subst hb
  have hdata := hbind _ _ _ _ _ _ _ hv hv'
  obtain ⟨had, hhash⟩ := append_inj_right_len hdata (by rw [hlen, hlen])
  exact ⟨had.symm, (hcol hhash).symm⟩

/-- the formats whose statement signature is directly over authenticatorData ‖ SHA-256(clientDataJSON):
packed (with or without x5c) and android-key. Of two accepted registrations of such a format carrying the same
signature member, authenticator data and client data are the same — so any change to either, the signature kept,
is rejected (under the named idealisations). -/
theorem bitflip_reg_direct_signature {W : World} {c c' : RegCred} {e : RegExpect} {r r' : VerifiedReg} {ao ao' : AttObj}
    (h : runM W (verifyReg c e) = .ok r) (h' : runM W (verifyReg c' e) = .ok r')
    (hf : r.fmt = "packed" ∨ r.fmt = "android-key") (hf' : r'.fmt = r.fmt)
    (hao : parseAttObj c.attestationObject = .ok ao) (hao' : parseAttObj c'.attestationObject = .ok ao')
    (hsig : ao'.attStmt.sig = ao.attStmt.sig)
    (hbind : SigBinds W) (hlen : HashLen32 W) (hcol : NoCollision W c.clientDataJSON c'.clientDataJSON) :
    ao'.authDataRaw = ao.authDataRaw ∧ c'.clientDataJSON = c.clientDataJSON := by
  obtain ⟨ao1, att, roots, hao1, _, _, _, _, _, hp, _, _, _, hk, _⟩ := (registration h).rules
  obtain ⟨ao2, att', roots', hao2, _, _, _, _, _, hp', _, _, _, hk', _⟩ := (registration h').rules
  rw [hao] at hao1; cases hao1
  rw [hao'] at hao2; cases hao2
  -- in each case extract "authDataRaw = bytes ad" and a SigChecked over ad ++ H(cdj)
  have key : ∀ {W : World} {c : RegCred} {e : RegExpect} {r : VerifiedReg} {ao : AttObj} {roots : List Root},
      (r.fmt = "packed" →
        (cborTruthy ao.attStmt.x5c = true → PackedX5cRules W ao.attStmt ao.authDataRaw c.clientDataJSON roots) ∧
        (cborTruthy ao.attStmt.x5c = false →
          PackedSelfRules W ao.attStmt ao.authDataRaw c.clientDataJSON r.credentialPublicKey)) →
      (r.fmt = "android-key" →
        AndroidKeyRules W ao.attStmt ao.authDataRaw c.clientDataJSON r.credentialPublicKey roots) →
      (r.fmt = "packed" ∨ r.fmt = "android-key") →
      ∃ ad k alg, ao.authDataRaw = .bytes ad ∧ SigChecked W k alg ao.attStmt.sig (ad ++ W.sha256 c.clientDataJSON) := by
    intro W c e r ao roots hp hk hf
    rcases hf with hf | hf
    · cases hx : cborTruthy ao.attStmt.x5c with
      | true =>
        obtain ⟨ad, x5c, leaf, rest, cert, alg, hraw, _, _, _, _, _, _, hs⟩ := ((hp hf).1 hx).rules
        exact ⟨ad, _, _, hraw, hs⟩
      | false =>
        obtain ⟨ad, key, pk, alg, hraw, _, _, _, _, _, _, hs⟩ := ((hp hf).2 hx).rules
        exact ⟨ad, _, _, hraw, hs⟩
    · obtain ⟨ad, x5c, rootDer, rootCert, leaf, rest, cert, alg, key, pk, kdDer, kd, hraw, _, _, _, _, _, _, _, _, hs, _⟩ :=
        (hk hf).rules
      exact ⟨ad, _, _, hraw, hs⟩
  obtain ⟨ad, k, alg, hraw, hs⟩ := key (e := e) hp hk hf
  obtain ⟨ad', k', alg', hraw', hs'⟩ := key (e := e) hp' hk' (by rw [hf']; exact hf)
  obtain ⟨had, hcdj⟩ := sig_same_data_same hs hs' hsig hbind hlen hcol
  exact ⟨by rw [hraw, hraw', had], hcdj⟩

/-- collision-freeness of one of the library's hashes on a given pair of messages (hypothesis) -/
def NoCollisionH (W : World) (h : HashAlg) (m m' : Bytes) : Prop := W.hash h m = W.hash h m' → m = m'

/-- tpm: the statement (certInfo, alg) pins authenticator data and client data through extraData: of two accepted
tpm registrations with the same certInfo and alg members, authenticator data and client data are the same —
changing either, the statement kept, is rejected. (Changing certInfo itself with the signature kept falls under
`SigBinds`, see `sig_same_data_same`.) -/
theorem bitflip_reg_tpm {W : World} {c c' : RegCred} {e : RegExpect} {r r' : VerifiedReg} {ao ao' : AttObj}
    (h : runM W (verifyReg c e) = .ok r) (h' : runM W (verifyReg c' e) = .ok r')
    (hf : r.fmt = "tpm") (hf' : r'.fmt = "tpm")
    (hao : parseAttObj c.attestationObject = .ok ao) (hao' : parseAttObj c'.attestationObject = .ok ao')
    (hci : ao'.attStmt.certInfo = ao.attStmt.certInfo) (halg : ao'.attStmt.alg = ao.attStmt.alg)
    (hlen : ∀ b, (W.hash .sha256 b).length = 32)
    (hcol0 : NoCollisionH W .sha256 c.clientDataJSON c'.clientDataJSON)
    (hcol : ∀ hh m m', NoCollisionH W hh m m') :
    ao'.authDataRaw = ao.authDataRaw ∧ c'.clientDataJSON = c.clientDataJSON := by
  obtain ⟨ao1, att, roots, hao1, _, _, _, _, _, _, _, ht, _⟩ := (registration h).rules
  obtain ⟨ao2, att', roots', hao2, _, _, _, _, _, _, _, ht', _⟩ := (registration h').rules
  rw [hao] at hao1; cases hao1
  rw [hao'] at hao2; cases hao2
  obtain ⟨ad, _, _, _, _, alg, _, certInfo, _, ci, _, h0, hh, _, _, hraw, halg1, _, _, _, _, _, _, _, _, hci1, hpci, _, _,
    hh0, hhh, hextra, _⟩ := (ht hf).rules
  obtain ⟨ad', _, _, _, _, alg', _, certInfo', _, ci', _, h0', hh', _, _, hraw', halg1', _, _, _, _, _, _, _, _, hci1', hpci', _, _,
    hh0', hhh', hextra', _⟩ := (ht' hf').rules
  rw [halg1, halg1'] at halg
  have : alg' = alg := by cases halg; rfl
  subst this
  rw [hci1, hci1'] at hci
  have : certInfo' = certInfo := by cases hci; rfl
  subst this
  rw [hpci] at hpci'; cases hpci'
  rw [hh0] at hh0'; cases hh0'
  rw [hhh] at hhh'; cases hhh'
  rw [hextra] at hextra'
  have hdata := hcol _ _ _ hextra'
  have h0eq : h0 = .sha256 := by
    have : hashAlgByCose none = .ok .sha256 := by rfl
    rw [this] at hh0
    exact (Except.ok.inj hh0).symm
  subst h0eq
  obtain ⟨had, hhash⟩ := append_inj_right_len hdata (by rw [hlen, hlen])
  exact ⟨by rw [hraw, hraw', had], (hcol0 hhash).symm⟩

/-- apple: the certificate's nonce extension pins authenticator data and client data: of two accepted apple
registrations with the same x5c member, authenticator data and client data are the same. -/
theorem bitflip_reg_apple {W : World} {c c' : RegCred} {e : RegExpect} {r r' : VerifiedReg} {ao ao' : AttObj}
    (h : runM W (verifyReg c e) = .ok r) (h' : runM W (verifyReg c' e) = .ok r')
    (hf : r.fmt = "apple") (hf' : r'.fmt = "apple")
    (hao : parseAttObj c.attestationObject = .ok ao) (hao' : parseAttObj c'.attestationObject = .ok ao')
    (hx : ao'.attStmt.x5c = ao.attStmt.x5c)
    (hlen : HashLen32 W) (hcol0 : NoCollision W c.clientDataJSON c'.clientDataJSON)
    (hcol : ∀ m m', NoCollision W m m') :
    ao'.authDataRaw = ao.authDataRaw ∧ c'.clientDataJSON = c.clientDataJSON := by
  obtain ⟨ao1, att, roots, hao1, _, _, _, _, _, _, _, _, ha, _⟩ := (registration h).rules
  obtain ⟨ao2, att', roots', hao2, _, _, _, _, _, _, _, _, ha', _⟩ := (registration h').rules
  rw [hao] at hao1; cases hao1
  rw [hao'] at hao2; cases hao2
  obtain ⟨ad, x5c, leaf, rest, cert, ext, _, _, hraw, hx5c, hl, _, hcert, hn, hnonce, _⟩ := (ha hf).rules
  obtain ⟨ad', x5c', leaf', rest', cert', ext', _, _, hraw', hx5c', hl', _, hcert', hn', hnonce', _⟩ := (ha' hf').rules
  rw [hx, hx5c] at hx5c'
  have : x5c' = x5c := (Except.ok.inj hx5c').symm
  subst this
  rw [hl] at hl'
  have hleaf : leaf' = leaf := (List.cons.inj hl').1.symm
  subst hleaf
  rw [hcert] at hcert'; cases hcert'
  rw [hn] at hn'; cases hn'
  rw [hnonce] at hnonce'
  have hdata := hcol _ _ hnonce'
  obtain ⟨had, hhash⟩ := append_inj_right_len hdata (by rw [hlen, hlen])
  exact ⟨by rw [hraw, hraw', had], (hcol0 hhash).symm⟩

theorem rpIdHash_len {val : Bytes} {ao : AttObj} (h : parseAttObj val = .ok ao) : ao.authData.rpIdHash.length = 32 := by
  obtain ⟨kvs, adBytes, _, _, _, _, hp, _⟩ := parseAttObj_ok h
  obtain ⟨h37, hrp, _⟩ := C11.header hp
  rw [hrp, List.length_take]; omega

/-- fido-u2f: the signature covers the RP ID hash and the client-data hash (and credential id ‖ key, jointly): of two
accepted fido-u2f registrations with the same signature member, client data and RP ID hash are the same. (The rest
of authenticator data — flags, counter — is not covered by a U2F signature: known finding F7.) -/
theorem bitflip_reg_u2f {W : World} {c c' : RegCred} {e : RegExpect} {r r' : VerifiedReg} {ao ao' : AttObj}
    (h : runM W (verifyReg c e) = .ok r) (h' : runM W (verifyReg c' e) = .ok r')
    (hf : r.fmt = "fido-u2f") (hf' : r'.fmt = "fido-u2f")
    (hao : parseAttObj c.attestationObject = .ok ao) (hao' : parseAttObj c'.attestationObject = .ok ao')
    (hsig : ao'.attStmt.sig = ao.attStmt.sig)
    (hbind : SigBinds W) (hlen : HashLen32 W) (hcol : NoCollision W c.clientDataJSON c'.clientDataJSON) :
    c'.clientDataJSON = c.clientDataJSON ∧ ao'.authData.rpIdHash = ao.authData.rpIdHash := by
  obtain ⟨ao1, att, roots, hao1, _, _, _, _, _, _, hu, _⟩ := (registration h).rules
  obtain ⟨ao2, att', roots', hao2, _, _, _, _, _, _, hu', _⟩ := (registration h').rules
  rw [hao] at hao1; cases hao1
  rw [hao'] at hao2; cases hao2
  obtain ⟨leaf, cert, key, xb, yb, _, _, _, _, _, _, _, s, b, _, hs, hv⟩ := (hu hf).rules
  obtain ⟨leaf', cert', key', xb', yb', _, _, _, _, _, _, _, s', b', _, hs', hv'⟩ := (hu' hf').rules
  rw [hs, hs'] at hsig
  have hb : b' = b := by cases hsig; rfl
  subst hb
  have hdata := hbind _ _ _ _ _ _ _ hv hv'
  have l1 := rpIdHash_len hao
  have l2 := rpIdHash_len hao'
  simp only [List.append_assoc] at hdata
  have h1 := List.append_inj hdata rfl
  have h2 := List.append_inj h1.2 (by rw [l1, l2])
  have h3 := List.append_inj h2.2 (by rw [hlen, hlen])
  exact ⟨(hcol h3.1).symm, h2.1.symm⟩

def trStd (c : Char) : Char := if c == '-' then '+' else if c == '_' then '/' else c

theorem trStd_inj {c c' : Char} (hc : isUrlSafeChar c = true) (hc' : isUrlSafeChar c' = true) (h : trStd c = trStd c') : c = c' := by
  unfold trStd at h
  by_cases h1 : c = '-'
  · subst h1
    by_cases h2 : c' = '-'
    · exact h2.symm
    · by_cases h3 : c' = '_'
      · subst h3; simp at h
      · simp [h2, h3] at h; subst h; simp [isUrlSafeChar] at hc'
  · by_cases h1' : c = '_'
    · subst h1'
      by_cases h2 : c' = '-'
      · subst h2; simp at h
      · by_cases h3 : c' = '_'
        · exact h3.symm
        · simp [h2, h3] at h; subst h; simp [isUrlSafeChar] at hc'
    · by_cases h2 : c' = '-'
      · subst h2; simp [h1, h1'] at h; subst h; simp [isUrlSafeChar] at hc
      · by_cases h3 : c' = '_'
        · subst h3; simp [h1, h1'] at h; subst h; simp [isUrlSafeChar] at hc
        · simpa [h1, h1', h2, h3] using h

theorem trStd_ne_pad {c : Char} (hc : isUrlSafeChar c = true) : trStd c ≠ '=' := by
  unfold trStd
  intro h
  by_cases h1 : c = '-'
  · subst h1; simp at h
  · by_cases h2 : c = '_'
    · subst h2; simp at h
    · simp [h1, h2] at h; subst h; simp [isUrlSafeChar] at hc

theorem map_trStd_inj : ∀ {l l' : List Char}, (∀ c ∈ l, isUrlSafeChar c = true) → (∀ c ∈ l', isUrlSafeChar c = true) →
    l.map trStd = l'.map trStd → l = l'
  | [], [], _, _, _ => rfl
  | [], _ :: _, _, _, h => by simp at h
  | _ :: _, [], _, _, h => by simp at h
  | a :: l, a' :: l', hl, hl', h => by
    simp only [List.map_cons, List.cons.injEq] at h
    have := trStd_inj (hl a List.mem_cons_self) (hl' a' List.mem_cons_self) h.1
    subst this
    rw [map_trStd_inj (fun c hc => hl c (List.mem_cons_of_mem _ hc)) (fun c hc => hl' c (List.mem_cons_of_mem _ hc)) h.2]

theorem strip_pad : ∀ {e e' : List Char} {k k' : Nat}, '=' ∉ e → '=' ∉ e' →
    e ++ List.replicate k '=' = e' ++ List.replicate k' '=' → e = e'
  | [], [], _, _, _, _, _ => rfl
  | [], a :: e', k, k', _, h', h => by
    cases k with
    | zero => simp at h
    | succ k =>
      simp only [List.nil_append, List.replicate_succ, List.cons_append, List.cons.injEq] at h
      exact absurd (h.1 ▸ List.mem_cons_self) h'
  | a :: e, [], k, k', h0, _, h => by
    cases k' with
    | zero => simp at h
    | succ k' =>
      simp only [List.nil_append, List.replicate_succ, List.cons_append, List.cons.injEq] at h
      exact absurd (h.1 ▸ List.mem_cons_self) h0
  | a :: e, a' :: e', k, k', h0, h0', h => by
    simp only [List.cons_append, List.cons.injEq] at h
    obtain ⟨ha, ht⟩ := h
    subst ha
    rw [strip_pad (fun hm => h0 (List.mem_cons_of_mem _ hm)) (fun hm => h0' (List.mem_cons_of_mem _ hm)) ht]

theorem b64Std_injective {b b' : Bytes} (h : b64Std b = b64Std b') : b = b' := by
  unfold b64Std at h
  have hu := C14.alphabet b
  have hu' := C14.alphabet b'
  have hm : ∀ (x : Bytes), (Base64.encode x).map (fun c => if c == '-' then '+' else if c == '_' then '/' else c)
      = (Base64.encode x).map trStd := fun x => rfl
  simp only [hm] at h
  have np : ∀ x : Bytes, '=' ∉ (Base64.encode x).map trStd := by
    intro x hx
    obtain ⟨c, hc, hce⟩ := List.mem_map.mp hx
    exact trStd_ne_pad (C14.alphabet x c hc) hce
  have := strip_pad (np b) (np b') h
  exact C14.injective b b' (map_trStd_inj hu hu' this)

/-- android-safetynet: the JWS payload's nonce pins authenticator data and client data: of two accepted safetynet
registrations carrying the same `response` member, authenticator data and client data are the same. -/
theorem bitflip_reg_safetynet {W : World} {c c' : RegCred} {e : RegExpect} {r r' : VerifiedReg} {ao ao' : AttObj}
    (h : runM W (verifyReg c e) = .ok r) (h' : runM W (verifyReg c' e) = .ok r')
    (hf : r.fmt = "android-safetynet") (hf' : r'.fmt = "android-safetynet")
    (hao : parseAttObj c.attestationObject = .ok ao) (hao' : parseAttObj c'.attestationObject = .ok ao')
    (hresp : ao'.attStmt.response = ao.attStmt.response)
    (hlen : HashLen32 W) (hcol0 : NoCollision W c.clientDataJSON c'.clientDataJSON)
    (hcol : ∀ m m', NoCollision W m m') :
    ao'.authDataRaw = ao.authDataRaw ∧ c'.clientDataJSON = c.clientDataJSON := by
  obtain ⟨ao1, att, roots, hao1, _, _, _, _, _, _, _, _, _, _, hsn⟩ := (registration h).rules
  obtain ⟨ao2, att', roots', hao2, _, _, _, _, _, _, _, _, _, _, hsn'⟩ := (registration h').rules
  rw [hao] at hao1; cases hao1
  rw [hao'] at hao2; cases hao2
  obtain ⟨ad, resp, jws, parts, hb, header, pb, payload, _, _, _, _, _, hraw, hr, hj, hp, _, _, hpb, hpl, ⟨n, hn, hnl⟩, _⟩ :=
    (hsn hf).rules
  obtain ⟨ad', resp', jws', parts', hb', header', pb', payload', _, _, _, _, _, hraw', hr', hj', hp', _, _, hpb', hpl',
    ⟨n', hn', hnl'⟩, _⟩ := (hsn' hf').rules
  rw [hresp, hr] at hr'
  have : resp' = resp := by cases hr'; rfl
  subst this
  rw [hj] at hj'; cases hj'
  rw [hp] at hp'; cases hp'
  rw [hpb] at hpb'; cases hpb'
  rw [hpl] at hpl'
  have : payload' = payload := by cases hpl'; rfl
  subst this
  rw [hn] at hn'
  have : n' = n := by cases hn'; rfl
  subst this
  rw [hnl] at hnl'
  have hH := b64Std_injective hnl'
  have hdata := hcol _ _ hH
  obtain ⟨had, hhash⟩ := append_inj_right_len hdata (by rw [hlen, hlen])
  exact ⟨by rw [hraw, hraw', had], (hcol0 hhash).symm⟩

end Webauthn.Props.C06
