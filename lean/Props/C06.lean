/-
  C06 — Integrity of signed material (partial: the cryptographic residue is stated as hypotheses).
-/
import Props.C03
import Proofs.Attestation
namespace Webauthn.Props.C06
open Webauthn Generated Webauthn.Props.C03

/-- Authentication: the one signature query of an accepting run is over exactly
authenticatorData ‖ SHA-256(clientDataJSON) — raw bytes of both — and it answered `valid`. -/
theorem binding_auth {W : World} {c : AuthCred} {e : AuthExpect} {r : VerifiedAuth}
    (h : runM W (verifyAuth c e) = .ok r) :
    ∃ key pk s, decodeCose e.publicKey = .ok key ∧ coseToPubKey key = .ok pk ∧ sigPlan pk key.alg = .verify s ∧
      W.sigVerify pk s c.signature (c.authenticatorData ++ W.sha256 c.clientDataJSON) = .valid := by
  obtain ⟨a⟩ := verifyAuth_ok_iff.mp h
  exact ⟨a.key, a.pk, a.scheme, a.keyOk, a.pkOk, a.planOk, a.sigOk⟩

/-- cryptographic idealisations (hypotheses, never axioms) -/
def UniqueSig (W : World) (pk : PubKey) (s : Scheme) : Prop :=
  ∀ sig data sig' data', W.sigVerify pk s sig data = .valid → W.sigVerify pk s sig' data' = .valid →
    sig = sig' ∧ data = data'

def HashLen32 (W : World) : Prop := ∀ b, (W.sha256 b).length = 32

def NoCollision (W : World) (m m' : Bytes) : Prop := W.sha256 m = W.sha256 m' → m = m'

theorem append_inj_right_len {a b c d : Bytes} (h : a ++ b = c ++ d) (hl : b.length = d.length) : a = c ∧ b = d := by
  have : a.length = c.length := by
    have := congrArg List.length h
    simp at this; omega
  exact List.append_inj h this

/-- Any change to authenticator data, client data JSON or signature of an accepted assertion —
a single bit or more — makes it be rejected, under the three idealisations. -/
theorem bitflip_auth {W : World} {c c' : AuthCred} {e : AuthExpect} {r : VerifiedAuth}
    (h : runM W (verifyAuth c e) = .ok r)
    (huniq : ∀ pk s, UniqueSig W pk s) (hlen : HashLen32 W)
    (hcol : NoCollision W c.clientDataJSON c'.clientDataJSON)
    (hdiff : c'.authenticatorData ≠ c.authenticatorData ∨ c'.clientDataJSON ≠ c.clientDataJSON ∨
             c'.signature ≠ c.signature) :
    ∀ r', runM W (verifyAuth c' e) ≠ .ok r' := by
  intro r' h'
  obtain ⟨key, pk, s, hk, hpk, hplan, hv⟩ := binding_auth h
  obtain ⟨key', pk', s', hk', hpk', hplan', hv'⟩ := binding_auth h'
  rw [hk] at hk'; cases hk'
  rw [hpk] at hpk'; cases hpk'
  rw [hplan] at hplan'; cases hplan'
  obtain ⟨hsig, hdata⟩ := huniq pk s _ _ _ _ hv hv'
  obtain ⟨had, hhash⟩ := append_inj_right_len hdata (by rw [hlen, hlen])
  have hcdj := hcol hhash
  rcases hdiff with hd | hd | hd
  · exact hd had.symm
  · exact hd hcdj.symm
  · exact hd hsig.symm

/-- Registration: every signed format's signature / nonce / extraData / challenge is computed
over the raw authenticator data bytes of the attestation object and the hash of the raw client
data bytes (packed, android-key: signature; tpm: extraData; apple, safetynet: nonce;
fido-u2f: rpIdHash, credential id and key taken from authenticator data). -/
theorem binding_registration {W : World} {c : RegCred} {e : RegExpect} {r : VerifiedReg}
    (h : runM W (verifyReg c e) = .ok r) : RegFormatRules W c e r := registration h

/-- a signature value is valid for at most one message, whatever the key and scheme (no key-substitution:
idealisation, hypothesis) -/
def SigBinds (W : World) : Prop :=
  ∀ pk s pk' s' sig data data', W.sigVerify pk s sig data = .valid → W.sigVerify pk' s' sig data' = .valid → data = data'

theorem authData_of_raw {val : Bytes} {ao : AttObj} {ad : Bytes} (h : parseAttObj val = .ok ao)
    (hraw : ao.authDataRaw = .bytes ad) : parseAuthData ad = .ok ao.authData := by
  obtain ⟨kvs, adBytes, _, _, _, hb, hp, _⟩ := parseAttObj_ok h
  rw [hraw] at hb
  have : adBytes = ad := by
    simp [authDataBytesOf] at hb
    exact hb.symm
  rw [← this]; exact hp

/-- packed self-attestation: of two accepted registrations under the same expectations, (i) if the signature
member is the same, authenticator data and client data are the same; (ii) if authenticator data, client data and
the statement's alg are the same, the signature is the same. Hence changing one bit of exactly one of them
makes the response be rejected. Under the named idealisations. -/
theorem bitflip_reg_packed_self {W : World} {c c' : RegCred} {e : RegExpect} {r r' : VerifiedReg} {ao ao' : AttObj}
    (h : runM W (verifyReg c e) = .ok r) (h' : runM W (verifyReg c' e) = .ok r')
    (hf : r.fmt = "packed") (hf' : r'.fmt = "packed")
    (hao : parseAttObj c.attestationObject = .ok ao) (hao' : parseAttObj c'.attestationObject = .ok ao')
    (hs : cborTruthy ao.attStmt.x5c = false) (hs' : cborTruthy ao'.attStmt.x5c = false)
    (hbind : SigBinds W) (huniq : ∀ pk s, UniqueSig W pk s) (hlen : HashLen32 W)
    (hcol : NoCollision W c.clientDataJSON c'.clientDataJSON) :
    (ao'.attStmt.sig = ao.attStmt.sig → ao'.authDataRaw = ao.authDataRaw ∧ c'.clientDataJSON = c.clientDataJSON) ∧
    (ao'.authDataRaw = ao.authDataRaw → c'.clientDataJSON = c.clientDataJSON → ao'.attStmt.alg = ao.attStmt.alg →
      ao'.attStmt.sig = ao.attStmt.sig) := by
  obtain ⟨ao1, att, roots, hao1, hatt, _, hk, _, _, hp, _⟩ := (registration h).rules
  obtain ⟨ao2, att', roots', hao2, hatt', _, hk', _, _, hp', _⟩ := (registration h').rules
  rw [hao] at hao1; cases hao1
  rw [hao'] at hao2; cases hao2
  obtain ⟨ad, key, pk, alg, hraw, halg, _, hkey, _, hpk, _, s, b, hplan, hsig, hv⟩ := ((hp hf).2 hs).rules
  obtain ⟨ad', key', pk', alg', hraw', halg', _, hkey', _, hpk', _, s', b', hplan', hsig', hv'⟩ := ((hp' hf').2 hs').rules
  constructor
  · intro hsame
    rw [hsig, hsig'] at hsame
    have hb : b' = b := by cases hsame; rfl
    subst hb
    have hdata := hbind _ _ _ _ _ _ _ hv hv'
    obtain ⟨had, hhash⟩ := append_inj_right_len hdata (by rw [hlen, hlen])
    exact ⟨by rw [hraw, hraw', had], (hcol hhash).symm⟩
  · intro hadEq hcdj halgEq
    rw [hraw, hraw'] at hadEq
    have had : ad' = ad := by cases hadEq; rfl
    subst had
    -- same authenticator data, so the same attested key
    have e1 := authData_of_raw hao hraw
    have e2 := authData_of_raw hao' hraw'
    rw [e1] at e2
    have hadEq2 : ao.authData = ao'.authData := Except.ok.inj e2
    have hattEq : att = att' := by
      rw [hadEq2, hatt'] at hatt; exact (Option.some.inj hatt).symm
    subst hattEq
    rw [hk] at hkey; rw [hk'] at hkey'
    rw [hkey] at hkey'; cases hkey'
    rw [hpk] at hpk'; cases hpk'
    rw [halg, halg'] at halgEq
    have : alg' = alg := by cases halgEq; rfl
    subst this
    rw [hplan] at hplan'; cases hplan'
    rw [hcdj] at hv'
    obtain ⟨hbb, _⟩ := huniq pk s _ _ _ _ hv hv'
    rw [hsig, hsig', hbb]

end Webauthn.Props.C06
