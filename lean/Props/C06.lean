/-
  C06 — Integrity of signed material (partial: the cryptographic residue is stated as hypotheses).
-/
import Props.C03
namespace Webauthn.Props.C06
open Webauthn Generated Webauthn.Props.C03

/-- Authentication: the one signature query of an accepting run is over exactly
authenticatorData ‖ SHA-256(clientDataJSON) — raw bytes of both — and it answered `valid`. -/
theorem binding_auth {W : World} {c : AuthCred} {e : AuthExpect} {r : VerifiedAuth}
    (h : runM W (verifyAuth c e) = .ok r) :
    ∃ key pk s, decodeCose e.publicKey = .ok key ∧ coseToPubKey key = .ok pk ∧ sigPlan pk key.alg = .verify s ∧
      W.sigVerify pk s c.signature (c.authenticatorData ++ W.sha256 c.clientDataJSON) = .valid := by
  obtain ⟨a⟩ := verifyAuth_ok_iff.mp h
  exact ⟨a.key, a.pk, a.scheme, a.keyOk, a.pkOk, a.planOk, a.sigOk⟩

/-- cryptographic idealisations (hypotheses, never axioms) -/
def UniqueSig (W : World) (pk : PubKey) (s : Scheme) : Prop :=
  ∀ sig data sig' data', W.sigVerify pk s sig data = .valid → W.sigVerify pk s sig' data' = .valid →
    sig = sig' ∧ data = data'

def HashLen32 (W : World) : Prop := ∀ b, (W.sha256 b).length = 32

def NoCollision (W : World) (m m' : Bytes) : Prop := W.sha256 m = W.sha256 m' → m = m'

theorem append_inj_right_len {a b c d : Bytes} (h : a ++ b = c ++ d) (hl : b.length = d.length) : a = c ∧ b = d := by
  have : a.length = c.length := by
    have := congrArg List.length h
    simp at this; omega
  exact List.append_inj h this

/-- Any change to authenticator data, client data JSON or signature of an accepted assertion —
a single bit or more — makes it be rejected, under the three idealisations. -/
theorem bitflip_auth {W : World} {c c' : AuthCred} {e : AuthExpect} {r : VerifiedAuth}
    (h : runM W (verifyAuth c e) = .ok r)
    (huniq : ∀ pk s, UniqueSig W pk s) (hlen : HashLen32 W)
    (hcol : NoCollision W c.clientDataJSON c'.clientDataJSON)
    (hdiff : c'.authenticatorData ≠ c.authenticatorData ∨ c'.clientDataJSON ≠ c.clientDataJSON ∨
             c'.signature ≠ c.signature) :
    ∀ r', runM W (verifyAuth c' e) ≠ .ok r' := by
  intro r' h'
  obtain ⟨key, pk, s, hk, hpk, hplan, hv⟩ := binding_auth h
  obtain ⟨key', pk', s', hk', hpk', hplan', hv'⟩ := binding_auth h'
  rw [hk] at hk'; cases hk'
  rw [hpk] at hpk'; cases hpk'
  rw [hplan] at hplan'; cases hplan'
  obtain ⟨hsig, hdata⟩ := huniq pk s _ _ _ _ hv hv'
  obtain ⟨had, hhash⟩ := append_inj_right_len hdata (by rw [hlen, hlen])
  have hcdj := hcol hhash
  rcases hdiff with hd | hd | hd
  · exact hd had.symm
  · exact hd hcdj.symm
  · exact hd hsig.symm

/-- Registration: every signed format's signature / nonce / extraData / challenge is computed
over the raw authenticator data bytes of the attestation object and the hash of the raw client
data bytes (packed, android-key: signature; tpm: extraData; apple, safetynet: nonce;
fido-u2f: rpIdHash, credential id and key taken from authenticator data). -/
theorem binding_registration {W : World} {c : RegCred} {e : RegExpect} {r : VerifiedReg}
    (h : runM W (verifyReg c e) = .ok r) : RegFormatRules W c e r := registration h

end Webauthn.Props.C06
