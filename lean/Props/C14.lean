/-
  C14 — base64url codec is a faithful, canonical round trip.
  Model: `Webauthn.Base64.encode` (= bytes_to_base64url), `Webauthn.Base64.decode`
  (= base64url_to_bytes on a str).  All statements are for every byte string, of any length.
-/
import Proofs.Base64
namespace Webauthn.Props.C14
open Webauthn Webauthn.Base64

/-- Encoding yields text made only of `A-Z a-z 0-9 - _`; in particular no `=` padding. -/
theorem alphabet (b : Bytes) : ∀ c ∈ encode b, isUrlSafeChar c = true := encode_urlsafe b

theorem no_padding (b : Bytes) : '=' ∉ encode b := by
  intro h; have := encode_urlsafe b _ h; revert this; decide

/-- Decoding the encoded text, with or without `=` padding (any amount `k`), yields `b`. -/
theorem roundtrip (b : Bytes) (k : Nat) :
    decode (encode b ++ List.replicate k '=') = .ok b := decode_encode b k

theorem roundtrip_unpadded (b : Bytes) : decode (encode b) = .ok b := by
  simpa using decode_encode b 0

/-- Distinct byte strings encode to distinct texts. -/
theorem injective (b b' : Bytes) (h : encode b = encode b') : b = b' := by
  have h1 := roundtrip_unpadded b
  rw [h, roundtrip_unpadded b'] at h1
  exact (Except.ok.inj h1).symm

/-- String-level statement used by the verifiers (`id == bytes_to_base64url(raw_id)`). -/
theorem roundtrip_str (b : Bytes) : decodeStr (encodeStr b) = .ok b := by
  unfold decodeStr encodeStr
  rw [String.toList_ofList]; exact roundtrip_unpadded b

/-! non-vacuity / sanity: concrete values (these are tests, not the claim) -/
example : encode [0xfb, 0xff] = ['-', '_', '8'] := by decide
example : decode ['-', '_', '8', '=', '='] = .ok [0xfb, 0xff] := by rfl
example : decode ['A'] = .error (nonlibErr "binascii.Error" "b64.bad-length") := by rfl

/-- The text is of the canonical length: ⌈4n/3⌉ characters for n bytes (no padding, nothing extra). -/
theorem length (b : Bytes) : (encode b).length = (4 * b.length + 2) / 3 := by
  fun_induction encode b with
  | case1 => rfl
  | case2 a => simp
  | case3 a b => simp
  | case4 a b c rest ih =>
    simp only [List.length_cons, ih]
    omega

end Webauthn.Props.C14
