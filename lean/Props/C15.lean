/-
  C15 — Generated options: fresh challenges from the OS source, caller values unchanged.
  `W.tokenBytes k n` is the k-th `secrets.token_bytes(n)` of the call (an oracle: that the OS source
  is unpredictable and non-repeating is not provable; *which* draws are made and where they go is).
-/
import Model.Options
import Proofs.Monad
namespace Webauthn.Props.C15
open Webauthn Generated

/-- a value must be drawn when the caller gave none (or an empty one) -/
def needsDraw (g : Option Bytes) : Bool :=
  match g with
  | some b => b.isEmpty
  | none => true

/-- what ends up in the options: the caller's value, or the k-th 64-byte draw -/
def givenOrDraw (W : World) (g : Option Bytes) (k : Nat) : Bytes :=
  if needsDraw g then W.tokenBytes k 64 else g.getD []

theorem bytesOrFresh_run (W : World) (g : Option Bytes) (k : Nat) :
    runM W (bytesOrFresh g k) = .ok (givenOrDraw W g k, if needsDraw g then k + 1 else k) := by
  unfold bytesOrFresh givenOrDraw needsDraw
  cases g with
  | none => simp only [↓reduceIte]; rw [runM_tokenBytesM_bind]; rfl
  | some b =>
    cases b with
    | nil => simp only [List.isEmpty_nil, ↓reduceIte]; rw [runM_tokenBytesM_bind]; rfl
    | cons x xs => simp

theorem bytesOrFresh_bind {α} (W : World) (g : Option Bytes) (k : Nat) (f : Bytes × Nat → M α) :
    runM W (bytesOrFresh g k >>= f) = runM W (f (givenOrDraw W g k, if needsDraw g then k + 1 else k)) := by
  rw [runM_bind, bytesOrFresh_run]; rfl

theorem bytesOrFresh_trace (W : World) (g : Option Bytes) (k : Nat) :
    traceM W (bytesOrFresh g k) = if needsDraw g then [.tokenBytes k 64] else [] := by
  unfold bytesOrFresh needsDraw
  cases g with
  | none => rfl
  | some b =>
    cases b with
    | nil => rfl
    | cons x xs => rfl

/-- the parameter list offered -/
def paramsOf (a : GenRegArgs) : List (String × Int) :=
  match a.supportedAlgs with
  | some l => if l.isEmpty then defaultSupportedPubKeyAlgs.map (fun alg => ("public-key", alg))
              else l.map (fun alg => ("public-key", alg))
  | none => defaultSupportedPubKeyAlgs.map (fun alg => ("public-key", alg))

/-- Normal form of registration-option generation: refused exactly for an empty RP id, RP name or
user name; otherwise every field of the result is the caller's value or a fresh draw. -/
theorem generateRegOptions_ok (W : World) (a : GenRegArgs) (o : RegOptions) :
    runM W (generateRegOptions a) = .ok o ↔
      a.rpId.isEmpty = false ∧ a.rpName.isEmpty = false ∧ a.userName.isEmpty = false ∧
      o = { rpId := some a.rpId, rpName := a.rpName, userId := givenOrDraw W a.userId 0, userName := a.userName,
            userDisplayName := strOr a.userDisplayName a.userName,
            challenge := givenOrDraw W a.challenge (if needsDraw a.userId then 1 else 0),
            params := paramsOf a, timeout := some a.timeout, excludeCredentials := some (a.excludeCredentials.getD []),
            authenticatorSelection := a.authenticatorSelection.map fixSelection, hints := a.hints,
            attestation := a.attestation } := by
  unfold generateRegOptions
  simp only [runM_reject_ok, bytesOrFresh_bind, Except.ok.injEq, runM_pure, Nat.zero_add]
  constructor
  · rintro ⟨h1, h2, h3, h4⟩; exact ⟨h1, h2, h3, h4.symm⟩
  · rintro ⟨h1, h2, h3, h4⟩; exact ⟨h1, h2, h3, h4.symm⟩

theorem generateAuthOptions_ok (W : World) (a : GenAuthArgs) (o : AuthOptions) :
    runM W (generateAuthOptions a) = .ok o ↔
      a.rpId.isEmpty = false ∧
      o = { challenge := givenOrDraw W a.challenge 0, timeout := some a.timeout, rpId := some a.rpId,
            allowCredentials := some (a.allowCredentials.getD []), userVerification := some a.userVerification } := by
  unfold generateAuthOptions
  simp only [runM_reject_ok, bytesOrFresh_bind, Except.ok.injEq, runM_pure]
  constructor
  · rintro ⟨h1, h2⟩; exact ⟨h1, h2.symm⟩
  · rintro ⟨h1, h2⟩; exact ⟨h1, h2.symm⟩

/-- Whenever the caller gives no challenge (user id), the result carries a new 64-byte draw from
the OS source: the user id is draw 0, the challenge the next draw. -/
theorem fresh_draw_reg {W : World} {a : GenRegArgs} {o : RegOptions} (h : runM W (generateRegOptions a) = .ok o) :
    (needsDraw a.userId = true → o.userId = W.tokenBytes 0 64) ∧
    (needsDraw a.challenge = true → o.challenge = W.tokenBytes (if needsDraw a.userId then 1 else 0) 64) := by
  obtain ⟨_, _, _, ho⟩ := (generateRegOptions_ok W a o).mp h
  subst ho
  constructor <;> intro hn <;> simp [givenOrDraw, hn]

theorem fresh_draw_auth {W : World} {a : GenAuthArgs} {o : AuthOptions} (h : runM W (generateAuthOptions a) = .ok o)
    (hn : needsDraw a.challenge = true) : o.challenge = W.tokenBytes 0 64 := by
  obtain ⟨_, ho⟩ := (generateAuthOptions_ok W a o).mp h
  subst ho; simp [givenOrDraw, hn]

/-- no draw happens for a value the caller supplied, and it is passed through -/
theorem no_draw_when_given {W : World} {a : GenAuthArgs} {o : AuthOptions} {c : Bytes}
    (h : runM W (generateAuthOptions a) = .ok o) (hc : a.challenge = some c) (hne : c.isEmpty = false) :
    o.challenge = c ∧ traceM W (bytesOrFresh a.challenge 0) = [] := by
  obtain ⟨_, ho⟩ := (generateAuthOptions_ok W a o).mp h
  subst ho
  constructor
  · simp [givenOrDraw, needsDraw, hc, hne]
  · rw [bytesOrFresh_trace]; simp [needsDraw, hc, hne]

/-- values never repeat across calls as long as the OS source's draws do not: two calls (under
their own worlds / draw streams) with distinct draws yield distinct challenges -/
theorem distinct {W W' : World} {a a' : GenAuthArgs} {o o' : AuthOptions}
    (h : runM W (generateAuthOptions a) = .ok o) (h' : runM W' (generateAuthOptions a') = .ok o')
    (hn : needsDraw a.challenge = true) (hn' : needsDraw a'.challenge = true)
    (hdraws : W.tokenBytes 0 64 ≠ W'.tokenBytes 0 64) : o.challenge ≠ o'.challenge := by
  rw [fresh_draw_auth h hn, fresh_draw_auth h' hn']; exact hdraws

/-- every value the caller gives appears unchanged; the algorithm list keeps its order -/
theorem passthrough_reg {W : World} {a : GenRegArgs} {o : RegOptions} (h : runM W (generateRegOptions a) = .ok o) :
    o.rpId = some a.rpId ∧ o.rpName = a.rpName ∧ o.userName = a.userName ∧ o.timeout = some a.timeout ∧
    o.attestation = a.attestation ∧ o.hints = a.hints ∧ o.excludeCredentials = some (a.excludeCredentials.getD []) ∧
    (∀ l, a.supportedAlgs = some l → l ≠ [] → o.params = l.map (fun alg => ("public-key", alg))) ∧
    (∀ u, a.userId = some u → u ≠ [] → o.userId = u) ∧ (∀ c, a.challenge = some c → c ≠ [] → o.challenge = c) ∧
    (∀ d, a.userDisplayName = some d → d ≠ "" → o.userDisplayName = d) := by
  obtain ⟨_, _, _, ho⟩ := (generateRegOptions_ok W a o).mp h
  subst ho
  refine ⟨rfl, rfl, rfl, rfl, rfl, rfl, rfl, ?_, ?_, ?_, ?_⟩
  · intro l hl hne
    simp only [paramsOf, hl]
    cases l with
    | nil => exact absurd rfl hne
    | cons x xs => simp
  · intro u hu hne
    cases u with
    | nil => exact absurd rfl hne
    | cons x xs => simp [givenOrDraw, needsDraw, hu]
  · intro c hc hne
    cases c with
    | nil => exact absurd rfl hne
    | cons x xs => simp [givenOrDraw, needsDraw, hc]
  · intro d hd hne
    simp only [strOr, hd]
    have : d.isEmpty = false := by
      cases hd' : d.isEmpty with
      | false => rfl
      | true => exact absurd (String.isEmpty_iff.mp hd') hne
    simp [this]

theorem passthrough_auth {W : World} {a : GenAuthArgs} {o : AuthOptions} (h : runM W (generateAuthOptions a) = .ok o) :
    o.rpId = some a.rpId ∧ o.timeout = some a.timeout ∧ o.userVerification = some a.userVerification ∧
    o.allowCredentials = some (a.allowCredentials.getD []) := by
  obtain ⟨_, ho⟩ := (generateAuthOptions_ok W a o).mp h
  subst ho
  exact ⟨rfl, rfl, rfl, rfl⟩

/-- residentKey = required implies requireResidentKey = true; other selections pass unchanged -/
theorem resident_key {W : World} {a : GenRegArgs} {o : RegOptions} {s : AuthSel}
    (h : runM W (generateRegOptions a) = .ok o) (hs : a.authenticatorSelection = some s) :
    (s.residentKey = some "required" → ∃ s', o.authenticatorSelection = some s' ∧ s'.requireResidentKey = some true ∧
        s'.residentKey = s.residentKey ∧ s'.attachment = s.attachment ∧ s'.userVerification = s.userVerification) ∧
    (s.residentKey ≠ some "required" → o.authenticatorSelection = some s) := by
  obtain ⟨_, _, _, ho⟩ := (generateRegOptions_ok W a o).mp h
  subst ho
  simp only [hs, Option.map_some]
  constructor
  · intro hr; exact ⟨_, rfl, by simp [fixSelection, hr]⟩
  · intro hr
    have : (s.residentKey == some "required") = false := by simpa using hr
    simp [fixSelection, this]

/-- empty RP id, RP name or user name are refused -/
theorem refuses_empty (W : World) (a : GenRegArgs) (h : a.rpId = "" ∨ a.rpName = "" ∨ a.userName = "") :
    ∀ o, runM W (generateRegOptions a) ≠ .ok o := by
  intro o ho
  obtain ⟨h1, h2, h3, _⟩ := (generateRegOptions_ok W a o).mp ho
  rcases h with h | h | h <;> simp [h] at h1 h2 h3

/-- The algorithms offered by default are exactly those registration verification accepts by
default (both regenerated from /repo). -/
theorem defaults : defaultPubKeyCredParams.map (·.2) = verifyRegDefaultAlgs ∧
    defaultSupportedPubKeyAlgs = verifyRegDefaultAlgs ∧
    ∀ p ∈ defaultPubKeyCredParams, p.1 = "public-key" := by
  decide

end Webauthn.Props.C15
