/-
  Non-vacuity: concrete worlds and ceremonies on which the verifiers accept, so the hypotheses
  `runM W (verifyAuth c e) = .ok r` / `runM W (verifyReg c e) = .ok r` of the property theorems
  are satisfiable; and the register → authenticate chain of C08 on the returned bytes.
  Everything here is evaluated by the kernel (`rfl`).
-/
import Props.C01
import Props.C02
import Props.C08
namespace Webauthn.Props.Examples
open Webauthn Generated

/-- an idealised world: every hash is 32 sevens, every key loads, every signature verifies, and the
JSON oracle returns client data of the given ceremony type -/
def world (cdType : String) : World := fun q => match q with
  | .hash _ _ => List.replicate 32 7
  | .jsonLoadsBytes _ => .ok (.obj [("type", .str cdType), ("challenge", .str "AQ"), ("origin", .str "https://e")])
  | .jsonLoadsStr _ => .decodeError
  | .keyLoad _ => true
  | .spki _ => []
  | .sigVerify _ _ _ _ => .valid
  | .x509Load _ => none
  | .chainVerify _ _ _ => .ok
  | .keyDescription _ => none
  | .nowSeconds => (0 : Int)
  | .tokenBytes _ _ => []
  | .builtinPem _ => []
  | .pemCanon _ => none

def okpKey : Cbor := .map [(.uint 1, .uint 1), (.uint 3, .nint 7), (.nint 0, .uint 6), (.nint 1, .bytes (List.replicate 32 1))]

def regAuthData : Bytes := encodeAuthData (List.replicate 32 7) 0x41 0 (some (List.replicate 16 0, [1], okpKey)) none

def regCred : RegCred := ⟨"AQ", [1], "public-key", [],
  Cbor.enc (.map [(.text (utf8 "fmt"), .text (utf8 "none")), (.text (utf8 "attStmt"), .map []),
                  (.text (utf8 "authData"), .bytes regAuthData)])⟩

def regExpect : RegExpect := ⟨[1], "e", .single "https://e", true, false, [-7, -8], []⟩

def authCred (counter : UInt8) : AuthCred :=
  ⟨"AQ", [1], "public-key", [], List.replicate 32 7 ++ [0x01] ++ [0, 0, 0, counter], [], none⟩

def authExpect (key : Bytes) (stored : Int) : AuthExpect := ⟨[1], "e", .single "https://e", key, stored, false⟩

def regResult : VerifiedReg :=
  ((runM (world "webauthn.create") (verifyReg regCred regExpect)).toOption).getD default

/-- C02 non-vacuity: a `none`-format registration is accepted -/
theorem reg_accepts :
    (runM (world "webauthn.create") (verifyReg regCred regExpect)).toOption.map
        (fun r => (r.credentialId, r.credentialPublicKey, r.fmt, r.signCount, r.aaguid)) =
      some ([1], Cbor.enc okpKey, "none", 0, "00000000-0000-0000-0000-000000000000") := by
  decide +kernel

/-- C01 non-vacuity: an assertion against that key is accepted and reports the new counter -/
theorem auth_accepts :
    (runM (world "webauthn.get") (verifyAuth (authCred 5) (authExpect (Cbor.enc okpKey) 4))).toOption =
      some ⟨[1], 5, "single_device", false, false⟩ := by
  decide +kernel

/-- and the deviations of C01/C07 are really rejected on the same ceremony: other challenge, other origin,
counter not advanced -/
theorem auth_rejects :
    (runM (world "webauthn.get") (verifyAuth (authCred 5) { authExpect (Cbor.enc okpKey) 4 with challenge := [2] })).toOption = none ∧
    (runM (world "webauthn.get") (verifyAuth (authCred 5) { authExpect (Cbor.enc okpKey) 4 with origin := .single "https://e.evil" })).toOption = none ∧
    (runM (world "webauthn.get") (verifyAuth (authCred 5) (authExpect (Cbor.enc okpKey) 5))).toOption = none := by
  decide +kernel

/-- C08 chain: feed exactly what registration returned into authentication, twice, counters advancing -/
theorem chain_example :
    (runM (world "webauthn.get") (verifyAuth (authCred 1)
        (authExpect regResult.credentialPublicKey regResult.signCount))).toOption =
      some ⟨[1], 1, "single_device", false, false⟩ ∧
    (runM (world "webauthn.get") (verifyAuth (authCred 2) (authExpect regResult.credentialPublicKey 1))).toOption =
      some ⟨[1], 2, "single_device", false, false⟩ := by
  decide +kernel

end Webauthn.Props.Examples
